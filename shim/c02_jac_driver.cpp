// C02 driver: the rendered Jacobian function, called the way its integrator calls it.
//   cvode (dense / sparse): CVODE zeroes the matrix, then calls Jac(); done twice on the same matrix object
//   odeint: rosenbrock4 keeps one pre-sized matrix and overwrites it in place after every call (J <- I/(gamma dt) - J), so the
//           second call receives a matrix full of other numbers
// stdin: T then NEQUATIONS abundances, then a second temperature T2.  stdout: line 1 = k[0..NREACTIONS-1] at T; lines 2,3 = the
// full NEQUATIONS x NEQUATIONS matrix (row-major) after the first and after the second call; line 4 = k[] at T2; line 5 = the matrix
// after a third call made at T2 (the integrator moves the temperature between calls: rates whose window is left must be gone).
#include <stdio.h>
#include <math.h>
#include <vector>
#include "naunet_data.h"
#include "naunet_macros.h"
#include "naunet_ode.h"
#ifndef C02_ODEINT
#include "sundials_shim.h"
#endif
int main() {
    double T; if (scanf("%lf", &T) != 1) return 2;
    double y[NEQUATIONS];
    for (int i = 0; i < NEQUATIONS; i++) if (scanf("%lf", &y[i]) != 1) return 2;
    NaunetData d = NaunetData();
    d.Tgas = T; d.nH = 1e4;
    double k[NREACTIONS]; for (int i = 0; i < NREACTIONS; i++) k[i] = NAN;
    EvalRates(k, y, &d);
    for (int i = 0; i < NREACTIONS; i++) printf("%.17g ", k[i]);
    printf("\n");
    double T2 = T; if (scanf("%lf", &T2) != 1) T2 = T;
#ifdef C02_ODEINT
    vector_type ab(NEQUATIONS), dfdt(NEQUATIONS);
    for (int i = 0; i < NEQUATIONS; i++) ab[i] = y[i];
    matrix_type J(NEQUATIONS, NEQUATIONS);
    Jac *jac = new Jac(&d);      // (the functor copies the user data when it is built, as Naunet::Solve builds one per call)
    for (int call = 0; call < 3; call++) {
        if (call >= 1) for (int i = 0; i < NEQUATIONS; i++) for (int j = 0; j < NEQUATIONS; j++) J(i, j) = 400.0 + i - 3.0 * j;
        if (call == 2) {
            d.Tgas = T2;
            for (int i = 0; i < NREACTIONS; i++) k[i] = NAN;
            EvalRates(k, y, &d);
            for (int i = 0; i < NREACTIONS; i++) printf("%.17g ", k[i]);
            printf("\n");
            delete jac;
            jac = new Jac(&d);
        }
        (*jac)(ab, J, 0.0, dfdt);
        for (int i = 0; i < NEQUATIONS; i++) for (int j = 0; j < NEQUATIONS; j++) printf("%.17g ", (double)J(i, j));
        printf("\n");
    }
#else
    SUNContext ctx; SUNContext_Create(NULL, &ctx);
    N_Vector u = N_VNew_Serial(NEQUATIONS, ctx), fu = N_VNew_Serial(NEQUATIONS, ctx);
    for (int i = 0; i < NEQUATIONS; i++) N_VGetArrayPointer(u)[i] = y[i];
#ifdef C02_SPARSE
    SUNMatrix A = SUNSparseMatrix(NEQUATIONS, NEQUATIONS, NNZ, CSR_MAT, ctx);
#else
    SUNMatrix A = SUNDenseMatrix(NEQUATIONS, NEQUATIONS, ctx);
#endif
    for (int call = 0; call < 3; call++) {
        if (call == 2) {
            d.Tgas = T2;
            for (int i = 0; i < NREACTIONS; i++) k[i] = NAN;
            EvalRates(k, y, &d);
            for (int i = 0; i < NREACTIONS; i++) printf("%.17g ", k[i]);
            printf("\n");
        }
        SUNMatZero(A);
        Jac(0.0, u, fu, A, &d, NULL, NULL, NULL);
        std::vector<double> full(NEQUATIONS * NEQUATIONS, 0.0);
#ifdef C02_SPARSE
        sunindextype *rp = SUNSparseMatrix_IndexPointers(A), *cv = SUNSparseMatrix_IndexValues(A);
        realtype *dv = SUNSparseMatrix_Data(A);
        for (int r = 0; r < NEQUATIONS; r++) for (sunindextype q = rp[r]; q < rp[r + 1]; q++) full[r * NEQUATIONS + cv[q]] += dv[q];
#else
        for (int i = 0; i < NEQUATIONS; i++) for (int j = 0; j < NEQUATIONS; j++) full[i * NEQUATIONS + j] = SM_ELEMENT_D(A, i, j);
#endif
        for (size_t q = 0; q < full.size(); q++) printf("%.17g ", full[q]);
        printf("\n");
    }
#endif
    return 0;
}
