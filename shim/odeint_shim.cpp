extern "C" { int shim_odeint_nsteps = 1; int shim_odeint_called = 0; }
