// C01 driver: the helper functions of the rendered naunet_physics.cpp on vectors read from stdin.
// stdin: NEQUATIONS numbers per line (the temperature slot included when the network has one)
// stdout per line: GetNumDens GetMu GetGamma GetHNuclei | GetElementAbund(0..NELEMENTS-1)
#include <stdio.h>
#include "naunet_macros.h"
#include "naunet_physics.h"
int main() {
    double y[NEQUATIONS + 1];
    for (;;) {
        for (int i = 0; i < NEQUATIONS; i++) if (scanf("%lf", &y[i]) != 1) return 0;
        printf("%.17g %.17g %.17g %.17g |", GetNumDens(y), GetMu(y), GetGamma(y), GetHNuclei(y));
        for (int e = 0; e < NELEMENTS; e++) printf(" %.17g", GetElementAbund(y, e));
        printf("\n");
    }
}
