// C06 driver: calls the rendered EvalRates at the temperatures read from stdin with k[] pre-filled with NaN,
// prints one line per temperature: k[0] ... k[NREACTIONS-1]  (nan = not assigned)
#include <stdio.h>
#include <math.h>
#include "naunet_data.h"
#include "naunet_macros.h"
#include "naunet_ode.h"
int main() {
    double T;
    while (scanf("%lf", &T) == 1) {
        NaunetData d = NaunetData();
        d.Tgas = T; d.nH = 1e4;
        double y[NEQUATIONS]; for (int i = 0; i < NEQUATIONS; i++) y[i] = 1.0;
        double k[NREACTIONS]; for (int i = 0; i < NREACTIONS; i++) k[i] = NAN;
        EvalRates(k, y, &d);
        for (int i = 0; i < NREACTIONS; i++) printf("%.17g ", k[i]);
        printf("\n");
    }
    return 0;
}
