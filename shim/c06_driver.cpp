// C06 driver: calls the rendered EvalRates at the temperatures read from stdin with k[] pre-filled with NaN,
// then the rendered right-hand side (Fex) at the same temperature, all in ONE process.
// prints one line per temperature: k[0] ... k[NREACTIONS-1]  (nan = not assigned)  |  ydot[0] ... ydot[NEQUATIONS-1]
#include <stdio.h>
#include <math.h>
#include "naunet_data.h"
#include "naunet_macros.h"
#include "naunet_ode.h"
#ifndef C06_ODEINT
#include "sundials_shim.h"
#endif
int main() {
    double T;
    while (scanf("%lf", &T) == 1) {
        NaunetData d = NaunetData();
        d.Tgas = T; d.nH = 1e4;
        double y[NEQUATIONS]; for (int i = 0; i < NEQUATIONS; i++) y[i] = 1.0;
        double k[NREACTIONS]; for (int i = 0; i < NREACTIONS; i++) k[i] = NAN;
        EvalRates(k, y, &d);
        for (int i = 0; i < NREACTIONS; i++) printf("%.17g ", k[i]);
        printf("|");
#ifdef C06_ODEINT
        vector_type ab(NEQUATIONS), yd(NEQUATIONS);
        for (int i = 0; i < NEQUATIONS; i++) { ab[i] = 1.0; yd[i] = NAN; }
        Fex fex(&d);
        fex(ab, yd, 0.0);
        for (int i = 0; i < NEQUATIONS; i++) printf(" %.17g", yd[i]);
#else
        SUNContext ctx; SUNContext_Create(NULL, &ctx);
        N_Vector u = N_VNew_Serial(NEQUATIONS, ctx), ud = N_VNew_Serial(NEQUATIONS, ctx);
        for (int i = 0; i < NEQUATIONS; i++) { N_VGetArrayPointer(u)[i] = 1.0; N_VGetArrayPointer(ud)[i] = NAN; }
        Fex(0.0, u, ud, &d);
        for (int i = 0; i < NEQUATIONS; i++) printf(" %.17g", N_VGetArrayPointer(ud)[i]);
        N_VDestroy(u); N_VDestroy(ud); SUNContext_Free(&ctx);
#endif
        printf("\n");
    }
    return 0;
}
