#include "sundials_shim.h"
#include <math.h>
#include <stdlib.h>
#include <stdarg.h>
#include <string.h>
#include <vector>

FILE *shim_trace_file = NULL;
void shim_trace(const char *fmt, ...) {
    if (!shim_trace_file) return;
    va_list ap; va_start(ap, fmt); vfprintf(shim_trace_file, fmt, ap); va_end(ap);
}

realtype &shim_dense_elem(SUNMatrix A, sunindextype i, sunindextype j) {
    if (A->sparse || i < 0 || j < 0 || i >= A->M || j >= A->N) {
        fprintf(stderr, "SHIM: dense element (%ld,%ld) outside %ldx%ld\n", i, j, A->M, A->N);
        abort();
    }
    return A->data[j * A->M + i];
}

int SUNContext_Create(void *, SUNContext *ctx) { *ctx = (void *)1; return 0; }
int SUNContext_Free(SUNContext *ctx) { *ctx = NULL; return 0; }

N_Vector N_VNewEmpty_Serial(sunindextype n, SUNContext) {
    N_Vector v = new _shim_N_Vector; v->data = NULL; v->length = n; v->own = 0; return v;
}
N_Vector N_VNew_Serial(sunindextype n, SUNContext c) {
    N_Vector v = N_VNewEmpty_Serial(n, c); v->data = new realtype[n > 0 ? n : 1](); v->own = 1; return v;
}
N_Vector N_VMake_Serial(sunindextype n, realtype *d, SUNContext c) {
    N_Vector v = N_VNewEmpty_Serial(n, c); v->data = d; return v;
}
realtype *N_VGetArrayPointer(N_Vector v) { return v->data; }
void N_VSetArrayPointer(realtype *d, N_Vector v) { v->data = d; }
void N_VDestroy(N_Vector v) { if (!v) return; if (v->own) delete[] v->data; delete v; }
void N_VFreeEmpty(N_Vector v) { delete v; }
void N_VConst(realtype c, N_Vector v) { for (sunindextype i = 0; i < v->length; i++) v->data[i] = c; }

SUNMatrix SUNDenseMatrix(sunindextype M, sunindextype N, SUNContext) {
    SUNMatrix A = new _shim_SUNMatrix; A->sparse = 0; A->M = M; A->N = N; A->NNZ = M * N;
    A->data = new realtype[M * N > 0 ? M * N : 1](); A->indexptrs = NULL; A->indexvals = NULL; return A;
}
SUNMatrix SUNSparseMatrix(sunindextype M, sunindextype N, sunindextype NNZ, int sparsetype, SUNContext) {
    SUNMatrix A = new _shim_SUNMatrix; A->sparse = 1; A->sparsetype = sparsetype; A->M = M; A->N = N; A->NNZ = NNZ;
    // exactly NNZ / M+1 long: heap allocations of size 0 are legal and any access is caught by ASan
    A->data = new realtype[NNZ](); A->indexptrs = new sunindextype[M + 1](); A->indexvals = new sunindextype[NNZ]();
    return A;
}
int SUNMatZero(SUNMatrix A) {
    sunindextype n = A->sparse ? A->NNZ : A->M * A->N;
    for (sunindextype i = 0; i < n; i++) A->data[i] = 0.0;
    return 0;
}
void SUNMatDestroy(SUNMatrix A) { if (!A) return; delete[] A->data; delete[] A->indexptrs; delete[] A->indexvals; delete A; }
// the accessors of one matrix kind applied to the other kind read memory that is not what they think it is (in SUNDIALS
// the content structs differ): the shim stops the program so that the harness sees it
static void shim_kind(SUNMatrix A, int want_sparse, const char *who) {
    if (!A || A->sparse != want_sparse) {
        fprintf(stderr, "shim: %s applied to a %s matrix\n", who, !A ? "null" : A->sparse ? "sparse" : "dense");
        exit(4);
    }
}
sunindextype *SUNSparseMatrix_IndexPointers(SUNMatrix A) { shim_kind(A, 1, "SUNSparseMatrix_IndexPointers"); return A->indexptrs; }
sunindextype *SUNSparseMatrix_IndexValues(SUNMatrix A) { shim_kind(A, 1, "SUNSparseMatrix_IndexValues"); return A->indexvals; }
realtype *SUNSparseMatrix_Data(SUNMatrix A) { shim_kind(A, 1, "SUNSparseMatrix_Data"); return A->data; }

SUNLinearSolver SUNLinSol_Dense(N_Vector y, SUNMatrix A, SUNContext) {
    if (A) shim_kind(A, 0, "SUNLinSol_Dense");
    SUNLinearSolver S = new _shim_SUNLinearSolver; S->kind = 0; S->n = A ? A->M : (y ? y->length : 0); S->piv = NULL; return S;
}
SUNLinearSolver SUNLinSol_KLU(N_Vector y, SUNMatrix A, SUNContext c) {
    shim_kind(A, 1, "SUNLinSol_KLU");
    SUNLinearSolver S = SUNLinSol_Dense(y, NULL, c); S->kind = 1; S->n = A->M; return S;
}
int SUNLinSolSetup(SUNLinearSolver, SUNMatrix) { return 0; }
// Gaussian elimination with partial pivoting on a copy (dense only)
int SUNLinSolSolve(SUNLinearSolver, SUNMatrix A, N_Vector x, N_Vector b, realtype) {
    sunindextype n = A->M;
    std::vector<double> a(n * n), r(n);
    for (sunindextype i = 0; i < n; i++) { r[i] = b->data[i]; for (sunindextype j = 0; j < n; j++) a[i * n + j] = A->data[j * n + i]; }
    for (sunindextype c = 0; c < n; c++) {
        sunindextype p = c;
        for (sunindextype i = c + 1; i < n; i++) if (fabs(a[i * n + c]) > fabs(a[p * n + c])) p = i;
        if (a[p * n + c] == 0.0) return -1;
        if (p != c) { for (sunindextype j = 0; j < n; j++) std::swap(a[p * n + j], a[c * n + j]); std::swap(r[p], r[c]); }
        for (sunindextype i = c + 1; i < n; i++) {
            double f = a[i * n + c] / a[c * n + c];
            for (sunindextype j = c; j < n; j++) a[i * n + j] -= f * a[c * n + j];
            r[i] -= f * r[c];
        }
    }
    for (sunindextype i = n - 1; i >= 0; i--) {
        double s = r[i];
        for (sunindextype j = i + 1; j < n; j++) s -= a[i * n + j] * x->data[j];
        x->data[i] = s / a[i * n + i];
    }
    return 0;
}
int SUNLinSolFree(SUNLinearSolver S) { delete S; return 0; }

// ------------------------------------------------------------------ scripted CVODE
struct ShimCV { double t; N_Vector y; CVLsJacFn jac; SUNMatrix A; SUNLinearSolver ls; void *udata; };
static std::vector<ShimOutcome> g_cv; static std::vector<int> g_reinit; static size_t g_icv = 0, g_ire = 0;
void shim_set_script(const ShimOutcome *cv, int ncv, const int *reinit, int nreinit) {
    g_cv.assign(cv, cv + ncv); g_reinit.assign(reinit, reinit + nreinit); g_icv = 0; g_ire = 0;
}
int shim_cv_calls(void) { return (int)g_icv; }
void *CVodeCreate(int, SUNContext) { ShimCV *m = new ShimCV; m->t = 0; m->y = NULL; m->jac = NULL; m->A = NULL; m->ls = NULL; m->udata = NULL;
    shim_trace("create\n"); return m; }
int CVodeSetErrFile(void *, FILE *) { return 0; }
int CVodeSetMaxNumSteps(void *, long int) { return 0; }
int CVodeInit(void *mem, CVRhsFn, realtype t0, N_Vector y0) { ShimCV *m = (ShimCV *)mem; m->t = t0; m->y = y0; shim_trace("init %.17g\n", t0); return 0; }
int CVodeReInit(void *mem, realtype t0, N_Vector y0) {
    ShimCV *m = (ShimCV *)mem;
    int ok = g_ire < g_reinit.size() ? g_reinit[g_ire] : 1; g_ire++;
    shim_trace("reinit %.17g %d y0=%.17g\n", t0, ok, y0->data[0]);
    if (!ok) return -22;
    m->t = t0; m->y = y0; return 0;
}
int CVodeSStolerances(void *, realtype, realtype) { return 0; }
int CVodeSetLinearSolver(void *mem, SUNLinearSolver ls, SUNMatrix A) {
    if (ls && A && ls->kind != A->sparse) { fprintf(stderr, "shim: linear solver kind %d attached to a %s matrix\n", ls->kind, A->sparse ? "sparse" : "dense"); exit(4); }
    ((ShimCV *)mem)->ls = ls; ((ShimCV *)mem)->A = A; return 0;
}
int CVodeSetJacFn(void *mem, CVLsJacFn jac) { ((ShimCV *)mem)->jac = jac; return 0; }
int CVodeSetUserData(void *mem, void *data) { ((ShimCV *)mem)->udata = data; return 0; }
// what the integrator does with the Jacobian function at (at least) the first step of every call: have it fill the attached
// matrix, then use the matrix.  A sparse matrix must come back as a valid CSR structure inside the allocated sizes.
static void shim_fill_jacobian(ShimCV *m, N_Vector y) {
    if (!m->jac || !m->A) return;
    SUNMatZero(m->A);
    m->jac(m->t, y, NULL, m->A, m->udata, NULL, NULL, NULL);
    if (!m->A->sparse) return;
    SUNMatrix A = m->A;
    // the generated Jac() fills the index arrays row by row (rowptrs / colvals): a matrix created column-compressed would be read by
    // the linear solver as the transpose of what was written
    if (A->sparsetype != CSR_MAT) {
        fprintf(stderr, "shim: Jac() fills a row-compressed structure, but the matrix attached to the integrator was created with sparsetype %d (CSC): the solver reads the transpose\n", A->sparsetype);
        exit(6);
    }
    const char *bad = NULL;
    if (A->indexptrs[0] != 0) bad = "row pointers do not start at 0";
    for (sunindextype r = 0; r < A->M && !bad; r++) {
        if (A->indexptrs[r] > A->indexptrs[r + 1]) bad = "row pointers decrease";
        else if (A->indexptrs[r + 1] > A->NNZ) bad = "row pointer beyond the allocated non-zeros";
        else for (sunindextype k = A->indexptrs[r]; k < A->indexptrs[r + 1]; k++)
            if (A->indexvals[k] < 0 || A->indexvals[k] >= A->N) bad = "column index outside the matrix";
    }
    if (bad) { fprintf(stderr, "shim: Jac() left an invalid CSR matrix: %s\n", bad); exit(5); }
}
// mock dynamics: every component advances by the elapsed time, y(t) = y(t_start) + (t - t_start)
int CVode(void *mem, realtype tout, N_Vector yout, realtype *tret, int) {
    ShimCV *m = (ShimCV *)mem;
    ShimOutcome o; o.flag = 0; o.frac = 1.0;
    if (g_icv < g_cv.size()) o = g_cv[g_icv];
    g_icv++;
    shim_fill_jacobian(m, yout);
    double target = o.flag >= 0 ? tout : m->t + o.frac * (tout - m->t);
    for (sunindextype i = 0; i < yout->length; i++) yout->data[i] += target - m->t;
    shim_trace("cvode tout=%.17g from=%.17g reached=%.17g flag=%d\n", tout, m->t, target, o.flag);
    m->t = target; *tret = target;
    return o.flag;
}
void CVodeFree(void **mem) { delete (ShimCV *)*mem; *mem = NULL; shim_trace("free\n"); }
int CVodeGetNumSteps(void *, long int *n) { *n = 0; return 0; }
int CVodeGetNumRhsEvals(void *, long int *n) { *n = 0; return 0; }
int CVodeGetNumLinSolvSetups(void *, long int *n) { *n = 0; return 0; }
int CVodeGetNumErrTestFails(void *, long int *n) { *n = 0; return 0; }
int CVodeGetNumNonlinSolvIters(void *, long int *n) { *n = 0; return 0; }
int CVodeGetNumNonlinSolvConvFails(void *, long int *n) { *n = 0; return 0; }
int CVodeGetNumJacEvals(void *, long int *n) { *n = 0; return 0; }
int CVodeGetNumGEvals(void *, long int *n) { *n = 0; return 0; }
int CVodeGetCurrentTime(void *mem, realtype *t) { *t = ((ShimCV *)mem)->t; return 0; }
