// Stand-in for <pybind11/numpy.h>: array_t<T> owns a copy of the data it is built from (as numpy does when an array is created
// from a pointer without a base object); request() exposes the owned storage, so a wrapper that writes through request().ptr
// changes the array it was given - exactly what happens to the caller's numpy array.
#ifndef SHIM_PYBIND11_NUMPY_H
#define SHIM_PYBIND11_NUMPY_H
#include <vector>
#include "pybind11.h"

namespace pybind11 {
template <class T> class array_t {
   public:
    array_t() {}
    array_t(const std::vector<ssize_t> &shape, const T *ptr) : shape_(shape) {
        ssize_t n = 1;
        for (ssize_t s : shape) n *= s;
        data_.assign(ptr, ptr + n);
    }
    buffer_info request() {
        buffer_info b;
        b.ptr   = data_.data();
        b.shape = shape_;
        return b;
    }

   private:
    std::vector<ssize_t> shape_;
    std::vector<T> data_;
};
}  // namespace pybind11
#endif
