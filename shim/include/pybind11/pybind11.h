// Stand-in for <pybind11/pybind11.h>: just enough to compile the PYMODULE parts of the rendered naunet.h / naunet.cpp and to call
// the Python-facing wrappers (Naunet::PyWrapSolve, …) from a C++ driver.  What is assumed about the real library:
//  * PYBIND11_MODULE(name, m) { … } declares a function body that registers classes; nothing in it runs here;
//  * class_<T>::def / def_readwrite accept any arguments and return the class_ again;
//  * py::arg("x") = value is an expression; py::init() is a value;
//  * a C++ exception thrown by a bound function reaches the Python caller as an exception (std::runtime_error -> RuntimeError),
//    a normal return reaches it as the returned object.  The driver observes exactly this distinction.
#ifndef SHIM_PYBIND11_H
#define SHIM_PYBIND11_H
#include <cstddef>
#include <stdexcept>
#include <vector>

namespace pybind11 {
typedef std::ptrdiff_t ssize_t;

struct buffer_info {
    void *ptr = nullptr;
    std::vector<ssize_t> shape;
};

struct arg {
    const char *name;
    explicit arg(const char *n) : name(n) {}
    template <class T> arg &operator=(const T &) { return *this; }
};

struct shim_init_tag {};
inline shim_init_tag init() { return shim_init_tag(); }

struct module_ {};

template <class T> struct class_ {
    template <class M> class_(M &, const char *) {}
    template <class... A> class_ &def(A &&...) { return *this; }
    template <class... A> class_ &def_readwrite(A &&...) { return *this; }
};
}  // namespace pybind11

#define PYBIND11_MODULE(name, var) static inline void shim_pybind11_module(pybind11::module_ &var)
#endif
