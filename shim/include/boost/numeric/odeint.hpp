#include "ublas/vector.hpp"
