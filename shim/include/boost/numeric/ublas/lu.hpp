#include "vector.hpp"
