#include "vector.hpp"
