#include "vector.hpp"
