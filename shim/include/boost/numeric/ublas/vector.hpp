// Minimal stand-in for the Boost.uBLAS / Boost.Odeint subset used by naunet's odeint templates.
#ifndef NAUNET_VERIF_BOOST_SHIM
#define NAUNET_VERIF_BOOST_SHIM
#include <vector>
#include <stdexcept>
#include <utility>
#include <cstddef>
#include <cstdio>
#include <cstdlib>
#include <cmath>
namespace boost { namespace numeric { namespace ublas {
template <class T> class vector {
    std::vector<T> d_;
   public:
    vector() {}
    explicit vector(std::size_t n) : d_(n) {}
    vector(std::size_t n, T v) : d_(n, v) {}
    std::size_t size() const { return d_.size(); }
    T &operator[](std::size_t i) { return d_.at(i); }
    const T &operator[](std::size_t i) const { return d_.at(i); }
    T &operator()(std::size_t i) { return d_.at(i); }
    const T &operator()(std::size_t i) const { return d_.at(i); }
};
template <class T> class zero_matrix {
   public:
    std::size_t m_, n_;
    zero_matrix(std::size_t m, std::size_t n) : m_(m), n_(n) {}
};
template <class T> class matrix {
    std::size_t m_, n_; std::vector<T> d_;
   public:
    matrix() : m_(0), n_(0) {}
    // (uBLAS does not initialise the storage of a sized matrix: the stand-in fills it with NaN so that an entry that is read
    // before it is assigned shows)
    matrix(std::size_t m, std::size_t n) : m_(m), n_(n), d_(m * n, std::nan("")) {}
    matrix &operator=(const zero_matrix<T> &z) { m_ = z.m_; n_ = z.n_; d_.assign(m_ * n_, T()); return *this; }
    std::size_t size1() const { return m_; }
    std::size_t size2() const { return n_; }
    T &operator()(std::size_t i, std::size_t j) { if (i >= m_ || j >= n_) { fprintf(stderr, "SHIM: matrix(%zu,%zu) outside %zux%zu\n", i, j, m_, n_); abort(); } return d_[i * n_ + j]; }
    const T &operator()(std::size_t i, std::size_t j) const { return const_cast<matrix *>(this)->operator()(i, j); }
};
template <class T> class permutation_matrix {
    std::vector<T> p_;
   public:
    explicit permutation_matrix(std::size_t n) : p_(n) { for (std::size_t i = 0; i < n; i++) p_[i] = i; }
    std::size_t size() const { return p_.size(); }
    T &operator()(std::size_t i) { return p_.at(i); }
    const T &operator()(std::size_t i) const { return p_.at(i); }
};
template <class M, class PM> int lu_factorize(M &A, PM &pm) {
    std::size_t n = A.size1();
    for (std::size_t c = 0; c < n; c++) {
        std::size_t p = c;
        for (std::size_t i = c + 1; i < n; i++) if (std::fabs(A(i, c)) > std::fabs(A(p, c))) p = i;
        pm(c) = p;
        if (A(p, c) == 0.0) return (int)c + 1;
        if (p != c) for (std::size_t j = 0; j < n; j++) std::swap(A(p, j), A(c, j));
        for (std::size_t i = c + 1; i < n; i++) {
            A(i, c) /= A(c, c);
            for (std::size_t j = c + 1; j < n; j++) A(i, j) -= A(i, c) * A(c, j);
        }
    }
    return 0;
}
template <class M, class PM, class V> void lu_substitute(const M &A, const PM &pm, V &b) {
    std::size_t n = A.size1();
    for (std::size_t i = 0; i < n; i++) if (pm(i) != i) std::swap(b[i], b[pm(i)]);
    for (std::size_t i = 0; i < n; i++) for (std::size_t j = 0; j < i; j++) b[i] -= A(i, j) * b[j];
    for (std::size_t ii = n; ii-- > 0;) { for (std::size_t j = ii + 1; j < n; j++) b[ii] -= A(ii, j) * b[j]; b[ii] /= A(ii, ii); }
}
}}}
// ---- odeint: scripted integrate_adaptive
extern "C" { extern int shim_odeint_nsteps; extern int shim_odeint_called; }
namespace boost { namespace numeric { namespace odeint {
template <class T> struct rosenbrock4 {};
template <class T> struct runge_kutta_dopri5 {};
template <class S> struct controlled_stepper { double atol, rtol; };
template <class S> controlled_stepper<S> make_controlled(double atol, double rtol) { controlled_stepper<S> c; c.atol = atol; c.rtol = rtol; return c; }
template <class S> controlled_stepper<S> make_dense_output(double atol, double rtol) { return make_controlled<S>(atol, rtol); }
// mock: takes `shim_odeint_nsteps` equal steps; the observer is called at t0 and after every step
// (as Boost does); y advances by the elapsed time in every component.
template <class St, class Sys, class State, class Obs>
std::size_t integrate_adaptive(St, Sys sys, State &y, double t0, double t1, double, Obs obs) {
    shim_odeint_called++;
    int n = shim_odeint_nsteps > 0 ? shim_odeint_nsteps : 1;
    double t = t0;
    obs(y, t);
    for (int s = 1; s <= n; s++) {
        double tn = (s == n) ? t1 : t0 + (t1 - t0) * s / n;
        for (std::size_t i = 0; i < y.size(); i++) y[i] += tn - t;
        t = tn;
        obs(y, t);
    }
    (void)sys;
    return (std::size_t)n;
}
}}}
#endif
