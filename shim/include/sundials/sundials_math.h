// the real header defines SUNRabs, SUNRsqrt ... on top of <math.h>: it is the one SUNDIALS header that brings the C mathematical
// functions in (naunet.h includes it; naunet_rates/fex/jac do not)
#include <math.h>
#include "../sundials_shim.h"
