#include "../sundials_shim.h"
