// Minimal stand-in for the SUNDIALS 6 API subset that naunet's cvode templates call.
// Vectors and matrices are exactly as long as requested (so that sanitizers see out-of-range
// subscripts); CVode* follow a script installed by the test driver (see sundials_shim.cpp).
#ifndef NAUNET_VERIF_SUNDIALS_SHIM_H
#define NAUNET_VERIF_SUNDIALS_SHIM_H
// Like the real headers, this one brings in <stdio.h> and the fixed-width / size types only: neither <math.h> nor <stdlib.h>.
// A generated file that calls a mathematical function has to include <math.h> itself, and which `abs`, `pow` … overloads it
// sees is decided by its own include lines.
#include <stdio.h>
#include <stddef.h>
#include <stdint.h>
#include <float.h>

typedef double realtype;
typedef long sunindextype;
typedef int booleantype;
typedef void *SUNContext;

struct _shim_N_Vector { realtype *data; sunindextype length; int own; };
typedef struct _shim_N_Vector *N_Vector;

struct _shim_SUNMatrix {
    int sparse; int sparsetype; sunindextype M, N, NNZ;     // sparsetype: CSR_MAT / CSC_MAT as given to SUNSparseMatrix
    realtype *data;          // dense: column-major M*N ; sparse: NNZ values
    sunindextype *indexptrs; // sparse: M+1
    sunindextype *indexvals; // sparse: NNZ
};
typedef struct _shim_SUNMatrix *SUNMatrix;

struct _shim_SUNLinearSolver { int kind; sunindextype n; sunindextype *piv; };
typedef struct _shim_SUNLinearSolver *SUNLinearSolver;

#define CSR_MAT 1
#define CSC_MAT 0
#define CV_BDF 2
#define CV_ADAMS 1
#define CV_NORMAL 1
#define CV_ONE_STEP 2
#define CV_SUCCESS 0
#define SUNMIN(a,b) ((a)<(b)?(a):(b))
#define SUNMAX(a,b) ((a)>(b)?(a):(b))

realtype &shim_dense_elem(SUNMatrix A, sunindextype i, sunindextype j);
#define SM_ELEMENT_D(A, i, j) (shim_dense_elem((A), (i), (j)))

int SUNContext_Create(void *comm, SUNContext *ctx);
int SUNContext_Free(SUNContext *ctx);

N_Vector N_VNewEmpty_Serial(sunindextype n, SUNContext ctx);
N_Vector N_VNew_Serial(sunindextype n, SUNContext ctx);
N_Vector N_VMake_Serial(sunindextype n, realtype *data, SUNContext ctx);
realtype *N_VGetArrayPointer(N_Vector v);
void N_VSetArrayPointer(realtype *data, N_Vector v);
void N_VDestroy(N_Vector v);
void N_VFreeEmpty(N_Vector v);
void N_VConst(realtype c, N_Vector v);

SUNMatrix SUNDenseMatrix(sunindextype M, sunindextype N, SUNContext ctx);
SUNMatrix SUNSparseMatrix(sunindextype M, sunindextype N, sunindextype NNZ, int type, SUNContext ctx);
int SUNMatZero(SUNMatrix A);
void SUNMatDestroy(SUNMatrix A);
sunindextype *SUNSparseMatrix_IndexPointers(SUNMatrix A);
sunindextype *SUNSparseMatrix_IndexValues(SUNMatrix A);
realtype *SUNSparseMatrix_Data(SUNMatrix A);

SUNLinearSolver SUNLinSol_Dense(N_Vector y, SUNMatrix A, SUNContext ctx);
SUNLinearSolver SUNLinSol_KLU(N_Vector y, SUNMatrix A, SUNContext ctx);
int SUNLinSolSetup(SUNLinearSolver S, SUNMatrix A);
int SUNLinSolSolve(SUNLinearSolver S, SUNMatrix A, N_Vector x, N_Vector b, realtype tol);
int SUNLinSolFree(SUNLinearSolver S);

typedef int (*CVRhsFn)(realtype t, N_Vector y, N_Vector ydot, void *user_data);
typedef int (*CVLsJacFn)(realtype t, N_Vector y, N_Vector fy, SUNMatrix Jac, void *user_data,
                         N_Vector tmp1, N_Vector tmp2, N_Vector tmp3);

void *CVodeCreate(int lmm, SUNContext ctx);
int CVodeSetErrFile(void *mem, FILE *f);
int CVodeSetMaxNumSteps(void *mem, long int mx);
int CVodeInit(void *mem, CVRhsFn f, realtype t0, N_Vector y0);
int CVodeReInit(void *mem, realtype t0, N_Vector y0);
int CVodeSStolerances(void *mem, realtype rtol, realtype atol);
int CVodeSetLinearSolver(void *mem, SUNLinearSolver LS, SUNMatrix A);
int CVodeSetJacFn(void *mem, CVLsJacFn jac);
int CVodeSetUserData(void *mem, void *data);
int CVode(void *mem, realtype tout, N_Vector yout, realtype *tret, int itask);
void CVodeFree(void **mem);
int CVodeGetNumSteps(void *mem, long int *n);
int CVodeGetNumRhsEvals(void *mem, long int *n);
int CVodeGetNumLinSolvSetups(void *mem, long int *n);
int CVodeGetNumErrTestFails(void *mem, long int *n);
int CVodeGetNumNonlinSolvIters(void *mem, long int *n);
int CVodeGetNumNonlinSolvConvFails(void *mem, long int *n);
int CVodeGetNumJacEvals(void *mem, long int *n);
int CVodeGetNumGEvals(void *mem, long int *n);
int CVodeGetCurrentTime(void *mem, realtype *t);

// ---- scripting interface used by the C19 driver
struct ShimOutcome { int flag; double frac; };   // flag >= 0: reach tout; flag < 0: stop at t + frac*(tout-t)
void shim_set_script(const ShimOutcome *cv, int ncv, const int *reinit, int nreinit);
int shim_cv_calls(void);      // number of CVode calls made since the script was installed
void shim_trace(const char *fmt, ...);
extern FILE *shim_trace_file;
#endif
