// C16 driver: runs the *rendered* Naunet::SetReferenceAbund / Naunet::Renorm (with InitRenorm, the library's linear
// solve, RenormAbundance and the GetElementAbund / GetHNuclei helpers) on vectors read from stdin.
// stdin per case:   opt  nref ref[0..nref-1]  ab[0..NEQUATIONS-1]
// stdout per case:  flag  ab'[0..NEQUATIONS-1]  |  GetElementAbund(ab', e) for e = 0..NELEMENTS-1  ||  flag2  ab''[..]
//                   (ab'' = a perturbed copy of ab' renormalised again by the same object; in every other case Reset is called in between)
#include <stdio.h>
#include <stdlib.h>
#include <vector>
#include "naunet.h"
#include "naunet_physics.h"

int main() {
    int opt, nref, ncase = 0;
    while (scanf("%d %d", &opt, &nref) == 2) {
        std::vector<double> ref(nref > NEQUATIONS ? nref : NEQUATIONS, 0.0);
        for (int i = 0; i < nref; i++) if (scanf("%lf", &ref[i]) != 1) return 2;
        double ab[NEQUATIONS];
        for (int i = 0; i < NEQUATIONS; i++) if (scanf("%lf", &ab[i]) != 1) return 2;
        Naunet n;
        n.Init(1, 1e-20, 1e-5, 100);
        int flag = 0;
#ifdef IDX_ELEM_H
        flag = n.SetReferenceAbund(ref.data(), opt);
        if (flag == NAUNET_SUCCESS) flag = n.Renorm(ab);
#endif
        printf("%d", flag);
        for (int i = 0; i < NEQUATIONS; i++) printf(" %.17g", ab[i]);
        printf(" |");
        for (int e = 0; e < NELEMENTS; e++) printf(" %.17g", GetElementAbund(ab, e));
        // a second renormalisation with the same object and the same stored reference: the abundances are perturbed first
        double ab2[NEQUATIONS];
        for (int i = 0; i < NEQUATIONS; i++) ab2[i] = ab[i] * (i % 2 ? 3.0 : 0.5);
        int flag2 = 0;
        // every other case: the solver settings are changed in between (Reset); the stored reference is not a solver setting
        if (ncase++ % 2) n.Reset(1, 1e-18, 1e-6, 200);
#ifdef IDX_ELEM_H
        flag2 = n.Renorm(ab2);
#endif
        n.Finalize();
        printf(" || %d", flag2);
        for (int i = 0; i < NEQUATIONS; i++) printf(" %.17g", ab2[i]);
        printf("\n");
    }
    return 0;
}
