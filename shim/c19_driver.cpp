// C19 driver: feeds scripted integrator outcomes to the *rendered* Naunet::Solve and prints what it did.
// stdin, one script per line (cvode):   dt y0 mxsteps reset_mxsteps ncv (flag frac){ncv} nre (ok){nre}
//                          (odeint):   dt y0 mxsteps reset_mxsteps nsteps          (reset_mxsteps < 0: no Reset call)
// with -DPYMODULE -DC19_PYWRAP the call goes through Naunet::PyWrapSolve (flag 1 = std::runtime_error reached the caller)
// stdout per script:  flag y_first y_min y_max logged_y0_or_nan ncvode_calls_made(-1 for odeint)
#include <stdio.h>
#include <stdlib.h>
#include <string.h>
#include <math.h>
#include <vector>
#include <string>
#include "naunet.h"
#ifdef C19_ODEINT
extern "C" { extern int shim_odeint_nsteps; extern int shim_odeint_called; }
#else
#include "sundials_shim.h"
#endif

static std::string read_from(const char *path, long off) {
    FILE *f = fopen(path, "r");
    if (!f) return "";
    fseek(f, off, SEEK_SET);
    std::string s; char buf[4096]; size_t n;
    while ((n = fread(buf, 1, sizeof buf, f)) > 0) s.append(buf, n);
    fclose(f);
    return s;
}
static long size_of(const char *path) {
    FILE *f = fopen(path, "r"); if (!f) return 0; fseek(f, 0, SEEK_END); long n = ftell(f); fclose(f); return n;
}

int main() {
    const char *errfile = "naunet_error_record.txt";
    double dt, y0; int mx, rmx;     // rmx >= 0: Init(.., mx) is followed by Reset(1, .., rmx) before Solve
    while (scanf("%lf %lf %d %d", &dt, &y0, &mx, &rmx) == 4) {
#ifdef C19_ODEINT
        int ns; if (scanf("%d", &ns) != 1) return 2;
        shim_odeint_nsteps = ns;
#else
        int ncv; if (scanf("%d", &ncv) != 1) return 2;
        std::vector<ShimOutcome> cv(ncv);
        for (int i = 0; i < ncv; i++) if (scanf("%d %lf", &cv[i].flag, &cv[i].frac) != 2) return 2;
        int nre; if (scanf("%d", &nre) != 1) return 2;
        std::vector<int> re(nre);
        for (int i = 0; i < nre; i++) if (scanf("%d", &re[i]) != 1) return 2;
        shim_set_script(cv.data(), ncv, re.data(), nre);
#endif
        long off = size_of(errfile);
        Naunet n;
        n.Init(1, 1e-20, 1e-5, mx);
        if (rmx >= 0) n.Reset(1, 1e-20, 1e-5, rmx);
        NaunetData data = NaunetData();
        double ab[NEQUATIONS];
        for (int i = 0; i < NEQUATIONS; i++) ab[i] = y0;
#ifdef C19_PYWRAP
        // the Python-facing entry point: flag 1 = the caller sees an exception, 0 = the caller gets an array back
        int flag = 0;
        {
            py::array_t<double> arr(std::vector<py::ssize_t>{NEQUATIONS}, ab);
            try {
                py::array_t<double> out = n.PyWrapSolve(arr, dt, &data);
                double *p = static_cast<double *>(out.request().ptr);
                for (int i = 0; i < NEQUATIONS; i++) ab[i] = p[i];
            } catch (const std::runtime_error &) {
                flag = 1;
                double *p = static_cast<double *>(arr.request().ptr);
                for (int i = 0; i < NEQUATIONS; i++) ab[i] = p[i];
            }
        }
#else
        int flag = n.Solve(ab, dt, &data);
#endif
        n.Finalize();
        double lo = ab[0], hi = ab[0];
        for (int i = 0; i < NEQUATIONS; i++) { if (ab[i] < lo) lo = ab[i]; if (ab[i] > hi) hi = ab[i]; }
        std::string log = read_from(errfile, off);
        double logged = NAN;
        const char *p = strstr(log.c_str(), "y[0] = ");
        if (p) logged = atof(p + 7);
#ifdef C19_ODEINT
        printf("%d %.17g %.17g %.17g %.17g -1\n", flag, ab[0], lo, hi, logged);
#else
        printf("%d %.17g %.17g %.17g %.17g %d\n", flag, ab[0], lo, hi, logged, shim_cv_calls());
#endif
    }
    return 0;
}
