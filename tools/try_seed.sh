#!/bin/bash
# tools/try_seed.sh <seeded-id> <check...> : apply a kept seeded patch to /repo, run quick checks, undo
id=$1; shift
git -C /repo apply /verif/seeded/$id/patch.diff || exit 2
for c in "$@"; do (cd /verif && ./check $c quick | grep -v KNOWN | head -4; echo "$c rc=${PIPESTATUS[0]}"); done
git -C /repo checkout -- .
/venv/bin/python /verif/tools/gen_tables.py >/dev/null 2>&1
git -C /repo status --short | head -2
