#!/bin/bash
# tools/regress_seeds.sh <suffix...> : re-run kept seeded changes (seeded/Cxx<suffix>, e.g. "-r12" "" "-r3") against the current
# checks, four at a time, each on its own snapshot (tools/try_seed_isolated.sh).  One line per change: id, rc of its property's check.
for suf in "$@"; do
  for p in C01 C02 C03 C04 C05 C06 C07 C08 C09 C10 C11 C12 C13 C14 C15 C16 C17 C18 C19 C20; do
    [ -f /verif/seeded/$p$suf/patch.diff ] && echo "$p$suf $p"
  done
done | xargs -P ${REGRESS_JOBS:-4} -L 1 bash -c 'out=$(/verif/tools/try_seed_isolated.sh $0 $1 2>&1 | tail -1); echo "$0 $out"'
