#!/bin/bash
# tools/try_seed_isolated.sh <seeded-id> <check...> : like try_seed.sh, but on a snapshot of /verif and a scratch worktree of /repo's
# HEAD with the kept patch applied there - /repo and /verif are not touched, so several of these can run side by side.
# VERIF_SEED is passed through.
id=$1; shift
snap=/tmp/verif-try-$$; wt=/tmp/repo-try-$$
rsync -a --exclude replays --exclude evidence --exclude seeded --exclude "Audit_*" /verif/ $snap/; mkdir -p $snap/evidence $snap/replays
git -C /repo worktree add --detach $wt HEAD >/dev/null 2>&1 || exit 2
if [ "$id" != "clean" ]; then git -C $wt apply /verif/seeded/$id/patch.diff || { git -C /repo worktree remove --force $wt; rm -rf $snap; exit 2; }; fi
export NAUNET_REPO=$wt PYTHONPATH=$wt
cd $snap
for c in "$@"; do ./check $c ${TIER:-quick} | grep -v KNOWN | head -${LINES_SHOWN:-4}; echo "$c rc=${PIPESTATUS[0]}"; done
if [ -n "$KEEP_REPLAYS" ]; then rm -rf /tmp/try-replays-$id; cp -r $snap/replays /tmp/try-replays-$id; fi
cd /; git -C /repo worktree remove --force $wt; rm -rf $snap
