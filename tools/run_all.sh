#!/bin/bash
# tools/run_all.sh <tier> <seed...> : every check on the current /repo tree; prints one line per run
tier=$1; shift
cd /verif
for s in "$@"; do
  for p in C01 C02 C03 C04 C05 C06 C07 C08 C09 C10 C11 C12 C13 C14 C15 C16 C17 C18 C19 C20; do
    t0=$(date +%s)
    out=$(VERIF_SEED=$s ./check $p $tier 2>&1); rc=$?
    echo "$p seed=$s rc=$rc $(( $(date +%s)-t0 ))s $(echo "$out" | grep -c '^VIOLATION') viol $(echo "$out" | grep -c '^KNOWN') known"
    echo "$out" | grep '^VIOLATION' | head -3
  done
done
