#!/usr/bin/env python3
"""usage: tools/mutants.py <file.json>   — [{"props": [...], "file": "...", "old": "...", "new": "..."}]
applies each mutant to /repo, runs the named checks (quick), restores /repo with git checkout."""
import json, subprocess, sys
muts = json.load(open(sys.argv[1]))
for m in muts:
    p = "/repo/" + m["file"]
    s = open(p).read()
    if m["old"] not in s:
        print("MUTANT-NOT-APPLIED", m["file"], m["old"][:50]); continue
    open(p, "w").write(s.replace(m["old"], m["new"], 1))
    try:
        for pid in m["props"]:
            r = subprocess.run(["./check", pid, "quick"], cwd="/verif", capture_output=True, text=True, timeout=1200)
            lines = [l for l in r.stdout.split("\n") if l.startswith(("VIOLATION", "KNOWN"))]
            print(f"[{pid}] {m['file'].split('/')[-1]}: {m['old'][:40]!r} -> {m['new'][:40]!r} :: rc={r.returncode} {(lines[0] if lines else 'MISSED')}")
    finally:
        subprocess.run(["git", "-C", "/repo", "checkout", "--", "."])
subprocess.run(["/venv/bin/python", "/verif/tools/gen_tables.py"])
