#!/bin/bash
# usage: tools/mutants.sh <file-with-mutants>   each line:  <props,comma-separated>|<file>|<python-regex-old>|<new>
# applies each mutant to /repo, runs the named checks (quick), restores /repo.
while IFS='|' read -r props file old new; do
  [ -z "$props" ] && continue
  /venv/bin/python - "$file" "$old" "$new" <<'PY' || { echo "MUTANT-NOT-APPLIED $file $old"; continue; }
import sys,re
f,old,new=sys.argv[1:4]
p='/repo/'+f; s=open(p).read()
if old not in s: sys.exit(1)
open(p,'w').write(s.replace(old,new,1))
PY
  for p in ${props//,/ }; do
    out=$(cd /verif && timeout 600 ./check $p quick 2>&1 | grep -E "^(VIOLATION|KNOWN)" | head -2 | tr '\n' ' ')
    echo "[$p] $file: '$old' -> '$new' :: ${out:-MISSED}"
  done
  git -C /repo checkout -- .
done < "$1"
