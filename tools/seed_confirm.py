#!/usr/bin/env python3
"""tools/seed_confirm.py <Cxx> [extra check ids...] — confirm a seeded change produced in /tmp/seed/<Cxx>:
tests with the change, demo with / without it, then apply it to /repo, run the check(s), undo. Writes seeded/<Cxx>/."""
import json, os, shutil, subprocess, sys
pid = sys.argv[1]
checks = [pid] + sys.argv[2:]
root, suffix = os.environ.get("SEED_ROOT", "/tmp/seed"), os.environ.get("SEED_SUFFIX", "")   # later rounds: /tmp/seed3, "-r3"
wt = f"{root}/{pid}"
out = f"/verif/seeded/{pid}{suffix}"
os.makedirs(out, exist_ok=True)
env = dict(os.environ, PYTHONPATH=wt, TQDM_DISABLE="1")
run = lambda cmd, **kw: subprocess.run(cmd, capture_output=True, text=True, **kw)
diff = run(["git", "-C", wt, "diff"]).stdout
open(f"{out}/patch.diff", "w").write(diff)
for f in ("demo.py", "NOTE.md"):
    if os.path.exists(f"{wt}/{f}"):
        shutil.copy(f"{wt}/{f}", f"{out}/{f}")
t = run(["/venv/bin/python", "-m", "pytest", "-q", "-p", "no:cacheprovider", "--timeout=900", "tests"], cwd=wt, env=env)
tests = [l for l in t.stdout.split("\n") if " passed" in l or " failed" in l][-1:]
d1 = run(["/venv/bin/python", "demo.py"], cwd=wt, env=env)
# (no `git stash`: the stash ref is shared by all worktrees of a repository)
run(["git", "-C", wt, "apply", "-R", f"{out}/patch.diff"])
d0 = run(["/venv/bin/python", "demo.py"], cwd=wt, env=env)
run(["git", "-C", wt, "apply", f"{out}/patch.diff"])
res = {}
if os.environ.get("SEED_ISOLATED"):
    # on a snapshot of /verif and a scratch worktree of /repo (several confirmations can run side by side)
    r = run(["/verif/tools/try_seed_isolated.sh", f"{pid}{suffix}", *checks], env=dict(os.environ, KEEP_REPLAYS="1", LINES_SHOWN="3"))
    cur = []
    for l in r.stdout.split("\n"):
        if l.startswith("VIOLATION"):
            cur.append(l)
        m_ = [c for c in checks if l.startswith(f"{c} rc=")]
        if m_:
            res[m_[0]] = {"rc": int(l.split("rc=")[1]), "violation_lines": cur[:3]}
            if cur:
                rp = cur[0].split("replay=")[1].split()[0]
                try:
                    shutil.copy(f"/tmp/try-replays-{pid}{suffix}/{rp.split('replays/')[1]}", f"{out}/replay-{m_[0]}.json")
                except Exception:
                    pass
            cur = []
    shutil.rmtree(f"/tmp/try-replays-{pid}{suffix}", ignore_errors=True)
    ap = None
else:
    ap = run(["git", "-C", "/repo", "apply", f"{out}/patch.diff"])
try:
    if ap is None:
        pass
    elif ap.returncode != 0:
        res["apply_error"] = ap.stderr[:300]
    else:
        for c in checks:
            r = run(["./check", c, "quick"], cwd="/verif")
            lines = [l for l in r.stdout.split("\n") if l.startswith("VIOLATION")]
            res[c] = {"rc": r.returncode, "violation_lines": lines[:3]}
            # keep the replay of the first violation as documentation
            if lines:
                rp = lines[0].split("replay=")[1].split()[0]
                try:
                    shutil.copy(f"/verif/{rp}", f"{out}/replay-{c}.json")
                except Exception:
                    pass
finally:
    if ap is not None:
        run(["git", "-C", "/repo", "checkout", "--", "."])
        run(["/venv/bin/python", "/verif/tools/gen_tables.py"])
meta = {"property": pid, "patch_files": run(["git", "-C", wt, "diff", "--stat"]).stdout.strip().split("\n"),
        "tests_with_change": tests, "demo_with_change_rc": d1.returncode, "demo_with_change_out": (d1.stdout + d1.stderr)[-400:],
        "demo_without_change_rc": d0.returncode, "checks": res,
        "what_i_ran": (f"pytest in the worktree with the change; demo.py with and without it; tools/try_seed_isolated.sh (snapshot of /verif, "
                       f"scratch worktree of /repo HEAD with patch.diff applied): ./check {' '.join(checks)} quick" if os.environ.get("SEED_ISOLATED")
                       else f"pytest in the worktree with the change; demo.py with and without it; git -C /repo apply patch.diff; "
                            f"./check {' '.join(checks)} quick; git -C /repo checkout -- .")}
note = open(f"{out}/NOTE.md").read() if os.path.exists(f"{out}/NOTE.md") else ""
meta["needs_to_manifest"] = note[:1200]
json.dump(meta, open(f"{out}/meta.json", "w"), indent=1)
print(json.dumps({k: meta[k] for k in ("tests_with_change", "demo_with_change_rc", "demo_without_change_rc", "checks")}, indent=1))
