#!/bin/bash
# tools/run_isolated.sh <tier> <seed...> : every check, on a snapshot of /verif and a clean worktree of /repo's HEAD, so that the
# run is not disturbed by (and does not disturb) work going on in /verif and /repo.  One line per run on stdout.
tier=$1; shift
snap=/tmp/verif-snap-$$; wt=/tmp/repo-snap-$$
rsync -a --exclude replays --exclude evidence --exclude "Audit_*" /verif/ $snap/; mkdir -p $snap/evidence $snap/replays
git -C /repo worktree add --detach $wt HEAD >/dev/null 2>&1 || exit 2
export NAUNET_REPO=$wt PYTHONPATH=$wt
cd $snap
for s in "$@"; do
  for p in C01 C02 C03 C04 C05 C06 C07 C08 C09 C10 C11 C12 C13 C14 C15 C16 C17 C18 C19 C20; do
    t0=$(date +%s)
    out=$(VERIF_SEED=$s ./check $p $tier 2>&1); rc=$?
    echo "$p seed=$s rc=$rc $(( $(date +%s)-t0 ))s $(echo "$out" | grep -c '^VIOLATION') viol $(echo "$out" | grep -c '^KNOWN') known"
    echo "$out" | grep '^VIOLATION' | head -3
    if [ $rc -ne 0 ]; then mkdir -p /tmp/isolated-failures; cp -r $snap/replays/$p /tmp/isolated-failures/$p-$tier-$s 2>/dev/null; fi
  done
done
cd /; git -C /repo worktree remove --force $wt; rm -rf $snap
