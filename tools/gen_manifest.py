#!/usr/bin/env python3
"""Writes MANIFEST.json from the table below (keeps the file valid and uniform)."""
import json
from pathlib import Path

ROOT = Path(__file__).resolve().parent.parent
BASE_NOTE = ("Trusted: Lean 4.33 kernel with axioms propext/Classical.choice/Quot.sound only (audited per run, no sorry/"
             "native_decide/own axioms); the hand-written Lean model is tied to /repo's working tree by a differential "
             "correspondence check on generated inputs (testing, not proof) and by tables regenerated from the source; "
             "harness/cparse.py reads the emitted C++; Python built-ins, Jinja2, tomlkit, lark, g++ and IEEE-754 evaluation "
             "are outside the theorems (which are over exact rings / the reals). ")

CHECKS = {
    "C01": dict(
        text="Theorem rhs_eq_massAction: for every reaction list, slot, commutative ring, k and y the model's emitted "
             "right-hand side equals the mass-action sum (multiplicities, catalysts, isolated species, thermal row). The "
             "model is fed the implementation's own species.index lists and must reproduce the parsed ydot statements of "
             "all four back-ends as exact polynomials; an independent oracle compares the parsed statements with the law "
             "computed from the generator's ground truth.",
        design="4/C01", technique="Lean 4 proof (induction over the reaction list) + model/implementation differential check",
        note="Floating-point summation order and the C++ compiler are not modelled; GetNumDens/GetMu bodies treated as symbols."),
    "C02": dict(
        text="Theorem jac_eq_pderiv: in MvPolynomial (Coef ⊕ ℕ) ℤ every model Jacobian entry is MvPolynomial.pderiv of the "
             "model right-hand side (repeated reactants, catalysts, ODE modifiers with any dependency list, thermal row); "
             "omitted entries are zero derivatives. Tie: parsed IJth/data/j() statements vs model; oracle: formal derivative of "
             "the parsed fex polynomial vs parsed Jacobian entry for every (row, col).",
        design="4/C02", technique="Lean 4 proof over Mathlib MvPolynomial.pderiv + differential check",
        note="'rate coefficients held fixed' read as: every identifier other than y[IDX_*] is a constant of the emitted text."),
    "C03": dict(
        text="Theorems csr_wellformed, csr_cols_sorted_in_range, csr_triples_iff, decodeFlat_encode, pattern_iff, "
             "subscripts_in_bounds for every matrix size and entry function: the CSR walk yields n+1 monotone row pointers "
             "from 0 to nnz, strictly increasing in-range columns, and stores exactly the non-'0.0' dense entries. Tie: all four "
             "renderings of the same network + pattern file compared with the model and with each other; every emitted "
             "subscript range-checked against the emitted macros.",
        design="4/C03", technique="Lean 4 proof (induction over rows) + differential check across four back-ends",
        note="Memory safety of hand-written template code other than generated subscripts is outside the model."),
    "C04": dict(
        text="Theorem conservation: for every weight function balanced on every reaction, the weighted sum of the model's "
             "emitted derivatives is 0 in any commutative ring (corollary of C01 + a counting lemma). Tie/oracle: on balanced "
             "generated networks the element- and charge-weighted sums of the parsed ydot polynomials are the zero polynomial; "
             "naunet's own element_count/charge must equal the generator's composition; GetElementAbund body parsed.",
        design="4/C04", technique="Lean 4 proof (Finset sums) + exact polynomial check of emitted code",
        note="Balanced-ness of the input network is the hypothesis; species composition comes from naunet's parser (C08)."),
    "C13": dict(
        text="Theorems override_exact / override_untouched (statement p is replaced iff a key equals the file index of "
             "reaction p, guard dropped; otherwise untouched) and odeMod_only_target / odeMod_value. Tie: model applied to the "
             "unmodified rendering's statements must equal the modified rendering; oracle diffs modified vs unmodified "
             "renderings (rates and fex polynomials).",
        design="4/C13", technique="Lean 4 proof (list induction) + differential check of modified vs unmodified renderings",
        note="The path through the configuration file (init -> toml -> render, export) is exercised with C20's machinery on modifier-carrying descriptions."),
    "C19": dict(
        text="Theorems solve_success_exact (for every script of integrator outcomes - successes, flags -1..-4 with arbitrary "
             "partial progress, reset flag -6, failing re-initialisation - at every call position of the five levels, in any "
             "additive commutative group of times: SUCCESS implies the state advanced by exactly dt), fail_logs_initial_state, "
             "unrecoverable_fails, reinit_failure_fails, five_levels_then_fail, odeint_budget. Tie: the rendered naunet.cpp "
             "(dense, sparse, odeint) is compiled against a scripted mock integrator and must agree with the model's result "
             "and final state on every script; the oracle checks the property statement directly on the compiled code.",
        design="4/C19", technique="Lean 4 proof (ladder invariant by induction over levels and sub-steps) + compiled-code differential check",
        note="Exact arithmetic: pow(10, log10(dt)) = dt is the hypothesis LastTargetExact (binary64 differs by ~1e-16 relative; "
             "comparison tolerance 1e-9). Real SUNDIALS/Boost replaced by /verif/shim; cuSPARSE Solve has no error handling and is not covered."),
    "C14": dict(
        text="Theorem run_inv / reachable_inv: for every history of add / add-many / remove (index, index list, instance, "
             "instance list) / set-allowed / set-required the cached reactant and product sets are exactly those of the held "
             "reactions, held reactions pass and skipped reactions fail the allowed filter; species_eq, source_sink_eq, "
             "setAllowed_eq_construct (late allowed list = construction, no reaction lost). Tie: after every step of every "
             "generated history the real Network's species, held/skipped reactions, sources and sinks must equal the model's; "
             "oracle = recompute-from-scratch reference; `naunet extend` run on generated files.",
        design="4/C14", technique="Lean 4 proof (invariant preserved by every operation, induction over histories) + step-wise differential check",
        note="Species are abstract identity keys in the model (name parsing is C08); order of reactions after a late "
             "allowed-species change is claimed only as a multiset; de-duplication is C15; reindex is exercised through extend."),
    "C15": dict(
        text="Theorems dup_iff_earlier_equal (an index is reported iff an earlier element is equivalent), dupIdx_sorted, "
             "remove_dups_one_representative, findDup_fst, for every list and every comparison that is an equivalence relation "
             "(key_isEquiv: all key-based modes are). F14_witness proves the default mode is not transitive once UNKNOWN-typed "
             "reactions are mixed in. Tie: four modes on generated lists vs the model and vs an O(n^2) pairwise oracle.",
        design="4/C15", technique="Lean 4 proof (accumulator invariant `Covers`) + differential check vs pairwise oracle",
        note="Default mode with untyped (UNKNOWN) reactions is a known finding (F14): the theorem's IsEquiv hypothesis excludes it."),
    "C17": dict(
        text="Theorems order_independent (the species order is the same for every permutation of the species collection: "
             "set iteration order / hash seed cannot show), order_idempotent, noninterference (for a network that states its "
             "element lists the result of an entry point does not depend on the global parser state left by other networks), "
             "leak_example (networks without lists do read it - outside the quantifier). Tie (runtime, observed): sha256 of the "
             "rendered trees across fresh processes with different PYTHONHASHSEED, repeated renderings, interleavings with "
             "building/querying/rendering/editing other networks, two `naunet render` runs in one process; the model's sort "
             "reproduces the implementation's species order on shuffled inputs.",
        design="4/C17", technique="Lean 4 proof (sorting + permutation, prologue non-interference) + cross-process hash comparison",
        note="Partial by nature: process-level effects (hash seed, module-level state) are only observed on the generated "
             "descriptions; the theorems cover the ordering logic and the prologue pattern, not every module-level variable."),
    "C06": dict(
        text="Theorems window_sem (for all bounds and temperatures in any linear order the emitted guard is true exactly when "
             "Tmin <= T < Tmax, bounds <= 0 unbounded), outside_zero / inside_rate, no_window_always_active, window_partition "
             "(for strictly increasing positive bounds exactly one adjacent window is active at every T in [t0, tn), boundaries "
             "included). Tie: guards parsed from the rendered rates of networks read from native/KIDA/UMIST/KROME files, "
             "evaluated and executed (compiled EvalRates against the shim, k pre-filled with NaN) at nextafter-below/at/above "
             "every bound; zero initialisers of k[] at every EvalRates call site; KROME bound reader vs model.",
        design="4/C06", technique="Lean 4 proof (linear-order case analysis, induction over the bound list) + parsed-guard and compiled-code differential check",
        note="A rate modifier replaces the guard together with the rate (documented in C13). Python's float() reads the bound text."),
    "C05": dict(
        text="Theorem parse_eq_expected (exhaustive kernel evaluation: for all 32 gas-phase templates x 64 sign classes of "
             "alpha/beta/gamma with arbitrary opaque magnitudes x 7 first reactants, the emitted characters after _beautify lex "
             "with maximal munch and parse - no '--'/'++' token - to a stated tree); law theorems over the reals on those trees "
             "for all coefficient values and all T, Av, zeta...: arrhenius_law, cosmicray_law, photo_law, ionpol1_law, "
             "ionpol2_law, umist_cp_law, crphot_law, crphot_scaled_law, cr_scaled_law, photo_g0_law; type_tables over the "
             "code tables regenerated from the source. Tie: real rateexpr() strings of all five classes compared character by "
             "character with the model; oracle evaluates the emitted text against independently written published laws and "
             "compiles all strings with g++ -fsyntax-only.",
        design="4/C05", technique="Lean 4 proof (decide +kernel over templates x sign classes; real-analysis identities) + character-level differential check",
        note="Non-finite coefficients (inf/nan) are outside; magnitudes are opaque (Python repr never starts/ends with a sign); "
             "IEEE evaluation is compared with 1e-9 relative tolerance; shielding functions are opaque symbols."),
    "C07": dict(
        text="Theorems native_roundtrip and kida_roundtrip (for every well-formed abstract line - any names within the column "
             "budget, multiplicities, numbers - decode (encode l) = l, assembled from generic lemmas: split inverts join, strip of "
             "padded fields, split() on fixed-width columns), markers_never_species, readFile_append / _blank / _data (one reaction "
             "per data line, blank lines add none). UMIST, UCLCHEM and Leeds decoders are executable models checked on examples "
             "and by correspondence; KROME is checked against the generator's ground truth only. Tie: generated files of all six "
             "formats (columns filled to the limit, every code) read by the real Network and by the model.",
        design="4/C07", technique="Lean 4 proof (list/string lemmas, round trips) + differential check against own encoders",
        note="Round-trip theorems are proved for the native and KIDA formats; UMIST/UCLCHEM/Leeds/KROME are model-vs-code and "
             "oracle only (partial). Python float()/int() read the numeric text."),
    "C18": dict(
        text="Theorems native_roundtrip, second_cycle (write-read-write is idempotent), type_code_shared (computed table of the "
             "(format, code) pairs whose exported type number re-renders to the same expression) and F15_witness. Tie: networks "
             "of every input format written, re-read, re-written; text of the model encoder equals Network.write; rates of the "
             "re-read network evaluated against the direct ones.",
        design="4/C18", technique="Lean 4 proof (string round trip; decide +kernel over rate templates) + write/read differential check",
        note="alpha/beta/gamma are compared at the printed precision (10.3e); species order inside a reaction is preserved as a "
             "multiset (the writer sorts names); F15-* are known findings (export keeps only the basic type number)."),
    "C08": dict(
        text="Theorems walk_covers (for every configuration and match list: a successful walk means the matched symbols tile "
             "the name with digit runs only between and after them - no foreign character can be skipped), pair_table (kernel "
             "evaluation over all ordered pairs of the default elements regenerated from the source, with counts), "
             "longest_first_examples (He, Fe, Si, Mg never split), foreign_rejected_examples, charge_plus / charge_minus, "
             "massNumber_additive. Tie: thousands of names spelled from random compositions over three configurations (default, "
             "'G' prefix, upper-case list with replacement) plus a malformed stream: every observable attribute of the real "
             "Species compared with the model; oracle = the spelled composition.",
        design="4/C08", technique="Lean 4 proof (walk invariant; decide +kernel over the symbol table) + large differential check",
        note="Partial (named): the later matching passes on arbitrary user lists are characterised only through walk_covers and "
             "the default-list table; the upper-case alias replacement is compared by the oracle, not modelled."),
    "C09": dict(
        text="Theorems idx_bijective (macro values are 0..n-1 in order; identifiers distinct iff aliases distinct), "
             "ident_legal_iff (IDX_<alias> is a legal identifier iff the basename is alphanumeric), alias_shape, "
             "artefacts_agree, F9_witness, F10_fixed. Tie: naming-convention networks and random ones rendered for several "
             "back-ends, enzo patch and `naunet render` summary: macros, Python constants, summary and per-species table "
             "compared with each other, with the model's aliases and with the identifier grammars.",
        design="4/C09", technique="Lean 4 proof (list maps, identifier characterisation) + cross-artefact differential check",
        note="F9 (H2*, c-C3H2, l-C3H give illegal identifiers) is a known finding; ident_legal_iff names the excluded class."),
    "C16": dict(
        text="Theorems renorm_restores / renorm_ratio (over any field, any finite species and element sets, any composition "
             "matrix, masses with A_s != 0, any abundance vector and H != 0: if r solves the generated system M r = b then the "
             "renormalised total of every element is H*b_i, hence the ratio to hydrogen is the stored reference ratio), "
             "identity_factor + ones_solves (identity when the ratios already match and all elements are atomic), "
             "electron_untouched. Tie: naunet_renorm.cpp of three back-ends parsed into exact rational expressions, compared with "
             "the model fed by naunet's own counts and mass numbers; oracle solves the parsed system exactly (Fractions) on "
             "random positive vectors and recomputes element totals from the generator's ground truth.",
        design="4/C16", technique="Lean 4 proof (Finset sum exchange + field_simp) + exact rational evaluation of the emitted code",
        note="Hypothesis A_s != 0 excludes grain species (mass number 0): known finding F11. IEEE evaluation and the dense solver "
             "are not modelled; 'finite' is implied by exact solvability of the non-singular system."),
    "C10": dict(
        text="Theorems firstUndeclared_none_iff (the use-def walk reports nothing iff every derived quantity uses only names "
             "declared before it), merge_keys_nodup (the merged registry declares every symbol exactly once), "
             "closed_combo_partial (decide +kernel over the class registries regenerated from the source: every reaction format "
             "alone, with each grain model except hh93i, with thermal processes - given the species H2 - is closed), F13_witness, "
             "F17_witness. Tie: ~60 rendered (network, grain model, back-end) combinations compiled with g++ -fsyntax-only against "
             "the SUNDIALS/Boost stand-ins; the compiler's verdict must equal the model's verdict on the network's own registries.",
        design="4/C10", technique="Lean 4 proof (use-def closure, decide over generated registries) + compilation of rendered sources",
        note="Partial: only naunet's registered names are modelled; types, the rate expressions themselves and the real "
             "SUNDIALS/Boost headers are covered by compilation against /verif/shim only. F13, F17, F9-compile are known findings."),
    "C12": dict(
        text="Theorem toC_preserves (for every parse tree of the translator's grammar and every valuation: the translated C "
             "tree has the value Fortran assigns to the parse tree - ** to pow with the same operands, intrinsic calls, "
             "parentheses, signed literals, operator chains), args_preserves, F7_witness. Tie: the tree Lark built for every "
             "accepted expression is serialised; the model's text must equal the emitted C text; oracle = independent reference "
             "Fortran reader (right-associative **, unary minus below **) evaluated against the C text at random valuations, on "
             "grammar-derived expressions and on all rates of the bundled KROME networks; abundance references compared with "
             "the species aliases; malformed texts must be rejected.",
        design="4/C12", technique="Lean 4 proof (structural induction over parse trees) + differential check against a reference Fortran reader",
        note="Partial: Lark's Earley parser (text -> tree) is not modelled; its misreadings are the known findings F7-chain, "
             "F7-sign and F8. Values compared in binary64 with 1e-9 relative tolerance."),
    "C20": dict(
        text="Theorems parseList_showList, parseKV_showKV, config_roundtrip (for every description whose items are free of the "
             "option syntax's separators: reading the written option strings back gives exactly the description, field by field, "
             "empty lists included), separator_splits. Tie: descriptions passed through `naunet init --render`, through "
             "Network.export + `naunet render`, and the bundled examples x methods (via `example --dry`), each in a fresh "
             "process: every field of the written TOML must equal the request and the rendered tree must be byte-identical to the "
             "API rendering of the same description; the model parses the same option strings.",
        design="4/C20", technique="Lean 4 proof (split/join/strip lemmas) + CLI-vs-API byte comparison of rendered trees",
        note="tomlkit dump/load is trusted as the identity on the TOML tree; numeric tables (binding energies, yields) and modifier "
             "syntax are compared by the oracle, not by the theorems; a project exported from a network with a replacement table "
             "cannot be re-rendered (refused with an error - the API has no replacement argument)."),
    "C11": dict(
        text="Theorems grain_parses (every implemented (dust model, type) pair emits, for every sign class of alpha and every kind "
             "of reactant, text that parses as C after _beautify), dispatch_table (exactly which pairs are implemented; all others "
             "refuse), law_trees_match + hh93_depletion_law, nu0_law, hh93_thermal_law, rr07_depletion_law, rr07x_thermal_law over "
             "the reals (accretion, characteristic frequency, thermal desorption, UCLCHEM freeze-out incl. ion / electron cases), "
             "using the species' own mass number and binding-energy symbol. Tie: real grain reactions of the Leeds / UCLCHEM / "
             "native classes with all five grain classes: emitted text compared character by character with the model and "
             "evaluated against separately written physical formulas with thresholds placed around the species' binding energy; "
             "emitted eb_ constants and yields compared with an own reading of the data table and the user overrides.",
        design="4/C11", technique="Lean 4 proof (decide +kernel over templates; real-analysis identities) + character-level differential check",
        note="Law theorems cover 5 of the 15 templates (the others are checked for parse-ability, by correspondence and by the "
             "numeric oracle only). The reference formulas are transcribed from memory of HH93 / RR07 / UCLCHEM v1.3: an error "
             "common to naunet and the transcription is not detectable."),
}

NOT_YET = {}

def main():
    props = [json.loads(l) for l in (ROOT / "properties.jsonl").read_text().splitlines() if l.strip()]
    checks = []
    na = []
    for p in props:
        pid = p["id"]
        if pid in CHECKS:
            c = CHECKS[pid]
            checks.append({
                "property_id": pid,
                "quick_cmd": f"./check {pid} quick",
                "thorough_cmd": f"./check {pid} thorough",
                "evidence_file": f"evidence/{pid}.json",
                "replay_cmd_template": f"./check {pid} --replay {{path}}",
                "engine": "lean4+harness",
                "level_claimed": {"category": "proof", "text": c["text"], "design_ref": c["design"]},
                "level_note": BASE_NOTE + c["note"],
                "technique": c["technique"],
            })
        else:
            na.append({"property_id": pid, "reason": NOT_YET.get(pid, "check not built yet in this session (planned: Lean model + correspondence, see DESIGN.md section 4)")})
    man = {
        "version": 1,
        "setup_cmd": "cd lean && lake build",
        "hooks": {"guard": "NAUNET_VERIF", "enable": "no hooks are needed: the checks import /repo's working tree directly (editable install in /venv)",
                  "baseline_off_cmd": "cd /repo && /venv/bin/python -m pytest -ra -q -p no:cacheprovider --timeout=900 --continue-on-collection-errors",
                  "source_commits": [], "add_only": True},
        "engines": [{"name": "lean4+harness", "path": "check", "serves_properties": [c["property_id"] for c in checks],
                     "kind_free_text": "Lean 4 theorems about a hand-written model (lean/), tied to /repo by a differential correspondence check and specification oracles (harness/)"}],
        "checks": checks,
        "notes": "See DESIGN.md. KNOWN_FINDINGS.json lists genuine defects (fixed ones with their fix: commit).",
        "not_applicable": na,
    }
    (ROOT / "MANIFEST.json").write_text(json.dumps(man, indent=1, ensure_ascii=False) + "\n")

main()
