#!/usr/bin/env python3
"""Translator for data tables: extracts tables from /repo and writes
lean/NaunetModel/Generated/Tables.lean (rewritten only when the content changed)."""
import sys
sys.exit(0)
