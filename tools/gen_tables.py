#!/usr/bin/env python3
"""Translator for data tables: extracts the tables the Lean model quantifies over from /repo's *current* sources
(run-time introspection of the classes + `ast` for constants that live in function bodies) and writes
lean/NaunetModel/Generated/Tables.lean.  The file is rewritten only when its content changes."""
import ast
import logging
import os
import re
import sys
from pathlib import Path

logging.disable(logging.CRITICAL)
ROOT = Path(__file__).resolve().parent.parent
OUT = ROOT / "lean" / "NaunetModel" / "Generated" / "Tables.lean"


def lstr(s):
    return '"' + s.replace("\\", "\\\\").replace('"', '\\"') + '"'


def llist(items):
    return "[" + ", ".join(items) + "]"


def function_constants(path, funcname, names):
    """values of simple assignments `name = <literal>` inside the function `funcname` of a source file"""
    tree = ast.parse(Path(path).read_text())
    out = {}
    for node in ast.walk(tree):
        if isinstance(node, ast.FunctionDef) and node.name == funcname:
            for sub in ast.walk(node):
                if isinstance(sub, ast.Assign) and len(sub.targets) == 1 and isinstance(sub.targets[0], ast.Name) \
                        and sub.targets[0].id in names:
                    try:
                        out.setdefault(sub.targets[0].id, ast.literal_eval(sub.value))
                    except Exception:
                        pass
    return out


import contextlib
import io
import tempfile


def strip_comments(text):
    text = re.sub(r"/\*.*?\*/", " ", text, flags=re.S)
    return re.sub(r"//[^\n]*", " ", text)

def body_of(text, name):
    m = re.search(r"\b" + re.escape(name) + r"\s*\([^;{]*\)\s*\{", text)
    if not m:
        return ""
    i, depth = m.end(), 1
    while i < len(text) and depth:
        depth += text[i] == "{"
        depth -= text[i] == "}"
        i += 1
    return text[m.end():i - 1]

def solver_objects():
    """how the rendered cvode driver constructs its vector, matrix and linear solver in Init and in Reset, and which matrix
    accessors the rendered Jacobian function uses - read off a rendering of a one-reaction network, per method"""
    from naunet.network import Network
    from naunet.reactions import Reaction
    from naunet.reactiontype import ReactionType as RT
    from naunet.species import Species
    rows, acc = [], []
    for method in ("dense", "sparse"):
        Species.reset()
        with tempfile.TemporaryDirectory() as d, contextlib.redirect_stdout(io.StringIO()), contextlib.redirect_stderr(io.StringIO()):
            net = Network([Reaction(["H", "H"], ["H2"], alpha=1e-17, reaction_type=RT.GAS_TWOBODY, idxfromfile=1)])
            net.to_code(solver="cvode", method=method, device="cpu", path=d)
            src = strip_comments((Path(d) / "src" / "naunet.cpp").read_text())
            jac = strip_comments((Path(d) / "src" / "naunet_jac.cpp").read_text())
            macros = strip_comments((Path(d) / "include" / "naunet_macros.h").read_text())
        for fn in ("Init", "Reset"):
            body = body_of(src, f"Naunet::{fn}")
            for field in ("cv_y_", "cv_a_", "cv_ls_"):
                for m in re.finditer(re.escape(field) + r"\s*=\s*(\w+)\s*\(([^;]*)\)\s*;", body):
                    args = [a.strip() for a in m.group(2).split(",")]
                    if args and args[-1] == "cv_sunctx_":
                        args = args[:-1]
                    rows.append((method, fn, field, m.group(1), args))
        jbody = body_of(jac, "Jac")
        names = set(re.findall(r"\b(SM_ELEMENT_[DB]|SM_COLUMN_[DB]|SUNSparseMatrix_\w+|SUNDenseMatrix_\w+|IJth)\b", jbody))
        alias = dict(re.findall(r"#define\s+(IJth)\s*\([^)]*\)\s*(\w+)", jac + macros))
        acc.append((method, sorted({alias.get(n, n) for n in names})))
    return rows, acc


def rate_arrays():
    """the rate-coefficient arrays every function that evaluates the right-hand side or the Jacobian declares: back-end, function,
    array name, declared size, whether it is `static`, its initialiser - read off renderings of a one-reaction network (the
    heating / cooling arrays sit under `#if` in the text whether or not the network has such processes)"""
    from naunet.network import Network
    from naunet.reactions import Reaction
    from naunet.reactiontype import ReactionType as RT
    from naunet.species import Species
    rows = []
    for backend, (solver, method, device) in (("dense", ("cvode", "dense", "cpu")), ("sparse", ("cvode", "sparse", "cpu")),
                                              ("cusparse", ("cvode", "cusparse", "gpu")), ("rosenbrock4", ("odeint", "rosenbrock4", "cpu"))):
        Species.reset()
        with tempfile.TemporaryDirectory() as d, contextlib.redirect_stdout(io.StringIO()), contextlib.redirect_stderr(io.StringIO()):
            net = Network([Reaction(["H", "H"], ["H2"], alpha=1e-17, reaction_type=RT.GAS_TWOBODY, idxfromfile=1)])
            net.to_code(solver=solver, method=method, device=device, path=d)
            texts = {}
            for f in sorted((Path(d) / "src").glob("naunet_*.c*")):
                texts[f.name] = strip_comments(f.read_text())
        if backend == "rosenbrock4":
            funcs = [("naunet_ode.cpp", "Fex::operator()"), ("naunet_ode.cpp", "Jac::operator()")]
        elif backend == "cusparse":
            funcs = [(n, fn) for n in texts for fn in ("FexKernel", "JacKernel") if fn in texts[n]]
        else:
            funcs = [("naunet_fex.cpp", "Fex"), ("naunet_jac.cpp", "Jac")]
        for fname, fn in funcs:
            body = body_of(texts.get(fname, ""), fn)
            for m in re.finditer(r"(static\s+)?(?:const\s+)?(?:realtype|double)\s+(k|kh|kc)\s*\[\s*(\w+)\s*\]\s*(?:=\s*\{([^}]*)\})?\s*;", body):
                rows.append((backend, fn, m.group(2), m.group(3), bool(m.group(1)), (m.group(4) or "").strip()))
    return rows


def main():
    import naunet
    from naunet.reactiontype import ReactionType
    from naunet.reactions.kidareaction import KIDAReaction
    from naunet.reactions.umistreaction import UMISTReaction
    from naunet.reactions.leedsreaction import LEEDSReaction
    from naunet.reactions.uclchemreaction import UCLCHEMReaction
    from naunet.species import Species
    from naunet import chemistrydata
    pkg = Path(naunet.__file__).parent
    L = []
    L.append("/- GENERATED by tools/gen_tables.py from /repo's current sources – do not edit. -/")
    L.append("namespace Naunet.Tables\n")
    L.append("def reactionTypes : List (String × Nat) := " + llist(f"({lstr(m.name)}, {int(m.value)})" for m in ReactionType) + "\n")
    L.append("def kidaFormula2Type : List (Nat × Nat) := " + llist(f"({k}, {int(v)})" for k, v in KIDAReaction.formula2type.items()) + "\n")
    L.append("def umistCode2Type : List (String × Nat) := " + llist(f"({lstr(k)}, {int(v)})" for k, v in UMISTReaction.code2type.items()) + "\n")
    L.append("def leedsRtype2Type : List (Nat × Nat) := " + llist(f"({k}, {int(v)})" for k, v in LEEDSReaction.rtype2type.items()) + "\n")
    L.append("def uclchemReactant2Type : List (String × Nat) := " + llist(f"({lstr(k)}, {int(v)})" for k, v in UCLCHEMReaction.reactant2type.items()) + "\n")
    L.append("def defaultElements : List String := " + llist(lstr(e) for e in Species.default_elements) + "\n")
    L.append("def defaultPseudoElements : List String := " + llist(lstr(e) for e in Species.default_pseudoelements) + "\n")
    # mass numbers (protons + neutrons) exactly as Species.massnumber sums them
    masses = {}
    order = []
    for e in chemistrydata.periodic_table + chemistrydata.isotopes_table:
        a = float(e.NumberofNeutrons) + float(e.NumberofProtons)
        if e.Symbol not in masses:
            order.append(e.Symbol)
        masses[e.Symbol] = masses.get(e.Symbol, 0.0) + a
    L.append("def massNumbers : List (String × Nat) := " + llist(f"({lstr(s)}, {int(masses[s])})" for s in order if masses[s] == int(masses[s])) + "\n")
    # column constants living in function bodies
    kc = function_constants(pkg / "reactions" / "kidareaction.py", "_parse_string", {"rlen", "plen"})
    L.append(f"def kidaRlen : Nat := {kc['rlen']}\ndef kidaPlen : Nat := {kc['plen']}\n")
    lc = function_constants(pkg / "reactions" / "leedsreaction.py", "_parse_string", {"list_label", "list_strlen"})
    L.append("def leedsLabels : List String := " + llist(lstr(x) for x in lc["list_label"]))
    L.append("def leedsWidths : List Nat := " + llist(str(x) for x in lc["list_strlen"]) + "\n")
    # native exchange format: field widths of Reaction.__format__('naunet')
    src = (pkg / "reactions" / "reaction.py").read_text()
    m = re.search(r'elif form == "naunet":(.*?)elif form == "kida":', src, re.S)
    widths = re.findall(r"\{[\w.\']*:[<>]?(\d+)(?:\.\d+[ef])?\}", m.group(1))
    L.append("def nativeWidths : List Nat := " + llist(widths) + "\n")
    # init command: allowed solver methods; config keys
    isrc = (pkg / "console" / "commands" / "init.py").read_text()
    m = re.search(r"allowed_method\s*=\s*(\{.*?\})\s*\n", isrc, re.S)
    if m:
        try:
            am = ast.literal_eval(m.group(1))
            L.append("def allowedMethods : List (String × List String) := " +
                     llist(f"({lstr(k)}, {llist(lstr(x) for x in v)})" for k, v in am.items()) + "\n")
        except Exception:
            pass
    # symbol registries of every component class, in registration order (C10)
    from naunet.reactions import Reaction, KROMEReaction
    from naunet.reactiontype import ReactionType as RT
    from naunet.grains import Grain, HH93Grain, HH93IGrain, RR07Grain, RR07XGrain
    from naunet.thermalprocess import supported_cooling_process
    Species.reset()
    insts = []
    insts.append(("Reaction", Reaction(["H"], ["H"], reaction_type=RT.GAS_TWOBODY)))
    insts.append(("KIDAReaction", KIDAReaction(f"{'H':<11}{'H':<11}{'':<11} {'H2':<11}{'':<44} 1.000e-10 0.000e+00 0.000e+00 2.00e+00 0.00e+00 logn  1    -9999   9999  3     1 1  1")))
    insts.append(("UMISTReaction", UMISTReaction('1:NN:H:H:H2::::1:1.00e-10:0.00:0.0:10:41000:L:C:"x"::')))
    insts.append(("LEEDSReaction", LEEDSReaction(f"{1:<5d}{'H':<10}{'H':<10}{'':<10}{'H2':<10}{'':<40}{1e-10:8.2E}{0.0:9.2f}{0.0:10.1f}{5:5d}{41000:5d}{1:3d}")))
    insts.append(("UCLCHEMReaction", UCLCHEMReaction("H,H,NAN,H2,NAN,NAN,NAN,1.0e-10,0.0,0.0,0,0")))
    KROMEReaction.initialize()
    insts.append(("KROMEReaction", KROMEReaction("1,H,H,,H2,,,,10,100,1.0d-10")))
    for name, cls in (("Grain", Grain), ("HH93Grain", HH93Grain), ("HH93IGrain", HH93IGrain), ("RR07Grain", RR07Grain), ("RR07XGrain", RR07XGrain)):
        insts.append((name, cls()))
    insts.append(("ThermalProcess", supported_cooling_process["CIC_HI"]))
    ident = re.compile(r"[A-Za-z_]\w*")
    rows = []
    for name, obj in insts:
        items = []
        for key, var in obj._symbols.items():
            val = var.value
            uses = sorted(set(ident.findall(val))) if isinstance(val, str) else []
            # numeric literals such as 1e-5 contain the letter e: drop pure exponent fragments
            uses = [u for u in uses if not re.fullmatch(r"[eEdD]\d*", u)]
            items.append(f"({lstr(var.type.name)}, {lstr(var.symbol)}, {llist(lstr(u) for u in uses)})")
        rows.append(f"({lstr(name)}, {llist(items)})")
    L.append("def classRegistries : List (String × List (String × String × List String)) := " + llist(rows) + "\n")
    # global constants declared by naunet_constants.cpp.j2
    csrc = (pkg / "templates" / "base" / "cpp" / "src" / "naunet_constants.cpp.j2").read_text()
    consts = re.findall(r"\{\{ spec \}\} double (\w+)\s*=", csrc)
    L.append("def globalConstants : List String := " + llist(lstr(c) for c in consts) + "\n")
    # the solver object of the cvode driver, read off a rendering (C03: the matrix Jac() fills is the one Init / Reset built)
    so_rows, so_acc = solver_objects()
    L.append("def solverObjects : List (String × String × String × String × List String) := " +
             llist(f"({lstr(m)}, {lstr(fn)}, {lstr(fld)}, {lstr(ctor)}, {llist(lstr(a) for a in args)})" for m, fn, fld, ctor, args in so_rows) + "\n")
    L.append("def jacAccessors : List (String × List String) := " + llist(f"({lstr(m)}, {llist(lstr(a) for a in acc)})" for m, acc in so_acc) + "\n")
    ra = rate_arrays()
    L.append("def rateArrays : List (String × String × String × String × Bool × String) := " +
             llist(f"({lstr(b)}, {lstr(fn)}, {lstr(nm)}, {lstr(sz)}, {'true' if st else 'false'}, {lstr(init)})" for b, fn, nm, sz, st, init in ra) + "\n")
    L.append("end Naunet.Tables\n")
    text = "\n".join(L)
    OUT.parent.mkdir(parents=True, exist_ok=True)
    if not OUT.exists() or OUT.read_text() != text:
        OUT.write_text(text)
        print("Tables.lean rewritten")
    return 0


if __name__ == "__main__":
    sys.exit(main())
