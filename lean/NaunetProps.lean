import NaunetProps.Lemmas.OdeSem
import NaunetProps.Lemmas.OdePoly
import NaunetProps.C01
import NaunetProps.C02
import NaunetProps.C04
import NaunetProps.C03
import NaunetProps.C13
import NaunetProps.C19
