/-
  Model of `naunet/species.py`: name → composition (`_parse_molecule_name`, `_add_element_count`),
  charge, basename, gasname, alias, mass number, `is_atom`, equality and hash keys.  Core Lean only.
-/
import NaunetModel.Generated.Tables

namespace Naunet.Sp

abbrev Str := List Char

/-- parser configuration: the class-level lists plus the per-species symbols -/
structure Cfg where
  elements : List Str
  pseudo   : List Str
  grain    : Str := "GRAIN".toList
  surface  : Str := "#".toList
  repl     : List (Str × Str) := []
  deriving Repr

/-- the literal text a component matches when used as a regular expression (`\*` is the only
    escaped symbol of the default lists) -/
def patText (c : Str) : Str :=
  match c with
  | '\\' :: rest => rest
  | _ => c

/-- stable sort by length, longest first (`sorted(..., key=len, reverse=True)`) -/
def insertByLen (x : Str) : List Str → List Str
  | [] => [x]
  | y :: ys => if y.length ≥ x.length then y :: insertByLen x ys else x :: y :: ys

def sortByLen (l : List Str) : List Str := l.foldl (fun acc x => insertByLen x acc) []

/-- does the pattern occur at the head of the (masked) text? -/
def matchHere : Str → List (Option Char) → Bool
  | [], _ => true
  | _ :: _, [] => false
  | p :: ps, some c :: rest => p == c && matchHere ps rest
  | _ :: _, none :: _ => false

/-- `re.finditer(c, text)`: leftmost non-overlapping occurrences, as start offsets -/
def findAll (pat : Str) : Nat → Nat → List (Option Char) → List Nat
  | 0, _, _ => []
  | _, _, [] => []
  | fuel+1, pos, t@(_ :: rest) =>
    if pat.isEmpty then [] else
    if matchHere pat t then pos :: findAll pat fuel (pos + pat.length) (t.drop pat.length)
    else findAll pat fuel (pos + 1) rest

/-- replace the span by blanks (masked) -/
def maskSpan (t : List (Option Char)) (start len : Nat) : List (Option Char) :=
  t.take start ++ List.replicate (min len (t.length - start)) none ++ t.drop (start + len)

structure Match where
  start : Nat
  stop  : Nat
  name  : Str        -- the component as listed (before replacement)
  deriving DecidableEq, Repr

/-- the loop over the sorted components: collect matches, masking what was found -/
def collect (comps : List Str) (text : List (Option Char)) : List Match :=
  (comps.foldl (fun (acc : List Match × List (Option Char)) c =>
      let pat := patText c
      let starts := findAll pat (acc.2.length + 1) 0 acc.2
      let ms := starts.map fun s => (⟨s, s + pat.length, pat⟩ : Match)
      (acc.1 ++ ms, starts.foldl (fun t s => maskSpan t s pat.length) acc.2)) ([], text)).1

def insertByStart (m : Match) : List Match → List Match
  | [] => [m]
  | y :: ys => if y.start ≤ m.start then y :: insertByStart m ys else m :: y :: ys

def sortByStart (l : List Match) : List Match := l.foldl (fun acc m => insertByStart m acc) []

inductive Err where
  | startsUnknown | unknownPart | repeatedSurface | repeatedGrain
  deriving DecidableEq, Repr

structure Parsed where
  counts   : List (Str × Nat) := []     -- element counts in first-seen order
  surface  : Option Nat := none          -- surface group
  grain    : Option Nat := none          -- grain group
  deriving DecidableEq, Repr

def isDigit (c : Char) : Bool := '0' ≤ c && c ≤ '9'
def digitsVal (ds : Str) : Nat := ds.foldl (fun n c => 10 * n + (c.toNat - '0'.toNat)) 0

def addCount (counts : List (Str × Nat)) (el : Str) (n : Nat) : List (Str × Nat) :=
  if counts.any (·.1 == el) then counts.map (fun p => if p.1 == el then (p.1, p.2 + n) else p) else counts ++ [(el, n)]

/-- `_add_element_count` -/
def addElement (cfg : Cfg) (p : Parsed) (el : Str) (count : Nat) : Except Err Parsed :=
  if el ∈ cfg.pseudo then .ok p
  else if el == cfg.surface then
    (if p.surface.isSome then .error .repeatedSurface else .ok { p with surface := some count })
  else if el == cfg.grain then
    (if p.grain.isSome then .error .repeatedGrain else .ok { p with grain := some count, counts := addCount p.counts el 1 })
  else .ok { p with counts := addCount p.counts el (if count == 0 then 1 else count) }

def lookupRepl (repl : List (Str × Str)) (n : Str) : Str :=
  match repl.find? (·.1 == n) with
  | some (_, v) => v
  | none => n

/-- strip trailing `+` run, then trailing `-` run -/
def stripCharge (name : Str) : Str :=
  let r := name.reverse
  let r := r.dropWhile (· == '+')
  let r := r.dropWhile (· == '-')
  r.reverse

/-- one triple `(s, e, n)` of the walk: `n` is first replaced, then tested against the symbols -/
def stepTriple (cfg : Cfg) (text : Str) (prevEnd start : Nat) (prevName : Str) (p : Parsed) : Except Err Parsed :=
  let n := lookupRepl cfg.repl prevName
  if prevEnd == start then
    (if n ∈ [cfg.grain, cfg.surface] then addElement cfg p n 0
     else if n.isEmpty then .ok p else addElement cfg p n 1)
  else
    let gap := (text.drop prevEnd).take (start - prevEnd)
    if start > prevEnd && gap.all isDigit && !gap.isEmpty then addElement cfg p n (digitsVal gap)
    else .error .unknownPart

/-- the walk over the sorted matches: `prevEnd`, the previous match's name, and the text -/
def walk (cfg : Cfg) (text : Str) : List Match → Nat → Str → Parsed → Except Err Parsed
  | [], prevEnd, prevName, p => stepTriple cfg text prevEnd text.length prevName p
  | m :: ms, prevEnd, prevName, p =>
    match stepTriple cfg text prevEnd m.start prevName p with
    | .error e => .error e
    | .ok p' => walk cfg text ms m.stop m.name p'

/-- `_parse_molecule_name` (composition part) -/
def parse (cfg : Cfg) (name : Str) : Except Err Parsed :=
  let text := stripCharge name
  let comps := sortByLen (cfg.elements ++ cfg.pseudo ++ [cfg.grain, cfg.surface])
  let ms := sortByStart (collect comps (text.map some))
  match ms with
  | [] => if text.isEmpty then walk cfg text [] 0 [] {} else .error .startsUnknown
  | m :: _ => if m.start != 0 then .error .startsUnknown else walk cfg text ms 0 [] {}

/-- the renamed species name (when a replacement table is set) -/
def renamed (cfg : Cfg) (name : Str) : Str :=
  if cfg.repl.isEmpty then name else
  let text := stripCharge name
  let comps := sortByLen (cfg.elements ++ cfg.pseudo ++ [cfg.grain, cfg.surface])
  let ms := sortByStart (collect comps (text.map some))
  let charge := name.drop text.length
  let rec go : List Match → Nat → Str → Str
    | [], prevEnd, prevName => lookupRepl cfg.repl prevName ++ text.drop prevEnd
    | m :: rest, prevEnd, prevName =>
      lookupRepl cfg.repl prevName ++ (text.drop prevEnd).take (m.start - prevEnd) ++ go rest m.stop m.name
  go ms 0 [] ++ charge

/-! ### derived attributes -/

def trailing (c : Char) (name : Str) : Nat := (name.reverse.takeWhile (· == c)).length

def isElectron (name : Str) : Bool := name.map Char.toUpper ∈ ["E".toList, "E-".toList]

/-- `Species.charge` -/
def charge (name : Str) : Int :=
  if isElectron name then -1 else (trailing '+' name : Int) - (trailing '-' name : Int)

/-- Python `str.replace(old, "")` for a non-empty `old` -/
def removeAll (old : Str) : Nat → Str → Str
  | 0, s => s
  | _, [] => []
  | fuel+1, s@(c :: rest) =>
    if old.isEmpty then s else
    if old.isPrefixOf s then removeAll old fuel (s.drop old.length) else c :: removeAll old fuel rest

def natToStr (n : Nat) : Str := (toString n).toList

/-- the prefix string `f"{surface_prefix}{surface_group or ''}"` -/
def surfPrefix (cfg : Cfg) (p : Parsed) : Str :=
  cfg.surface ++ (match p.surface with | some 0 => [] | some g => natToStr g | none => [])

def gasname (cfg : Cfg) (p : Parsed) (name : Str) : Str :=
  if p.surface.isSome then removeAll (surfPrefix cfg p) (name.length + 1) name else name

def basename (cfg : Cfg) (p : Parsed) (name : Str) : Str :=
  let b := gasname cfg p name
  if charge name != 0 then stripCharge b else b

/-- `Species.alias` without the upper-case element replacement (applies to upper-case lists only) -/
def aliasOf (cfg : Cfg) (p : Parsed) (name : Str) : Str :=
  let ch := charge name
  (if p.surface.isSome then ['G'] else []) ++ basename cfg p name ++
    (if ch ≥ 0 then List.replicate (ch.toNat + 1) 'I' else List.replicate ((-ch).toNat) 'M')

/-- Python `str.replace(old, new)` for a non-empty `old` (left to right, non-overlapping) -/
def replaceStr (old new : Str) : Nat → Str → Str
  | 0, s => s
  | _, [] => []
  | fuel+1, s@(c :: rest) =>
    if old.isEmpty then s else
    if old.isPrefixOf s then new ++ replaceStr old new fuel (s.drop old.length) else c :: replaceStr old new fuel rest

def upperStr (s : Str) : Str := s.map Char.toUpper

/-- the replacement table built inside `Species.alias`: every symbol of naunet's periodic / isotope tables whose
    upper-case spelling is one of the configured elements, in table order, as (UPPER, Symbol) -/
def aliasRepl (cfg : Cfg) : List (Str × Str) :=
  (Tables.massNumbers.map (·.1.toList)).filterMap fun sym =>
    if upperStr sym ∈ cfg.elements then some (upperStr sym, sym) else none

/-- the basename after the upper-case → standard-symbol replacements, applied one after another to the whole basename -/
def aliasBase (cfg : Cfg) (b : Str) : Str :=
  (aliasRepl cfg).foldl (fun acc kv => replaceStr kv.1 kv.2 (acc.length + 1) acc) b

/-- `Species.alias`: optional `G`, the (re-spelled) basename, then `I`×(charge+1) or `M`×|charge| -/
def aliasFull (cfg : Cfg) (p : Parsed) (name : Str) : Str :=
  let ch := charge name
  (if p.surface.isSome then ['G'] else []) ++ aliasBase cfg (basename cfg p name) ++
    (if ch ≥ 0 then List.replicate (ch.toNat + 1) 'I' else List.replicate ((-ch).toNat) 'M')

def massNumber (p : Parsed) : Nat :=
  (p.counts.map fun (el, n) => n * (((Tables.massNumbers.find? (·.1.toList == el)).map (·.2)).getD 0)).sum

def nAtomsTotal (p : Parsed) : Nat := (p.counts.map (·.2)).sum

def isAtom (p : Parsed) (name : Str) : Bool :=
  p.counts.length == 1 && nAtomsTotal p == 1 && charge name == 0 && !isElectron name && !p.surface.isSome

end Naunet.Sp

namespace Naunet.Sp

/-- the default configuration of `Species` (lists regenerated from the source) -/
def cfgDefault : Cfg :=
  { elements := Tables.defaultElements.map String.toList, pseudo := Tables.defaultPseudoElements.map String.toList }

/-- `Species.__eq__` on parsed species -/
def eqPy (cfg : Cfg) (n1 : Str) (p1 : Parsed) (n2 : Str) (p2 : Parsed) : Bool :=
  (isElectron n1 && isElectron n2) ||
  (p1.grain.isSome && p2.grain.isSome && p1.grain == p2.grain && charge n1 == charge n2) ||
  (p1.surface.isSome && p2.surface.isSome && p1.surface == p2.surface && charge n1 == charge n2 &&
    basename cfg p1 n1 == basename cfg p2 n2) ||
  n1 == n2

/-- the tuple `Species.__hash__` hashes (grains: without the spelling, as `__eq__` – the `fix:` of F10) -/
def hashKey (cfg : Cfg) (n : Str) (p : Parsed) : Option (Str × Int × Option Nat × Option Nat) :=
  if isElectron n then none else some (if p.grain.isSome then [] else basename cfg p n, charge n, p.grain, p.surface)

/-- C / Python identifier characters -/
def isIdentChar (c : Char) : Bool := c.isAlphanum || c == '_'
def isIdent (s : Str) : Bool :=
  match s with
  | [] => false
  | c :: _ => !c.isDigit && s.all isIdentChar

/-- the index artefacts: one `(identifier, slot)` per species, in species order -/
def emitMacros (aliases : List Str) : List (Str × Nat) := (aliases.zipIdx 0).map fun p => ("IDX_".toList ++ p.1, p.2)
def emitPython (aliases : List Str) : List (Str × Nat) := (aliases.zipIdx 0).map fun p => ("IDX_".toList ++ p.1, p.2)
def emitSummary (aliases : List Str) : List Str := aliases
def emitEnzoTable (aliases : List Str) : List Str := aliases.map fun a => "A_".toList ++ a

end Naunet.Sp
