/-
  The helper functions of the generated `naunet_physics.cpp` (`templates/base/cpp/src/naunet_physics.cpp.j2`) that the
  right-hand side and the renormalisation call: `GetNumDens`, `GetMu`, `GetElementAbund`, `GetHNuclei`.
  The abundance vector `y` may be longer than the list of species: with thermal processes its last slot is the temperature.
-/
namespace Naunet.Physics

/-- a species as the helpers see it: its mass number and its count of every element of the network -/
structure Sp where
  mass   : Nat
  counts : List Nat
  deriving Repr, DecidableEq

def sumR (l : List Rat) : Rat := l.foldr (· + ·) 0

/-- `GetNumDens`: `for (i = 0; i < NSPECIES; i++) numdens += y[i]` -/
def numDens (nspec : Nat) (y : List Rat) : Rat := sumR (y.take nspec)

/-- the numerator of `GetMu`: `Σ massnumber_i * y[IDX_i]` over the species -/
def massDens (sps : List Sp) (y : List Rat) : Rat := sumR (List.zipWith (fun s v => (s.mass : Rat) * v) sps y)

/-- `GetMu`: `mass / num`, both sums running over the species -/
def mu (sps : List Sp) (y : List Rat) : Rat := massDens sps y / numDens sps.length y

/-- `GetElementAbund(y, e)`: `Σ count_i(e) * y[IDX_i]` over the species -/
def elementAbund (sps : List Sp) (e : Nat) (y : List Rat) : Rat :=
  sumR (List.zipWith (fun s v => ((s.counts.getD e 0 : Nat) : Rat) * v) sps y)

end Naunet.Physics
