/-
  Model of `templateloader._prepare_renorm_content`: the mass-weighted element matrix and the
  per-species renormalisation factors.
-/
namespace Naunet.Renorm

/-- one species as the renormalisation sees it: element counts aligned with the element list,
    its own mass number, electron flag -/
structure RSpec where
  counts   : List Nat
  mass     : Nat
  electron : Bool
  deriving Repr, DecidableEq

/-- one term `coef * ab[IDX_s] / A_s / Hnuclei` of a matrix entry: `(coef, species slot, A_s)` -/
abbrev MTerm := Nat × Nat × Nat
/-- one term `coef * rptr[IDX_ELEM_e] / A_s` of a factor: `(coef, element slot, A_s)` -/
abbrev FTerm := Nat × Nat × Nat

def cnt (s : RSpec) (i : Nat) : Nat := s.counts.getD i 0

/-- matrix entry `(i, j)`: non-electron species containing both elements -/
def matrixEntry (species : List RSpec) (elemMass : List Nat) (i j : Nat) : List MTerm :=
  (species.zipIdx 0).filterMap fun (s, k) =>
    if !s.electron && cnt s i != 0 && cnt s j != 0 then some (cnt s i * cnt s j * elemMass.getD j 0, k, s.mass) else none

/-- the row-major list `renorm.matrix` -/
def matrix (species : List RSpec) (elemMass : List Nat) : List (List MTerm) :=
  (List.range elemMass.length).flatMap fun i => (List.range elemMass.length).map fun j => matrixEntry species elemMass i j

/-- `renorm.factor`: `none` stands for the literal `1.0` (electrons, and – the `fix:` of F18 – species none
    of whose elements is an atomic species of the network) -/
def factor (elemMass : List Nat) (s : RSpec) : Option (List FTerm) :=
  let terms := (List.range elemMass.length).filterMap fun e =>
    if cnt s e != 0 then some (cnt s e * elemMass.getD e 0, e, s.mass) else none
  if s.electron || terms.isEmpty then none else some terms

end Naunet.Renorm
