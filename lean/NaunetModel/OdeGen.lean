/-
  Model of `naunet/templateloader.py::TemplateLoader._prepare_ode_content`
  (lines 188-315 of the pinned tree): accumulation of mass-action terms into
  `rhs[]`, of derivative terms into `jacrhs[]`, ODE modifiers, thermal row,
  and the CSR walk.  Core Lean only (no Mathlib) so that the driver can run it.

  The Python code keeps every equation as a string `"0.0" ++ " - k[3]*y[..]*y[..]" ++ …`.
  The model keeps the list of appended terms; `"0.0"` is the empty list.
-/
namespace Naunet

/-- the coefficient symbol of a term -/
inductive Coef where
  | k  (i : Nat)          -- `k[i]`   chemical rate coefficient
  | kh (i : Nat)          -- `kh[i]`  heating rate
  | kc (i : Nat)          -- `kc[i]`  cooling rate
  | user (s : String)     -- `(fact)` user supplied factor of an ODE modifier
  deriving DecidableEq, Repr

/-- one appended term: sign, coefficient symbol, the `y[..]` factors (slot numbers) -/
structure Term where
  neg  : Bool
  coef : Coef
  vars : List Nat
  deriving DecidableEq, Repr

abbrev Eqn := List Term

/-- a reaction after `species.index(..)` resolution (pseudo tokens already dropped) -/
structure Reac where
  re : List Nat
  pr : List Nat
  deriving DecidableEq, Repr

/-- `n` copies of `t` -/
def rep (n : Nat) (t : Term) : Eqn := List.replicate n t

/-- terms appended to `rhs[i]` while processing reaction number `rl`
    (lines 200-203: one loss term per occurrence of `i` among the reactants,
    then one gain term per occurrence among the products) -/
def reacRhs (rl : Nat) (r : Reac) (i : Nat) : Eqn :=
  rep (r.re.count i) ⟨true, .k rl, r.re⟩ ++ rep (r.pr.count i) ⟨false, .k rl, r.re⟩

/-- terms appended to `jacrhs[i*n+j]` while processing reaction `rl` (lines 206-218):
    for every occurrence of `i` among reactants (products) and every occurrence `ri = j`
    among the reactants one term with the first `y[j]` removed -/
def reacJac (rl : Nat) (r : Reac) (i j : Nat) : Eqn :=
  rep (r.re.count i * r.re.count j) ⟨true, .k rl, r.re.erase j⟩ ++
  rep (r.pr.count i * r.re.count j) ⟨false, .k rl, r.re.erase j⟩

/-- the loop over `enumerate(reactions)` starting at number `s` -/
def rhsFrom (s : Nat) : List Reac → Nat → Eqn
  | [], _ => []
  | r :: rs, i => reacRhs s r i ++ rhsFrom (s+1) rs i

def jacFrom (s : Nat) : List Reac → Nat → Nat → Eqn
  | [], _, _ => []
  | r :: rs, i, j => reacJac s r i j ++ jacFrom (s+1) rs i j

/-- an ODE modifier term: target slot, factor text, dependency slots -/
structure OdeMod where
  tgt  : Nat
  fact : String
  deps : List Nat
  deriving DecidableEq, Repr

def modRhs (m : OdeMod) (i : Nat) : Eqn :=
  if i = m.tgt then [⟨false, .user m.fact, m.deps⟩] else []

/-- lines 238-245 (with the `fix:` of F1): one term per dependency occurrence equal to `j` -/
def modJac (m : OdeMod) (i j : Nat) : Eqn :=
  if i = m.tgt then rep (m.deps.count j) ⟨false, .user m.fact, m.deps.erase j⟩ else []

def modsRhs (ms : List OdeMod) (i : Nat) : Eqn := ms.flatMap (modRhs · i)
def modsJac (ms : List OdeMod) (i j : Nat) : Eqn := ms.flatMap (modJac · i j)

/-- thermal processes: reactant slots only -/
def thermRhsFrom (neg : Bool) (mk : Nat → Coef) (s : Nat) : List (List Nat) → Eqn
  | [] => []
  | re :: rest => ⟨neg, mk s, re⟩ :: thermRhsFrom neg mk (s+1) rest

def thermJacFrom (neg : Bool) (mk : Nat → Coef) (s : Nat) : List (List Nat) → Nat → Eqn
  | [], _ => []
  | re :: rest, j => rep (re.count j) ⟨neg, mk s, re.erase j⟩ ++ thermJacFrom neg mk (s+1) rest j

/-- a complete description of one call of `_prepare_ode_content` -/
structure OdeInput where
  nspec   : Nat
  reacs   : List Reac
  mods    : List OdeMod
  heat    : List (List Nat)
  cool    : List (List Nat)
  deriving Repr

def OdeInput.thermal (inp : OdeInput) : Bool := !(inp.heat.isEmpty && inp.cool.isEmpty)
def OdeInput.neqns (inp : OdeInput) : Nat := max (inp.nspec + (if inp.thermal then 1 else 0)) 1

/-- inner sum of the temperature equation (before the `(gamma-1)*( … )/kerg/npar` wrapper) -/
def thermRow (inp : OdeInput) : Eqn :=
  thermRhsFrom false .kh 0 inp.heat ++ thermRhsFrom true .kc 0 inp.cool

def thermJacRow (inp : OdeInput) (j : Nat) : Eqn :=
  thermJacFrom false .kh 0 inp.heat j ++ thermJacFrom true .kc 0 inp.cool j

/-- An emitted right-hand side: the term list and whether it is wrapped as
    `(gamma - 1.0) * ( … ) / kerg / npar`. -/
structure Emitted where
  scaled : Bool
  terms  : Eqn
  deriving DecidableEq, Repr

/-- `rhs[i]` at the end of `_prepare_ode_content` -/
def fex (inp : OdeInput) (i : Nat) : Emitted :=
  if inp.thermal && i == inp.nspec then ⟨true, thermRow inp⟩
  else ⟨false, rhsFrom 0 inp.reacs i ++ modsRhs inp.mods i⟩

/-- `jacrhs[i*n_eqns + j]` at the end of `_prepare_ode_content`
    (thermal row: wrapped unless it is `"0.0"`; the column of the temperature itself is
    never touched and stays `"0.0"`) -/
def jacEntry (inp : OdeInput) (i j : Nat) : Emitted :=
  if inp.thermal && i == inp.nspec then
    (if j < inp.nspec then
      (let t := thermJacRow inp j; if t.isEmpty then ⟨false, []⟩ else ⟨true, t⟩)
     else ⟨false, []⟩)
  else ⟨false, jacFrom 0 inp.reacs i j ++ modsJac inp.mods i j⟩

/-! ### CSR walk (lines 299-315)

The Python loop appends, for every row, the running counter `nnz` to `spjacrptr` and, for every
column whose string differs from `"0.0"`, the column to `spjaccval` and the string to `spjacdata`
(in lock step – modelled as one list of pairs). -/

def Emitted.isZero (e : Emitted) : Bool := e.terms.isEmpty

/-- the `(col, value)` pairs appended while walking row `row` -/
def rowEntries (n : Nat) (entry : Nat → Nat → Emitted) (row : Nat) : List (Nat × Emitted) :=
  (List.range n).filterMap fun c => let e := entry row c; if e.isZero then none else some (c, e)

/-- The double loop with the running `nnz` counter over rows `row, row+1, …` (`fuel` rows left);
    returns `spjacrptr` (with the final `append(nnz)`) and the zipped `spjaccval`/`spjacdata`. -/
def csrWalk (n : Nat) (entry : Nat → Nat → Emitted) : Nat → Nat → Nat → List Nat × List (Nat × Emitted)
  | 0, _, nnz => ([nnz], [])
  | fuel+1, row, nnz =>
    let es := rowEntries n entry row
    let (rp, rest) := csrWalk n entry fuel (row+1) (nnz + es.length)
    (nnz :: rp, es ++ rest)

structure Csr where
  n      : Nat
  nnz    : Nat
  rowptr : List Nat
  ents   : List (Nat × Emitted)
  deriving Repr

def Csr.cols (c : Csr) : List Nat := c.ents.map (·.1)
def Csr.vals (c : Csr) : List Emitted := c.ents.map (·.2)

def csrOf (n : Nat) (entry : Nat → Nat → Emitted) : Csr :=
  let (rp, es) := csrWalk n entry n 0 0
  ⟨n, es.length, rp, es⟩

def csr (inp : OdeInput) : Csr := csrOf inp.neqns (jacEntry inp)

/-- reading a CSR structure back: slice `ents` by consecutive row pointers -/
def csrRows : List Nat → List (Nat × Emitted) → List (List (Nat × Emitted))
  | a :: b :: rest, es => es.take (b - a) :: csrRows (b :: rest) (es.drop (b - a))
  | _, _ => []

/-- all stored `(row, col, value)` triples of a CSR structure -/
def csrTriples (c : Csr) : List (Nat × Nat × Emitted) :=
  ((csrRows c.rowptr c.ents).zipIdx 0).flatMap fun p => p.1.map fun e => (p.2, e.1, e.2)

/-- `(row, col)` of a flat index of the dense `jacrhs` list -/
def decodeFlat (n idx : Nat) : Nat × Nat := (idx / n, idx % n)

/-- the Jacobian pattern file: one 0/1 per flat index -/
def pattern (inp : OdeInput) : List (List Nat) :=
  let n := inp.neqns
  (List.range n).map fun i => (List.range n).map fun j => if (jacEntry inp i j).isZero then 0 else 1

end Naunet

namespace Naunet

/-! ### rate modifiers (templateloader lines 182-186) -/

/-- one emitted rate statement: optional window guard text and the right-hand side text -/
structure RateStmt where
  guard : Option String
  rhs   : String
  deriving DecidableEq, Repr

/-- the loop `for key, value in rate_modifier.items(): if key == reac.idxfromfile: rateeqns[idx] = …`
    for one reaction: every matching entry overwrites, so the last one in dict order stays -/
def overrideOne (mods : List (Int × String)) (idxfromfile : Int) (orig : RateStmt) : RateStmt :=
  mods.foldl (fun cur kv => if kv.1 = idxfromfile then ⟨none, kv.2⟩ else cur) orig

def applyOverrides (mods : List (Int × String)) : List Int → List RateStmt → List RateStmt
  | i :: is, s :: ss => overrideOne mods i s :: applyOverrides mods is ss
  | _, _ => []

end Naunet
