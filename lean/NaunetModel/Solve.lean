/-
  Model of the generated `Naunet::Solve` / `Naunet::HandleError`
  (templates/cvode/src/naunet.cpp.j2, dense and sparse methods) and of the Odeint `Solve` with its
  step-counting `Observer` (templates/odeint/src/naunet.cpp.j2, naunet_ode.cpp.j2).

  The integrator is an *oracle*: an environment gives the outcome of the i-th `CVode` call and of the
  i-th `CVodeReInit` call.  Mock dynamics as in the C++ shim: the state advances by the elapsed
  integrator time, so `y − y₀` is the total time actually integrated.
-/
namespace Naunet.Solve

/-- outcome of one `CVode(tout)` call made at integrator time `t`:
    `ok` = non-negative return (in `CV_NORMAL` mode: `tret = tout`);
    `fail n reach` = flag `−(n+1)`, stopped at time `reach t tout` -/
inductive Outcome (α : Type) where
  | ok
  | fail (n : Nat) (reach : α → α → α)

structure Env (α : Type) where
  cv     : Nat → Outcome α           -- i-th CVode call (0 = the call in `Solve`)
  reinit : Nat → Bool                -- i-th CVodeReInit call succeeds?
  sub    : Nat → Nat → α → α         -- `pow(10, log10(dt) - level + level*step/nsub)`

inductive Result (α : Type) where
  | success (y : α)
  | fail (logged : α) (y : α)        -- `ab_init_` written to the error file, final state
  deriving Repr, DecidableEq

/-- result of the sub-step loop of one level -/
inductive SubRes (α : Type) where
  | done (y t : α) (c : Nat)
  | failed (n : Nat) (y t : α) (c : Nat)

variable {α : Type} [Add α] [Sub α]

/-- one scripted `CVode` call: new state, new time -/
def cvodeCall (o : Outcome α) (y t tout : α) : (Option Nat) × α × α :=
  match o with
  | .ok => (none, y + (tout - t), tout)
  | .fail n reach => (some n, y + (reach t tout - t), reach t tout)

/-- `for (step = s; step < nsub + 1; step++) { tout = …; cvflag = CVode(..); if (cvflag < 0) break; }`
    with `k` iterations left -/
def substeps (env : Env α) (level : Nat) (dt : α) : Nat → Nat → α → α → Nat → SubRes α
  | 0, _, y, t, c => .done y t c
  | k+1, step, y, t, c =>
    match cvodeCall (env.cv c) y t (env.sub level step dt) with
    | (none, y', t') => substeps env level dt k (step+1) y' t' (c+1)
    | (some n, y', t') => .failed n y' t' (c+1)

/-- the `for (level = 1; level < 6; level++)` loop of `HandleError`, `fuel` levels left;
    `n` encodes the pending flag `−(n+1)`; `y` is `ab`, `t0` the time reached, `dt` the current `dt` -/
def levels (env : Env α) (zero : α) (dtInit yInit : α) :
    Nat → Nat → Nat → α → α → α → Nat → Nat → Result α
  | 0, _, _, y, _, _, _, _ => .fail yInit y
  | fuel+1, level, n, y, t0, dt, c, ci =>
    if n < 4 then            -- flags −1 … −4: continue from the current state
      body fuel level y (dt - t0) c ci
    else if n = 5 then       -- flag −6: reset to the initial state
      body fuel level yInit dtInit c ci
    else .fail yInit y       -- flag −5, ≤ −7: unrecoverable
where
  body (fuel level : Nat) (ytmp dt' : α) (c ci : Nat) : Result α :=
    if env.reinit ci then
      match substeps env level dt' (10 * level) 1 ytmp zero c with
      | .done y' _ _ => .success y'
      | .failed n' y' t' c' => levels env zero dtInit yInit fuel (level+1) n' y' t' dt' c' (ci+1)
    else .fail yInit ytmp

/-- `Naunet::Solve` (dense / sparse) -/
def solve (env : Env α) (zero : α) (y0 dt : α) : Result α :=
  match cvodeCall (env.cv 0) y0 zero dt with
  | (none, y, _) => .success y
  | (some n, y, t) => levels env zero dt y0 5 1 n y t dt 1 0

/-- what a Python caller of the generated module gets from `Naunet.Solve` (`Naunet::PyWrapSolve`): an array, or an exception -/
inductive PyResult (α : Type) where
  | returned (y : α)
  | raised
  deriving Repr, DecidableEq

/-- `PyWrapSolve`: `flag = Solve(ab, dt, data); if (flag == NAUNET_FAIL) throw …; return array(ab)` -/
def pyWrapSolve (env : Env α) (zero : α) (y0 dt : α) : PyResult α :=
  match solve env zero y0 dt with
  | .success y => .returned y
  | .fail _ _ => .raised

/-! ### Odeint: the observer is called once per accepted step (plus the initial call) and throws
    once it has been called more than `mxsteps` times; `Solve` turns the exception into FAIL. -/

/-- observer state after `calls` calls: `some step_` or `none` = exception thrown -/
def observe (mxsteps : Nat) : Nat → Nat → Option Nat
  | 0, step => some step
  | calls+1, step => if step + 1 > mxsteps then none else observe mxsteps calls (step+1)

def odeintSolve (mxsteps ncalls : Nat) : Bool :=   -- true = NAUNET_SUCCESS
  (observe mxsteps ncalls 0).isSome

/-- the Odeint module's `PyWrapSolve` (since the fix of F29): an exception exactly when `Solve` fails -/
def odeintPyWrap (mxsteps ncalls : Nat) : Bool :=   -- true = an array is returned
  odeintSolve mxsteps ncalls

end Naunet.Solve
