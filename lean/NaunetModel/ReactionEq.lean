/-
  `Reaction.__eq__`, `Reaction.rpeq` and `Reaction.__hash__` (naunet/reactions/reaction.py).

  Species are given by the identity `Species.__eq__` decides (an index into the network's distinct species: both spellings of
  the electron have one index, `GRAIN0` and `GRAIN-` have two); temperatures as the exact decimal text of the bound, scaled to
  an integer; the type as its number, 999 being UNKNOWN.
-/
namespace Naunet.ReqEq

structure R where
  re   : List Nat
  pr   : List Nat
  tmin : Int
  tmax : Int
  ty   : Nat
  deriving DecidableEq, Repr

def sortN (l : List Nat) : List Nat := l.mergeSort (fun a b => decide (a ≤ b))

/-- `Counter(a) == Counter(b)`: equality of multisets -/
def msetEq (a b : List Nat) : Bool := sortN a == sortN b

/-- `rpeq`: the same multisets of reactants and of products -/
def rpeq (a b : R) : Bool := msetEq a.re b.re && msetEq a.pr b.pr

/-- `__eq__`: `rpeq`, both temperature bounds, and the type unless one of the two is UNKNOWN -/
def eqR (a b : R) : Bool :=
  rpeq a b && a.tmin == b.tmin && a.tmax == b.tmax && (a.ty == b.ty || a.ty == 999 || b.ty == 999)

/-- what `__hash__` hashes: the two multisets (as sorted lists) -/
def hashKey (a : R) : List Nat × List Nat := (sortN a.re, sortN a.pr)

end Naunet.ReqEq
