/-
  Model of the temperature-window guard (`templateloader._assign_rates`, lines 126-155) and of the
  KROME bound reader (`kromereaction._parse_string`, tmin / tmax branches).
-/
namespace Naunet.Window

/-- the emitted guard: optional `Tgas>=lo`, optional `Tgas<hi` (joined by `&&` when both) -/
structure Guard (α : Type) where
  lo : Option α
  hi : Option α
  deriving Repr, DecidableEq

/-- `ltranges` / `utranges`: a bound is emitted only when it is `> 0` -/
def guardOf {α : Type} [LT α] [DecidableRel (α := α) (· < ·)] (zero : α) (tmin tmax : α) : Guard α :=
  ⟨if zero < tmin then some tmin else none, if zero < tmax then some tmax else none⟩

/-- is the statement wrapped in `if (...) { }` at all? (`if trange` – the joined string is non-empty) -/
def Guard.isGuarded {α : Type} (g : Guard α) : Bool := g.lo.isSome || g.hi.isSome

/-- truth value of the emitted C condition at temperature `T` -/
def Guard.holds {α : Type} [LT α] [LE α] [DecidableRel (α := α) (· < ·)] [DecidableRel (α := α) (· ≤ ·)]
    (g : Guard α) (T : α) : Bool :=
  (match g.lo with | some a => decide (a ≤ T) | none => true) &&
  (match g.hi with | some b => decide (T < b) | none => true)

/-- value of `k[i]` after `realtype k[NREACTIONS] = {0.0}; EvalRates(k, …)` -/
def kValue {α : Type} [LT α] [LE α] [DecidableRel (α := α) (· < ·)] [DecidableRel (α := α) (· ≤ ·)]
    (zero : α) (g : Guard α) (rate : α) (T : α) : α :=
  if g.holds T then rate else zero

/-! KROME bound fields -/

def noneWords : List String := ["N", "NONE", "N/A", "NO", ""]
def opStrings : List String := ["<", ">", ".LE.", ".GE.", ".LT.", ".GT."]

/-- `value.upper() not in [...]`, then strip the operator strings in order, then `d → e` -/
def kromeBound (value : String) : Option String :=
  if value.toUpper ∈ noneWords then none
  else some ((opStrings.foldl (fun v op => v.replace op "") value).replace "d" "e")

end Naunet.Window
