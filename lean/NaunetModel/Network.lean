/-
  Model of `naunet/network.py`: the bookkeeping of `Network` under edits (C14), duplicate detection
  (C15) and the species ordering (C09 / C17).  Species are identity keys (`Nat`); a reaction carries
  its reactant / product keys and an equality key (the class of `Reaction.__eq__` for typed reactions).
-/
namespace Naunet.Net

structure Reac where
  uid : Nat                -- identity of the object (ghost, for the harness)
  re  : List Nat
  pr  : List Nat
  eqk : Nat                -- equality class of `Reaction.__eq__`
  deriving DecidableEq, Repr

def Reac.species (r : Reac) : List Nat := r.re ++ r.pr

/-- Python `set.update` on an insertion-ordered duplicate-free list -/
def unionSet (s : List Nat) (xs : List Nat) : List Nat :=
  xs.foldl (fun acc x => if x ∈ acc then acc else acc ++ [x]) s

structure State where
  held      : List Reac := []
  skipped   : List Reac := []
  reactants : List Nat := []      -- cache `_reactants`
  products  : List Nat := []      -- cache `_products`
  allowed   : List Nat := []
  required  : List Nat := []
  deriving Repr

/-- the test of `_add_reaction`: no allowed list, or every species allowed -/
def admits (allowed : List Nat) (r : Reac) : Bool :=
  allowed.isEmpty || r.species.all (· ∈ allowed)

/-- `_add_reaction` for a `Reaction` instance -/
def add (s : State) (r : Reac) : State :=
  if admits s.allowed r then
    { s with held := s.held ++ [r], reactants := unionSet s.reactants r.re, products := unionSet s.products r.pr }
  else { s with skipped := s.skipped ++ [r] }

/-- recompute the caches from the held reactions (the `fix:` of F5 in `remove_reaction`) -/
def recompute (s : State) : State :=
  { s with reactants := s.held.foldl (fun acc r => unionSet acc r.re) [],
           products  := s.held.foldl (fun acc r => unionSet acc r.pr) [] }

/-- Python's list position: a negative one counts from the end (`-1` is the last element); `none` = IndexError -/
def pyIndex (n : Nat) (i : Int) : Option Nat :=
  if 0 ≤ i then (if i.toNat < n then some i.toNat else none)
  else if (-i).toNat ≤ n then some (n - (-i).toNat) else none

inductive Op where
  | add (r : Reac)
  | addMany (rs : List Reac)
  | removeIdx (i : Nat)                 -- `remove_reaction(int)`, `0 ≤ i < len` (else IndexError)
  | removeAt (i : Int)                  -- `remove_reaction(int)` with Python's positions, negative ones included
  | removeIdxs (is : List Nat)
  | removeInst (eqk : Nat)              -- `remove_reaction(Reaction)`: drops every equal reaction
  | removeInsts (eqks : List Nat)
  | setAllowed (l : List Nat)
  | setRequired (l : List Nat)
  deriving Repr

def filterIdx (p : Nat → Bool) : Nat → List Reac → List Reac
  | _, [] => []
  | i, r :: rs => if p i then r :: filterIdx p (i+1) rs else filterIdx p (i+1) rs

def step (s : State) : Op → State
  | .add r => add s r
  | .addMany rs => rs.foldl add s
  | .removeIdx i => recompute { s with held := s.held.eraseIdx i }
  | .removeAt i => match pyIndex s.held.length i with
      | some k => recompute { s with held := s.held.eraseIdx k }
      | none => s                        -- IndexError: nothing changes
  | .removeIdxs is => recompute { s with held := filterIdx (fun i => !(i ∈ is)) 0 s.held }
  | .removeInst k => recompute { s with held := s.held.filter (fun r => r.eqk != k) }
  | .removeInsts ks => recompute { s with held := s.held.filter (fun r => !(r.eqk ∈ ks)) }
  | .setAllowed l =>
      (s.held ++ s.skipped).foldl add { s with allowed := l, held := [], skipped := [], reactants := [], products := [] }
  | .setRequired l => { s with required := l }

def run (s : State) (ops : List Op) : State := ops.foldl step s

/-- observable species set: `_reactants | _products | set(required)` (as a duplicate-free list) -/
def speciesSet (s : State) : List Nat := unionSet (unionSet s.reactants s.products) s.required

def sources (s : State) : List Nat := s.reactants.filter (fun x => !(x ∈ s.products))
def sinks (s : State) : List Nat := s.products.filter (fun x => !(x ∈ s.reactants))

/-! ### duplicate detection (`find_duplicate_reaction`) -/

/-- the `seen` dictionary: representatives in insertion order, each with "matched again" flag;
    `eq rep x` models the dict lookup (`hash` equal and `==`) against stored keys only -/
def dupGo {α : Type} (eq : α → α → Bool) : List (α × Bool) → Nat → List α → List Nat × List (α × Bool)
  | reps, _, [] => ([], reps)
  | reps, i, x :: xs =>
    if reps.any (fun r => eq r.1 x) then
      let reps' := (reps.foldl (fun (acc : List (α × Bool) × Bool) r =>
          if !acc.2 && eq r.1 x then (acc.1 ++ [(r.1, true)], true) else (acc.1 ++ [r], acc.2)) ([], false)).1
      let (d, f) := dupGo eq reps' (i+1) xs
      (i :: d, f)
    else dupGo eq (reps ++ [(x, false)]) (i+1) xs

/-- `(dupidx, first)` of `find_duplicate_reaction` -/
def findDup {α : Type} (eq : α → α → Bool) (xs : List α) : List Nat × List α :=
  let (d, reps) := dupGo eq [] 0 xs
  (d, (reps.filter (·.2)).map (·.1))

/-- indices reported as duplicates only (the simple accumulator the theorems talk about) -/
def dupIdx {α : Type} (eq : α → α → Bool) : List α → Nat → List α → List Nat
  | _, _, [] => []
  | reps, i, x :: xs =>
    if reps.any (fun r => eq r x) then i :: dupIdx eq reps (i+1) xs
    else dupIdx eq (reps ++ [x]) (i+1) xs

/-- the elements kept after `remove_reaction(dupidx)` -/
def dedup {α : Type} (eq : α → α → Bool) : List α → List α → List α
  | _, [] => []
  | reps, x :: xs => if reps.any (fun r => eq r x) then dedup eq reps xs else x :: dedup eq (reps ++ [x]) xs

/-! ### species order (`Network.species`) -/

/-- sort key `(len(connection[x]), name)`; names are compared as strings -/
structure SpKey where
  conn : Nat
  name : String
  deriving DecidableEq, Repr

def SpKey.le (a b : SpKey) : Bool := a.conn < b.conn || (a.conn == b.conn && a.name ≤ b.name)

def speciesOrder (l : List SpKey) : List SpKey := l.mergeSort SpKey.le

/-! ### the `naunet extend` command (`console/commands/extend.py`) on a network that has been read -/

/-- what the command reads off a species -/
structure SpAttr where
  neutralGas : Nat → Bool      -- `spec.name == spec.gasname and spec.charge == 0`
  surface    : Nat → Bool      -- `spec.is_surface`
  iceOf      : Nat → Nat       -- the species spelled `<surface prefix><name>`
  gasOf      : Nat → Nat       -- the species spelled `spec.gasname` (prefix removed, charge kept)

/-- `net.reactants | net.products` -/
def netSpecies (s : State) : List Nat := unionSet s.reactants s.products

/-- the one-reactant one-product reaction the command builds (`key`: its equality class) -/
def single (key : Nat → Nat → Nat → Nat) (ty x y : Nat) : Reac := ⟨0, [x], [y], key ty x y⟩

/-- `--append-depletion`: a freeze-out reaction for every neutral gas-phase species present -/
def appendDepletion (a : SpAttr) (key : Nat → Nat → Nat → Nat) (ty : Nat) (s : State) : State :=
  (((netSpecies s).filter a.neutralGas).map fun x => single key ty x (a.iceOf x)).foldl add s

/-- `--append-<process>-desorption`: every surface species present returns to *its* gas-phase species -/
def appendDesorption (a : SpAttr) (key : Nat → Nat → Nat → Nat) (ty : Nat) (s : State) : State :=
  (((netSpecies s).filter a.surface).map fun x => single key ty x (a.gasOf x)).foldl add s

/-- positions of the reactions that contain one of the species (`where_species` over a list of names) -/
def whereAny (xs : List Nat) (held : List Reac) : List Nat :=
  (List.range held.length).filter fun i => match held[i]? with
    | some r => r.species.any (· ∈ xs)
    | none => false

structure ExtendOpts where
  keep    : Option (List Nat)     -- `--reduce-by-species`
  remove  : List Nat              -- `--remove-species`
  dedup   : Bool                  -- `--remove-duplicate`
  deplete : Bool                  -- `--append-depletion`
  desorb  : List Nat              -- reaction types of the `--append-*-desorption` options given, in the command's order

/-- the command, from the reactions read to the reactions written -/
def extend (a : SpAttr) (key : Nat → Nat → Nat → Nat) (o : ExtendOpts) (rs : List Reac) : State :=
  let s0 : State := rs.foldl add {}
  let s1 : State := match o.keep with
    | none => s0
    | some l => (s0.held.filter fun r => r.species.all (· ∈ l)).foldl add {}
  let s2 := if o.remove.isEmpty then s1 else step s1 (.removeIdxs (whereAny o.remove s1.held))
  let s3 := if o.dedup then step s2 (.removeIdxs (findDup (fun x y => x.eqk == y.eqk) s2.held).1) else s2
  let s4 := if o.deplete then appendDepletion a key 200 s3 else s3
  o.desorb.foldl (fun st ty => appendDesorption a key ty st) s4

end Naunet.Net
