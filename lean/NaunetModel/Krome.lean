/-
  The KROME reader (`naunet/reactions/kromereaction.py`): a line-oriented state machine.

  `KROMEReaction.preprocessing` consumes directive and comment lines and updates three class attributes
  (`reacformat`, `_user_commons`, `_user_vars`); every other line is stripped and handed to
  `KROMEReaction._parse_string`, which zips the comma-separated values with the keys of the format in
  force.  The model keeps every field as text (numbers are compared by the harness after `float`/`int`).
-/
import NaunetModel.Codec

namespace Naunet.Krome
open Naunet.Codec

/-- `needle in s` -/
def containsSub (needle : Str) : Str → Bool
  | [] => needle.isEmpty
  | c :: cs => needle.isPrefixOf (c :: cs) || containsSub needle cs

/-- `s.replace(old, new)` (left to right, non-overlapping); `fuel` bounds the number of characters visited -/
def replaceFuel (old new : Str) : Nat → Str → Str
  | 0, s => s
  | _, [] => []
  | fuel + 1, c :: cs =>
    if !old.isEmpty && old.isPrefixOf (c :: cs) then new ++ replaceFuel old new fuel ((c :: cs).drop old.length)
    else c :: replaceFuel old new fuel cs

def replaceAll (old new s : Str) : Str := replaceFuel old new (s.length + 1) s

def lower (s : Str) : Str := s.map Char.toLower
def upper (s : Str) : Str := s.map Char.toUpper

/-- the three class attributes of `KROMEReaction` -/
structure KState where
  format  : Str          -- text after `@format:` exactly as stored (the line's own newline included)
  commons : List Str
  vars    : List Str
  deriving DecidableEq, Repr

/-- `KROMEReaction.initialize()` -/
def KState.init : KState := ⟨"idx,r,r,r,p,p,p,p,tmin,tmax,rate".toList, [], []⟩

/-- `line.lstrip().startswith(("#", "//"))` (since the fix of F30 leading blanks do not matter) -/
def isComment (line : Str) : Bool := "#".toList.isPrefixOf (lstrip line) || "//".toList.isPrefixOf (lstrip line)
def isFormat (line : Str) : Bool := "@format:".toList.isPrefixOf line
def isVar (line : Str) : Bool := "@var".toList.isPrefixOf line
def isCommon (line : Str) : Bool := "@common:".toList.isPrefixOf line

def setFormat (st : KState) (line : Str) : KState := { st with format := replaceAll "@format:".toList [] line }
def addVar (st : KState) (line : Str) : KState :=
  if containsSub "Hnuclei".toList line then st
  else { st with vars := st.vars ++ [strip (replaceAll "@var:".toList [] line)] }
def addCommons (st : KState) (line : Str) : KState :=
  { st with commons := st.commons ++ splitOnC ',' (strip (replaceAll "@common:".toList [] line)) }

/-- `KROMEReaction.preprocessing(line)`: the new class state and the text handed on ("" = nothing) -/
def preprocess (st : KState) (line : Str) : KState × Str :=
  if isComment line then (st, [])
  else if isFormat line then (setFormat st line, [])
  else if isVar line then (addVar st line, [])
  else if isCommon line then (addCommons st line, [])
  else (st, strip line)

/-- what `_parse_string` extracts from one data line -/
structure KLine where
  idx  : Option Str := none
  re   : List Str := []
  pr   : List Str := []
  tmin : Option Str := none
  tmax : Option Str := none
  rate : Option Str := none
  deriving DecidableEq, Repr

def noBound : List Str := ["N".toList, "NONE".toList, "N/A".toList, "NO".toList, []]
def boundOps : List Str := ["<".toList, ">".toList, ".LE.".toList, ".GE.".toList, ".LT.".toList, ".GT.".toList]

/-- the text given to `float()` for a Tmin / Tmax column -/
def boundText (v : Str) : Str :=
  replaceAll "d".toList "e".toList (boundOps.foldl (fun acc op => replaceAll op [] acc) v)

def isIdentChar (c : Char) : Bool := c.isAlphanum || c == '_'

/-- is the text, after optional white space, an opening parenthesis? (the look-ahead `(?=\s*\()`) -/
def opensCall (s : Str) : Bool := (s.dropWhile Char.isWhitespace).head? == some '('

/-- `re.sub(r"\bdexp(?=\s*\()", "exp", s)`: the call `dexp(…)` becomes `exp(…)`; an identifier that merely contains
    `dexp` (`user_dexp`) is left alone.  `prev` says whether the character before is an identifier character. -/
def fixRateAux : Nat → Bool → Str → Str
  | 0, _, s => s
  | _, _, [] => []
  | fuel + 1, prev, c :: cs =>
    if !prev && "dexp".toList.isPrefixOf (c :: cs) && opensCall ((c :: cs).drop 4) then
      "exp".toList ++ fixRateAux fuel true ((c :: cs).drop 4)
    else c :: fixRateAux fuel (isIdentChar c) cs

def fixRate (s : Str) : Str := fixRateAux (s.length + 1) false s

/-- one (key, value) pair of the zip -/
def assign (l : KLine) (kv : Str × Str) : KLine :=
  let (key, value) := kv
  if value.isEmpty then l
  else if key == "idx".toList then { l with idx := some value }
  else if key == "r".toList then { l with re := l.re ++ [value] }
  else if key == "p".toList then { l with pr := l.pr ++ [value] }
  else if key == "tmin".toList then (if upper value ∈ noBound then l else { l with tmin := some (boundText value) })
  else if key == "tmax".toList then (if upper value ∈ noBound then l else { l with tmax := some (boundText value) })
  else if key == "rate".toList then { l with rate := some (fixRate value) }
  else l

/-- the keys of the format in force: `self.reacformat.lower().strip().split(",")` -/
def keysOf (format : Str) : List Str := splitOnC ',' (strip (lower format))

/-- `KROMEReaction._parse_string` on an already pre-processed, non-empty text -/
def parseLine (format : Str) (s : Str) : KLine :=
  let t := strip s
  if t.isEmpty || t.head? == some '#' then {}
  else ((keysOf format).zip (splitOnC ',' t)).foldl assign {}

/-- one line of the file: new state, and the reaction it contributes (if any) -/
def step (st : KState) (line : Str) : KState × Option KLine :=
  let (st', t) := preprocess st line
  if (strip t).isEmpty then (st', none) else (st', some (parseLine st'.format t))

/-- `add_reaction_from_file(…, "krome")`: final class state and the reactions in file order -/
def readKrome : KState → List Str → KState × List KLine
  | st, [] => (st, [])
  | st, l :: ls =>
    let (st', r) := step st l
    let (stf, rs) := readKrome st' ls
    (stf, match r with | some x => x :: rs | none => rs)

/-- is the line a directive or comment (as `preprocessing` recognises them: directives at column 0 only, comments after any blanks) -/
def isDirective (line : Str) : Bool := isComment line || isFormat line || isVar line || isCommon line

/-- encoder for the standard column layout `idx,R,R,R,P,P,P,P,Tmin,Tmax,rate` -/
def encodeStd (idx : Str) (re pr : List Str) (tmin tmax rate : Str) : Str :=
  joinC ',' ([idx] ++ fillList re 3 [] ++ fillList pr 4 [] ++ [tmin, tmax, rate])

end Naunet.Krome
