/-
  Model of the option-string syntax of `naunet init` (`console/commands/init.py`) as written by
  `naunet example` / read by `init`, i.e. the path  description → option strings → TOML → `render`.
-/
import NaunetModel.Codec

namespace Naunet.Cfg
open Naunet.Codec

/-- `[e.strip() for e in value.split(",") if e]` -/
def parseList (s : Str) : List Str := ((splitOnC ',' s).filter (fun e => !e.isEmpty)).map strip

/-- `",".join(items)` as the example command writes lists -/
def showList (items : List Str) : Str := joinC ',' items

/-- `{r.split(sep)[0].strip(): r.split(sep)[1].strip() for r in value.split(",") if r}`; `none` = IndexError -/
def parseKV (sep : Char) (s : Str) : Option (List (Str × Str)) :=
  ((splitOnC ',' s).filter (fun e => !e.isEmpty)).mapM fun r =>
    match splitOnC sep r with
    | k :: v :: _ => some (strip k, strip v)
    | _ => none

def showKV (sep : Char) (pairs : List (Str × Str)) : Str :=
  joinC ',' (pairs.map fun p => p.1 ++ sep :: ' ' :: p.2)

/-- the project description as far as the option syntax carries it -/
structure Desc where
  elements    : List Str
  pseudo      : List Str
  replacement : List (Str × Str)
  allowed     : List Str
  required    : List Str
  heating     : List Str
  cooling     : List Str
  shielding   : List (Str × Str)
  files       : List Str
  formats     : List Str
  deriving DecidableEq, Repr

/-- option strings → description (what `init` stores in the TOML file, which `render` reads back verbatim) -/
def readOptions (elements pseudo replacement allowed required heating cooling shielding files formats : Str) : Option Desc := do
  let rp ← parseKV ':' replacement
  let sh ← parseKV ':' shielding
  pure { elements := parseList elements, pseudo := parseList pseudo, replacement := rp, allowed := parseList allowed,
         required := parseList required, heating := parseList heating, cooling := parseList cooling, shielding := sh,
         files := parseList files, formats := parseList formats }

/-! ### `--rate-modifier` and `--ode-modifier` (`console/commands/init.py`) -/

/-- one piece of a `--rate-modifier` occurrence: `rm.split(":")`, entry `rm[0].strip(): rm[1].strip()`;
    `none` = IndexError (no `:` in the piece); anything after a second `:` is ignored, as in the code -/
def parseRatePiece (rm : Str) : Option (Str × Str) :=
  match splitOnC ':' rm with
  | k :: v :: _ => some (strip k, strip v)
  | _ => none

/-- `[rm.strip() for l in occurrences for rm in l.split(",")]`, then one entry per piece, in order -/
def parseRateMod (occs : List Str) : Option (List (Str × Str)) :=
  (occs.flatMap fun l => (splitOnC ',' l).map strip).mapM parseRatePiece

/-- a Python dict filled in order: a repeated key keeps its first position and takes the last value -/
def dictSet (d : List (Str × Str)) (k v : Str) : List (Str × Str) :=
  if d.any (fun p => p.1 == k) then d.map (fun p => if p.1 == k then (k, v) else p) else d ++ [(k, v)]
def dictOf (ps : List (Str × Str)) : List (Str × Str) := ps.foldl (fun d p => dictSet d p.1 p.2) []

/-- as `naunet example` writes it: `",".join(f"{r}:{rv}")` -/
def showRateMod (pairs : List (Str × Str)) : Str := joinC ',' (pairs.map fun p => p.1 ++ ':' :: p.2)

structure OdeTerm where
  key  : Str
  fact : Str
  deps : List Str
  deriving DecidableEq, Repr

/-- `rdep.replace("[", "").replace("]", "")` -/
def dropBrackets (s : Str) : Str := s.filter (fun c => c != '[' && c != ']')

/-- `key, value = om.split(":")`, `fact, rdep = value.split(",")` (each needs exactly two parts, else ValueError),
    `rdep.replace("[","").replace("]","").strip().split()` -/
def parseOdeTerm (om : Str) : Option OdeTerm :=
  match splitOnC ':' om with
  | [key, value] =>
    (match splitOnC ',' value with
     | [fact, rdep] => some ⟨key, fact, words (strip (dropBrackets rdep))⟩
     | _ => none)
  | _ => none

/-- the pieces of one occurrence, in order; an empty piece ends the occurrence (`break`) -/
def parseOdeOcc : List Str → Option (List OdeTerm)
  | [] => some []
  | om :: rest =>
    if om.isEmpty then some []
    else match parseOdeTerm om, parseOdeOcc rest with
      | some t, some ts => some (t :: ts)
      | _, _ => none

def parseOdeMod (occs : List Str) : Option (List OdeTerm) :=
  (occs.mapM fun l => parseOdeOcc (splitOnC ';' l)).map List.flatten

/-- the dictionary `init` builds: per target the factors and dependency lists in order of appearance -/
def groupAdd (d : List (Str × List Str × List (List Str))) (t : OdeTerm) : List (Str × List Str × List (List Str)) :=
  if d.any (fun e => e.1 == t.key) then
    d.map (fun e => if e.1 == t.key then (e.1, e.2.1 ++ [t.fact], e.2.2 ++ [t.deps]) else e)
  else d ++ [(t.key, [t.fact], [t.deps])]
def groupTerms (ts : List OdeTerm) : List (Str × List Str × List (List Str)) := ts.foldl groupAdd []

/-- `f"{sname}:{fact},[{' '.join(dep)}];"` -/
def showOdeBody (t : OdeTerm) : Str := t.key ++ ':' :: (t.fact ++ ',' :: '[' :: (joinC ' ' t.deps ++ [']']))
def showOdeOcc : List OdeTerm → Str
  | [] => []
  | t :: ts => showOdeBody t ++ ';' :: showOdeOcc ts

end Naunet.Cfg
