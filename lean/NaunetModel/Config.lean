/-
  Model of the option-string syntax of `naunet init` (`console/commands/init.py`) as written by
  `naunet example` / read by `init`, i.e. the path  description → option strings → TOML → `render`.
-/
import NaunetModel.Codec

namespace Naunet.Cfg
open Naunet.Codec

/-- `[e.strip() for e in value.split(",") if e]` -/
def parseList (s : Str) : List Str := ((splitOnC ',' s).filter (fun e => !e.isEmpty)).map strip

/-- `",".join(items)` as the example command writes lists -/
def showList (items : List Str) : Str := joinC ',' items

/-- `{r.split(sep)[0].strip(): r.split(sep)[1].strip() for r in value.split(",") if r}`; `none` = IndexError -/
def parseKV (sep : Char) (s : Str) : Option (List (Str × Str)) :=
  ((splitOnC ',' s).filter (fun e => !e.isEmpty)).mapM fun r =>
    match splitOnC sep r with
    | k :: v :: _ => some (strip k, strip v)
    | _ => none

def showKV (sep : Char) (pairs : List (Str × Str)) : Str :=
  joinC ',' (pairs.map fun p => p.1 ++ sep :: ' ' :: p.2)

/-- the project description as far as the option syntax carries it -/
structure Desc where
  elements    : List Str
  pseudo      : List Str
  replacement : List (Str × Str)
  allowed     : List Str
  required    : List Str
  heating     : List Str
  cooling     : List Str
  shielding   : List (Str × Str)
  files       : List Str
  formats     : List Str
  deriving DecidableEq, Repr

/-- option strings → description (what `init` stores in the TOML file, which `render` reads back verbatim) -/
def readOptions (elements pseudo replacement allowed required heating cooling shielding files formats : Str) : Option Desc := do
  let rp ← parseKV ':' replacement
  let sh ← parseKV ':' shielding
  pure { elements := parseList elements, pseudo := parseList pseudo, replacement := rp, allowed := parseList allowed,
         required := parseList required, heating := parseList heating, cooling := parseList cooling, shielding := sh,
         files := parseList files, formats := parseList formats }

end Naunet.Cfg
