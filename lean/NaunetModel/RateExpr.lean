/-
  Token-level model of the gas-phase `rateexpr()` methods (C05):
  `reactions/{reaction,kidareaction,umistreaction,leedsreaction,uclchemreaction}.py`.
  Numeric parameters are opaque magnitudes with a sign class; the emitted text is reproduced
  character by character (blanks included) because `_beautify` works on characters.
-/
import NaunetModel.CExpr

namespace Naunet.Rate
open Naunet.CE

/-- a float parameter as Python prints it with `f"{x}"`: optional leading `-`, then the magnitude;
    `zero` is Python's truthiness (`if b` is false for `0.0` and `-0.0`) -/
structure Lit where
  neg  : Bool
  zero : Bool
  id   : Nat
  deriving DecidableEq, Repr

def Lit.emit (l : Lit) : List Ch := (if l.neg then [Ch.c '-'] else []) ++ [Ch.mag l.id]

/-- `" * ".join(s for s in parts if s)` -/
def joinStar (parts : List (List Ch)) : List Ch :=
  List.intercalate (str " * ") (parts.filter (fun p => !p.isEmpty))

/-- `a [* pow(Tgas/300.0, b)] [* exp(-c/Tgas)]` – Kooij / modified Arrhenius -/
def arrhenius (a b c : Lit) : List Ch :=
  joinStar [a.emit,
    if b.zero then [] else str "pow(Tgas/300.0, " ++ b.emit ++ str ")",
    if c.zero then [] else str "exp(-" ++ c.emit ++ str "/Tgas)"]

def ionpol1 (a b c : Lit) : List Ch :=
  a.emit ++ str " * " ++ b.emit ++ str " * (0.62 + 0.4767*" ++ c.emit ++ str "*sqrt(300.0/Tgas))"

def ionpol2 (a b c : Lit) : List Ch :=
  a.emit ++ str " * " ++ b.emit ++ str " * (1 + 0.0967*" ++ c.emit ++ str "*sqrt(300.0/Tgas) + " ++
    c.emit ++ str "*" ++ c.emit ++ str "*(300.0/Tgas)/10.526)"

inductive Fmt where
  | kida | umist | leeds | uclchem | native
  deriving DecidableEq, Repr

inductive Err where
  | notImplemented | undefinedCode
  deriving DecidableEq, Repr

/-- the first reactant as far as the shielding special cases look at it -/
structure Re1 where
  name  : List Char
  alias : List Char
  deriving DecidableEq, Repr

def lower (s : List Char) : List Char := s.map Char.toLower

/-- un-beautified text (`rate` before `self._beautify(rate)`); `code` is the KIDA formula, the Leeds
    type number, or the numeric value of the reaction type for UMIST / UCLCHEM / native -/
def rawRate (fmt : Fmt) (code : Nat) (a b c : Lit) (re1 : Re1) : Except Err (List Ch) :=
  match fmt, code with
  | .kida, 1 => .ok (a.emit ++ str " * zeta")
  | .kida, 2 => .ok (joinStar [a.emit, if c.zero then [] else str "exp(-" ++ c.emit ++ str "*Av)"])
  | .kida, 3 => .ok (arrhenius a b c)
  | .kida, 4 => .ok (ionpol1 a b c)
  | .kida, 5 => .ok (ionpol2 a b c)
  | .kida, 6 => .error .notImplemented
  | .kida, _ => .error .undefinedCode
  | .umist, 100 => .ok (arrhenius a b c)
  | .umist, 102 => .ok (a.emit ++ str " * exp(-" ++ c.emit ++ str "*Av)")
  | .umist, 101 => .ok a.emit
  | .umist, 120 => .ok (a.emit ++ str " * pow(Tgas/300.0, " ++ b.emit ++ str ") * " ++ c.emit ++ str " / (1-omega)")
  | .umist, _ => .error .undefinedCode
  | .leeds, 1 => .ok (arrhenius a b c)
  | .leeds, 2 => .ok (a.emit ++ str " * (zeta_cr + zeta_xr) / zism")
  | .leeds, 3 => .ok (a.emit ++ str " * ((zeta_cr + zeta_xr) / zism) * pow(Tgas/300.0, " ++ b.emit ++ str ") * " ++
      c.emit ++ str " / (1.0 - omega)")
  | .leeds, 4 =>
      let base := str "G0 * " ++ a.emit ++ str " * exp(-" ++ c.emit ++ str "*Av)"
      if re1.name ∈ ["H2".toList, "CO".toList, "N2".toList] then
        .ok (base ++ str " * GetShieldingFactor(IDX_" ++ re1.alias.map Ch.c ++ str ", h2col, " ++
          (lower re1.name).map Ch.c ++ str "col, Tgas, 0)")
      else .ok base
  | .leeds, 5 => .ok (str "0.0")
  | .leeds, 11 => .ok (a.emit ++ str " * ((zeta_xr+zeta_cr)/zism) * pow(Tgas/300.0, " ++ b.emit ++ str ") * " ++
      c.emit ++ str " / (1.0 - omega)")
  | .leeds, 12 =>
      let base := str "G0 * " ++ a.emit ++ str " * exp(-" ++ c.emit ++ str "*Av)"
      if re1.name ∈ ["GH2".toList, "GCO".toList, "GN2".toList] then
        .ok (base ++ str " * GetShieldingFactor(IDX_" ++ (re1.alias.drop 1).map Ch.c ++ str ", h2col, " ++
          (lower (re1.name.drop 1)).map Ch.c ++ str "col, Tgas, 0)")
      else .ok base
  | .leeds, 15 => .ok (str "0.0")
  | .leeds, 16 => .ok (str "0.0")
  | .leeds, 17 => .ok (str "0.0")
  | .leeds, 18 => .ok (str "0.0")
  | .leeds, 19 => .ok (str "0.0")
  | .leeds, _ => .error .undefinedCode
  | .uclchem, 100 => .ok (arrhenius a b c)
  | .uclchem, 101 => .ok (a.emit ++ str " * (zeta / zism)")
  | .uclchem, 120 => .ok (a.emit ++ str " * (zeta / zism) * pow(Tgas/300.0, " ++ b.emit ++ str ") * " ++ c.emit ++
      str " / (1.0 - omega)")
  | .uclchem, 102 =>
      if re1.name = "CO".toList then
        .ok (str "(2.0e-10) * G0 * GetShieldingFactor(IDX_" ++ re1.alias.map Ch.c ++ str ", h2col, " ++
          (lower re1.name).map Ch.c ++ str "col, Tgas, 1) * GetGrainScattering(Av, lambdabar) / 1.7")
      else .ok (str "G0 * " ++ a.emit ++ str " * exp(-" ++ c.emit ++ str "*Av) / 1.7")
  | .uclchem, _ => .error .undefinedCode
  | .native, 100 => .ok (arrhenius a b c)
  | .native, 101 => .ok (a.emit ++ str " * zeta")
  | .native, 102 => .ok (a.emit ++ str " * exp(-" ++ c.emit ++ str "*Av)")
  | .native, 110 => .ok (ionpol1 a b c)
  | .native, 111 => .ok (ionpol2 a b c)
  | .native, 120 => .ok (a.emit ++ str " * pow(Tgas/300.0, " ++ b.emit ++ str ") * " ++ c.emit ++ str " / (1-omega)")
  | .native, 1000 => .ok (str "0.0")
  | .native, _ => .error .undefinedCode

/-- the emitted rate text: every class passes its string through `_beautify` -/
def gasRate (fmt : Fmt) (code : Nat) (a b c : Lit) (re1 : Re1) : Except Err (List Ch) :=
  (rawRate fmt code a b c re1).map beautify

/-- all (format, code) pairs that produce a gas-phase rate -/
def gasCodes : List (Fmt × Nat) :=
  [(.kida, 1), (.kida, 2), (.kida, 3), (.kida, 4), (.kida, 5),
   (.umist, 100), (.umist, 101), (.umist, 102), (.umist, 120),
   (.leeds, 1), (.leeds, 2), (.leeds, 3), (.leeds, 4), (.leeds, 5), (.leeds, 11), (.leeds, 12),
   (.leeds, 15), (.leeds, 16), (.leeds, 17), (.leeds, 18), (.leeds, 19),
   (.uclchem, 100), (.uclchem, 101), (.uclchem, 102), (.uclchem, 120),
   (.native, 100), (.native, 101), (.native, 102), (.native, 110), (.native, 111), (.native, 120), (.native, 1000)]

def bools : List Bool := [false, true]

/-- the 4 sign classes of one parameter: `+x`, `-x`, `0.0`, `-0.0` -/
def litClasses (id : Nat) : List Lit :=
  [⟨false, false, id⟩, ⟨true, false, id⟩, ⟨false, true, id⟩, ⟨true, true, id⟩]

def shieldCases : List Re1 :=
  [⟨"H".toList, "HI".toList⟩, ⟨"H2".toList, "H2I".toList⟩, ⟨"CO".toList, "COI".toList⟩, ⟨"N2".toList, "N2I".toList⟩,
   ⟨"GH2".toList, "GH2I".toList⟩, ⟨"GCO".toList, "GCOI".toList⟩, ⟨"GN2".toList, "GN2I".toList⟩]

/-- does every sign combination of every template produce text that parses as a C expression? -/
def allParse : Bool :=
  gasCodes.all fun fc => (litClasses 0).all fun a => (litClasses 1).all fun b => (litClasses 2).all fun c =>
    shieldCases.all fun r =>
      match gasRate fc.1 fc.2 a b c r with
      | .ok txt => (parseC txt).isSome
      | .error _ => false

end Naunet.Rate

namespace Naunet.Rate
open Naunet.CE

/-! ### the syntax tree each template is expected to have (after `_beautify`)

Small, readable functions of the sign classes; `parse_eq_expected` (C05) proves by exhaustive kernel
evaluation that the emitted text parses to exactly these trees, the law theorems are then proved on
the trees. -/

def V (s : String) : Expr := .var s.toList
def N (s : String) : Expr := .num s.toList
def mul (a b : Expr) : Expr := .bin ['*'] a b
def dvd (a b : Expr) : Expr := .bin ['/'] a b
def add (a b : Expr) : Expr := .bin ['+'] a b
def sub (a b : Expr) : Expr := .bin ['-'] a b
def call1 (f : String) (a : Expr) : Expr := .call f.toList (.pair a .unit)
def call2 (f : String) (a b : Expr) : Expr := .call f.toList (.pair a (.pair b .unit))

/-- `{x}` : the parameter with its own sign -/
def Lit.tree (l : Lit) : Expr := if l.neg then .neg (.mag l.id) else .mag l.id
/-- `-{x}` after `_beautify`: `--m` became `+m` -/
def Lit.negTree (l : Lit) : Expr := if l.neg then .pos (.mag l.id) else .neg (.mag l.id)

/-- left-nested product of the non-omitted factors -/
def prodOf : List Expr → Expr
  | [] => .unit
  | e :: es => es.foldl mul e

def powT (b : Lit) : Expr := call2 "pow" (dvd (V "Tgas") (N "300.0")) b.tree
def expOverT (c : Lit) : Expr := call1 "exp" (dvd c.negTree (V "Tgas"))
def expAv (c : Lit) : Expr := call1 "exp" (mul c.negTree (V "Av"))
def sqrt300 : Expr := call1 "sqrt" (dvd (N "300.0") (V "Tgas"))

def arrheniusTree (a b c : Lit) : Expr :=
  prodOf ([a.tree] ++ (if b.zero then [] else [powT b]) ++ (if c.zero then [] else [expOverT c]))

def ionpol1Tree (a b c : Lit) : Expr :=
  mul (mul a.tree b.tree) (add (N "0.62") (mul (mul (N "0.4767") c.tree) sqrt300))

def ionpol2Tree (a b c : Lit) : Expr :=
  mul (mul a.tree b.tree)
    (add (add (N "1") (mul (mul (N "0.0967") c.tree) sqrt300))
         (dvd (mul (mul c.tree c.tree) (dvd (N "300.0") (V "Tgas"))) (N "10.526")))

/-- `a * pow(Tgas/300.0, b) * c / (1-omega)` with the given spelling of one -/
def crphotTree (one : String) (pre : Expr → Expr) (a b c : Lit) : Expr :=
  dvd (mul (mul (pre a.tree) (powT b)) c.tree) (sub (N one) (V "omega"))

def shieldTree (alias name : List Char) (flag : String) : Expr :=
  .call "GetShieldingFactor".toList
    (.pair (.var ("IDX_".toList ++ alias)) (.pair (V "h2col") (.pair (.var (lower name ++ "col".toList))
      (.pair (V "Tgas") (.pair (N flag) .unit)))))

def zetaLeeds : Expr := dvd (add (V "zeta_cr") (V "zeta_xr")) (V "zism")
def zetaLeeds' : Expr := dvd (add (V "zeta_xr") (V "zeta_cr")) (V "zism")
def zetaUcl : Expr := dvd (V "zeta") (V "zism")

def expected (fmt : Fmt) (code : Nat) (a b c : Lit) (re1 : Re1) : Option Expr :=
  match fmt, code with
  | .kida, 1 => some (mul a.tree (V "zeta"))
  | .kida, 2 => some (prodOf ([a.tree] ++ (if c.zero then [] else [expAv c])))
  | .kida, 3 => some (arrheniusTree a b c)
  | .kida, 4 => some (ionpol1Tree a b c)
  | .kida, 5 => some (ionpol2Tree a b c)
  | .umist, 100 => some (arrheniusTree a b c)
  | .umist, 102 => some (mul a.tree (expAv c))
  | .umist, 101 => some a.tree
  | .umist, 120 => some (crphotTree "1" id a b c)
  | .leeds, 1 => some (arrheniusTree a b c)
  | .leeds, 2 => some (dvd (mul a.tree (add (V "zeta_cr") (V "zeta_xr"))) (V "zism"))
  | .leeds, 3 => some (crphotTree "1.0" (fun x => mul x zetaLeeds) a b c)
  | .leeds, 4 =>
      let base := mul (mul (V "G0") a.tree) (expAv c)
      if re1.name ∈ ["H2".toList, "CO".toList, "N2".toList] then some (mul base (shieldTree re1.alias re1.name "0"))
      else some base
  | .leeds, 5 => some (N "0.0")
  | .leeds, 11 => some (crphotTree "1.0" (fun x => mul x zetaLeeds') a b c)
  | .leeds, 12 =>
      let base := mul (mul (V "G0") a.tree) (expAv c)
      if re1.name ∈ ["GH2".toList, "GCO".toList, "GN2".toList] then
        some (mul base (shieldTree (re1.alias.drop 1) (re1.name.drop 1) "0"))
      else some base
  | .leeds, 15 => some (N "0.0")
  | .leeds, 16 => some (N "0.0")
  | .leeds, 17 => some (N "0.0")
  | .leeds, 18 => some (N "0.0")
  | .leeds, 19 => some (N "0.0")
  | .uclchem, 100 => some (arrheniusTree a b c)
  | .uclchem, 101 => some (mul a.tree zetaUcl)
  | .uclchem, 120 => some (crphotTree "1.0" (fun x => mul x zetaUcl) a b c)
  | .uclchem, 102 =>
      if re1.name = "CO".toList then
        some (dvd (mul (mul (mul (N "2.0e-10") (V "G0")) (shieldTree re1.alias re1.name "1"))
          (call2 "GetGrainScattering" (V "Av") (V "lambdabar"))) (N "1.7"))
      else some (dvd (mul (mul (V "G0") a.tree) (expAv c)) (N "1.7"))
  | .native, 100 => some (arrheniusTree a b c)
  | .native, 101 => some (mul a.tree (V "zeta"))
  | .native, 102 => some (mul a.tree (expAv c))
  | .native, 110 => some (ionpol1Tree a b c)
  | .native, 111 => some (ionpol2Tree a b c)
  | .native, 120 => some (crphotTree "1" id a b c)
  | .native, 1000 => some (N "0.0")
  | _, _ => none

/-- does every sign combination of every template parse to exactly the expected tree? -/
def allMatch : Bool :=
  gasCodes.all fun fc => (litClasses 0).all fun a => (litClasses 1).all fun b => (litClasses 2).all fun c =>
    shieldCases.all fun r =>
      match gasRate fc.1 fc.2 a b c r with
      | .ok txt => parseC txt == expected fc.1 fc.2 a b c r
      | .error _ => false

end Naunet.Rate
