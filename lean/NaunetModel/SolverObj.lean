/-
  The solver object of the generated cvode driver (`templates/cvode/src/naunet.cpp.j2`): which vector, matrix and linear solver
  `Naunet::Init` and `Naunet::Reset` construct, per method, and which matrix accessors the generated `Jac()` writes through.
  The tables are regenerated from a rendering of /repo's current templates by tools/gen_tables.py.
-/
import NaunetModel.Generated.Tables

namespace Naunet.SolverObj
open Naunet.Tables

inductive MatKind | dense | sparse
  deriving DecidableEq, Repr

/-- which kind of matrix a SUNDIALS constructor builds -/
def ctorKind (c : String) : Option MatKind :=
  if c = "SUNDenseMatrix" then some .dense else if c = "SUNSparseMatrix" then some .sparse else none

/-- which kind of matrix an accessor (or a linear-solver constructor) requires -/
def needsKind (c : String) : Option MatKind :=
  if c = "SM_ELEMENT_D" ∨ c = "SUNLinSol_Dense" then some .dense
  else if c = "SUNSparseMatrix_Data" ∨ c = "SUNSparseMatrix_IndexPointers" ∨ c = "SUNSparseMatrix_IndexValues" ∨ c = "SUNLinSol_KLU"
  then some .sparse else none

/-- the sizes the Jacobian function assumes: it writes rows/columns 0..NEQUATIONS-1 and, for CSR, NNZ values -/
def expectedArgs : MatKind → List String
  | .dense => ["NEQUATIONS", "NEQUATIONS"]
  | .sparse => ["NEQUATIONS", "NEQUATIONS", "NNZ", "CSR_MAT"]

/-- the solver object after `Init` / `Reset`: how its vector, matrix and linear solver were constructed -/
structure Obj where
  vec : String × List String
  mat : String × List String
  ls  : String × List String
  deriving DecidableEq, Repr

def lookup (method fn field : String) : Option (String × List String) :=
  (solverObjects.find? fun r => r.1 = method ∧ r.2.1 = fn ∧ r.2.2.1 = field).map fun r => r.2.2.2

def build (method fn : String) : Option Obj :=
  match lookup method fn "cv_y_", lookup method fn "cv_a_", lookup method fn "cv_ls_" with
  | some v, some a, some l => some ⟨v, a, l⟩
  | _, _, _ => none

inductive Op | init | reset
  deriving DecidableEq, Repr

/-- `Init` builds the object; `Reset` destroys and rebuilds vector, matrix and linear solver of an initialised object -/
def step (method : String) : Option Obj → Op → Option Obj
  | _, .init => build method "Init"
  | some _, .reset => build method "Reset"
  | none, .reset => none

def run (method : String) (ops : List Op) : Option Obj := ops.foldl (step method) none

/-- the kind of matrix the emitted `Jac()` of a method writes through -/
def jacKind (method : String) : Option MatKind :=
  match jacAccessors.find? fun r => r.1 = method with
  | some (_, a :: as) => if (a :: as).all (fun x => needsKind x = needsKind a) then needsKind a else none
  | _ => none

def Fits (method : String) (o : Obj) : Prop :=
  ∃ k, jacKind method = some k ∧ ctorKind o.mat.1 = some k ∧ needsKind o.ls.1 = some k ∧ o.mat.2 = expectedArgs k
    ∧ o.ls.2 = ["cv_y_", "cv_a_"] ∧ o.vec = ("N_VNewEmpty_Serial", ["(sunindextype)NEQUATIONS"])

instance (method : String) (o : Obj) : Decidable (Fits method o) := by
  unfold Fits
  cases h : jacKind method with
  | none => exact isFalse (by rintro ⟨k, hk, _⟩; simp at hk)
  | some k =>
    by_cases h2 : ctorKind o.mat.1 = some k ∧ needsKind o.ls.1 = some k ∧ o.mat.2 = expectedArgs k
        ∧ o.ls.2 = ["cv_y_", "cv_a_"] ∧ o.vec = ("N_VNewEmpty_Serial", ["(sunindextype)NEQUATIONS"])
    · exact isTrue ⟨k, rfl, h2⟩
    · exact isFalse (by rintro ⟨k', hk', rest⟩; cases hk'; exact h2 rest)

def methods : List String := ["dense", "sparse"]

def fitsB (method fn : String) : Bool :=
  match build method fn with
  | some o => decide (Fits method o)
  | none => false

/-! ### the rate-coefficient arrays of the functions that evaluate the right-hand side and the Jacobian -/

/-- the functions that call `EvalRates` (and the thermal rate functions), per back-end -/
def evaluators : List (String × String) :=
  [("dense", "Fex"), ("dense", "Jac"), ("sparse", "Fex"), ("sparse", "Jac"), ("cusparse", "FexKernel"), ("cusparse", "JacKernel"),
   ("rosenbrock4", "Fex::operator()"), ("rosenbrock4", "Jac::operator()")]

/-- the size macro an array has to be declared with: `EvalRates` writes `k[0 … NREACTIONS-1]`, the thermal functions
    `kh[0 … NHEATPROCS-1]` and `kc[0 … NCOOLPROCS-1]` -/
def sizeOf (name : String) : String :=
  if name = "k" then "NREACTIONS" else if name = "kh" then "NHEATPROCS" else "NCOOLPROCS"

/-- one declaration is in order: the right size, an automatic array (a `static` one is zeroed once per process, not once per
    call: a rate left by an earlier call inside a temperature window survives a later call outside it), zero-initialised -/
def arrayOk (r : String × String × String × String × Bool × String) : Bool :=
  r.2.2.2.1 == sizeOf r.2.2.1 && !r.2.2.2.2.1 && r.2.2.2.2.2 == "0.0"

/-- every evaluator declares each of the three arrays exactly once, and in order -/
def evaluatorOk (bf : String × String) : Bool :=
  ["k", "kh", "kc"].all fun nm =>
    match rateArrays.filter (fun r => r.1 == bf.1 && r.2.1 == bf.2 && r.2.2.1 == nm) with
    | [r] => arrayOk r
    | _ => false

end Naunet.SolverObj
