/-
  C expressions as naunet emits them: characters with opaque numeric magnitudes, a lexer with C's
  maximal munch (`--` and `++` are single tokens), and a precedence parser for the subset
  `?:  ||  &&  == !=  < > <= >=  + -  * /  unary + -  f(args)  a[i]  ( )`.
  Used by C05, C11 and C12.  Core Lean only.
-/
namespace Naunet.CE

/-- one character of emitted text; `mag i` is the `repr` of the magnitude of the `i`-th numeric
    parameter (digits, `.`, exponent – never starting or ending with a sign) -/
inductive Ch where
  | c (ch : Char)
  | mag (i : Nat)
  deriving DecidableEq, Repr

def str (s : String) : List Ch := s.toList.map Ch.c

inductive Tok where
  | num (s : List Char)
  | mag (i : Nat)
  | id (s : List Char)
  | op (s : List Char)      -- + - * / ( ) [ ] , ? : < > <= >= == != && || ++ --
  deriving DecidableEq, Repr

def isDigit (ch : Char) : Bool := '0' ≤ ch && ch ≤ '9'
def isAlpha (ch : Char) : Bool := ('a' ≤ ch && ch ≤ 'z') || ('A' ≤ ch && ch ≤ 'Z') || ch == '_'

/-- longest prefix of plain characters satisfying `p` -/
def spanC (p : Char → Bool) : List Ch → List Char × List Ch
  | Ch.c ch :: rest => if p ch then let (a, b) := spanC p rest; (ch :: a, b) else ([], Ch.c ch :: rest)
  | rest => ([], rest)

theorem spanC_length (p : Char → Bool) (l : List Ch) : (spanC p l).2.length ≤ l.length := by
  induction l with
  | nil => simp [spanC]
  | cons a l ih =>
    cases a with
    | mag i => simp [spanC]
    | c ch =>
      simp only [spanC]
      split
      · simp only [List.length_cons]; omega
      · simp

/-- optional exponent `e[+-]?digits` after a digit run -/
def spanExp : List Ch → List Char × List Ch
  | Ch.c e :: Ch.c s :: Ch.c d :: rest =>
    if (e == 'e' || e == 'E') && (s == '+' || s == '-') && isDigit d then
      let (ds, r) := spanC isDigit rest
      (e :: s :: d :: ds, r)
    else if (e == 'e' || e == 'E') && isDigit s then
      let (ds, r) := spanC isDigit (Ch.c d :: rest)
      (e :: s :: ds, r)
    else ([], Ch.c e :: Ch.c s :: Ch.c d :: rest)
  | Ch.c e :: Ch.c d :: rest =>
    if (e == 'e' || e == 'E') && isDigit d then
      let (ds, r) := spanC isDigit rest
      (e :: d :: ds, r)
    else ([], Ch.c e :: Ch.c d :: rest)
  | rest => ([], rest)

def twoCharOps : List (Char × Char) :=
  [('+', '+'), ('-', '-'), ('<', '='), ('>', '='), ('=', '='), ('!', '='), ('&', '&'), ('|', '|')]

def oneCharOps : List Char := ['+', '-', '*', '/', '(', ')', '[', ']', ',', '?', ':', '<', '>']

/-- the lexer (fuel = an upper bound of the remaining length) -/
def lex : Nat → List Ch → Option (List Tok)
  | _, [] => some []
  | 0, _ => none
  | fuel+1, Ch.mag i :: rest => (lex fuel rest).map (Tok.mag i :: ·)
  | fuel+1, Ch.c ch :: rest =>
    if ch == ' ' || ch == '\n' || ch == '\t' then lex fuel rest
    else if isDigit ch || (ch == '.' && (match rest with | Ch.c d :: _ => isDigit d | _ => false)) then
      let (digs, r1) := spanC (fun x => isDigit x || x == '.') (Ch.c ch :: rest)
      let (ex, r2) := spanExp r1
      (lex fuel r2).map (Tok.num (digs ++ ex) :: ·)
    else if isAlpha ch then
      let (name, r1) := spanC (fun x => isAlpha x || isDigit x) (Ch.c ch :: rest)
      (lex fuel r1).map (Tok.id name :: ·)
    else
      match rest with
      | Ch.c ch2 :: rest2 =>
        if (ch, ch2) ∈ twoCharOps then (lex fuel rest2).map (Tok.op [ch, ch2] :: ·)
        else if ch ∈ oneCharOps then (lex fuel rest).map (Tok.op [ch] :: ·)
        else none
      | _ => if ch ∈ oneCharOps then (lex fuel rest).map (Tok.op [ch] :: ·) else none

def lexAll (l : List Ch) : Option (List Tok) := lex (l.length + 1) l

/-- expression trees -/
inductive Expr where
  | num (s : List Char)
  | mag (i : Nat)
  | var (s : List Char)
  | neg (e : Expr)
  | pos (e : Expr)
  | bin (op : List Char) (a b : Expr)
  | cond (c a b : Expr)
  | call (f : List Char) (args : Expr)      -- arguments as a right-nested `pair` chain (or `unit`)
  | idx (a i : Expr)
  | pair (a b : Expr)
  | unit
  deriving DecidableEq, Repr

def isOp (t : Tok) (s : String) : Bool := t == Tok.op s.toList

def expectOp (s : String) : List Tok → Option (List Tok)
  | t :: r => if isOp t s then some r else none
  | [] => none

def opsOfLevel (lvl : Nat) : List (List Char) :=
  match lvl with
  | 0 => ["||".toList] | 1 => ["&&".toList] | 2 => ["==".toList, "!=".toList]
  | 3 => ["<".toList, ">".toList, "<=".toList, ">=".toList] | 4 => ["+".toList, "-".toList]
  | _ => ["*".toList, "/".toList]

mutual
  /-- conditional level: `a ? b : c` (right associative) -/
  def pCond : Nat → List Tok → Option (Expr × List Tok)
    | 0, _ => none
    | f+1, ts =>
      match pBin f 0 ts with
      | none => none
      | some (c, r) =>
        match expectOp "?" r with
        | none => some (c, r)
        | some r1 =>
          match pCond f r1 with
          | none => none
          | some (a, r2) =>
            match expectOp ":" r2 with
            | none => none
            | some r3 =>
              match pCond f r3 with
              | none => none
              | some (b, r4) => some (Expr.cond c a b, r4)

  /-- binary levels 0: `||`, 1: `&&`, 2: `== !=`, 3: `< > <= >=`, 4: `+ -`, 5: `* /`; left associative -/
  def pBin : Nat → Nat → List Tok → Option (Expr × List Tok)
    | 0, _, _ => none
    | f+1, lvl, ts =>
      if lvl ≥ 6 then pUnary f ts else
        match pBin f (lvl+1) ts with
        | none => none
        | some (a, r) => pBinRest f lvl a r

  def pBinRest : Nat → Nat → Expr → List Tok → Option (Expr × List Tok)
    | 0, _, _, _ => none
    | f+1, lvl, a, ts =>
      match ts with
      | Tok.op o :: r =>
        if o ∈ opsOfLevel lvl then
          match pBin f (lvl+1) r with
          | none => none
          | some (b, r2) => pBinRest f lvl (Expr.bin o a b) r2
        else some (a, ts)
      | _ => some (a, ts)

  /-- unary `+` / `-` (the tokens `++` and `--` are not unary operators: rejected) -/
  def pUnary : Nat → List Tok → Option (Expr × List Tok)
    | 0, _ => none
    | f+1, ts =>
      match ts with
      | Tok.op o :: r =>
        if o == ['-'] then
          match pUnary f r with
          | none => none
          | some (e, r2) => some (Expr.neg e, r2)
        else if o == ['+'] then
          match pUnary f r with
          | none => none
          | some (e, r2) => some (Expr.pos e, r2)
        else pPrimary f ts
      | _ => pPrimary f ts

  def pPrimary : Nat → List Tok → Option (Expr × List Tok)
    | 0, _ => none
    | f+1, ts =>
      match ts with
      | Tok.num s :: r => some (Expr.num s, r)
      | Tok.mag i :: r => some (Expr.mag i, r)
      | Tok.id s :: r =>
        match expectOp "(" r with
        | some r1 =>
          match expectOp ")" r1 with
          | some r2 => some (Expr.call s Expr.unit, r2)
          | none =>
            match pArgs f r1 with
            | none => none
            | some (args, r3) =>
              match expectOp ")" r3 with
              | some r4 => some (Expr.call s args, r4)
              | none => none
        | none =>
          match expectOp "[" r with
          | some r1 =>
            match pCond f r1 with
            | none => none
            | some (i, r2) =>
              match expectOp "]" r2 with
              | some r3 => some (Expr.idx (Expr.var s) i, r3)
              | none => none
          | none => some (Expr.var s, r)
      | Tok.op o :: r =>
        if o == ['('] then
          match pCond f r with
          | none => none
          | some (e, r2) =>
            match expectOp ")" r2 with
            | some r3 => some (e, r3)
            | none => none
        else none
      | [] => none

  def pArgs : Nat → List Tok → Option (Expr × List Tok)
    | 0, _ => none
    | f+1, ts =>
      match pCond f ts with
      | none => none
      | some (a, r) =>
        match expectOp "," r with
        | some r1 =>
          match pArgs f r1 with
          | none => none
          | some (rest, r2) => some (Expr.pair a rest, r2)
        | none => some (Expr.pair a Expr.unit, r)
end

/-- parse a complete expression: lexing must succeed and every token must be consumed -/
def parseC (l : List Ch) : Option Expr :=
  match lexAll l with
  | none => none
  | some ts =>
    match pCond (10 * ts.length + 32) ts with
    | none => none
    | some (e, r) => if r.isEmpty then some e else none

/-- Python `str.replace(old, new)` for a two-character `old` and a one-character `new`
    (left to right, non-overlapping) -/
def replace2 (a b : Char) (n : Char) : List Ch → List Ch
  | Ch.c x :: Ch.c y :: rest => if x == a && y == b then Ch.c n :: replace2 a b n rest else Ch.c x :: replace2 a b n (Ch.c y :: rest)
  | x :: rest => x :: replace2 a b n rest
  | [] => []

/-- `Reaction._beautify` -/
def beautify (l : List Ch) : List Ch :=
  replace2 '-' '+' '-' (replace2 '+' '-' '-' (replace2 '-' '-' '+' (replace2 '+' '+' '+' l)))

end Naunet.CE

namespace Naunet.CE

def digitVal (c : Char) : Nat := c.toNat - '0'.toNat
def digitsVal (ds : List Char) : Nat := ds.foldl (fun n c => 10 * n + digitVal c) 0

/-- decimal literal → (mantissa, power of ten): `"4.875e3" ↦ (4875, 0)`, `"300.0" ↦ (3000, -1)` -/
def parseDec (s : List Char) : Option (Nat × Int) :=
  let ip := s.takeWhile isDigit
  let r1 := s.dropWhile isDigit
  let (fp, r2) := match r1 with
    | '.' :: r => (r.takeWhile isDigit, r.dropWhile isDigit)
    | r => ([], r)
  if ip.isEmpty && fp.isEmpty then none else
  let mant := digitsVal (ip ++ fp)
  let frac : Int := fp.length
  match r2 with
  | [] => some (mant, -frac)
  | e :: r3 =>
    if e == 'e' || e == 'E' then
      match r3 with
      | '-' :: ds => if ds.all isDigit && !ds.isEmpty then some (mant, -frac - (digitsVal ds : Int)) else none
      | '+' :: ds => if ds.all isDigit && !ds.isEmpty then some (mant, -frac + (digitsVal ds : Int)) else none
      | ds => if ds.all isDigit && !ds.isEmpty then some (mant, -frac + (digitsVal ds : Int)) else none
    else none

end Naunet.CE
