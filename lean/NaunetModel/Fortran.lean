/-
  Model of the KROME rate translation (`reactions/converter.py`, `kromereaction.rateexpr`):
  the shape of the Lark parse tree of `fgrammar`, the `CExpression` transformer as a function
  tree → C text, and the same translation at the level of syntax trees.
-/
import NaunetModel.CExpr

namespace Naunet.Fortran
open Naunet.CE

abbrev Str := List Char

/-- parse trees of `fgrammar` (chains of `expression` / `multiply` are left-nested `bin` nodes;
    argument lists are right-nested `pair` chains) -/
inductive FTree where
  | sci (s : Str)                    -- scientific: the (possibly signed) number token
  | var (s : Str)                    -- variable
  | listvar (v : Str) (idx : Str)    -- variable "(" index ")" ; `idx` = the tokens after the literal `idx`
  | func (f : Str) (args : FTree)
  | power (a b : FTree)              -- atom ** atom
  | paren (e : FTree)                -- "(" expression ")"
  | bin (op : Char) (a b : FTree)    -- + - (expression level), * / (multiply level)
  | pair (a b : FTree)
  | unit
  deriving DecidableEq, Repr

def chars (s : Str) : List Ch := s.map Ch.c

/-- `.replace("n", "y")` of the `listvar` rule (applied to the whole joined text) -/
def nToY (s : Str) : Str := s.map fun c => if c == 'n' then 'y' else c

/-- the `CExpression` transformer: tree → emitted C text -/
def toC : FTree → List Ch
  | .sci s => chars s
  | .var s => chars s
  | .listvar v idx => chars (nToY (v ++ "[IDX".toList ++ idx ++ "]".toList))
  | .func f args => chars f ++ str "(" ++ toC args ++ str ")"
  | .power a b => str "pow(" ++ toC a ++ str ", " ++ toC b ++ str ")"
  | .paren e => str "(" ++ toC e ++ str ")"
  | .bin op a b =>
    if op == '*' then toC a ++ str " * " ++ toC b
    else if op == '/' then toC a ++ str "/" ++ toC b
    else toC a ++ [Ch.c ' ', Ch.c op, Ch.c ' '] ++ toC b
  | .pair a .unit => toC a
  | .pair a b => toC a ++ str ", " ++ toC b
  | .unit => []

/-- a (possibly signed) number token as a C expression -/
def numExpr (s : Str) : Expr :=
  match s with
  | '-' :: r => .neg (.num r)
  | '+' :: r => .pos (.num r)
  | _ => .num s

/-- the translation at tree level -/
def cOf : FTree → Expr
  | .sci s => numExpr s
  | .var s => .var s
  | .listvar v idx => .idx (.var (nToY v)) (.var (nToY ("IDX".toList ++ idx)))
  | .func f args => .call f (cOf args)
  | .power a b => .call "pow".toList (.pair (cOf a) (.pair (cOf b) .unit))
  | .paren e => cOf e
  | .bin op a b => .bin [op] (cOf a) (cOf b)
  | .pair a b => .pair (cOf a) (cOf b)
  | .unit => .unit

/-- does the emitted text parse back to the translated tree? (checked per case by the driver) -/
def parsesBack (t : FTree) : Bool := parseC (toC t) == some (cOf t)

/-- `re.sub(r"(\d\.?)d([+\-]?\d)", r"\1e\2", s)`: Fortran double-precision exponents -/
def dExp : Str → Str
  | a :: 'd' :: b :: rest =>
    if isDigit a && (isDigit b || b == '-' || b == '+') then a :: 'e' :: dExp (b :: rest) else a :: dExp ('d' :: b :: rest)
  | a :: '.' :: 'd' :: b :: rest =>
    if isDigit a && (isDigit b || b == '-' || b == '+') then a :: '.' :: 'e' :: dExp (b :: rest) else a :: dExp ('.' :: 'd' :: b :: rest)
  | a :: rest => a :: dExp rest
  | [] => []

/-! ### rounding intrinsics: what Fortran's `NINT` computes and what C's `rint` computes (exact rationals) -/

/-- Fortran `NINT`: to the nearest integer, halves away from zero -/
def fnint (q : Rat) : Int := if 0 ≤ q then (q + 1/2).floor else -((-q + 1/2).floor)

/-- C `rint` in the default rounding mode: to the nearest integer, halves to the even neighbour -/
def crint (q : Rat) : Int :=
  let f := q.floor
  let r := q - f
  if r < 1/2 then f else if 1/2 < r then f + 1 else (if f % 2 = 0 then f else f + 1)

end Naunet.Fortran
