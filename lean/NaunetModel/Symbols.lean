/-
  Model of the symbol registry (`component.py`), the ordered merge of the templates
  (`utilities._collect_variable_items`) and the use-before-declaration walk over one generated function
  (`EvalRates`, `Fex`, `Jac`: parameters, then derived quantities in order, then the rate expressions).
-/
import NaunetModel.Generated.Tables

namespace Naunet.Sym

/-- one registered variable: kind (`param` / `derived` / `constant`), symbol, identifiers its value uses -/
abbrev Var := String × String × List String

/-- `_collect_variable_items(components, kind)`: an ordered dict keyed by symbol – the first registration
    fixes the position, the last one the value -/
def merge (kind : String) (comps : List (List Var)) : List (String × List String) :=
  (comps.flatten.filter (·.1 == kind)).foldl (fun acc v =>
    if acc.any (·.1 == v.2.1) then acc.map (fun p => if p.1 == v.2.1 then (p.1, v.2.2) else p)
    else acc ++ [(v.2.1, v.2.2)]) []

/-- walk the definitions in order; `some x` = the first identifier used before any declaration -/
def firstUndeclared (known : List String) : List (String × List String) → Option String
  | [] => none
  | (name, uses) :: rest =>
    match uses.find? (fun u => !(u ∈ known)) with
    | some u => some u
    | none => firstUndeclared (name :: known) rest

/-- names every generated translation unit may use without a registration: library functions, the
    helpers of `naunet_physics.h`, the abundance vector, the global constants -/
def builtins : List String :=
  ["sqrt", "exp", "pow", "log", "log10", "fabs", "abs", "fmin", "fmax", "y", "GetMantleDens", "GetShieldingFactor",
   "GetCharactWavelength", "GetGrainScattering", "GetNumDens", "GetMu", "GetGamma", "GetHNuclei", "GetElementAbund"]
  ++ Tables.globalConstants

def registry (cls : String) : List Var := ((Tables.classRegistries.find? (·.1 == cls)).map (·.2)).getD []

/-- the verdict for one function body built from the given component classes and network-dependent names
    (index macros, binding energies): first undeclared identifier of the derived quantities -/
def verdict (classes : List String) (netNames : List String) : Option String :=
  let comps := classes.map registry
  let params := (merge "param" comps).map (·.1)
  let consts := (merge "constant" comps).map (·.1)
  firstUndeclared (builtins ++ netNames ++ consts ++ params) (merge "derived" comps)

end Naunet.Sym
