/-
  Model of the reaction-line decoders (`reactions/*.py::_parse_string`, `Reaction.__format__`) and of the
  file reader (`network._reaction_factory`, `add_reaction_from_file`).  Strings are `List Char`; numeric
  fields are returned as trimmed text (Python's `float()` / `int()` is applied by the harness).
-/
import NaunetModel.Generated.Tables

namespace Naunet.Codec

abbrev Str := List Char

def isWs (c : Char) : Bool := c == ' ' || c == '\n' || c == '\t' || c == '\r'

def lstrip (s : Str) : Str := s.dropWhile isWs
def rstrip (s : Str) : Str := (s.reverse.dropWhile isWs).reverse
/-- Python `str.strip()` -/
def strip (s : Str) : Str := rstrip (lstrip s)

/-- Python `str.split(c)` for a single separator character -/
def splitOnC (c : Char) : Str → List Str
  | [] => [[]]
  | x :: xs =>
    if x == c then [] :: splitOnC c xs
    else match splitOnC c xs with
      | f :: fs => (x :: f) :: fs
      | [] => [[x]]

/-- `c.join(fields)` -/
def joinC (c : Char) : List Str → Str
  | [] => []
  | [f] => f
  | f :: fs => f ++ c :: joinC c fs

/-- Python `str.split()` (runs of whitespace separate, no empty words) -/
def wordsAux : Str → Str → List Str
  | [], cur => if cur.isEmpty then [] else [cur.reverse]
  | x :: xs, cur =>
    if isWs x then (if cur.isEmpty then wordsAux xs [] else cur.reverse :: wordsAux xs [])
    else wordsAux xs (x :: cur)
def words (s : Str) : List Str := wordsAux s []

/-- `f"{s:>w}"` / `f"{s:<w}"`: pad with blanks, never truncate -/
def padLeft (w : Nat) (s : Str) : Str := List.replicate (w - s.length) ' ' ++ s
def padRight (w : Nat) (s : Str) : Str := s ++ List.replicate (w - s.length) ' '

/-- `_fill_list(orig, n, dummy)` -/
def fillList (orig : List Str) (n : Nat) (dummy : Str) : List Str := orig ++ List.replicate (n - orig.length) dummy

/-- what a decoder extracts from one data line -/
structure Line where
  idx    : Str
  re     : List Str        -- reactant tokens in order, with multiplicity (pseudo tokens still included)
  pr     : List Str
  a      : Str
  b      : Str
  c      : Str
  tmin   : Str
  tmax   : Str
  code   : Str             -- type / formula / code column (format specific)
  source : Str
  deriving DecidableEq, Repr

/-- `Component._create_species`: empty names and pseudo-elements never become species -/
def speciesOf (pseudo : List Str) (toks : List Str) : List Str :=
  toks.filter fun t => !t.isEmpty && !(t ∈ pseudo)

/-! ### native exchange format -/

/-- `Reaction.__format__("naunet")` with the numeric fields already printed -/
def encodeNative (l : Line) : Str :=
  joinC ',' ([padRight 5 l.idx] ++ (fillList l.re 3 []).map (padLeft 12) ++ (fillList l.pr 5 []).map (padLeft 12) ++
    [l.a, l.b, l.c, l.tmin, l.tmax, padLeft 4 l.code, padLeft 8 l.source])

/-- `Reaction._parse_string` (with the `fix:` that strips the source tag) -/
def decodeNative (s : Str) : Option Line :=
  match splitOnC ',' s with
  | [idx, r1, r2, r3, p1, p2, p3, p4, p5, a, b, c, lt, ut, ty, src] =>
    some { idx := strip idx,
           re := ([r1, r2, r3].map strip).filter (fun t => !t.isEmpty),
           pr := ([p1, p2, p3, p4, p5].map strip).filter (fun t => !t.isEmpty),
           a := strip a, b := strip b, c := strip c, tmin := strip lt, tmax := strip ut,
           code := strip ty, source := strip src }
  | _ => none

/-! ### UMIST (colon separated, first 14 fields) -/
def decodeUmist (s : Str) : Option Line :=
  match (splitOnC ':' (strip s)).take 14 with
  | [idx, code, r1, r2, p1, p2, p3, p4, _, a, b, c, lt, ut] =>
    some { idx := idx, re := [r1, r2].filter (fun t => !t.isEmpty), pr := [p1, p2, p3, p4].filter (fun t => !t.isEmpty),
           a := a, b := b, c := c, tmin := lt, tmax := ut, code := code, source := "umist".toList }
  | _ => none

def encodeUmist (l : Line) (tail : List Str) : Str :=
  joinC ':' ([l.idx, l.code] ++ fillList l.re 2 [] ++ fillList l.pr 4 [] ++ ["1".toList, l.a, l.b, l.c, l.tmin, l.tmax] ++ tail)

/-! ### UCLCHEM (comma separated; the second column is a reactant or the type marker) -/
def uclKeywords : List Str := Tables.uclchemReactant2Type.map (·.1.toList) ++ ["NAN".toList]

def decodeUclchem (s : Str) : Option Line :=
  match splitOnC ',' s with
  | [r1, r2, r3, p1, p2, p3, p4, a, b, c, lt, ut] =>
    let code := if r2 ∈ Tables.uclchemReactant2Type.map (·.1.toList) then r2 else "MA".toList
    let freeze := code == "FREEZE".toList
    some { idx := "-1".toList, re := [r1, r2, r3].filter (fun t => !(t ∈ uclKeywords) && !t.isEmpty),
           pr := [p1, p2, p3, p4].filter (fun t => !(t ∈ uclKeywords) && !t.isEmpty),
           a := a, b := b, c := c, tmin := if freeze then "0".toList else lt, tmax := if freeze then "30".toList else ut,
           code := code, source := "uclchem".toList }
  | _ => none

/-! ### KIDA (fixed width: 34 + 56 columns of species, then 13 blank-separated fields) -/
def decodeKida (s0 : Str) : Option Line :=
  let s := strip s0
  match words (s.drop (Tables.kidaRlen + Tables.kidaPlen)) with
  | [a, b, c, _, _, _, _, lt, ut, form, idx, _, _] =>
    some { idx := idx, re := words (s.take Tables.kidaRlen), pr := words ((s.drop Tables.kidaRlen).take Tables.kidaPlen),
           a := a, b := b, c := c, tmin := lt, tmax := ut, code := form, source := "kida".toList }
  | _ => none

/-! ### Leeds (fixed width 5 30 50 8 9 10 5 5 3) -/
def sliceWidths : List Nat → Str → List Str
  | [], _ => []
  | w :: ws, s => s.take w :: sliceWidths ws (s.drop w)

def decodeLeeds (s : Str) : Option Line :=
  match sliceWidths Tables.leedsWidths s with
  | [idx, reac, prod, a, b, c, lt, ht, ty] =>
    some { idx := strip idx, re := words reac, pr := words prod, a := strip a, b := strip b, c := strip c,
           tmin := strip lt, tmax := strip ht, code := strip (ty.drop 1), source := "leeds".toList }
  | _ => none

/-! ### file level: one reaction per data line (`_reaction_factory` with the `fix:` for blank lines) -/

inductive Fmt where
  | native | kida | umist | leeds | uclchem
  deriving DecidableEq, Repr

def decode (f : Fmt) (s : Str) : Option Line :=
  match f with
  | .native => decodeNative s
  | .kida => decodeKida s
  | .umist => decodeUmist s
  | .leeds => decodeLeeds s
  | .uclchem => decodeUclchem s

/-- a line that carries no reaction -/
def isBlank (s : Str) : Bool := (strip s).isEmpty

/-- `add_reaction_from_file`: every non-blank line is decoded, in order; a malformed line is an error -/
def readFile (f : Fmt) : List Str → Option (List Line)
  | [] => some []
  | l :: ls =>
    if isBlank l then readFile f ls
    else match decode f l, readFile f ls with
      | some x, some xs => some (x :: xs)
      | _, _ => none

end Naunet.Codec
