/-
  Token-level model of the grain-surface `rateexpr()` methods (C11):
  `grains/grain.py`, `grains/hh93grain.py`, `grains/rr07grain.py`.
  Numeric parameters (α, the species' mass number, binding energy, photodesorption yield) are opaque
  magnitudes; symbol names carry the grain-group suffix.
-/
import NaunetModel.RateExpr

namespace Naunet.Grain
open Naunet.CE Naunet.Rate

inductive Model where
  | base | hh93 | hh93i | rr07 | rr07x
  deriving DecidableEq, Repr

/-- reaction types a grain model can be asked for (numeric values of `ReactionType`) -/
inductive GType where
  | freeze | thermal | cosmicray | photon | reactive | h2des | recombine | ecapture | surface
  deriving DecidableEq, Repr

inductive Outcome where
  | ok (txt : List Ch)
  | notImplemented            -- `NotImplementedError`
  deriving DecidableEq, Repr

/-- what the templates read from the (first) reactant -/
structure SpecInfo where
  massId   : Nat          -- magnitude id of `spec.A` / `spec.massnumber`
  ebId     : Nat          -- magnitude id of `spec.binding_energy`
  yieldId  : Nat          -- magnitude id of the photodesorption yield (or its default)
  alias    : List Char    -- for `eb_<alias>`
  electron : Bool
  charged  : Bool         -- `spec.charge != 0`
  tunnel   : Bool         -- name is `GH` or `GH2` (surface reactions)
  deriving DecidableEq, Repr

def m (i : Nat) : List Ch := [Ch.mag i]
def sfx (g : String) (s : String) : List Ch := str (s ++ g)
def ebName (s : SpecInfo) : List Ch := str "eb_" ++ s.alias.map Ch.c

/-- symbols taken from the reaction class: gas temperature, dust temperature, cosmic-ray rate … -/
structure ReacSyms where
  tgas  : String := "Tgas"
  tdust : String := "Tgas"
  zeta  : String := "zeta"
  zism  : String := "zism"
  g0    : String := "G0"
  av    : String := "Av"
  h2form : String := "H2formation"
  deriving DecidableEq, Repr

def joinStar' (parts : List (List Ch)) : List Ch := List.intercalate (str " * ") parts

/-- `Grain.rate_depletion` (base class) -/
def baseDepletion (g : String) (rs : ReacSyms) (a : Lit) (s : SpecInfo) : List Ch :=
  joinStar' [a.emit ++ str " * pi * " ++ sfx g "rG" ++ str " * " ++ sfx g "rG" ++ str " * " ++ sfx g "gdens",
    str "sqrt(8.0 * kerg * " ++ str rs.tgas ++ str "/ (pi*amu*" ++ m s.massId ++ str "))"]

def hh93Depletion (g : String) (rs : ReacSyms) (a : Lit) (s : SpecInfo) : List Ch :=
  joinStar' [sfx g "opt_frz" ++ str " * " ++ a.emit ++ str " * pi * " ++ sfx g "rG" ++ str " * " ++ sfx g "rG" ++ str " * " ++ sfx g "gdens",
    str "sqrt(8.0 * kerg * " ++ str rs.tgas ++ str "/ (pi*amu*" ++ m s.massId ++ str "))"]

def hh93Thermal (g : String) (rs : ReacSyms) (s : SpecInfo) : List Ch :=
  joinStar' [sfx g "opt_thd" ++ str " * " ++ sfx g "cov",
    sfx g "nMono" ++ str " * " ++ sfx g "densites",
    str "sqrt(2.0*" ++ sfx g "sites" ++ str "*kerg*" ++ ebName s ++ str "/(pi*pi*amu*" ++ m s.massId ++ str "))",
    str "exp(-" ++ ebName s ++ str "/(" ++ str rs.tdust ++ str "))"]

def hh93Photon (g : String) (rs : ReacSyms) (s : SpecInfo) : List Ch :=
  sfx g "opt_uvd" ++ str " * " ++ sfx g "cov" ++ str " * (" ++
    (str rs.g0 ++ str "*habing*exp(-" ++ str rs.av ++ str "*3.02) + crphot * (" ++ str rs.zeta ++ str "/" ++ str rs.zism ++ str ")") ++
    str ") * " ++ m s.yieldId ++ str " * " ++ sfx g "nMono" ++ str " * " ++ sfx g "garea"

def hh93CosmicRay (g : String) (rs : ReacSyms) (s : SpecInfo) : List Ch :=
  joinStar' [sfx g "opt_crd" ++ str " * " ++ sfx g "cov",
    sfx g "duty" ++ str " * " ++ sfx g "nMono" ++ str " * " ++ sfx g "densites",
    str "(" ++ str rs.zeta ++ str "/" ++ str rs.zism ++ str ")",
    str "sqrt(2.0*" ++ sfx g "sites" ++ str "*kerg*" ++ ebName s ++ str "/(pi*pi*amu*" ++ m s.massId ++ str "))",
    str "exp(-" ++ ebName s ++ str "/" ++ sfx g "Tcr" ++ str ")"]

def hh93ECapture (g : String) (rs : ReacSyms) : List Ch :=
  str "pi * " ++ sfx g "rG" ++ str " * " ++ sfx g "rG" ++ str " * sqrt(8.0*kerg*(" ++ str rs.tgas ++ str ")/pi/amu/meu)"

def hh93Recombine (g : String) (rs : ReacSyms) (a : Lit) (s : SpecInfo) : List Ch :=
  joinStar' [a.emit ++ str " * pi * " ++ sfx g "rG" ++ str " * " ++ sfx g "rG" ++ str " * " ++ sfx g "gdens",
    str "sqrt(8.0*kerg*" ++ str rs.tgas ++ str "/(pi*amu*" ++ m s.massId ++ str "))",
    str "(1.0 + pow(echarge, 2.0)/" ++ sfx g "rG" ++ str "/kerg/" ++ str rs.tgas ++ str ")",
    str "(1.0 + sqrt(2.0*pow(echarge, 2.0)/(" ++ sfx g "rG" ++ str "*kerg*" ++ str rs.tgas ++ str "+2.0*pow(echarge, 2.0))))"]

/-- `HH93Grain._rate_surface` for the reactant pair (each with binding energy and mass number printed as numbers) -/
def hh93Surface (g : String) (rs : ReacSyms) (a : Lit) (s1 s2 : SpecInfo) : List Ch :=
  let freq := sfx g "freq"; let quan := sfx g "quan"; let hop := sfx g "hop"; let uni := sfx g "unisites"
  let eb1 := m s1.ebId; let n1 := m s1.massId; let eb2 := m s2.ebId; let n2 := m s2.massId
  let td := str rs.tdust
  let afreq := freq ++ str " * sqrt(" ++ eb1 ++ str "/" ++ n1 ++ str ")"
  let adiff := afreq ++ str " * exp(-" ++ eb1 ++ str "*" ++ hop ++ str "/" ++ td ++ str ")/" ++ uni
  let aquan := afreq ++ str " * exp(" ++ quan ++ str " * sqrt(" ++ hop ++ str "*" ++ n1 ++ str "*" ++ eb1 ++ str ")) / " ++ uni
  let bfreq := freq ++ str " * sqrt(" ++ eb2 ++ str "/" ++ n2 ++ str ")"
  let bdiff := bfreq ++ str " * exp(-" ++ eb2 ++ str "*" ++ hop ++ str "/" ++ td ++ str ")/" ++ uni
  let bquan := bfreq ++ str " * exp(" ++ quan ++ str " * sqrt(" ++ hop ++ str "*" ++ n2 ++ str "*" ++ eb2 ++ str ")) / " ++ uni
  let kappa := str "exp(-" ++ a.emit ++ str "/" ++ td ++ str ")"
  let kquan := str "exp(" ++ quan ++ str " * sqrt(((" ++ n1 ++ str "*" ++ n2 ++ str ")/(" ++ n1 ++ str "+" ++ n2 ++ str "))*" ++ a.emit ++ str "))"
  let tail := str "pow((" ++ sfx g "nMono" ++ str "*" ++ sfx g "densites" ++ str "), 2.0) / " ++ sfx g "gdens"
  let rate :=
    if s1.tunnel && s2.tunnel then
      joinStar' [str "fmax(" ++ kappa ++ str ", " ++ kquan ++ str ")",
        str "(fmax(" ++ adiff ++ str ", " ++ aquan ++ str ")+fmax(" ++ bdiff ++ str ", " ++ bquan ++ str "))", tail]
    else if s1.tunnel then
      joinStar' [str "fmax(" ++ kappa ++ str ", " ++ kquan ++ str ")",
        str "(fmax(" ++ adiff ++ str ", " ++ aquan ++ str ")+" ++ bdiff ++ str ")", tail]
    else if s2.tunnel then
      joinStar' [str "fmax(" ++ kappa ++ str ", " ++ kquan ++ str ")",
        str "(" ++ adiff ++ str "+fmax(" ++ bdiff ++ str ", " ++ bquan ++ str "))", tail]
    else
      joinStar' [kappa ++ str " * (" ++ adiff ++ str "+" ++ bdiff ++ str ")", tail]
  joinStar' [rate, sfx g "cov", sfx g "cov"]

def rr07Depletion (g : String) (rs : ReacSyms) (a : Lit) (s : SpecInfo) : List Ch :=
  let head := str "4.57e4 * " ++ a.emit ++ str " * " ++ sfx g "gxsec" ++ str " * " ++ sfx g "fr"
  let coul := str "( 1.0 + 16.71e-4/(" ++ sfx g "rG" ++ str " * " ++ str rs.tgas ++ str ") )"
  let therm := str "sqrt(" ++ str rs.tgas ++ str " / " ++ m s.massId ++ str ")"
  if s.electron then joinStar' [head, coul]
  else if !s.charged then joinStar' [head, therm]
  else joinStar' [head, therm, coul]

def rr07Guard (g : String) (ebmax : String) (s : SpecInfo) (rate : List Ch) : List Ch :=
  let inner := sfx g ebmax ++ str " >= " ++ m s.ebId ++ str " ? (" ++ rate ++ str ") : 0.0"
  sfx g "mantabund" ++ str " > 1e-30 ? (" ++ inner ++ str ") : 0.0"

def rr07Photon (g : String) (rs : ReacSyms) (s : SpecInfo) : List Ch :=
  let phot := str "((" ++ str rs.zeta ++ str " / " ++ str rs.zism ++ str ") + (" ++ str rs.g0 ++ str " / " ++ sfx g "uvcreff" ++
    str ") * exp(-1.8*" ++ str rs.av ++ str ") )"
  rr07Guard g "eb_uvd" s (joinStar' [sfx g "opt_uvd" ++ str " * 4.875e3 * " ++ sfx g "gxsec",
    str "(" ++ phot ++ str ") * " ++ m s.yieldId ++ str " / " ++ sfx g "mant"])

def rr07CosmicRay (g : String) (rs : ReacSyms) (s : SpecInfo) : List Ch :=
  rr07Guard g "eb_crd" s (joinStar' [sfx g "opt_crd" ++ str " * 4.0 * pi * " ++ sfx g "crdeseff",
    str "(" ++ str rs.zeta ++ str " / " ++ str rs.zism ++ str ")", str "1.64e-4 * " ++ sfx g "gxsec" ++ str " / " ++ sfx g "mant"])

def rr07H2 (g : String) (rs : ReacSyms) (s : SpecInfo) : List Ch :=
  rr07Guard g "eb_h2d" s (sfx g "opt_h2d" ++ str " * " ++ sfx g "h2deseff" ++ str " * " ++ str rs.h2form ++ str " * y[IDX_HI] / " ++ sfx g "mant")

def rr07xThermal (g : String) (rs : ReacSyms) (s : SpecInfo) : List Ch :=
  sfx g "mantabund" ++ str " > 1e-30 ? (" ++
    joinStar' [str "opt_thd",
      str "sqrt(2.0*" ++ sfx g "sites" ++ str "*kerg*" ++ ebName s ++ str "/(pi*pi*amu*" ++ m s.massId ++ str "))",
      str "2.0 * " ++ sfx g "densites", str "exp(-" ++ ebName s ++ str "/" ++ str rs.tdust ++ str ")"] ++ str ") : 0.0"

/-- `Grain.rateexpr` dispatch for each model -/
def grainRate (md : Model) (ty : GType) (g : String) (rs : ReacSyms) (a : Lit) (s1 s2 : SpecInfo) : Outcome :=
  match md, ty with
  | .base, .freeze => .ok (baseDepletion g rs a s1)
  | .base, _ => .notImplemented
  | .hh93, .freeze | .hh93i, .freeze => .ok (hh93Depletion g rs a s1)
  | .hh93, .thermal | .hh93i, .thermal => .ok (hh93Thermal g rs s1)
  | .hh93, .photon | .hh93i, .photon => .ok (hh93Photon g rs s1)
  | .hh93, .cosmicray | .hh93i, .cosmicray => .ok (hh93CosmicRay g rs s1)
  | .hh93, .ecapture | .hh93i, .ecapture => .ok (hh93ECapture g rs)
  | .hh93, .recombine | .hh93i, .recombine => .ok (hh93Recombine g rs a s1)
  | .hh93, .surface | .hh93i, .surface => .ok (hh93Surface g rs a s1 s2)
  | .hh93, .reactive | .hh93i, .reactive => .ok (str "opt_rcd * branch * " ++ hh93Surface g rs a s1 s2)
  | .hh93, .h2des | .hh93i, .h2des => .notImplemented
  | .rr07, .freeze | .rr07x, .freeze => .ok (rr07Depletion g rs a s1)
  | .rr07, .photon | .rr07x, .photon => .ok (rr07Photon g rs s1)
  | .rr07, .cosmicray | .rr07x, .cosmicray => .ok (rr07CosmicRay g rs s1)
  | .rr07, .h2des | .rr07x, .h2des => .ok (rr07H2 g rs s1)
  | .rr07x, .thermal => .ok (rr07xThermal g rs s1)
  | .rr07, _ => .notImplemented
  | .rr07x, _ => .notImplemented

def allModels : List Model := [.base, .hh93, .hh93i, .rr07, .rr07x]
def allTypes : List GType := [.freeze, .thermal, .cosmicray, .photon, .reactive, .h2des, .recombine, .ecapture, .surface]

def specCases : List SpecInfo :=
  [⟨10, 11, 12, "GCOI".toList, false, false, false⟩, ⟨10, 11, 12, "GHI".toList, false, false, true⟩,
   ⟨10, 11, 12, "HCOII".toList, false, true, false⟩, ⟨10, 11, 12, "eM".toList, true, true, false⟩]

/-- every implemented (model, type) produces text that parses as a C expression, for all sign classes of α -/
def allGrainParse : Bool :=
  allModels.all fun md => allTypes.all fun ty => (litClasses 0).all fun a => specCases.all fun s1 => specCases.all fun s2 =>
    match grainRate md ty "" {} a s1 s2 with
    | .ok txt => (parseC txt).isSome
    | .notImplemented => true

/-- the implemented pairs -/
def implemented (md : Model) (ty : GType) : Bool :=
  match grainRate md ty "" {} ⟨false, false, 0⟩ (specCases.headD ⟨0,0,0,[],false,false,false⟩) (specCases.headD ⟨0,0,0,[],false,false,false⟩) with
  | .ok _ => true
  | .notImplemented => false

end Naunet.Grain

namespace Naunet.Grain
open Naunet.CE Naunet.Rate

/-- the emitted text: every reaction class passes the grain rate through `_beautify` -/
def grainText (md : Model) (ty : GType) (g : String) (rs : ReacSyms) (a : Lit) (s1 s2 : SpecInfo) : Outcome :=
  match grainRate md ty g rs a s1 s2 with
  | .ok t => .ok (beautify t)
  | .notImplemented => .notImplemented

def allGrainTextParse : Bool :=
  allModels.all fun md => allTypes.all fun ty => (litClasses 0).all fun a => specCases.all fun s1 => specCases.all fun s2 =>
    match grainText md ty "" {} a s1 s2 with
    | .ok txt => (parseC txt).isSome
    | .notImplemented => true

/-! expected trees of the central laws -/
def M (i : Nat) : Expr := .mag i
def sqrtE (e : Expr) : Expr := call1 "sqrt" e
def expE (e : Expr) : Expr := call1 "exp" e

/-- `opt_frz * α * pi * rG * rG * gdens * sqrt(8.0 * kerg * Tgas/ (pi*amu*A))` -/
def hh93DepletionTree (a : Lit) (s : SpecInfo) : Expr :=
  mul (mul (mul (mul (mul (mul (V "opt_frz") a.tree) (V "pi")) (V "rG")) (V "rG")) (V "gdens"))
    (sqrtE (dvd (mul (mul (N "8.0") (V "kerg")) (V "Tgas")) (mul (mul (V "pi") (V "amu")) (M s.massId))))

/-- the characteristic vibration frequency `sqrt(2.0*sites*kerg*eb/(pi*pi*amu*A))` -/
def nu0Tree (s : SpecInfo) : Expr :=
  sqrtE (dvd (mul (mul (mul (N "2.0") (V "sites")) (V "kerg")) (.var ("eb_".toList ++ s.alias)))
             (mul (mul (mul (V "pi") (V "pi")) (V "amu")) (M s.massId)))

/-- `opt_thd * cov * nMono * densites * ν₀ * exp(-eb/(Tdust))` -/
def hh93ThermalTree (td : String) (s : SpecInfo) : Expr :=
  mul (mul (mul (mul (mul (V "opt_thd") (V "cov")) (V "nMono")) (V "densites")) (nu0Tree s))
    (expE (dvd (.neg (.var ("eb_".toList ++ s.alias))) (V td)))

def rr07DepletionTree (a : Lit) (s : SpecInfo) : Expr :=
  let head := mul (mul (mul (N "4.57e4") a.tree) (V "gxsec")) (V "fr")
  let coul := add (N "1.0") (dvd (N "16.71e-4") (mul (V "rG") (V "Tgas")))
  let therm := sqrtE (dvd (V "Tgas") (M s.massId))
  if s.electron then mul head coul else if !s.charged then mul head therm else mul (mul head therm) coul

/-- `mantabund > 1e-30 ? (opt_thd * ν₀ * 2.0 * densites * exp(-eb/Tdust)) : 0.0` -/
def rr07xThermalTree (td : String) (s : SpecInfo) : Expr :=
  .cond (.bin ['>'] (V "mantabund") (N "1e-30"))
    (mul (mul (mul (mul (V "opt_thd") (nu0Tree s)) (N "2.0")) (V "densites")) (expE (dvd (.neg (.var ("eb_".toList ++ s.alias))) (V td))))
    (N "0.0")

/-- the two guards of every RR07 desorption law: a mantle exists, and the species is bound weakly enough for this process:
    `mantabund > 1e-30 ? (eb_max >= E_b ? (rate) : 0.0) : 0.0` with the species' own binding energy `E_b` -/
def rr07GuardTree (ebmax : String) (s : SpecInfo) (rate : Expr) : Expr :=
  .cond (.bin ['>'] (V "mantabund") (N "1e-30"))
    (.cond (.bin ['>', '='] (V ebmax) (M s.ebId)) rate (N "0.0")) (N "0.0")

/-- `opt_h2d * h2deseff * H2formation * y[IDX_HI] / mant` -/
def rr07H2RateTree : Expr :=
  dvd (mul (mul (mul (V "opt_h2d") (V "h2deseff")) (V "H2formation")) (.idx (V "y") (V "IDX_HI"))) (V "mant")

def rr07H2Tree (s : SpecInfo) : Expr := rr07GuardTree "eb_h2d" s rr07H2RateTree

/-- `opt_crd * 4.0 * pi * crdeseff * (zeta / zism) * 1.64e-4 * gxsec / mant` -/
def rr07CosmicRayRateTree : Expr :=
  dvd (mul (mul (mul (mul (mul (mul (V "opt_crd") (N "4.0")) (V "pi")) (V "crdeseff")) (dvd (V "zeta") (V "zism"))) (N "1.64e-4"))
    (V "gxsec")) (V "mant")

def rr07CosmicRayTree (s : SpecInfo) : Expr := rr07GuardTree "eb_crd" s rr07CosmicRayRateTree

/-- `opt_crd * cov * duty * nMono * densites * (zeta/zism) * ν₀ * exp(-eb/Tcr)` -/
def hh93CosmicRayTree (s : SpecInfo) : Expr :=
  mul (mul (mul (mul (mul (mul (mul (V "opt_crd") (V "cov")) (V "duty")) (V "nMono")) (V "densites")) (dvd (V "zeta") (V "zism")))
    (nu0Tree s)) (expE (dvd (.neg (.var ("eb_".toList ++ s.alias))) (V "Tcr")))

/-- `opt_uvd * cov * (G0*habing*exp(-Av*3.02) + crphot * (zeta/zism)) * Y * nMono * garea` -/
def hh93PhotonTree (s : SpecInfo) : Expr :=
  mul (mul (mul (mul (mul (V "opt_uvd") (V "cov"))
    (.bin ['+'] (mul (mul (V "G0") (V "habing")) (expE (mul (.neg (V "Av")) (N "3.02")))) (mul (V "crphot") (dvd (V "zeta") (V "zism")))))
    (M s.yieldId)) (V "nMono")) (V "garea")

/-- `pi * rG * rG * sqrt(8.0*kerg*(Tgas)/pi/amu/meu)` -/
def hh93ECaptureTree : Expr :=
  mul (mul (mul (V "pi") (V "rG")) (V "rG"))
    (sqrtE (dvd (dvd (dvd (mul (mul (N "8.0") (V "kerg")) (V "Tgas")) (V "pi")) (V "amu")) (V "meu")))

/-- do the emitted texts of these laws parse to exactly the trees above (all sign classes, all species cases)? -/
def lawTreesMatch : Bool :=
  (litClasses 0).all fun a => specCases.all fun s =>
    (match grainText .hh93 .freeze "" {} a s s with | .ok t => parseC t == some (hh93DepletionTree a s) | _ => false) &&
    (match grainText .hh93 .thermal "" {} a s s with | .ok t => parseC t == some (hh93ThermalTree "Tgas" s) | _ => false) &&
    (match grainText .hh93 .thermal "" { tdust := "Tdust" } a s s with | .ok t => parseC t == some (hh93ThermalTree "Tdust" s) | _ => false) &&
    (match grainText .rr07 .freeze "" {} a s s with | .ok t => parseC t == some (rr07DepletionTree a s) | _ => false) &&
    (match grainText .rr07x .thermal "" {} a s s with | .ok t => parseC t == some (rr07xThermalTree "Tgas" s) | _ => false) &&
    (match grainText .rr07x .thermal "" { tdust := "Tdust" } a s s with | .ok t => parseC t == some (rr07xThermalTree "Tdust" s) | _ => false) &&
    (match grainText .rr07 .h2des "" {} a s s with | .ok t => parseC t == some (rr07H2Tree s) | _ => false) &&
    (match grainText .rr07x .h2des "" {} a s s with | .ok t => parseC t == some (rr07H2Tree s) | _ => false) &&
    (match grainText .rr07 .cosmicray "" {} a s s with | .ok t => parseC t == some (rr07CosmicRayTree s) | _ => false) &&
    (match grainText .hh93 .cosmicray "" {} a s s with | .ok t => parseC t == some (hh93CosmicRayTree s) | _ => false) &&
    (match grainText .hh93i .cosmicray "" {} a s s with | .ok t => parseC t == some (hh93CosmicRayTree s) | _ => false) &&
    (match grainText .hh93 .photon "" {} a s s with | .ok t => parseC t == some (hh93PhotonTree s) | _ => false) &&
    (match grainText .hh93 .ecapture "" {} a s s with | .ok t => parseC t == some hh93ECaptureTree | _ => false)

end Naunet.Grain

/-! ### the remaining laws: base-class accretion, RR07 photodesorption, HH93 grain recombination, two-body surface
    reactions and reactive desorption (added after seeded round 13) -/
namespace Naunet.Grain
open Naunet.CE Naunet.Rate

def powE (a b : Expr) : Expr := call2 "pow" a b
def fmaxE (a b : Expr) : Expr := call2 "fmax" a b

/-- `α * pi * rG * rG * gdens * sqrt(8.0 * kerg * Tgas/ (pi*amu*A))` (base class: no switch) -/
def baseDepletionTree (a : Lit) (s : SpecInfo) : Expr :=
  mul (mul (mul (mul (mul a.tree (V "pi")) (V "rG")) (V "rG")) (V "gdens"))
    (sqrtE (dvd (mul (mul (N "8.0") (V "kerg")) (V "Tgas")) (mul (mul (V "pi") (V "amu")) (M s.massId))))

/-- `opt_uvd * 4.875e3 * gxsec * ((zeta / zism) + (G0 / uvcreff) * exp(-1.8*Av)) * Y / mant` -/
def rr07PhotonRateTree (s : SpecInfo) : Expr :=
  dvd (mul (mul (mul (mul (V "opt_uvd") (N "4.875e3")) (V "gxsec"))
      (add (dvd (V "zeta") (V "zism")) (mul (dvd (V "G0") (V "uvcreff")) (expE (mul (.neg (N "1.8")) (V "Av"))))))
    (M s.yieldId)) (V "mant")

def rr07PhotonTree (s : SpecInfo) : Expr := rr07GuardTree "eb_uvd" s (rr07PhotonRateTree s)

/-- `pow(echarge, 2.0)` -/
def e2 : Expr := powE (V "echarge") (N "2.0")

/-- `α * pi * rG * rG * gdens * sqrt(8.0*kerg*Tgas/(pi*amu*A)) * (1.0 + e²/rG/kerg/Tgas) *
     (1.0 + sqrt(2.0*e²/(rG*kerg*Tgas+2.0*e²)))` -/
def hh93RecombineTree (a : Lit) (s : SpecInfo) : Expr :=
  mul (mul (mul (mul (mul (mul (mul a.tree (V "pi")) (V "rG")) (V "rG")) (V "gdens"))
    (sqrtE (dvd (mul (mul (N "8.0") (V "kerg")) (V "Tgas")) (mul (mul (V "pi") (V "amu")) (M s.massId)))))
    (add (N "1.0") (dvd (dvd (dvd e2 (V "rG")) (V "kerg")) (V "Tgas"))))
    (add (N "1.0") (sqrtE (dvd (mul (N "2.0") e2) (add (mul (mul (V "rG") (V "kerg")) (V "Tgas")) (mul (N "2.0") e2)))))

/-- characteristic frequency of one reactant on the surface: `freq * sqrt(E_b / A)` -/
def sfreqTree (s : SpecInfo) : Expr := mul (V "freq") (sqrtE (dvd (M s.ebId) (M s.massId)))
/-- thermal hopping rate: `freq * sqrt(E_b/A) * exp(-E_b*hop/Tdust)/unisites` -/
def sdiffTree (td : String) (s : SpecInfo) : Expr :=
  dvd (mul (sfreqTree s) (expE (dvd (mul (.neg (M s.ebId)) (V "hop")) (V td)))) (V "unisites")
/-- tunnelling rate: `freq * sqrt(E_b/A) * exp(quan * sqrt(hop*A*E_b)) / unisites` -/
def squanTree (s : SpecInfo) : Expr :=
  dvd (mul (sfreqTree s) (expE (mul (V "quan") (sqrtE (mul (mul (V "hop") (M s.massId)) (M s.ebId)))))) (V "unisites")
/-- `exp(-E_a/Tdust)` -/
def kappaTree (td : String) (a : Lit) : Expr := expE (dvd a.negTree (V td))
/-- `exp(quan * sqrt(((A1*A2)/(A1+A2))*E_a))` -/
def kquanTree (a : Lit) (s1 s2 : SpecInfo) : Expr :=
  expE (mul (V "quan") (sqrtE (mul (dvd (mul (M s1.massId) (M s2.massId)) (add (M s1.massId) (M s2.massId))) a.tree)))
/-- the mobility of one reactant: hopping, or the faster of hopping and tunnelling for `GH` / `GH2` -/
def mobTree (td : String) (s : SpecInfo) : Expr :=
  if s.tunnel then fmaxE (sdiffTree td s) (squanTree s) else sdiffTree td s
/-- the barrier factor: `exp(-E_a/T)`, or the larger of it and the tunnelling probability when a light reactant is present -/
def barrierTree (td : String) (a : Lit) (s1 s2 : SpecInfo) : Expr :=
  if s1.tunnel || s2.tunnel then fmaxE (kappaTree td a) (kquanTree a s1 s2) else kappaTree td a
/-- `pow((nMono*densites), 2.0)` -/
def sites2Tree : Expr := powE (mul (V "nMono") (V "densites")) (N "2.0")

/-- `barrier * (mob₁ + mob₂) * pow((nMono*densites), 2.0) / gdens * cov * cov` -/
def hh93SurfaceTree (td : String) (a : Lit) (s1 s2 : SpecInfo) : Expr :=
  mul (mul (dvd (mul (mul (barrierTree td a s1 s2) (add (mobTree td s1) (mobTree td s2))) sites2Tree) (V "gdens")) (V "cov")) (V "cov")

/-- reactive desorption: `opt_rcd * branch * <surface rate>` -/
def hh93ReactiveTree (td : String) (a : Lit) (s1 s2 : SpecInfo) : Expr :=
  mul (mul (dvd (mul (mul (mul (mul (V "opt_rcd") (V "branch")) (barrierTree td a s1 s2)) (add (mobTree td s1) (mobTree td s2))) sites2Tree)
    (V "gdens")) (V "cov")) (V "cov")

def specCases2 : List SpecInfo :=
  [⟨10, 11, 12, "GCOI".toList, false, false, false⟩, ⟨20, 21, 22, "GHI".toList, false, false, true⟩]

def lawTreesMatch2 : Bool :=
  (litClasses 0).all fun a => specCases.all fun s =>
    (match grainText .base .freeze "" {} a s s with | .ok t => parseC t == some (baseDepletionTree a s) | _ => false) &&
    (match grainText .rr07 .photon "" {} a s s with | .ok t => parseC t == some (rr07PhotonTree s) | _ => false) &&
    (match grainText .rr07x .photon "" {} a s s with | .ok t => parseC t == some (rr07PhotonTree s) | _ => false) &&
    (match grainText .hh93 .recombine "" {} a s s with | .ok t => parseC t == some (hh93RecombineTree a s) | _ => false) &&
    (match grainText .hh93i .recombine "" {} a s s with | .ok t => parseC t == some (hh93RecombineTree a s) | _ => false)

def surfaceTreesMatch : Bool :=
  (litClasses 0).all fun a => specCases2.all fun s1 => specCases2.all fun s2 => ["Tgas", "Tdust"].all fun td =>
    (match grainText .hh93 .surface "" { tdust := td } a s1 s2 with | .ok t => parseC t == some (hh93SurfaceTree td a s1 s2) | _ => false) &&
    (match grainText .hh93i .surface "" { tdust := td } a s1 s2 with | .ok t => parseC t == some (hh93SurfaceTree td a s1 s2) | _ => false) &&
    (match grainText .hh93 .reactive "" { tdust := td } a s1 s2 with | .ok t => parseC t == some (hh93ReactiveTree td a s1 s2) | _ => false)

end Naunet.Grain
