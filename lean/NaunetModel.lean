import NaunetModel.OdeGen
import NaunetModel.Solve
import NaunetModel.Network
import NaunetModel.Window
