import NaunetModel.OdeGen
import NaunetModel.Solve
import NaunetModel.Network
import NaunetModel.Window
import NaunetModel.CExpr
import NaunetModel.RateExpr
import NaunetModel.Generated.Tables
import NaunetModel.Codec
