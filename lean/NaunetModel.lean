import NaunetModel.OdeGen
