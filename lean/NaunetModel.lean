import NaunetModel.OdeGen
import NaunetModel.Solve
