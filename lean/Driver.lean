import Lean.Data.Json
import NaunetModel
open Lean Naunet

/-! Line-protocol driver: one JSON request per line on stdin, one JSON answer per line. -/

def natList (j : Json) : Except String (List Nat) := do
  let a ← j.getArr?
  a.toList.mapM (·.getNat?)

def natListList (j : Json) : Except String (List (List Nat)) := do
  let a ← j.getArr?
  a.toList.mapM natList

def coefJson : Coef → Json
  | .k i => Json.arr #["k", i]
  | .kh i => Json.arr #["kh", i]
  | .kc i => Json.arr #["kc", i]
  | .user s => Json.arr #["user", s]

def termJson (t : Naunet.Term) : Json :=
  Json.arr #[t.neg, coefJson t.coef, Json.arr (t.vars.map (fun (n:Nat) => (n : Json))).toArray]

def emittedJson (e : Emitted) : Json :=
  Json.mkObj [("scaled", e.scaled), ("terms", Json.arr (e.terms.map termJson).toArray)]

def natsJson (l : List Nat) : Json := Json.arr (l.map (fun (n:Nat) => (n : Json))).toArray

def parseOde (j : Json) : Except String OdeInput := do
  let nspec ← (← j.getObjVal? "nspec").getNat?
  let reacs ← (← (← j.getObjVal? "reacs").getArr?).toList.mapM fun r => do
    let re ← natList (← r.getArrVal? 0)
    let pr ← natList (← r.getArrVal? 1)
    pure (Reac.mk re pr)
  let mods ← (← (← j.getObjVal? "mods").getArr?).toList.mapM fun m => do
    let tgt ← (← m.getObjVal? "tgt").getNat?
    let fact ← (← m.getObjVal? "fact").getStr?
    let deps ← natList (← m.getObjVal? "deps")
    pure (OdeMod.mk tgt fact deps)
  let heat ← natListList (← j.getObjVal? "heat")
  let cool ← natListList (← j.getObjVal? "cool")
  pure ⟨nspec, reacs, mods, heat, cool⟩

def handleOde (j : Json) : Except String Json := do
  let inp ← parseOde j
  let n := inp.neqns
  let c := csr inp
  let fexs := (List.range n).map fun i => emittedJson (fex inp i)
  pure <| Json.mkObj [
    ("neqns", n), ("nnz", c.nnz),
    ("fex", Json.arr fexs.toArray),
    ("rowptr", natsJson c.rowptr), ("cols", natsJson c.cols),
    ("vals", Json.arr (c.vals.map emittedJson).toArray),
    ("triples", Json.arr ((csrTriples c).map fun t => Json.arr #[(t.1:Nat), (t.2.1:Nat), emittedJson t.2.2]).toArray),
    ("pattern", Json.arr ((pattern inp).map natsJson).toArray)]

def handleOverride (j : Json) : Except String Json := do
  let mods ← (← (← j.getObjVal? "mods").getArr?).toList.mapM fun m => do
    let k ← (← m.getArrVal? 0).getInt?
    let v ← (← m.getArrVal? 1).getStr?
    pure (k, v)
  let idxs ← (← (← j.getObjVal? "idxs").getArr?).toList.mapM (·.getInt?)
  let stmts ← (← (← j.getObjVal? "stmts").getArr?).toList.mapM fun s => do
    let g := (← s.getArrVal? 0).getStr?.toOption
    let r ← (← s.getArrVal? 1).getStr?
    pure (RateStmt.mk g r)
  let out := applyOverrides mods idxs stmts
  pure <| Json.arr (out.map fun s => Json.arr #[(match s.guard with | some g => Json.str g | none => Json.null), s.rhs]).toArray

/-- `pow(10, log10(dt) - level + level*step/nsub)` exactly as the template computes it -/
def subTarget (level step : Nat) (dt : Float) : Float :=
  let nsub := 10 * level
  let expo := Float.log10 dt - level.toFloat
  let expo := expo + level.toFloat * step.toFloat / nsub.toFloat
  Float.pow 10.0 expo

def getFloat (j : Json) : Except String Float :=
  match j with
  | .num n => pure n.toFloat
  | _ => throw "number expected"

def handleSolve (j : Json) : Except String Json := do
  let dt ← getFloat (← j.getObjVal? "dt")
  let y0 ← getFloat (← j.getObjVal? "y0")
  let cv ← (← (← j.getObjVal? "cv").getArr?).mapM fun o => do
    let flag : Int ← (← o.getArrVal? 0).getInt?
    let frac ← getFloat (← o.getArrVal? 1)
    pure ((flag, frac) : Int × Float)
  let re ← (← (← j.getObjVal? "reinit").getArr?).mapM (·.getNat?)
  let env : Solve.Env Float := {
    cv := fun i => match cv[i]? with
      | none => .ok
      | some (flag, frac) => if flag ≥ 0 then .ok else .fail ((-flag - 1).toNat) (fun t tout => t + frac * (tout - t)),
    reinit := fun i => match re[i]? with | none => true | some b => b != 0,
    sub := subTarget }
  let py : String := match Solve.pyWrapSolve env 0.0 y0 dt with
    | .returned _ => "returned"
    | .raised => "raised"
  match Solve.solve env 0.0 y0 dt with
  | .success y => pure <| Json.mkObj [("result", "success"), ("ybits", toString y.toBits), ("python", py)]
  | .fail l y => pure <| Json.mkObj [("result", "fail"), ("ybits", toString y.toBits), ("loggedbits", toString l.toBits), ("python", py)]

def handleOdeint (j : Json) : Except String Json := do
  let mx ← (← j.getObjVal? "mxsteps").getNat?
  let n ← (← j.getObjVal? "ncalls").getNat?
  pure <| Json.mkObj [("success", Solve.odeintSolve mx n), ("python_returns", Solve.odeintPyWrap mx n)]

def parseReac (j : Json) : Except String Net.Reac := do
  let uid ← (← j.getArrVal? 0).getNat?
  let re ← natList (← j.getArrVal? 1)
  let pr ← natList (← j.getArrVal? 2)
  let k ← (← j.getArrVal? 3).getNat?
  pure ⟨uid, re, pr, k⟩

def parseOp (j : Json) : Except String Net.Op := do
  let tag ← (← j.getArrVal? 0).getStr?
  let a ← j.getArrVal? 1
  match tag with
  | "add" => pure (.add (← parseReac a))
  | "addMany" => pure (.addMany (← (← a.getArr?).toList.mapM parseReac))
  | "removeIdx" => pure (.removeIdx (← a.getNat?))
  | "removeAt" => pure (.removeAt (← a.getInt?))
  | "removeIdxs" => pure (.removeIdxs (← natList a))
  | "removeInst" => pure (.removeInst (← a.getNat?))
  | "removeInsts" => pure (.removeInsts (← natList a))
  | "setAllowed" => pure (.setAllowed (← natList a))
  | "setRequired" => pure (.setRequired (← natList a))
  | _ => throw s!"unknown op {tag}"

def sortNats (l : List Nat) : List Nat := l.mergeSort (· ≤ ·)

def snapshot (s : Net.State) : Json :=
  Json.mkObj [("held", natsJson (s.held.map (·.uid))), ("skipped", natsJson (s.skipped.map (·.uid))),
    ("species", natsJson (sortNats (Net.speciesSet s))), ("sources", natsJson (sortNats (Net.sources s))),
    ("sinks", natsJson (sortNats (Net.sinks s)))]

def handleNet (j : Json) : Except String Json := do
  let ops ← (← (← j.getObjVal? "ops").getArr?).toList.mapM parseOp
  let (_, snaps) := ops.foldl (fun (acc : Net.State × List Json) op =>
    let s' := Net.step acc.1 op
    (s', acc.2 ++ [snapshot s'])) (({} : Net.State), [])
  pure (Json.arr snaps.toArray)

def handleExtend (j : Json) : Except String Json := do
  let rs ← (← (← j.getObjVal? "reactions").getArr?).toList.mapM parseReac
  let neutral ← natList (← j.getObjVal? "neutral")
  let surface ← natList (← j.getObjVal? "surface")
  let pairs := fun (k : String) => do
    let a ← (← j.getObjVal? k).getArr?
    a.toList.mapM fun p => do pure ((← (← p.getArrVal? 0).getNat?), (← (← p.getArrVal? 1).getNat?))
  let ice ← pairs "iceOf"
  let gas ← pairs "gasOf"
  let look := fun (tab : List (Nat × Nat)) (x : Nat) => match tab.find? (·.1 == x) with | some p => p.2 | none => x
  let attr : Net.SpAttr := ⟨fun x => neutral.contains x, fun x => surface.contains x, look ice, look gas⟩
  let keep ← match j.getObjVal? "keep" with
    | .ok Json.null => pure none
    | .ok v => do pure (some (← natList v))
    | .error _ => pure none
  let remove ← natList (← j.getObjVal? "remove")
  let dedup ← (← j.getObjVal? "dedup").getBool?
  let deplete ← (← j.getObjVal? "deplete").getBool?
  let desorb ← natList (← j.getObjVal? "desorb")
  let s := Net.extend attr (fun _ _ _ => 0) ⟨keep, remove, dedup, deplete, desorb⟩ rs
  pure <| Json.mkObj [("held", Json.arr (s.held.map fun r => Json.arr #[natsJson r.re, natsJson r.pr]).toArray),
    ("species", natsJson (sortNats (Net.speciesSet s)))]

/-- default-mode equality on (class, type): same class and (same type or one of them UNKNOWN = 0) -/
def relEq (a b : Nat × Nat × Nat) : Bool := a.2.1 == b.2.1 && (a.2.2 == b.2.2 || a.2.2 == 0 || b.2.2 == 0)

def handleDup (j : Json) : Except String Json := do
  let items ← (← (← j.getObjVal? "items").getArr?).toList.mapM fun p => do
    let c ← (← p.getArrVal? 0).getNat?
    let t ← (← p.getArrVal? 1).getNat?
    pure (c, t)
  let xs : List (Nat × Nat × Nat) := (items.zipIdx 0).map fun p => (p.2, p.1.1, p.1.2)
  let (d, f) := Net.findDup relEq xs
  let kept := Net.dedup relEq [] xs
  pure <| Json.mkObj [("dupidx", natsJson d), ("first", natsJson (f.map (·.1))), ("kept", natsJson (kept.map (·.1)))]

def handleOrder (j : Json) : Except String Json := do
  let items ← (← (← j.getObjVal? "items").getArr?).toList.mapM fun p => do
    let c ← (← p.getArrVal? 0).getNat?
    let n ← (← p.getArrVal? 1).getStr?
    pure (Net.SpKey.mk c n)
  pure <| Json.arr ((Net.speciesOrder items).map fun k => Json.str k.name).toArray

def handleWindow (j : Json) : Except String Json := do
  let tmin ← getFloat (← j.getObjVal? "tmin")
  let tmax ← getFloat (← j.getObjVal? "tmax")
  let ts ← (← (← j.getObjVal? "T").getArr?).toList.mapM getFloat
  let g := Window.guardOf (0.0 : Float) tmin tmax
  pure <| Json.mkObj [("lo", g.lo.isSome), ("hi", g.hi.isSome), ("guarded", g.isGuarded),
    ("holds", Json.arr (ts.map fun t => Json.bool (g.holds t)).toArray)]

def handleKrome (j : Json) : Except String Json := do
  let v ← (← j.getObjVal? "value").getStr?
  pure <| match Window.kromeBound v with
    | some s => Json.str s
    | none => Json.null

/-- emitted text as JSON: runs of characters as strings, magnitudes as numbers -/
def chJson (l : List CE.Ch) : Json :=
  let rec go (acc : List Char) (out : Array Json) : List CE.Ch → Array Json
    | [] => if acc.isEmpty then out else out.push (Json.str (String.ofList acc.reverse))
    | CE.Ch.c ch :: rest => go (ch :: acc) out rest
    | CE.Ch.mag i :: rest =>
      let out := if acc.isEmpty then out else out.push (Json.str (String.ofList acc.reverse))
      go [] (out.push (Json.num (i : Nat))) rest
  Json.arr (go [] #[] l)

def parseLit (j : Json) (id : Nat) : Except String Rate.Lit := do
  let n ← (← j.getArrVal? 0).getBool?
  let z ← (← j.getArrVal? 1).getBool?
  pure ⟨n, z, id⟩

def parseFmt (s : String) : Except String Rate.Fmt :=
  match s with
  | "kida" => pure .kida | "umist" => pure .umist | "leeds" => pure .leeds
  | "uclchem" => pure .uclchem | "naunet" => pure .native
  | _ => throw s!"unknown format {s}"

def handleGasRate (j : Json) : Except String Json := do
  let fmt ← parseFmt (← (← j.getObjVal? "fmt").getStr?)
  let code ← (← j.getObjVal? "code").getNat?
  let a ← parseLit (← j.getObjVal? "a") 0
  let b ← parseLit (← j.getObjVal? "b") 1
  let c ← parseLit (← j.getObjVal? "c") 2
  let name ← (← j.getObjVal? "name").getStr?
  let alias ← (← j.getObjVal? "alias").getStr?
  match Rate.gasRate fmt code a b c ⟨name.toList, alias.toList⟩ with
  | .ok txt => pure <| Json.mkObj [("text", chJson txt), ("parses", (CE.parseC txt).isSome)]
  | .error .notImplemented => pure <| Json.mkObj [("error_kind", "NotImplementedError")]
  | .error .undefinedCode => pure <| Json.mkObj [("error_kind", "undefined")]

def lineJson (l : Codec.Line) : Json :=
  let S := fun (x : List Char) => Json.str (String.ofList x)
  Json.mkObj [("idx", S l.idx), ("re", Json.arr (l.re.map S).toArray), ("pr", Json.arr (l.pr.map S).toArray),
    ("a", S l.a), ("b", S l.b), ("c", S l.c), ("tmin", S l.tmin), ("tmax", S l.tmax), ("code", S l.code), ("source", S l.source)]

def parseCodecFmt (s : String) : Except String Codec.Fmt :=
  match s with
  | "naunet" => pure .native | "kida" => pure .kida | "umist" => pure .umist | "leeds" => pure .leeds
  | "uclchem" => pure .uclchem
  | _ => throw s!"unknown format {s}"

def handleDecode (j : Json) : Except String Json := do
  let fmt ← parseCodecFmt (← (← j.getObjVal? "fmt").getStr?)
  let lines ← (← (← j.getObjVal? "lines").getArr?).toList.mapM (·.getStr?)
  let pseudo ← (← (← j.getObjVal? "pseudo").getArr?).toList.mapM (·.getStr?)
  match Codec.readFile fmt (lines.map String.toList) with
  | none => pure <| Json.mkObj [("error", "malformed line")]
  | some ls =>
    let sp := fun (xs : List (List Char)) => Json.arr ((Codec.speciesOf (pseudo.map String.toList) xs).map fun x => Json.str (String.ofList x)).toArray
    pure <| Json.arr (ls.map fun l => Json.mkObj [("line", lineJson l), ("reactants", sp l.re), ("products", sp l.pr)]).toArray

def handleKromeFile (j : Json) : Except String Json := do
  let lines ← (← (← j.getObjVal? "lines").getArr?).toList.mapM (·.getStr?)
  let pseudo ← (← (← j.getObjVal? "pseudo").getArr?).toList.mapM (·.getStr?)
  let (st, rs) := Krome.readKrome Krome.KState.init (lines.map String.toList)
  let S := fun (x : List Char) => Json.str (String.ofList x)
  let O := fun (x : Option (List Char)) => match x with | some v => S v | none => Json.null
  let sp := fun (xs : List (List Char)) => Json.arr ((Codec.speciesOf (pseudo.map String.toList) xs).map S).toArray
  pure <| Json.mkObj [("format", S st.format), ("commons", Json.arr (st.commons.map S).toArray),
    ("vars", Json.arr (st.vars.map S).toArray),
    ("reactions", Json.arr (rs.map fun l => Json.mkObj [("idx", O l.idx), ("reactants", sp l.re), ("products", sp l.pr),
      ("tmin", O l.tmin), ("tmax", O l.tmax), ("rate", O l.rate)]).toArray)]

def handleEncodeNative (j : Json) : Except String Json := do
  let g := fun (k : String) => do pure ((← (← j.getObjVal? k).getStr?).toList)
  let gl := fun (k : String) => do pure ((← (← (← j.getObjVal? k).getArr?).toList.mapM (·.getStr?)).map String.toList)
  let l : Codec.Line := { idx := ← g "idx", re := ← gl "re", pr := ← gl "pr", a := ← g "a", b := ← g "b", c := ← g "c",
                          tmin := ← g "tmin", tmax := ← g "tmax", code := ← g "code", source := ← g "source" }
  pure (Json.str (String.ofList (Codec.encodeNative l)))

def strList (j : Json) : Except String (List (List Char)) := do
  pure ((← (← j.getArr?).toList.mapM (·.getStr?)).map String.toList)

def handleSpecies (j : Json) : Except String Json := do
  let elements ← strList (← j.getObjVal? "elements")
  let pseudo ← strList (← j.getObjVal? "pseudo")
  let grain ← (← j.getObjVal? "grain").getStr?
  let surface ← (← j.getObjVal? "surface").getStr?
  let repl ← (← (← j.getObjVal? "repl").getArr?).toList.mapM fun p => do
    pure (((← (← p.getArrVal? 0).getStr?).toList), ((← (← p.getArrVal? 1).getStr?).toList))
  let names ← strList (← j.getObjVal? "names")
  let cfg : Sp.Cfg := { elements := elements, pseudo := pseudo, grain := grain.toList, surface := surface.toList, repl := repl }
  let S := fun (x : List Char) => Json.str (String.ofList x)
  pure <| Json.arr (names.map fun nm =>
    match Sp.parse cfg nm with
    | .error e => Json.mkObj [("error", (match e with
        | .startsUnknown => "starts" | .unknownPart => "part" | .repeatedSurface => "surface" | .repeatedGrain => "grain"))]
    | .ok p =>
      let nm' := Sp.renamed cfg nm
      Json.mkObj [
        ("counts", Json.arr (p.counts.map fun (e, n) => Json.arr #[S e, (n : Nat)]).toArray),
        ("surface", match p.surface with | some g => Json.num (g : Nat) | none => Json.null),
        ("grain", match p.grain with | some g => Json.num (g : Nat) | none => Json.null),
        ("name", S nm'), ("charge", Json.num (Sp.charge nm' : Int)), ("basename", S (Sp.basename cfg p nm')),
        ("gasname", S (Sp.gasname cfg p nm')), ("alias", S (Sp.aliasFull cfg p nm')), ("massnumber", (Sp.massNumber p : Nat)),
        ("is_atom", Sp.isAtom p nm'), ("is_electron", Sp.isElectron nm')]).toArray

def tripleJson (t : Nat × Nat × Nat) : Json := Json.arr #[(t.1 : Nat), (t.2.1 : Nat), (t.2.2 : Nat)]

def handleRenorm (j : Json) : Except String Json := do
  let masses ← natList (← j.getObjVal? "elem_mass")
  let species ← (← (← j.getObjVal? "species").getArr?).toList.mapM fun s => do
    let cs ← natList (← s.getObjVal? "counts")
    let m ← (← s.getObjVal? "mass").getNat?
    let e ← (← s.getObjVal? "electron").getBool?
    pure (Renorm.RSpec.mk cs m e)
  let mat := Renorm.matrix species masses
  let facs := species.map (Renorm.factor masses)
  pure <| Json.mkObj [
    ("matrix", Json.arr (mat.map fun row => Json.arr (row.map tripleJson).toArray).toArray),
    ("factors", Json.arr (facs.map fun f => match f with
      | none => Json.null
      | some ts => Json.arr (ts.map tripleJson).toArray).toArray)]

def ratJson (r : Rat) : Json := Json.arr #[Json.num (JsonNumber.fromInt r.num), Json.num (JsonNumber.fromNat r.den)]

/-- `physics`: the helper functions of naunet_physics.cpp on an exact abundance vector -/
def handlePhysics (j : Json) : Except String Json := do
  let species ← (← (← j.getObjVal? "species").getArr?).toList.mapM fun s => do
    let cs ← natList (← s.getObjVal? "counts")
    let m ← (← s.getObjVal? "mass").getNat?
    pure (Physics.Sp.mk m cs)
  let y ← (← (← j.getObjVal? "y").getArr?).toList.mapM fun v => do
    let n ← (← v.getArrVal? 0).getInt?
    let d ← (← v.getArrVal? 1).getNat?
    pure ((n : Rat) / (d : Rat))
  let nelem ← (← j.getObjVal? "nelem").getNat?
  let n := Physics.numDens species.length y
  pure <| Json.mkObj [
    ("numdens", ratJson n),
    ("mu", if n == 0 then Json.null else ratJson (Physics.mu species y)),
    ("elem", Json.arr ((List.range nelem).map fun e => ratJson (Physics.elementAbund species e y)).toArray)]

/-- `reqeq`: `Reaction.__eq__` and the hash key on pairs of a list of reactions -/
def handleReqEq (j : Json) : Except String Json := do
  let rs ← (← (← j.getObjVal? "reactions").getArr?).toList.mapM fun r => do
    let re ← natList (← r.getObjVal? "re")
    let pr ← natList (← r.getObjVal? "pr")
    let tmin ← (← r.getObjVal? "tmin").getInt?
    let tmax ← (← r.getObjVal? "tmax").getInt?
    let ty ← (← r.getObjVal? "ty").getNat?
    pure (ReqEq.R.mk re pr tmin tmax ty)
  let arr := rs.toArray
  let pairs ← (← (← j.getObjVal? "pairs").getArr?).toList.mapM fun p => do
    let a ← (← p.getArrVal? 0).getNat?
    let b ← (← p.getArrVal? 1).getNat?
    pure (a, b)
  let out ← pairs.mapM fun (a, b) => do
    match arr[a]?, arr[b]? with
    | some x, some y => pure (Json.arr #[Json.bool (ReqEq.eqR x y), Json.bool (ReqEq.hashKey x == ReqEq.hashKey y)])
    | _, _ => throw "pair index out of range"
  pure (Json.arr out.toArray)

def handleSymVerdict (j : Json) : Except String Json := do
  let comps ← (← (← j.getObjVal? "comps").getArr?).toList.mapM fun c => do
    (← c.getArr?).toList.mapM fun v => do
      let k ← (← v.getArrVal? 0).getStr?
      let s ← (← v.getArrVal? 1).getStr?
      let us ← (← (← v.getArrVal? 2).getArr?).toList.mapM (·.getStr?)
      pure ((k, s, us) : Sym.Var)
  let net ← (← (← j.getObjVal? "net_names").getArr?).toList.mapM (·.getStr?)
  let params := (Sym.merge "param" comps).map (·.1)
  let consts := (Sym.merge "constant" comps).map (·.1)
  let v := Sym.firstUndeclared (Sym.builtins ++ net ++ consts ++ params) (Sym.merge "derived" comps)
  pure <| Json.mkObj [("undeclared", match v with | some x => Json.str x | none => Json.null),
    ("params", Json.arr (params.map Json.str).toArray),
    ("deriveds", Json.arr ((Sym.merge "derived" comps).map fun p => Json.str p.1).toArray)]

partial def parseFTree (j : Json) : Except String Fortran.FTree := do
  let tag ← (← j.getArrVal? 0).getStr?
  let S := fun (i : Nat) => do pure ((← (← j.getArrVal? i).getStr?).toList)
  match tag with
  | "sci" => pure (.sci (← S 1))
  | "var" => pure (.var (← S 1))
  | "listvar" => pure (.listvar (← S 1) (← S 2))
  | "func" => pure (.func (← S 1) (← parseFTree (← j.getArrVal? 2)))
  | "power" => pure (.power (← parseFTree (← j.getArrVal? 1)) (← parseFTree (← j.getArrVal? 2)))
  | "paren" => pure (.paren (← parseFTree (← j.getArrVal? 1)))
  | "bin" =>
    let op ← S 1
    pure (.bin (op.headD '?') (← parseFTree (← j.getArrVal? 2)) (← parseFTree (← j.getArrVal? 3)))
  | "pair" => pure (.pair (← parseFTree (← j.getArrVal? 1)) (← parseFTree (← j.getArrVal? 2)))
  | "unit" => pure .unit
  | _ => throw s!"unknown tree tag {tag}"

def chText (l : List CE.Ch) : String := String.ofList (l.filterMap fun c => match c with | CE.Ch.c x => some x | _ => none)

def handleFtoC (j : Json) : Except String Json := do
  let t ← parseFTree (← j.getObjVal? "tree")
  pure <| Json.mkObj [("text", chText (Fortran.toC t)), ("parses_back", Fortran.parsesBack t)]

def handleNint (j : Json) : Except String Json := do
  let vals ← (← (← j.getObjVal? "vals").getArr?).toList.mapM fun p => do
    let n ← (← p.getArrVal? 0).getInt?
    let d ← (← p.getArrVal? 1).getNat?
    pure ((n : Rat) / (d : Rat))
  pure <| Json.arr (vals.map fun q => Json.arr #[Json.num (Fortran.fnint q : Int), Json.num (Fortran.crint q : Int)]).toArray

def handleDExp (j : Json) : Except String Json := do
  let s ← (← j.getObjVal? "text").getStr?
  pure (Json.str (String.ofList (Fortran.dExp s.toList)))

def handleParseOpts (j : Json) : Except String Json := do
  let S := fun (x : List Char) => Json.str (String.ofList x)
  let lists ← (← (← j.getObjVal? "lists").getArr?).toList.mapM (·.getStr?)
  let kvs ← (← (← j.getObjVal? "tables").getArr?).toList.mapM (·.getStr?)
  pure <| Json.mkObj [
    ("lists", Json.arr (lists.map fun l => Json.arr ((Cfg.parseList l.toList).map S).toArray).toArray),
    ("tables", Json.arr (kvs.map fun l => match Cfg.parseKV ':' l.toList with
      | some ps => Json.arr (ps.map fun p => Json.arr #[S p.1, S p.2]).toArray
      | none => Json.null).toArray),
    ("rate_modifier", match j.getObjVal? "ratemod" with
      | .ok (Json.arr occs) => (match Cfg.parseRateMod (occs.toList.filterMap fun o => (o.getStr?.toOption).map String.toList) with
          | some ps => Json.arr ((Cfg.dictOf ps).map fun p => Json.arr #[S p.1, S p.2]).toArray
          | none => Json.null)
      | _ => Json.null),
    ("ode_modifier", match j.getObjVal? "odemod" with
      | .ok (Json.arr occs) => (match Cfg.parseOdeMod (occs.toList.filterMap fun o => (o.getStr?.toOption).map String.toList) with
          | some ts => Json.arr ((Cfg.groupTerms ts).map fun e => Json.arr #[S e.1, Json.arr (e.2.1.map S).toArray,
              Json.arr (e.2.2.map fun d => Json.arr (d.map S).toArray).toArray]).toArray
          | none => Json.null)
      | _ => Json.null)]

def parseSpecInfo (j : Json) (base : Nat) : Except String Grain.SpecInfo := do
  let alias ← (← j.getObjVal? "alias").getStr?
  let e ← (← j.getObjVal? "electron").getBool?
  let c ← (← j.getObjVal? "charged").getBool?
  let t ← (← j.getObjVal? "tunnel").getBool?
  pure ⟨base, base + 1, base + 2, alias.toList, e, c, t⟩

def handleGrainRate (j : Json) : Except String Json := do
  let md ← match (← (← j.getObjVal? "model").getStr?) with
    | "base" => pure Grain.Model.base | "hh93" => pure .hh93 | "hh93i" => pure .hh93i | "rr07" => pure .rr07 | "rr07x" => pure .rr07x
    | m => throw s!"unknown model {m}"
  let ty ← match (← (← j.getObjVal? "type").getNat?) with
    | 200 => pure Grain.GType.freeze | 201 => pure .thermal | 202 => pure .cosmicray | 203 => pure .photon | 204 => pure .reactive
    | 210 => pure .h2des | 220 => pure .recombine | 221 => pure .ecapture | 300 => pure .surface
    | t => throw s!"unknown type {t}"
  let g ← (← j.getObjVal? "group").getStr?
  let sy ← j.getObjVal? "syms"
  let S := fun (k : String) => do (← sy.getObjVal? k).getStr?
  let rs : Grain.ReacSyms := { tgas := ← S "tgas", tdust := ← S "tdust", zeta := ← S "zeta", zism := ← S "zism", g0 := ← S "g0",
                               av := ← S "av", h2form := ← S "h2form" }
  let a ← parseLit (← j.getObjVal? "a") 0
  let s1 ← parseSpecInfo (← j.getObjVal? "s1") 10
  let s2 ← parseSpecInfo (← j.getObjVal? "s2") 20
  match Grain.grainText md ty g rs a s1 s2 with
  | .ok txt => pure <| Json.mkObj [("text", chJson txt), ("parses", (CE.parseC txt).isSome)]
  | .notImplemented => pure <| Json.mkObj [("error_kind", "NotImplementedError")]

def handle (line : String) : String :=
  match Json.parse line with
  | .error e => (Json.mkObj [("error", s!"json: {e}")]).compress
  | .ok j =>
    let r : Except String Json := do
      let cmd ← (← j.getObjVal? "cmd").getStr?
      match cmd with
      | "ode" => handleOde j
      | "override" => handleOverride j
      | "solve" => handleSolve j
      | "net" => handleNet j
      | "extend" => handleExtend j
      | "window" => handleWindow j
      | "gasrate" => handleGasRate j
      | "decode" => handleDecode j
      | "kromefile" => handleKromeFile j
      | "species" => handleSpecies j
      | "renorm" => handleRenorm j
      | "physics" => handlePhysics j
      | "reqeq" => handleReqEq j
      | "symverdict" => handleSymVerdict j
      | "ftoc" => handleFtoC j
      | "parseopts" => handleParseOpts j
      | "grainrate" => handleGrainRate j
      | "dexp" => handleDExp j
      | "nint" => handleNint j
      | "encode_native" => handleEncodeNative j
      | "kromebound" => handleKrome j
      | "dup" => handleDup j
      | "order" => handleOrder j
      | "odeint" => handleOdeint j
      | _ => throw s!"unknown cmd {cmd}"
    match r with
    | .ok v => v.compress
    | .error e => (Json.mkObj [("error", e)]).compress

partial def loop (h : IO.FS.Stream) (out : IO.FS.Stream) : IO Unit := do
  let line ← h.getLine
  if line.isEmpty then return ()
  let l := line.trimAscii.toString
  if l.isEmpty then loop h out else
  out.putStrLn (handle l)
  loop h out

def main : IO Unit := do
  let out ← IO.getStdout
  loop (← IO.getStdin) out
  out.flush
