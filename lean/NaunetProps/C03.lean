/-
  C03 — CSR / dense / Odeint layouts agree, are well-formed and in bounds.
-/
import NaunetModel.OdeGen
import Mathlib.Data.List.Basic
import Mathlib.Data.List.Range
import Mathlib.Tactic.Ring

namespace Naunet.C03
open Naunet

variable (n : Nat) (entry : Nat → Nat → Emitted)

/-! #### one row -/

theorem mem_rowEntries (row c : Nat) (v : Emitted) :
    (c, v) ∈ rowEntries n entry row ↔ c < n ∧ entry row c = v ∧ v.isZero = false := by
  unfold rowEntries
  simp only [List.mem_filterMap, List.mem_range]
  constructor
  · rintro ⟨a, ha, h⟩
    by_cases hz : (entry row a).isZero = true
    · simp [hz] at h
    · simp [hz] at h
      obtain ⟨rfl, rfl⟩ := h
      exact ⟨ha, rfl, by simpa using hz⟩
  · rintro ⟨hc, rfl, hz⟩
    exact ⟨c, hc, by simp [hz]⟩

/-- columns of one row are strictly increasing -/
theorem rowEntries_cols_sorted (row : Nat) :
    ((rowEntries n entry row).map (·.1)).Pairwise (· < ·) := by
  unfold rowEntries
  have h : (List.range n).Pairwise (· < ·) := List.pairwise_lt_range
  generalize List.range n = l at h
  induction l with
  | nil => simp
  | cons a l ih =>
    rw [List.pairwise_cons] at h
    rw [List.filterMap_cons]
    by_cases hz : (entry row a).isZero = true
    · simp only [hz, if_true]; exact ih h.2
    · have hz2 : (entry row a).isZero = false := by simpa using hz
      simp only [hz2, Bool.false_eq_true, if_false]
      rw [List.map_cons, List.pairwise_cons]
      refine ⟨?_, ih h.2⟩
      intro b hb
      simp only [List.mem_map, List.mem_filterMap] at hb
      obtain ⟨⟨c, v⟩, ⟨x, hx, hxe⟩, rfl⟩ := hb
      by_cases hz' : (entry row x).isZero = true
      · simp [hz'] at hxe
      · simp [hz'] at hxe
        obtain ⟨rfl, _⟩ := hxe
        exact h.1 _ hx

/-! #### the walk -/

theorem csrWalk_spec (fuel row nnz : Nat) :
    (csrWalk n entry fuel row nnz).2 = (List.range' row fuel).flatMap (rowEntries n entry) ∧
    (csrWalk n entry fuel row nnz).1.length = fuel + 1 ∧
    (csrWalk n entry fuel row nnz).1.head? = some nnz ∧
    (csrWalk n entry fuel row nnz).1.getLast? = some (nnz + (csrWalk n entry fuel row nnz).2.length) ∧
    (csrWalk n entry fuel row nnz).1.Pairwise (· ≤ ·) ∧
    (∀ x ∈ (csrWalk n entry fuel row nnz).1, nnz ≤ x) := by
  induction fuel generalizing row nnz with
  | zero => simp [csrWalk]
  | succ fuel ih =>
    obtain ⟨h1, h2, h3, h4, h5, h6⟩ := ih (row+1) (nnz + (rowEntries n entry row).length)
    simp only [csrWalk]
    refine ⟨?_, ?_, ?_, ?_, ?_, ?_⟩
    · simp [h1, List.range'_succ]
    · simp [h2]
    · simp
    · have hne : (csrWalk n entry fuel (row+1) (nnz + (rowEntries n entry row).length)).1 ≠ [] := by
        intro e; rw [e] at h2; simp at h2
      rw [List.getLast?_cons_of_ne_nil hne, h4]
      simp [Nat.add_assoc]
    · rw [List.pairwise_cons]
      exact ⟨fun x hx => by have := h6 x hx; omega, h5⟩
    · intro x hx
      rcases List.mem_cons.mp hx with rfl | hx
      · exact Nat.le_refl _
      · have := h6 x hx; omega

/-- slicing the entry list by consecutive row pointers gives the rows back -/
theorem csrRows_walk (fuel row nnz : Nat) :
    csrRows (csrWalk n entry fuel row nnz).1 (csrWalk n entry fuel row nnz).2
      = (List.range' row fuel).map (rowEntries n entry) := by
  induction fuel generalizing row nnz with
  | zero => simp [csrWalk, csrRows]
  | succ fuel ih =>
    obtain ⟨_, h2, h3, _⟩ := csrWalk_spec n entry fuel (row+1) (nnz + (rowEntries n entry row).length)
    simp only [csrWalk]
    generalize hw : csrWalk n entry fuel (row+1) (nnz + (rowEntries n entry row).length) = w at *
    obtain ⟨rp, rest⟩ := w
    cases rp with
    | nil => simp at h2
    | cons b rp' =>
      simp only [List.head?_cons, Option.some.injEq] at h3
      subst h3
      have ih' := ih (row+1) (nnz + (rowEntries n entry row).length)
      rw [hw] at ih'
      simp only [csrRows, List.range'_succ, List.map_cons]
      have : nnz + (rowEntries n entry row).length - nnz = (rowEntries n entry row).length := by omega
      rw [this, List.take_left', List.drop_left']
      · rw [ih']
      · rfl
      · rfl

/-! #### the complete structure -/

/-- **C03 (well-formed CSR).** For every matrix size and entry function: `n+1` row pointers,
    starting at 0, never decreasing, ending at the number of stored entries `nnz`, which is the
    length of the column and value arrays. -/
theorem csr_wellformed :
    let c := csrOf n entry
    c.rowptr.length = n + 1 ∧ c.rowptr.head? = some 0 ∧ c.rowptr.getLast? = some c.nnz ∧
    c.rowptr.Pairwise (· ≤ ·) ∧ c.cols.length = c.nnz ∧ c.vals.length = c.nnz := by
  obtain ⟨_, h2, h3, h4, h5, _⟩ := csrWalk_spec n entry n 0 0
  simp only [csrOf, Csr.cols, Csr.vals, List.length_map]
  refine ⟨h2, h3, ?_, h5, trivial, trivial⟩
  simpa using h4

/-- the rows read back from the structure are the walked rows -/
theorem csrRows_csrOf :
    csrRows (csrOf n entry).rowptr (csrOf n entry).ents = (List.range n).map (rowEntries n entry) := by
  have := csrRows_walk n entry n 0 0
  simpa [csrOf, List.range_eq_range'] using this

/-- **C03 (columns).** Inside every row the stored column indices are strictly increasing and
    `< n`. -/
theorem csr_cols_sorted_in_range :
    ∀ r ∈ csrRows (csrOf n entry).rowptr (csrOf n entry).ents,
      (r.map (·.1)).Pairwise (· < ·) ∧ ∀ e ∈ r, e.1 < n := by
  rw [csrRows_csrOf]
  intro r hr
  obtain ⟨row, _, rfl⟩ := List.mem_map.mp hr
  refine ⟨rowEntries_cols_sorted n entry row, ?_⟩
  rintro ⟨c, v⟩ he
  exact ((mem_rowEntries n entry row c v).mp he).1

theorem mem_zipIdx_range_map {β : Type*} (f : Nat → β) (m : Nat) (x : β) (i : Nat) :
    (x, i) ∈ ((List.range m).map f).zipIdx 0 ↔ i < m ∧ x = f i := by
  rw [List.mem_zipIdx_iff_getElem?]
  simp only [List.getElem?_map]
  by_cases h : i < m
  · simp [h, eq_comm]
  · simp [h]

/-- **C03 (sparse = dense = Odeint).** A triple `(i, j, v)` is stored in the CSR structure iff
    `i, j < n`, `v` is the dense entry `jacrhs[i*n+j]` and that entry is not the text `0.0` –
    exactly the assignments the dense (`IJth(jmatrix, i, j) = v`) and Odeint (`j(i, j) = v`)
    templates make. -/
theorem csr_triples_iff (i j : Nat) (v : Emitted) :
    (i, j, v) ∈ csrTriples (csrOf n entry) ↔
      i < n ∧ j < n ∧ entry i j = v ∧ v.isZero = false := by
  unfold csrTriples
  rw [csrRows_csrOf]
  simp only [List.mem_flatMap, List.mem_map, Prod.mk.injEq, Prod.exists]
  constructor
  · rintro ⟨r, idx, hmem, c, w, hcw, rfl, rfl, rfl⟩
    obtain ⟨hi, rfl⟩ := (mem_zipIdx_range_map (rowEntries n entry) n r idx).mp hmem
    obtain ⟨hc, he, hz⟩ := (mem_rowEntries n entry idx c w).mp hcw
    exact ⟨hi, hc, he, hz⟩
  · rintro ⟨hi, hj, he, hz⟩
    exact ⟨rowEntries n entry i, i, (mem_zipIdx_range_map _ n _ i).mpr ⟨hi, rfl⟩,
      j, v, (mem_rowEntries n entry i j v).mpr ⟨hj, he, hz⟩, rfl, rfl, rfl⟩

/-- **C03 (flat index).** The dense list index `i*n + j` decodes to `(i, j)` for `j < n`. -/
theorem decodeFlat_encode (i j : Nat) (hj : j < n) : decodeFlat n (i * n + j) = (i, j) := by
  unfold decodeFlat
  have hn : 0 < n := by omega
  refine Prod.ext ?_ ?_
  · show (i * n + j) / n = i
    rw [Nat.mul_comm, Nat.mul_add_div hn, Nat.div_eq_of_lt hj]; simp
  · show (i * n + j) % n = j
    rw [Nat.mul_comm, Nat.mul_add_mod, Nat.mod_eq_of_lt hj]

/-- **C03 (pattern file).** The pattern marks exactly the stored entries. -/
theorem pattern_iff (inp : OdeInput) (i j : Nat) (hi : i < inp.neqns) (hj : j < inp.neqns) :
    ((pattern inp)[i]?.bind (·[j]?)) = some (if (jacEntry inp i j).isZero then 0 else 1) := by
  simp [pattern, List.getElem?_range hi, List.getElem?_range hj]

/-- **C03 (declared size).** `NEQUATIONS ≥ 1` even for the empty network. -/
theorem neqns_pos (inp : OdeInput) : 0 < inp.neqns := by
  unfold OdeInput.neqns; omega

/-! #### subscripts of generated terms stay inside the declared sizes -/

def InpWF (inp : OdeInput) : Prop :=
  (∀ r ∈ inp.reacs, (∀ x ∈ r.re, x < inp.nspec) ∧ (∀ x ∈ r.pr, x < inp.nspec)) ∧
  (∀ m ∈ inp.mods, m.tgt < inp.nspec ∧ ∀ x ∈ m.deps, x < inp.nspec)

theorem rhsFrom_bounds (nspec s : Nat) (rs : List Reac) (i : Nat)
    (h : ∀ r ∈ rs, ∀ x ∈ r.re, x < nspec) :
    ∀ t ∈ rhsFrom s rs i, (∀ x ∈ t.vars, x < nspec) ∧ ∃ q, t.coef = .k q ∧ s ≤ q ∧ q < s + rs.length := by
  induction rs generalizing s with
  | nil => intro t ht; simp [rhsFrom] at ht
  | cons r rs ih =>
    intro t ht
    simp only [rhsFrom, reacRhs, rep, List.mem_append, List.mem_replicate] at ht
    rcases ht with (⟨_, rfl⟩ | ⟨_, rfl⟩) | h'
    · exact ⟨h r (by simp), s, rfl, Nat.le_refl _, by simp⟩
    · exact ⟨h r (by simp), s, rfl, Nat.le_refl _, by simp⟩
    · obtain ⟨hv, q, hq, h1, h2⟩ := ih (s+1) (fun r' hr' => h r' (by simp [hr'])) t h'
      exact ⟨hv, q, hq, by omega, by simp; omega⟩

theorem jacFrom_bounds (nspec s : Nat) (rs : List Reac) (i j : Nat)
    (h : ∀ r ∈ rs, ∀ x ∈ r.re, x < nspec) :
    ∀ t ∈ jacFrom s rs i j, (∀ x ∈ t.vars, x < nspec) ∧ ∃ q, t.coef = .k q ∧ s ≤ q ∧ q < s + rs.length := by
  induction rs generalizing s with
  | nil => intro t ht; simp [jacFrom] at ht
  | cons r rs ih =>
    intro t ht
    have hsub : ∀ x ∈ r.re.erase j, x < nspec := fun x hx => h r (by simp) x (List.mem_of_mem_erase hx)
    simp only [jacFrom, reacJac, rep, List.mem_append, List.mem_replicate] at ht
    rcases ht with (⟨_, rfl⟩ | ⟨_, rfl⟩) | h'
    · exact ⟨hsub, s, rfl, Nat.le_refl _, by simp⟩
    · exact ⟨hsub, s, rfl, Nat.le_refl _, by simp⟩
    · obtain ⟨hv, q, hq, h1, h2⟩ := ih (s+1) (fun r' hr' => h r' (by simp [hr'])) t h'
      exact ⟨hv, q, hq, by omega, by simp; omega⟩

/-- **C03 (bounds).** For a network whose reactions mention only slots `< nspec`, every `y[..]`
    subscript of every chemical term of every equation and Jacobian entry is `< nspec ≤ NEQUATIONS`
    and every `k[..]` subscript is `< NREACTIONS`. -/
theorem subscripts_in_bounds (inp : OdeInput) (hwf : InpWF inp) (i j : Nat) :
    (∀ t ∈ rhsFrom 0 inp.reacs i, (∀ x ∈ t.vars, x < inp.neqns) ∧ ∃ q, t.coef = .k q ∧ q < inp.reacs.length) ∧
    (∀ t ∈ jacFrom 0 inp.reacs i j, (∀ x ∈ t.vars, x < inp.neqns) ∧ ∃ q, t.coef = .k q ∧ q < inp.reacs.length) := by
  have hle : inp.nspec ≤ inp.neqns := by unfold OdeInput.neqns; split <;> omega
  constructor
  · intro t ht
    obtain ⟨hv, q, hq, _, h2⟩ := rhsFrom_bounds inp.nspec 0 inp.reacs i (fun r hr => (hwf.1 r hr).1) t ht
    exact ⟨fun x hx => Nat.lt_of_lt_of_le (hv x hx) hle, q, hq, by omega⟩
  · intro t ht
    obtain ⟨hv, q, hq, _, h2⟩ := jacFrom_bounds inp.nspec 0 inp.reacs i j (fun r hr => (hwf.1 r hr).1) t ht
    exact ⟨fun x hx => Nat.lt_of_lt_of_le (hv x hx) hle, q, hq, by omega⟩

/-! ### non-vacuity -/
example : (csr ⟨2, [⟨[0,0],[1]⟩], [], [], []⟩).rowptr = [0, 1, 2] := by decide
example : (csr ⟨0, [], [], [], []⟩).rowptr = [0, 0] ∧ (csr ⟨0, [], [], [], []⟩).nnz = 0 := by decide
example : InpWF ⟨2, [⟨[0,0],[1]⟩], [], [], []⟩ := by
  refine ⟨?_, ?_⟩ <;> simp

end Naunet.C03
