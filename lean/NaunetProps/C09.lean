/-
  C09 — one index per species: identifiers valid, unique and consistent everywhere.
-/
import NaunetModel.Species
import Mathlib.Data.List.Basic
import Mathlib.Data.List.Nodup

namespace Naunet.C09
open Naunet.Sp

theorem macros_snd (aliases : List Str) (s : Nat) :
    ((aliases.zipIdx s).map fun p => (("IDX_".toList ++ p.1, p.2) : Str × Nat)).map (·.2) = List.range' s aliases.length := by
  induction aliases generalizing s with
  | nil => rfl
  | cons a l ih =>
    simp only [List.zipIdx_cons, List.map_cons, List.length_cons, List.range'_succ, ih]

theorem macros_fst (aliases : List Str) (s : Nat) :
    ((aliases.zipIdx s).map fun p => (("IDX_".toList ++ p.1, p.2) : Str × Nat)).map (·.1) = aliases.map ("IDX_".toList ++ ·) := by
  induction aliases generalizing s with
  | nil => rfl
  | cons a l ih =>
    simp only [List.zipIdx_cons, List.map_cons, ih]

/-- **C09 (index macros).** For every species list the emitted macros carry the values `0 … n−1` in
    order, and the identifiers are pairwise distinct **iff** the aliases are. -/
theorem idx_bijective (aliases : List Str) :
    (emitMacros aliases).map (·.2) = List.range aliases.length ∧
    (((emitMacros aliases).map (·.1)).Nodup ↔ aliases.Nodup) := by
  constructor
  · unfold emitMacros
    rw [macros_snd, List.range_eq_range']
  · unfold emitMacros
    rw [macros_fst]
    exact List.nodup_map_iff (fun a b h => List.append_cancel_left h)

/-- **C09 (artefacts).** C macros, Python constants, project summary and the enzo per-species table are
    all maps over the one species list: same species, same order, same count. -/
theorem artefacts_agree (aliases : List Str) :
    emitMacros aliases = emitPython aliases ∧
    (emitMacros aliases).map (fun p => p.1.drop 4) = emitSummary aliases ∧
    (emitEnzoTable aliases).map (·.drop 2) = emitSummary aliases ∧
    (emitMacros aliases).length = aliases.length := by
  refine ⟨rfl, ?_, ?_, by simp [emitMacros]⟩
  · unfold emitMacros emitSummary
    rw [show (fun p : Str × Nat => p.1.drop 4) = (fun x => x.drop 4) ∘ (·.1) from rfl, ← List.map_map, macros_fst, List.map_map]
    induction aliases with
    | nil => rfl
    | cons a l ih => simp only [List.map_cons, ih]; rfl
  · unfold emitEnzoTable emitSummary
    rw [List.map_map]
    induction aliases with
    | nil => rfl
    | cons a l ih => simp only [List.map_cons, ih]; rfl

/-- **C09 (shape of the alias).** optional `G`, the basename, then `I`×(charge+1) or `M`×|charge| -/
theorem alias_shape (cfg : Cfg) (p : Parsed) (name : Str) :
    aliasOf cfg p name = (if p.surface.isSome then ['G'] else []) ++ basename cfg p name ++
      (if charge name ≥ 0 then List.replicate ((charge name).toNat + 1) 'I' else List.replicate ((-(charge name)).toNat) 'M') := rfl

theorem all_replicate (c : Char) (n : Nat) (h : isIdentChar c = true) : (List.replicate n c).all isIdentChar = true := by
  simp [List.all_replicate, h]

/-- **C09 (legality).** The generated identifier `IDX_<alias>` is a legal C / Python identifier **iff**
    the species' basename consists of letters, digits and `_` only. -/
theorem ident_legal_iff (cfg : Cfg) (p : Parsed) (name : Str) :
    isIdent ("IDX_".toList ++ aliasOf cfg p name) = true ↔ (basename cfg p name).all isIdentChar = true := by
  have hI : isIdentChar 'I' = true := by decide
  have hM : isIdentChar 'M' = true := by decide
  have hG : isIdentChar 'G' = true := by decide
  have hpre : ("IDX_".toList).all isIdentChar = true := by decide
  have hhead : ("IDX_".toList ++ aliasOf cfg p name) = 'I' :: ("DX_".toList ++ aliasOf cfg p name) := rfl
  unfold isIdent
  rw [hhead]
  have hd : ('I').isDigit = false := by decide
  simp only [hd, Bool.not_false, Bool.true_and]
  rw [← hhead, List.all_append, hpre, Bool.true_and, alias_shape]
  simp only [List.all_append]
  have hs : ((if p.surface.isSome = true then ['G'] else []) : Str).all isIdentChar = true := by
    split <;> simp [hG]
  have ht : ((if charge name ≥ 0 then List.replicate ((charge name).toNat + 1) 'I'
      else List.replicate ((-(charge name)).toNat) 'M') : Str).all isIdentChar = true := by
    split
    · exact all_replicate 'I' _ hI
    · exact all_replicate 'M' _ hM
  rw [hs, ht]; simp

/-- **F9 witness.** Excited and cyclic species have a basename with `*` / `-`: the macro is not an
    identifier (`#define IDX_H2*I`). -/
theorem F9_witness :
    ((parse cfgDefault "H2*".toList).toOption.map fun p => isIdent ("IDX_".toList ++ aliasOf cfgDefault p "H2*".toList)) = some false ∧
    ((parse cfgDefault "c-C3H2".toList).toOption.map fun p => isIdent ("IDX_".toList ++ aliasOf cfgDefault p "c-C3H2".toList)) = some false := by
  decide +kernel

/-- **F10 (repaired).** `GRAIN` and `GRAIN0` compare equal *and* hash equally: one slot.  (On the pinned
    tree the hash contained the spelling; repaired by a `fix:` commit.) -/
theorem F10_fixed :
    (do let p ← (parse cfgDefault "GRAIN".toList).toOption
        let q ← (parse cfgDefault "GRAIN0".toList).toOption
        pure (eqPy cfgDefault "GRAIN".toList p "GRAIN0".toList q,
              hashKey cfgDefault "GRAIN".toList p == hashKey cfgDefault "GRAIN0".toList q)) = some (true, true) := by
  decide +kernel

/-! ### the upper-case re-spelling inside `Species.alias` -/

/-- **C09 (default list).** With the default element list every replacement pair built inside `alias` maps a symbol
    to itself: the alias of a default-list species is exactly `aliasOf` (prefix, basename, charge suffix). -/
theorem alias_repl_default_identity : (aliasRepl cfgDefault).all (fun kv => kv.1 == kv.2) = true := by
  decide +kernel

theorem replaceStr_self (k : Str) (fuel : Nat) (s : Str) : replaceStr k k fuel s = s := by
  induction fuel generalizing s with
  | zero => rfl
  | succ n ih =>
    cases s with
    | nil => rfl
    | cons c rest =>
      simp only [replaceStr]
      split
      · rfl
      · split
        · rename_i h
          rw [ih]
          exact List.prefix_iff_eq_append.mp (List.isPrefixOf_iff_prefix.mp h)
        · rw [ih]

theorem aliasFull_default (p : Parsed) (name : Str) : aliasFull cfgDefault p name = aliasOf cfgDefault p name := by
  unfold aliasFull aliasOf aliasBase
  have hall := alias_repl_default_identity
  generalize aliasRepl cfgDefault = tbl at hall
  have : ∀ b : Str, tbl.foldl (fun acc kv => replaceStr kv.1 kv.2 (acc.length + 1) acc) b = b := by
    induction tbl with
    | nil => intro b; rfl
    | cons kv rest ih =>
      intro b
      simp only [List.all_cons, Bool.and_eq_true, beq_iff_eq] at hall
      simp only [List.foldl_cons]
      rw [← hall.1, replaceStr_self]
      exact ih hall.2 b
  rw [this]

/-- the UCLCHEM-style upper-case configuration of the harness' networks -/
def cfgUpper : Cfg :=
  { elements := ["E", "H", "D", "HE", "C", "N", "O", "MG", "SI", "S", "CL"].map String.toList,
    pseudo := ["CR", "CRP", "PHOTON", "CRPHOT"].map String.toList }

/-- aliases of a list of names (names that do not parse give no alias) -/
def aliasesOf (cfg : Cfg) (names : List String) : List (Option Str) :=
  names.map fun n => (parse cfg n.toList).toOption.map fun p => aliasFull cfg p n.toList

/-- **C09 (upper-case list).** The replacement re-spells the *basename* only: the ionisation suffix is appended
    afterwards, so `S+` (alias `SII`) and `SI` (alias `SiI`) keep different identifiers – and so do all species of the
    upper-case network the correspondence check renders. -/
theorem alias_upper_examples :
    aliasesOf cfgUpper ["S", "S+", "S++", "SI", "SI+", "SIO", "HE", "HE+", "CL", "CL+", "MG", "MG+", "HS", "HS+", "CS", "HCL", "E-"] =
      ["SI", "SII", "SIII", "SiI", "SiII", "SiOI", "HeI", "HeII", "ClI", "ClII", "MgI", "MgII", "HSI", "HSII", "CSI", "HClI", "EM"].map
        (fun a => some a.toList) := by
  decide +kernel

theorem alias_upper_nodup :
    (aliasesOf cfgUpper ["S", "S+", "S++", "SI", "SI+", "SIO", "H", "HE", "HE+", "E-", "C", "C+", "CL", "CL+", "MG", "MG+", "HS", "HS+", "CS"]).Nodup := by
  decide +kernel

end Naunet.C09
