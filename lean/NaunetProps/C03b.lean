/-
  C03 (continued) — the matrix that `Jac()` fills is the matrix the driver built: of the kind (dense / CSR) the emitted accessors
  belong to, with NEQUATIONS rows and columns and, for CSR, NNZ stored values - after `Init` and after any number of `Reset`s.
-/
import NaunetModel.SolverObj

namespace Naunet.SolverObj
open Naunet.Tables

theorem init_fits : ∀ m ∈ methods, fitsB m "Init" = true := by decide
theorem reset_fits : ∀ m ∈ methods, fitsB m "Reset" = true := by decide

theorem step_fits (m : String) (hm : m ∈ methods) (s : Option Obj) (op : Op)
    (hs : s = none ∨ ∃ o, s = some o ∧ Fits m o) (hop : s = none → op = .init) :
    ∃ o, step m s op = some o ∧ Fits m o := by
  have hi := init_fits m hm
  have hr := reset_fits m hm
  unfold fitsB at hi hr
  cases op with
  | init =>
    cases hb : build m "Init" with
    | none => simp [hb] at hi
    | some o => exact ⟨o, by cases s <;> simp [step, hb], by simpa [hb] using hi⟩
  | reset =>
    cases s with
    | none => exact absurd (hop rfl) (by decide)
    | some o0 =>
      cases hb : build m "Reset" with
      | none => simp [hb] at hr
      | some o => exact ⟨o, by simp [step, hb], by simpa [hb] using hr⟩

/-- every history of the solver object that starts with `Init` (then any mixture of `Init` and `Reset`) leaves an object whose
matrix is of the kind, and of the sizes, the emitted Jacobian function writes through -/
theorem history_fits (m : String) (hm : m ∈ methods) (ops : List Op) :
    ∃ o, run m (.init :: ops) = some o ∧ Fits m o := by
  unfold run
  simp only [List.foldl_cons]
  obtain ⟨o1, h1, f1⟩ := step_fits m hm none .init (Or.inl rfl) (fun _ => rfl)
  rw [h1]
  clear h1
  induction ops generalizing o1 with
  | nil => exact ⟨o1, rfl, f1⟩
  | cons op ops ih =>
    simp only [List.foldl_cons]
    obtain ⟨o2, h2, f2⟩ := step_fits m hm (some o1) op (Or.inr ⟨o1, rfl, f1⟩) (by simp)
    rw [h2]
    exact ih o2 f2

example : ∃ o, run "sparse" [.init, .reset, .reset] = some o ∧ ctorKind o.mat.1 = some .sparse := by decide

/-- **C03 / C01 / C06 (rate arrays).** In every back-end, every function that evaluates the right-hand side or the Jacobian
    declares `k`, `kh`, `kc` once each, with the size the rate functions write (`NREACTIONS`, `NHEATPROCS`, `NCOOLPROCS`), as
    automatic arrays initialised to zero at every call. -/
theorem rate_arrays_ok : evaluators.all evaluatorOk = true := by decide

end Naunet.SolverObj
