/-
  String lemmas for the codecs (C07, C18, C20): split/join inversion, strip of padded fields.
-/
import NaunetModel.Codec
import Mathlib.Data.List.Basic

namespace Naunet.Codec

theorem splitOnC_ne_nil (c : Char) (s : Str) : splitOnC c s ≠ [] := by
  induction s with
  | nil => simp [splitOnC]
  | cons x xs ih =>
    simp only [splitOnC]
    split
    · simp
    · split <;> simp

theorem splitOnC_noSep (c : Char) (f : Str) (hf : c ∉ f) : splitOnC c f = [f] := by
  induction f with
  | nil => rfl
  | cons x f ih =>
    have hx : (x == c) = false := by
      simp only [beq_eq_false_iff_ne, ne_eq]; intro e; exact hf (by simp [e])
    have := ih (fun h => hf (List.mem_cons_of_mem _ h))
    simp [splitOnC, hx, this]

theorem splitOnC_append_sep (c : Char) (f t : Str) (hf : c ∉ f) :
    splitOnC c (f ++ c :: t) = f :: splitOnC c t := by
  induction f with
  | nil => simp [splitOnC]
  | cons x f ih =>
    have hx : (x == c) = false := by
      simp only [beq_eq_false_iff_ne, ne_eq]; intro e; exact hf (by simp [e])
    have := ih (fun h => hf (List.mem_cons_of_mem _ h))
    simp [splitOnC, hx, this]

/-- **split inverts join** when no field contains the separator -/
theorem splitOnC_joinC (c : Char) (fs : List Str) (hne : fs ≠ []) (h : ∀ f ∈ fs, c ∉ f) :
    splitOnC c (joinC c fs) = fs := by
  induction fs with
  | nil => exact absurd rfl hne
  | cons f fs ih =>
    cases fs with
    | nil => simpa [joinC] using splitOnC_noSep c f (h f (by simp))
    | cons g rest =>
      have hf : c ∉ f := h f (by simp)
      have := ih (by simp) (fun x hx => h x (List.mem_cons_of_mem _ hx))
      simp only [joinC]
      rw [splitOnC_append_sep c f _ hf, this]

/-- a string without any whitespace character -/
def NoWs (s : Str) : Prop := ∀ x ∈ s, isWs x = false

theorem dropWhile_noWs (s : Str) (h : NoWs s) : s.dropWhile isWs = s := by
  cases s with
  | nil => rfl
  | cons x xs => simp [List.dropWhile, h x (by simp)]

theorem dropWhile_spaces (n : Nat) (s : Str) :
    (List.replicate n ' ' ++ s).dropWhile isWs = s.dropWhile isWs := by
  induction n with
  | zero => simp
  | succ n ih =>
    have : isWs ' ' = true := by decide
    simp [List.replicate_succ, List.dropWhile, this, ih]

theorem noWs_reverse (s : Str) (h : NoWs s) : NoWs s.reverse := fun x hx => h x (List.mem_reverse.mp hx)

theorem strip_clean (s : Str) (h : NoWs s) : strip s = s := by
  unfold strip lstrip rstrip
  rw [dropWhile_noWs s h, dropWhile_noWs _ (noWs_reverse s h), List.reverse_reverse]

theorem strip_padLeft (w : Nat) (s : Str) (h : NoWs s) : strip (padLeft w s) = s := by
  unfold strip lstrip rstrip padLeft
  rw [dropWhile_spaces, dropWhile_noWs s h, dropWhile_noWs _ (noWs_reverse s h), List.reverse_reverse]

theorem strip_padRight (w : Nat) (s : Str) (h : NoWs s) : strip (padRight w s) = s := by
  unfold strip lstrip rstrip padRight
  cases s with
  | nil =>
    have h1 := dropWhile_spaces (w - ([] : Str).length) []
    simp only [List.append_nil, List.dropWhile_nil] at h1
    simp only [List.nil_append, h1, List.reverse_nil, List.dropWhile_nil]
  | cons x xs =>
    have hx : isWs x = false := h x (by simp)
    have h1 : ((x :: xs) ++ List.replicate (w - (x :: xs).length) ' ').dropWhile isWs
        = (x :: xs) ++ List.replicate (w - (x :: xs).length) ' ' := by
      simp [List.dropWhile, hx]
    rw [h1, List.reverse_append, List.reverse_replicate, dropWhile_spaces,
      dropWhile_noWs _ (noWs_reverse _ h), List.reverse_reverse]

theorem notMem_padLeft (c : Char) (hc : c ≠ ' ') (w : Nat) (s : Str) (h : c ∉ s) : c ∉ padLeft w s := by
  unfold padLeft
  intro hm
  rcases List.mem_append.mp hm with h1 | h1
  · exact hc (List.eq_of_mem_replicate h1)
  · exact h h1

theorem notMem_padRight (c : Char) (hc : c ≠ ' ') (w : Nat) (s : Str) (h : c ∉ s) : c ∉ padRight w s := by
  unfold padRight
  intro hm
  rcases List.mem_append.mp hm with h1 | h1
  · exact h h1
  · exact hc (List.eq_of_mem_replicate h1)

theorem noWs_nil : NoWs [] := fun _ h => by simp at h

end Naunet.Codec

namespace Naunet.Codec

/-! ### `str.split()` on blank-padded fixed-width fields -/

theorem wordsAux_clean (x : Str) (hx : NoWs x) (t cur : Str) :
    wordsAux (x ++ t) cur = wordsAux t (x.reverse ++ cur) := by
  induction x generalizing cur with
  | nil => rfl
  | cons a x ih =>
    have ha : isWs a = false := hx a (by simp)
    simp only [List.cons_append, wordsAux, ha]
    have := ih (fun y hy => hx y (List.mem_cons_of_mem _ hy)) (a :: cur)
    simp only [Bool.false_eq_true, if_false] at this ⊢
    rw [this]; simp

theorem wordsAux_spaces (n : Nat) (t : Str) : wordsAux (List.replicate n ' ' ++ t) [] = wordsAux t [] := by
  induction n with
  | zero => rfl
  | succ n ih =>
    have : isWs ' ' = true := by decide
    simp [List.replicate_succ, wordsAux, this, ih]

theorem length_padRight (w : Nat) (x : Str) (h : x.length ≤ w) : (padRight w x).length = w := by
  simp [padRight]; omega

/-- a non-empty clean name shorter than its column is read back as one word -/
theorem words_padRight (w : Nat) (x : Str) (hx : NoWs x) (hne : x ≠ []) (hlen : x.length < w) (t : Str) :
    words (padRight w x ++ t) = x :: words t := by
  unfold words padRight
  rw [List.append_assoc, wordsAux_clean x hx]
  obtain ⟨k, hk⟩ : ∃ k, w - x.length = k + 1 := ⟨w - x.length - 1, by omega⟩
  rw [hk, List.replicate_succ]
  have hsp : isWs ' ' = true := by decide
  have hcur : (x.reverse ++ ([] : Str)).isEmpty = false := by
    cases x with
    | nil => exact absurd rfl hne
    | cons a b => simp
  simp only [List.cons_append, wordsAux, hsp, hcur, if_true, List.append_nil, List.reverse_reverse]
  rw [wordsAux_spaces]
  simp [hne]

/-- an empty column contributes no word -/
theorem words_padRight_nil (w : Nat) (t : Str) : words (padRight w [] ++ t) = words t := by
  unfold words padRight
  simp only [List.nil_append, List.length_nil]
  exact wordsAux_spaces _ t

theorem words_spaces (n : Nat) : words (List.replicate n ' ') = [] := by
  unfold words
  have := wordsAux_spaces n []
  simp only [List.append_nil] at this
  rw [this]; rfl

end Naunet.Codec

namespace Naunet.Codec

theorem length_padLeft (w : Nat) (x : Str) (h : x.length ≤ w) : (padLeft w x).length = w := by
  simp [padLeft]; omega

/-- fixed-width species columns: `n` columns of width `w` -/
def columns (w : Nat) (names : List Str) : Str := (names.map (padRight w)).flatten

theorem length_columns (w : Nat) (names : List Str) (h : ∀ x ∈ names, x.length ≤ w) :
    (columns w names).length = w * names.length := by
  induction names with
  | nil => simp [columns]
  | cons x xs ih =>
    have := ih (fun y hy => h y (List.mem_cons_of_mem _ hy))
    simp only [columns, List.map_cons, List.flatten_cons, List.length_append, List.length_cons] at this ⊢
    rw [this, length_padRight w x (h x (by simp)), Nat.mul_succ]
    omega

/-- reading fixed-width columns back with `split()`: the non-empty names, in order -/
theorem words_columns (w : Nat) (names : List Str) (h : ∀ x ∈ names, NoWs x ∧ x.length < w) (t : Str) :
    words (columns w names ++ t) = names.filter (fun x => !x.isEmpty) ++ words t := by
  induction names with
  | nil => simp [columns]
  | cons x xs ih =>
    have hx := h x (by simp)
    have := ih (fun y hy => h y (List.mem_cons_of_mem _ hy))
    simp only [columns, List.map_cons, List.flatten_cons, List.append_assoc] at this ⊢
    cases hxe : x with
    | nil =>
      rw [words_padRight_nil, this]; simp
    | cons a b =>
      rw [← hxe, words_padRight w x hx.1 (by simp [hxe]) hx.2, this]
      simp [hxe]

theorem strip_of_ends (s : Str) (a b : Char) (m : Str) (hs : s = a :: m ++ [b]) (ha : isWs a = false) (hb : isWs b = false) :
    strip s = s := by
  subst hs
  unfold strip lstrip rstrip
  have h1 : (a :: m ++ [b]).dropWhile isWs = a :: m ++ [b] := by simp [List.dropWhile, ha]
  rw [h1]
  have h2 : (a :: m ++ [b]).reverse = b :: (a :: m).reverse := by simp
  rw [h2]
  simp [List.dropWhile, hb]

theorem words_clean (f : Str) (hf : NoWs f) (hne : f ≠ []) : words f = [f] := by
  unfold words
  have := wordsAux_clean f hf [] []
  simp only [List.append_nil] at this
  rw [this]
  have hcur : f.reverse.isEmpty = false := by
    cases f with
    | nil => exact absurd rfl hne
    | cons a b => simp
  simp [wordsAux, hcur]

/-- `" ".join(fields).split()` -/
theorem words_joinC_space (fs : List Str) (h : ∀ f ∈ fs, NoWs f ∧ f ≠ []) : words (joinC ' ' fs) = fs := by
  induction fs with
  | nil => rfl
  | cons f fs ih =>
    have hf := h f (by simp)
    cases fs with
    | nil => simpa [joinC] using words_clean f hf.1 hf.2
    | cons g rest =>
      have := ih (fun x hx => h x (List.mem_cons_of_mem _ hx))
      have e : joinC ' ' (f :: g :: rest) = padRight (f.length + 1) f ++ joinC ' ' (g :: rest) := by
        simp [joinC, padRight]
      rw [e, words_padRight (f.length + 1) f hf.1 hf.2 (by omega), this]

theorem sliceWidths_flatten (fields : List Str) : sliceWidths (fields.map List.length) fields.flatten = fields := by
  induction fields with
  | nil => rfl
  | cons f fs ih =>
    simp only [List.map_cons, List.flatten_cons, sliceWidths, List.take_left', List.drop_left', ih]

end Naunet.Codec

namespace Naunet.Codec

theorem lstrip_of_head (s : Str) (a : Char) (h : s.head? = some a) (ha : isWs a = false) : lstrip s = s := by
  cases s with
  | nil => simp at h
  | cons x xs =>
    simp only [List.head?_cons, Option.some.injEq] at h
    subst h
    simp [lstrip, List.dropWhile, ha]

theorem rstrip_of_getLast (s : Str) (z : Char) (h : s.getLast? = some z) (hz : isWs z = false) : rstrip s = s := by
  unfold rstrip
  have : s.reverse.head? = some z := by rw [List.head?_reverse]; exact h
  have := lstrip_of_head s.reverse z this hz
  unfold lstrip at this
  rw [this, List.reverse_reverse]

theorem strip_of_head_last (s : Str) (a z : Char) (h1 : s.head? = some a) (h2 : s.getLast? = some z)
    (ha : isWs a = false) (hz : isWs z = false) : strip s = s := by
  unfold strip
  rw [lstrip_of_head s a h1 ha, rstrip_of_getLast s z h2 hz]

theorem joinC_ne_nil (c : Char) (fs : List Str) (f : Str) (hf : fs.getLast? = some f) (hne : f ≠ []) : joinC c fs ≠ [] := by
  induction fs with
  | nil => simp at hf
  | cons g fs ih =>
    cases fs with
    | nil => simp at hf; subst hf; simpa [joinC] using hne
    | cons h rest => simp [joinC]

theorem getLast?_joinC (c : Char) (fs : List Str) (f : Str) (hf : fs.getLast? = some f) (hne : f ≠ []) :
    (joinC c fs).getLast? = f.getLast? := by
  induction fs with
  | nil => simp at hf
  | cons g fs ih =>
    cases fs with
    | nil => simp at hf; subst hf; simp [joinC]
    | cons h rest =>
      have hf' : (h :: rest).getLast? = some f := by rw [List.getLast?_cons_cons] at hf; exact hf
      have hn := joinC_ne_nil c (h :: rest) f hf' hne
      simp only [joinC]
      rw [List.getLast?_append_of_ne_nil _ (by simp), List.getLast?_cons_of_ne_nil hn]
      exact ih hf'

end Naunet.Codec
