/-
  Semantics of the term lists of `NaunetModel.OdeGen` in an arbitrary commutative ring,
  and the helper lemmas shared by C01, C02, C04, C13.
-/
import NaunetModel.OdeGen
import Mathlib.Algebra.BigOperators.Group.List.Basic
import Mathlib.Algebra.BigOperators.Group.Finset.Basic
import Mathlib.Algebra.BigOperators.Ring.Finset
import Mathlib.Algebra.BigOperators.Ring.List
import Mathlib.Tactic.Ring

namespace Naunet

section Sem
variable {R : Type*} [CommRing R]

/-- value of one emitted term `± coef*y[a]*y[b]…` -/
def evalTerm (kv : Coef → R) (y : Nat → R) (t : Term) : R :=
  (if t.neg then -1 else 1) * (kv t.coef * (t.vars.map y).prod)

/-- value of `0.0 ± t₁ ± t₂ …` -/
def evalEqn (kv : Coef → R) (y : Nat → R) (e : Eqn) : R := (e.map (evalTerm kv y)).sum

/-- value of an emitted right-hand side; `c` is the value of the wrapper
    `(gamma - 1.0) * ( · ) / kerg / npar` applied to 1 -/
def evalEmitted (c : R) (kv : Coef → R) (y : Nat → R) (e : Emitted) : R :=
  if e.scaled then c * evalEqn kv y e.terms else evalEqn kv y e.terms

@[simp] theorem evalEqn_nil (kv : Coef → R) (y : Nat → R) : evalEqn kv y [] = 0 := rfl

@[simp] theorem evalEqn_cons (kv : Coef → R) (y : Nat → R) (t : Term) (e : Eqn) :
    evalEqn kv y (t :: e) = evalTerm kv y t + evalEqn kv y e := by
  simp [evalEqn]

@[simp] theorem evalEqn_append (kv : Coef → R) (y : Nat → R) (a b : Eqn) :
    evalEqn kv y (a ++ b) = evalEqn kv y a + evalEqn kv y b := by
  simp [evalEqn]

@[simp] theorem evalEqn_rep (kv : Coef → R) (y : Nat → R) (n : Nat) (t : Term) :
    evalEqn kv y (rep n t) = (n : R) * evalTerm kv y t := by
  induction n with
  | zero => simp [rep]
  | succ n ih =>
    have : rep (n+1) t = t :: rep n t := by simp [rep, List.replicate_succ]
    rw [this, evalEqn_cons]
    simp only [rep] at ih ⊢
    rw [ih]; push_cast; ring

theorem evalEqn_flatMap {α : Type*} (kv : Coef → R) (y : Nat → R) (l : List α) (f : α → Eqn) :
    evalEqn kv y (l.flatMap f) = (l.map fun a => evalEqn kv y (f a)).sum := by
  induction l with
  | nil => simp
  | cons a l ih => simp [List.flatMap_cons, ih]

/-- the mass-action contribution of one reaction to species `i` -/
def massTerm (kv : Coef → R) (y : Nat → R) (i : Nat) (rl : Nat) (r : Reac) : R :=
  ((r.pr.count i : R) - (r.re.count i : R)) * (kv (.k rl) * (r.re.map y).prod)

/-- the mass-action law: sum over the numbered reactions -/
def massAction (kv : Coef → R) (y : Nat → R) (s : Nat) (rs : List Reac) (i : Nat) : R :=
  ((rs.zipIdx s).map fun p => massTerm kv y i p.2 p.1).sum

theorem evalEqn_reacRhs (kv : Coef → R) (y : Nat → R) (rl : Nat) (r : Reac) (i : Nat) :
    evalEqn kv y (reacRhs rl r i) = massTerm kv y i rl r := by
  simp [reacRhs, evalTerm, massTerm]; ring

theorem evalEqn_rhsFrom (kv : Coef → R) (y : Nat → R) (s : Nat) (rs : List Reac) (i : Nat) :
    evalEqn kv y (rhsFrom s rs i) = massAction kv y s rs i := by
  induction rs generalizing s with
  | nil => simp [rhsFrom, massAction]
  | cons r rs ih =>
    simp only [rhsFrom, evalEqn_append, evalEqn_reacRhs, ih, massAction, List.zipIdx_cons,
      List.map_cons, List.sum_cons]

/-- weighted counting: `Σ_{i<n} w i * count i l = Σ_{x∈l} w x` when every `x ∈ l` is `< n` -/
theorem sum_weight_count (w : Nat → R) (n : Nat) (l : List Nat) (h : ∀ x ∈ l, x < n) :
    (∑ i ∈ Finset.range n, w i * (l.count i : R)) = (l.map w).sum := by
  induction l with
  | nil => simp
  | cons a l ih =>
    have ha : a < n := h a (by simp)
    have hl : ∀ x ∈ l, x < n := fun x hx => h x (by simp [hx])
    have : ∀ i, ((a :: l).count i : R) = (l.count i : R) + (if a = i then 1 else 0) := by
      intro i
      rw [List.count_cons]
      by_cases hai : a = i <;> simp [hai]
    simp only [this, mul_add, Finset.sum_add_distrib, ih hl, List.map_cons, List.sum_cons]
    have : (∑ i ∈ Finset.range n, w i * (if a = i then (1:R) else 0)) = w a := by
      simp [Finset.sum_ite_eq, ha]
    rw [this]; ring

end Sem

end Naunet
