/-
  Polynomial semantics of emitted term lists and the derivative lemmas used by C02 / C13.
-/
import NaunetProps.Lemmas.OdeSem
import Mathlib.Algebra.MvPolynomial.PDeriv

namespace Naunet
open MvPolynomial
noncomputable section

/-- variables of the polynomial ring: every coefficient symbol and every abundance slot -/
abbrev V := Coef ⊕ Nat
abbrev P := MvPolynomial V ℤ

def kvar (c : Coef) : P := X (Sum.inl c)
def yvar (j : Nat) : P := X (Sum.inr j)

/-- the emitted expression read as a polynomial in all its identifiers -/
def toPoly (e : Eqn) : P := evalEqn kvar yvar e

/-- `c` = the wrapper symbol `(gamma - 1.0) / kerg / npar`, any polynomial free of `y` -/
def emittedPoly (c : P) (e : Emitted) : P := evalEmitted c kvar yvar e

/-- ∂/∂y_j of a product of abundance variables: multiplicity times the product with one
    occurrence removed -/
theorem pderiv_prod_yvar (j : Nat) (l : List Nat) :
    pderiv (Sum.inr j : V) ((l.map yvar).prod) = (l.count j : P) * ((l.erase j).map yvar).prod := by
  induction l with
  | nil => simp
  | cons a l ih =>
    simp only [List.map_cons, List.prod_cons, Derivation.leibniz, ih, yvar, pderiv_X]
    by_cases h : a = j
    · subst h
      simp only [List.erase_cons_head, List.count_cons_self, Pi.single_eq_same, smul_eq_mul]
      by_cases hm : a ∈ l
      · have hp := List.prod_map_erase yvar hm
        simp only [yvar] at hp ⊢
        push_cast
        rw [← hp]; ring
      · simp [List.count_eq_zero_of_not_mem hm, List.erase_of_not_mem hm]
    · have h' : (Sum.inr a : V) ≠ Sum.inr j := fun e => h (Sum.inr.inj e)
      have h'' : ¬ (a == j) = true := by simp [h]
      rw [List.erase_cons_tail h'']
      simp only [Pi.single_eq_of_ne h', List.count_cons_of_ne h, smul_eq_mul,
        List.map_cons, List.prod_cons, yvar]
      ring

theorem pderiv_kvar (j : Nat) (c : Coef) : pderiv (Sum.inr j : V) (kvar c) = 0 := by
  simp [kvar, pderiv_X]

theorem pderiv_evalTerm (j : Nat) (t : Term) :
    pderiv (Sum.inr j : V) (evalTerm kvar yvar t) =
      (t.vars.count j : P) * evalTerm kvar yvar ⟨t.neg, t.coef, t.vars.erase j⟩ := by
  unfold evalTerm
  simp only [Derivation.leibniz, pderiv_prod_yvar, pderiv_kvar, smul_eq_mul]
  split <;> simp <;> ring

theorem pderiv_toPoly_rep (j n : Nat) (t : Term) :
    pderiv (Sum.inr j : V) (toPoly (rep n t)) =
      toPoly (rep (n * t.vars.count j) ⟨t.neg, t.coef, t.vars.erase j⟩) := by
  simp only [toPoly, evalEqn_rep, Derivation.leibniz, pderiv_evalTerm]
  have : pderiv (Sum.inr j : V) ((n : P)) = 0 := by
    have := (pderiv (Sum.inr j : V) (R := ℤ)).map_natCast n
    simp at this ⊢
  rw [this]; push_cast; simp; ring

theorem toPoly_append (a b : Eqn) : toPoly (a ++ b) = toPoly a + toPoly b := by
  simp [toPoly]

theorem pderiv_reacRhs (rl : Nat) (r : Reac) (i j : Nat) :
    pderiv (Sum.inr j : V) (toPoly (reacRhs rl r i)) = toPoly (reacJac rl r i j) := by
  simp only [reacRhs, reacJac, toPoly_append, map_add, pderiv_toPoly_rep]

theorem pderiv_rhsFrom (s : Nat) (rs : List Reac) (i j : Nat) :
    pderiv (Sum.inr j : V) (toPoly (rhsFrom s rs i)) = toPoly (jacFrom s rs i j) := by
  induction rs generalizing s with
  | nil => simp [rhsFrom, jacFrom, toPoly]
  | cons r rs ih => simp only [rhsFrom, jacFrom, toPoly_append, map_add, pderiv_reacRhs, ih]

theorem pderiv_modRhs (m : OdeMod) (i j : Nat) :
    pderiv (Sum.inr j : V) (toPoly (modRhs m i)) = toPoly (modJac m i j) := by
  unfold modRhs modJac
  split
  · have : ([⟨false, .user m.fact, m.deps⟩] : Eqn) = rep 1 ⟨false, .user m.fact, m.deps⟩ := rfl
    rw [this, pderiv_toPoly_rep]; simp
  · simp [toPoly]

theorem pderiv_modsRhs (ms : List OdeMod) (i j : Nat) :
    pderiv (Sum.inr j : V) (toPoly (modsRhs ms i)) = toPoly (modsJac ms i j) := by
  induction ms with
  | nil => simp [modsRhs, modsJac, toPoly]
  | cons m ms ih =>
    simp only [modsRhs, modsJac, List.flatMap_cons, toPoly_append, map_add, pderiv_modRhs] at ih ⊢
    rw [ih]

theorem pderiv_thermRhsFrom (neg : Bool) (mk : Nat → Coef) (s : Nat) (ps : List (List Nat)) (j : Nat) :
    pderiv (Sum.inr j : V) (toPoly (thermRhsFrom neg mk s ps)) = toPoly (thermJacFrom neg mk s ps j) := by
  induction ps generalizing s with
  | nil => simp [thermRhsFrom, thermJacFrom, toPoly]
  | cons p ps ih =>
    have : ∀ e : Eqn, toPoly (⟨neg, mk s, p⟩ :: e) = toPoly (rep 1 ⟨neg, mk s, p⟩) + toPoly e := by
      intro e; simp [toPoly, rep]
    simp only [thermRhsFrom, thermJacFrom, this, toPoly_append, map_add, pderiv_toPoly_rep, ih]
    simp

end
end Naunet
