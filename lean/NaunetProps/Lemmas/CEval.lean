/-
  Real-number semantics of the C expression trees (shared by C05, C11, C12).
-/
import NaunetModel.CExpr
import Mathlib.Analysis.SpecialFunctions.Pow.Real
import Mathlib.Analysis.SpecialFunctions.Sqrt
import Mathlib.Analysis.SpecialFunctions.Exp
import Mathlib.Analysis.SpecialFunctions.Log.Basic

namespace Naunet.CE
noncomputable section

/-- value of a decimal literal -/
def numVal (s : List Char) : ℝ :=
  match parseDec s with
  | some (m, e) => (m : ℝ) * (10 : ℝ) ^ e
  | none => 0

/-- an environment: magnitudes, scalar identifiers, indexed identifiers `a[i]`, unknown functions -/
structure Env where
  mag : Nat → ℝ
  var : List Char → ℝ
  arr : List Char → List Char → ℝ
  fn  : List Char → List ℝ → ℝ

def b2r (p : Prop) [Decidable p] : ℝ := if p then 1 else 0

/-- C library functions by name; anything else is a user / helper function of the environment -/
def applyFn (ρ : Env) (f : List Char) (xs : List ℝ) : ℝ :=
  if f = "pow".toList then (match xs with | [x, y] => x ^ y | _ => 0)
  else if f = "exp".toList then (match xs with | [x] => Real.exp x | _ => 0)
  else if f = "sqrt".toList then (match xs with | [x] => Real.sqrt x | _ => 0)
  else if f = "log".toList then (match xs with | [x] => Real.log x | _ => 0)
  else if f = "log10".toList then (match xs with | [x] => Real.log x / Real.log 10 | _ => 0)
  else if f = "fmax".toList then (match xs with | [x, y] => max x y | _ => 0)
  else if f = "fmin".toList then (match xs with | [x, y] => min x y | _ => 0)
  else ρ.fn f xs

mutual
  def evalE (ρ : Env) : Expr → ℝ
    | .num s => numVal s
    | .mag i => ρ.mag i
    | .var s => ρ.var s
    | .neg e => - evalE ρ e
    | .pos e => evalE ρ e
    | .bin op a b =>
      if op = ['+'] then evalE ρ a + evalE ρ b
      else if op = ['-'] then evalE ρ a - evalE ρ b
      else if op = ['*'] then evalE ρ a * evalE ρ b
      else if op = ['/'] then evalE ρ a / evalE ρ b
      else if op = ['<'] then b2r (evalE ρ a < evalE ρ b)
      else if op = ['>'] then b2r (evalE ρ a > evalE ρ b)
      else if op = ['<', '='] then b2r (evalE ρ a ≤ evalE ρ b)
      else if op = ['>', '='] then b2r (evalE ρ a ≥ evalE ρ b)
      else if op = ['=', '='] then b2r (evalE ρ a = evalE ρ b)
      else if op = ['!', '='] then b2r (evalE ρ a ≠ evalE ρ b)
      else if op = ['&', '&'] then b2r (evalE ρ a ≠ 0 ∧ evalE ρ b ≠ 0)
      else if op = ['|', '|'] then b2r (evalE ρ a ≠ 0 ∨ evalE ρ b ≠ 0)
      else 0
    | .cond c a b => if evalE ρ c ≠ 0 then evalE ρ a else evalE ρ b
    | .call f args => applyFn ρ f (evalArgs ρ args)
    | .idx (.var a) (.var i) => ρ.arr a i
    | .idx _ _ => 0
    | .pair a _ => evalE ρ a
    | .unit => 0
  def evalArgs (ρ : Env) : Expr → List ℝ
    | .pair a rest => evalE ρ a :: evalArgs ρ rest
    | _ => []
end

end
end Naunet.CE
