/-
  C16 — renormalisation restores the reference elemental abundances.
  Linear-algebra identity over an arbitrary field, for arbitrary finite species / element index sets.
-/
import Mathlib.Algebra.BigOperators.Group.Finset.Basic
import Mathlib.Algebra.BigOperators.Ring.Finset
import Mathlib.Algebra.BigOperators.Field
import Mathlib.Algebra.BigOperators.Group.Finset.Sigma
import Mathlib.Algebra.Field.Basic
import Mathlib.Tactic.FieldSimp
import Mathlib.Tactic.Ring
import NaunetModel.Renorm

namespace Naunet.C16
open Finset

variable {K : Type*} [Field K] {S E : Type*}

/-- the generated matrix `IJth(A, i, j) = Σ_s c_si c_sj A_j ab_s / A_s / Hnuclei` (electrons carry no
    element, so they drop out by `c = 0`) -/
def M (sp : Finset S) (c : S → E → K) (Ael : E → K) (Asp : S → K) (y : S → K) (H : K) (i j : E) : K :=
  ∑ s ∈ sp, c s i * c s j * Ael j * y s / Asp s / H

/-- the generated factor `Σ_e c_se A_e rptr_e / A_s` -/
def fac (el : Finset E) (c : S → E → K) (Ael : E → K) (Asp : S → K) (r : E → K) (s : S) : K :=
  ∑ e ∈ el, c s e * Ael e * r e / Asp s

/-- **C16 (restoration).** For every network (any species and element sets, any composition matrix `c`,
    any masses with `A_s ≠ 0`), every abundance vector `y`, every hydrogen total `H ≠ 0` and every
    right-hand side `b`: if `r` solves the generated linear system `M r = b`, then after multiplying each
    abundance by its generated factor the total of every element `i` is exactly `H * b_i`.  With
    `b_i = ref_i / ref_H` (what `SetReferenceAbund` stores) the new ratio to hydrogen is `ref_i / ref_H`. -/
theorem renorm_restores (sp : Finset S) (el : Finset E) (c : S → E → K) (Ael : E → K) (Asp : S → K)
    (y : S → K) (H : K) (r b : E → K) (hH : H ≠ 0)
    (hsolve : ∀ i ∈ el, ∑ e ∈ el, M sp c Ael Asp y H i e * r e = b i) (i : E) (hi : i ∈ el) :
    ∑ s ∈ sp, c s i * (y s * fac el c Ael Asp r s) = H * b i := by
  rw [← hsolve i hi]
  unfold M fac
  simp only [Finset.mul_sum, Finset.sum_mul]
  rw [Finset.sum_comm]
  apply Finset.sum_congr rfl
  intro e _
  apply Finset.sum_congr rfl
  intro s _
  field_simp

/-- **C16 (ratio).** Consequently the ratio of every element to hydrogen equals the stored reference
    ratio (hydrogen's own reference entry being 1). -/
theorem renorm_ratio (sp : Finset S) (el : Finset E) (c : S → E → K) (Ael : E → K) (Asp : S → K)
    (y : S → K) (H : K) (r b : E → K) (hH : H ≠ 0)
    (hsolve : ∀ i ∈ el, ∑ e ∈ el, M sp c Ael Asp y H i e * r e = b i)
    (h i : E) (hh : h ∈ el) (hi : i ∈ el) (hb : b h = 1) :
    (∑ s ∈ sp, c s i * (y s * fac el c Ael Asp r s)) / (∑ s ∈ sp, c s h * (y s * fac el c Ael Asp r s)) = b i := by
  rw [renorm_restores sp el c Ael Asp y H r b hH hsolve i hi, renorm_restores sp el c Ael Asp y H r b hH hsolve h hh, hb]
  field_simp

/-- every element of every species is present as an atom and masses are additive -/
def AllAtomic (el : Finset E) (c : S → E → K) (Ael : E → K) (Asp : S → K) (sp : Finset S) : Prop :=
  ∀ s ∈ sp, Asp s = ∑ e ∈ el, c s e * Ael e

/-- **C16 (identity).** When all elements of all species are atomic species of the network, `r = 1` gives
    every species the factor 1 … -/
theorem identity_factor (sp : Finset S) (el : Finset E) (c : S → E → K) (Ael : E → K) (Asp : S → K)
    (hat : AllAtomic el c Ael Asp sp) (s : S) (hs : s ∈ sp) (hA : Asp s ≠ 0) :
    fac el c Ael Asp (fun _ => 1) s = 1 := by
  unfold fac
  simp only [mul_one]
  rw [← Finset.sum_div, ← hat s hs]
  exact div_self hA

/-- … and `r = 1` solves the system exactly when the right-hand side is the current ratio `N_i / H`:
    if the ratios already match, the renormalisation is the identity (for an invertible matrix the solution
    is unique). -/
theorem ones_solves (sp : Finset S) (el : Finset E) (c : S → E → K) (Ael : E → K) (Asp : S → K)
    (y : S → K) (H : K) (hat : AllAtomic el c Ael Asp sp) (hA : ∀ s ∈ sp, Asp s ≠ 0) (i : E) :
    ∑ e ∈ el, M sp c Ael Asp y H i e * (1 : K) = (∑ s ∈ sp, c s i * y s) / H := by
  unfold M
  simp only [mul_one]
  rw [Finset.sum_comm, Finset.sum_div]
  apply Finset.sum_congr rfl
  intro s hs
  have h1 : ∑ e ∈ el, c s i * c s e * Ael e * y s / Asp s / H
      = c s i * y s * (∑ e ∈ el, c s e * Ael e) / Asp s / H := by
    rw [Finset.mul_sum, Finset.sum_div, Finset.sum_div]
    apply Finset.sum_congr rfl
    intro e _; ring
  rw [h1, ← hat s hs]
  have := hA s hs
  field_simp

/-! ### the driver: `SetReferenceAbund` followed by `Renorm` -/

/-- `GetElementAbund(y, i)`: the count-weighted sum over all species -/
def total (sp : Finset S) (c : S → E → K) (y : S → K) (i : E) : K := ∑ s ∈ sp, c s i * y s

/-- `SetReferenceAbund(ref, 0)`: `ab_ref_[i] = ref[i] / ref[IDX_ELEM_H]` -/
def setRef0 (ref : E → K) (h : E) : E → K := fun i => ref i / ref h

/-- `SetReferenceAbund(ref, 1)`: `ab_ref_[i] = GetElementAbund(ref, i) / GetHNuclei(ref)` -/
def setRef1 (sp : Finset S) (c : S → E → K) (ref : S → K) (h : E) : E → K :=
  fun i => total sp c ref i / total sp c ref h

theorem setRef0_h (ref : E → K) (h : E) (hh : ref h ≠ 0) : setRef0 ref h h = 1 := div_self hh

theorem setRef1_h (sp : Finset S) (c : S → E → K) (ref : S → K) (h : E) (hh : total sp c ref h ≠ 0) :
    setRef1 sp c ref h h = 1 := div_self hh

/-- the abundance vector after `RenormAbundance` -/
def renormed (el : Finset E) (c : S → E → K) (Ael : E → K) (Asp : S → K) (r : E → K) (y : S → K) : S → K :=
  fun s => y s * fac el c Ael Asp r s

/-- **C16 (driver, element abundances given).** `SetReferenceAbund(ref, 0)` then `Renorm(y)`: with
    `Hnuclei = GetHNuclei(y) ≠ 0` and `r` the solution of the generated system for the stored reference,
    every element's total relative to the hydrogen total of the renormalised vector is `ref_i / ref_H` –
    whatever units `ref` is given in. -/
theorem driver_opt0 (sp : Finset S) (el : Finset E) (c : S → E → K) (Ael : E → K) (Asp : S → K)
    (y : S → K) (ref r : E → K) (h i : E) (hh : h ∈ el) (hi : i ∈ el) (href : ref h ≠ 0)
    (hH : total sp c y h ≠ 0)
    (hsolve : ∀ i ∈ el, ∑ e ∈ el, M sp c Ael Asp y (total sp c y h) i e * r e = setRef0 ref h i) :
    total sp c (renormed el c Ael Asp r y) i / total sp c (renormed el c Ael Asp r y) h = ref i / ref h := by
  have := renorm_ratio sp el c Ael Asp y (total sp c y h) r (setRef0 ref h) hH hsolve h i hh hi (setRef0_h ref h href)
  simpa [total, renormed, setRef0] using this

/-- **C16 (driver, reference vector given).** The same with `SetReferenceAbund(refvec, 1)`: the new ratios
    are those of the reference abundance vector. -/
theorem driver_opt1 (sp : Finset S) (el : Finset E) (c : S → E → K) (Ael : E → K) (Asp : S → K)
    (y refv : S → K) (r : E → K) (h i : E) (hh : h ∈ el) (hi : i ∈ el) (href : total sp c refv h ≠ 0)
    (hH : total sp c y h ≠ 0)
    (hsolve : ∀ i ∈ el, ∑ e ∈ el, M sp c Ael Asp y (total sp c y h) i e * r e = setRef1 sp c refv h i) :
    total sp c (renormed el c Ael Asp r y) i / total sp c (renormed el c Ael Asp r y) h =
      total sp c refv i / total sp c refv h := by
  have := renorm_ratio sp el c Ael Asp y (total sp c y h) r (setRef1 sp c refv h) hH hsolve h i hh hi
    (setRef1_h sp c refv h href)
  simpa [total, renormed, setRef1] using this

/-- **C16 (driver, identity).** With the vector itself as the reference (`SetReferenceAbund(y, 1)`) the
    all-ones vector solves the generated system, and with it every factor is 1: `Renorm` is the identity. -/
theorem driver_identity (sp : Finset S) (el : Finset E) (c : S → E → K) (Ael : E → K) (Asp : S → K)
    (y : S → K) (h : E) (hat : AllAtomic el c Ael Asp sp) (hA : ∀ s ∈ sp, Asp s ≠ 0) :
    (∀ i, ∑ e ∈ el, M sp c Ael Asp y (total sp c y h) i e * (1 : K) = setRef1 sp c y h i) ∧
    (∀ s ∈ sp, renormed el c Ael Asp (fun _ => 1) y s = y s) := by
  constructor
  · intro i
    exact ones_solves sp el c Ael Asp y (total sp c y h) hat hA i
  · intro s hs
    unfold renormed
    rw [identity_factor sp el c Ael Asp hat s hs (hA s hs), mul_one]

/-- **C16 (electrons).** The generated factor of an electron is the literal `1.0`. -/
theorem electron_untouched (elemMass : List Nat) (s : Renorm.RSpec) (h : s.electron = true) :
    Renorm.factor elemMass s = none := by
  simp [Renorm.factor, h]

/-! ### non-vacuity: H, C, CO with elements {H, C}; `CO` has an element (O) that is not atomic here -/
example : Renorm.factor [1, 12] ⟨[0, 1], 28, false⟩ = some [(12, 1, 28)] := by decide
example : Renorm.matrixEntry [⟨[1, 0], 1, false⟩, ⟨[0, 1], 12, false⟩, ⟨[0, 1], 28, false⟩] [1, 12] 1 1 =
    [(12, 1, 12), (12, 2, 28)] := by decide

end Naunet.C16
