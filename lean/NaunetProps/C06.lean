/-
  C06 — a reaction acts only inside its declared temperature window.
-/
import NaunetModel.Window
import Mathlib.Order.Defs.LinearOrder
import Mathlib.Order.Basic
import Mathlib.Data.List.Basic
import Mathlib.Tactic.Linarith

namespace Naunet.C06
open Naunet.Window

variable {α : Type} [LinearOrder α]

/-- the window a reaction declares: a bound `≤ 0` means "unbounded" -/
def declaredActive (zero tmin tmax T : α) : Prop :=
  (tmin ≤ zero ∨ tmin ≤ T) ∧ (tmax ≤ zero ∨ T < tmax)

/-- **C06 (guard semantics).** For all bounds and all temperatures the emitted condition is true
    exactly inside the declared window `Tmin ≤ T < Tmax` (bounds ≤ 0 meaning unbounded). -/
theorem window_sem (zero tmin tmax T : α) :
    (guardOf zero tmin tmax).holds T = true ↔ declaredActive zero tmin tmax T := by
  unfold guardOf Guard.holds declaredActive
  by_cases h1 : zero < tmin <;> by_cases h2 : zero < tmax
  · have n1 : ¬ tmin ≤ zero := not_le.mpr h1
    have n2 : ¬ tmax ≤ zero := not_le.mpr h2
    simp only [h1, h2, if_true, Bool.and_eq_true, decide_eq_true_eq]
    tauto
  · have n1 : ¬ tmin ≤ zero := not_le.mpr h1
    have n2 : tmax ≤ zero := not_lt.mp h2
    simp only [h1, h2, if_true, if_false, Bool.and_eq_true, decide_eq_true_eq, and_true]
    tauto
  · have n1 : tmin ≤ zero := not_lt.mp h1
    have n2 : ¬ tmax ≤ zero := not_le.mpr h2
    simp only [h1, h2, if_true, if_false, Bool.and_eq_true, decide_eq_true_eq, true_and]
    tauto
  · have n1 : tmin ≤ zero := not_lt.mp h1
    have n2 : tmax ≤ zero := not_lt.mp h2
    simp only [h1, h2, if_false, Bool.and_self]
    tauto

/-- **C06 (outside the window the coefficient is exactly zero).** -/
theorem outside_zero (zero tmin tmax rate T : α) (h : ¬ declaredActive zero tmin tmax T) :
    kValue zero (guardOf zero tmin tmax) rate T = zero := by
  unfold kValue
  have : ¬ (guardOf zero tmin tmax).holds T = true := fun hh => h ((window_sem zero tmin tmax T).mp hh)
  simp [this]

theorem inside_rate (zero tmin tmax rate T : α) (h : declaredActive zero tmin tmax T) :
    kValue zero (guardOf zero tmin tmax) rate T = rate := by
  unfold kValue
  simp [(window_sem zero tmin tmax T).mpr h]

/-- **C06 (no window).** A reaction without window (both bounds ≤ 0) is unguarded and always active. -/
theorem no_window_always_active (zero tmin tmax : α) (h1 : tmin ≤ zero) (h2 : tmax ≤ zero) :
    (guardOf zero tmin tmax).isGuarded = false ∧ ∀ T, (guardOf zero tmin tmax).holds T = true := by
  have n1 : ¬ zero < tmin := not_lt.mpr h1
  have n2 : ¬ zero < tmax := not_lt.mpr h2
  simp [guardOf, Guard.isGuarded, Guard.holds, n1, n2]

/-- adjacent windows `[t₀,t₁), [t₁,t₂), …` cut from a list of bounds -/
def windows : List α → List (α × α)
  | a :: b :: rest => (a, b) :: windows (b :: rest)
  | _ => []

/-- number of windows active at `T` -/
def activeCount (zero : α) (ws : List (α × α)) (T : α) : Nat :=
  (ws.filter fun w => (guardOf zero w.1 w.2).holds T).length

theorem activeCount_zero_of_lt (zero : α) (bs : List α) (hpos : ∀ b ∈ bs, zero < b)
    (hs : bs.Pairwise (· < ·)) (T : α) (hT : ∀ b ∈ bs, T < b) :
    activeCount zero (windows bs) T = 0 := by
  induction bs with
  | nil => simp [windows, activeCount]
  | cons a rest ih =>
    cases rest with
    | nil => simp [windows, activeCount]
    | cons b rest' =>
      have ha : zero < a := hpos a (by simp)
      have hTa : T < a := hT a (by simp)
      have := ih (fun x hx => hpos x (by simp [hx])) (List.pairwise_cons.mp hs).2 (fun x hx => hT x (by simp [hx]))
      simp only [windows, activeCount, List.filter_cons] at this ⊢
      have hf : (guardOf zero a b).holds T = false := by
        simp [guardOf, Guard.holds, ha, not_le.mpr hTa]
      simp [hf, this]

/-- **C06 (partition).** For strictly increasing positive bounds `t₀ < t₁ < … < tₙ` and every
    temperature with `t₀ ≤ T < tₙ` – the boundary values included – exactly one of the adjacent
    windows `[tᵢ, tᵢ₊₁)` is active. -/
theorem window_partition (zero : α) (bs : List α) (hpos : ∀ b ∈ bs, zero < b)
    (hs : bs.Pairwise (· < ·)) (T : α) (first last : α)
    (hf : bs.head? = some first) (hl : bs.getLast? = some last) (h0 : first ≤ T) (h1 : T < last) :
    activeCount zero (windows bs) T = 1 := by
  induction bs generalizing first with
  | nil => simp at hf
  | cons a rest ih =>
    simp only [List.head?_cons, Option.some.injEq] at hf
    subst hf
    cases rest with
    | nil =>
      simp only [List.getLast?_singleton, Option.some.injEq] at hl
      subst hl
      exact absurd (lt_of_le_of_lt h0 h1) (lt_irrefl _)
    | cons b rest' =>
      have ha : zero < a := hpos a (by simp)
      have hb : zero < b := hpos b (by simp)
      have hs' := (List.pairwise_cons.mp hs).2
      have hpos' : ∀ x ∈ b :: rest', zero < x := fun x hx => hpos x (by simp [hx])
      have hl' : (b :: rest').getLast? = some last := by
        rw [List.getLast?_cons_cons] at hl; exact hl
      simp only [windows, activeCount, List.filter_cons]
      by_cases hTb : T < b
      · have hfa : (guardOf zero a b).holds T = true := by
          simp [guardOf, Guard.holds, ha, hb, h0, hTb]
        have hz := activeCount_zero_of_lt zero (b :: rest') hpos' hs' T (by
          intro x hx
          rcases List.mem_cons.mp hx with rfl | hx
          · exact hTb
          · exact lt_trans hTb ((List.pairwise_cons.mp hs').1 x hx))
        simp only [activeCount] at hz
        simp [hfa, hz]
      · have hfa : (guardOf zero a b).holds T = false := by
          simp [guardOf, Guard.holds, ha, hb, hTb]
        have := ih hpos' hs' b rfl hl' (not_lt.mp hTb)
        simp only [activeCount] at this
        simp [hfa, this]

/-! ### non-vacuity -/
example : activeCount (0 : Int) (windows [10, 100, 1000]) 100 = 1 := by decide
example : (guardOf (0 : Int) 10 0).holds 5 = false ∧ (guardOf (0 : Int) 10 0).holds 10 = true := by decide

end Naunet.C06
