/-
  C17 — code generation is a deterministic function of the network description.
  (partial by nature: process-level effects are observed by the harness; the theorems cover the logic)
-/
import NaunetModel.Network
import Mathlib.Data.List.Sort
import Mathlib.Data.String.Basic
import Mathlib.Order.Defs.LinearOrder

namespace Naunet.C17
open Naunet.Net

theorem le_trans' (a b c : SpKey) (h1 : SpKey.le a b = true) (h2 : SpKey.le b c = true) :
    SpKey.le a c = true := by
  simp only [SpKey.le, Bool.or_eq_true, decide_eq_true_eq, Bool.and_eq_true, beq_iff_eq] at *
  rcases h1 with h1 | ⟨h1, h1'⟩ <;> rcases h2 with h2 | ⟨h2, h2'⟩
  · exact Or.inl (by omega)
  · exact Or.inl (by omega)
  · exact Or.inl (by omega)
  · exact Or.inr ⟨by omega, le_trans h1' h2'⟩

theorem le_total' (a b : SpKey) : (SpKey.le a b || SpKey.le b a) = true := by
  simp only [SpKey.le, Bool.or_eq_true, decide_eq_true_eq, Bool.and_eq_true, beq_iff_eq]
  rcases Nat.lt_trichotomy a.conn b.conn with h | h | h
  · exact Or.inl (Or.inl h)
  · rcases le_total a.name b.name with h' | h'
    · exact Or.inl (Or.inr ⟨h, h'⟩)
    · exact Or.inr (Or.inr ⟨h.symm, h'⟩)
  · exact Or.inr (Or.inl h)

theorem le_antisymm' (a b : SpKey) (h1 : SpKey.le a b = true) (h2 : SpKey.le b a = true) : a = b := by
  simp only [SpKey.le, Bool.or_eq_true, decide_eq_true_eq, Bool.and_eq_true, beq_iff_eq] at *
  rcases h1 with h1 | ⟨h1, h1'⟩ <;> rcases h2 with h2 | ⟨h2, h2'⟩
  · omega
  · omega
  · omega
  · cases a; cases b; simp_all; exact le_antisymm h1' h2'

/-- **C17 (order independence).** The emitted species order is the same for every enumeration order
    of the species collection: Python's set iteration order – hence the interpreter's hash seed –
    cannot show in the generated sources. -/
theorem order_independent (l₁ l₂ : List SpKey) (hp : l₁.Perm l₂) : speciesOrder l₁ = speciesOrder l₂ := by
  unfold speciesOrder
  apply List.Perm.eq_of_pairwise (le := fun a b => SpKey.le a b = true)
  · intro a b _ _ h1 h2; exact le_antisymm' a b h1 h2
  · exact List.pairwise_mergeSort le_trans' le_total' l₁
  · exact List.pairwise_mergeSort le_trans' le_total' l₂
  · exact ((List.mergeSort_perm l₁ _).trans hp).trans (List.mergeSort_perm l₂ _).symm

/-- rendering twice gives the same order (idempotence of the sort) -/
theorem order_idempotent (l : List SpKey) : speciesOrder (speciesOrder l) = speciesOrder l :=
  order_independent _ _ (List.mergeSort_perm l _)

/-! ### the global parser state

`Species` keeps the element lists in class attributes (`G`).  Every public entry point of `Network`
starts with the prologue "if this network states its lists, install them".  -/

structure G where
  elements : List String
  pseudo   : List String
  deriving DecidableEq, Repr

structure NetCfg where
  elements : List String
  pseudo   : List String

def NetCfg.explicit (n : NetCfg) : Bool := !(n.elements.isEmpty && n.pseudo.isEmpty)

/-- the prologue of every entry point -/
def prologue (n : NetCfg) (g : G) : G := if n.explicit then ⟨n.elements, n.pseudo⟩ else g

/-- an entry point: prologue, then a computation that reads the global state -/
def entry {β : Type} (n : NetCfg) (f : G → β) (g : G) : β × G := (f (prologue n g), prologue n g)

/-- **C17 (non-interference).** For a network that states its element lists, the result of any entry
    point – and the global state it leaves behind – does not depend on the global state before the
    call, hence not on any operation performed on other networks earlier in the process. -/
theorem noninterference {β : Type} (n : NetCfg) (hn : n.explicit = true) (f : G → β) (g₁ g₂ : G) :
    entry n f g₁ = entry n f g₂ := by
  simp [entry, prologue, hn]

/-- a network *without* explicit lists does read whatever state earlier operations left
    (documented API behaviour, outside the property's quantifier) -/
theorem leak_example : ∃ (f : G → Nat) (g₁ g₂ : G),
    entry ⟨[], []⟩ f g₁ ≠ entry ⟨[], []⟩ f g₂ := by
  refine ⟨fun g => g.elements.length, ⟨[], []⟩, ⟨["H"], []⟩, ?_⟩
  simp [entry, prologue, NetCfg.explicit]

/-! ### non-vacuity -/
example : speciesOrder [⟨2, "H2"⟩, ⟨1, "e-"⟩, ⟨2, "H"⟩] = speciesOrder [⟨2, "H"⟩, ⟨2, "H2"⟩, ⟨1, "e-"⟩] :=
  order_independent _ _ (by decide)
example : SpKey.le ⟨1, "He"⟩ ⟨1, "e-"⟩ = true := by decide

end Naunet.C17
