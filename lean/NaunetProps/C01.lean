/-
  C01 — the generated right-hand side is the mass-action law of the input network.
  Property theorems only; helper lemmas live in `NaunetProps/Lemmas/OdeSem.lean`.
-/
import NaunetProps.Lemmas.OdeSem

namespace Naunet.C01
open Naunet

variable {R : Type*} [CommRing R]

/-- value of the ODE-modifier terms added to equation `i` -/
def modValue (kv : Coef → R) (y : Nat → R) (ms : List OdeMod) (i : Nat) : R :=
  (ms.map fun m => if i = m.tgt then kv (.user m.fact) * (m.deps.map y).prod else 0).sum

theorem evalEqn_modsRhs (kv : Coef → R) (y : Nat → R) (ms : List OdeMod) (i : Nat) :
    evalEqn kv y (modsRhs ms i) = modValue kv y ms i := by
  unfold modsRhs modValue
  rw [evalEqn_flatMap]
  congr 1
  apply List.map_congr_left
  intro m _
  unfold modRhs
  split <;> simp [evalTerm]

/-- **C01 (chemical rows).** For every network, every species slot `i` that is not the
    temperature slot, every ring of values, every `k` and every abundance vector, the emitted
    derivative is the mass-action sum
    `Σ_rl (count i products − count i reactants) * k[rl] * Π_{j ∈ reactants} y[j]`
    (each reactant with its multiplicity) plus the user's ODE-modifier terms for `i`. -/
theorem rhs_eq_massAction (inp : OdeInput) (i : Nat) (hi : ¬ (inp.thermal = true ∧ i = inp.nspec))
    (c : R) (kv : Coef → R) (y : Nat → R) :
    evalEmitted c kv y (fex inp i) = massAction kv y 0 inp.reacs i + modValue kv y inp.mods i := by
  have : (inp.thermal && i == inp.nspec) = false := by
    rcases Bool.eq_false_or_eq_true inp.thermal with h | h
    · by_cases h2 : i = inp.nspec
      · exact absurd ⟨h, h2⟩ hi
      · simp [h2]
    · simp [h]
  simp [fex, this, evalEmitted, evalEqn_rhsFrom, evalEqn_modsRhs]

/-- without modifiers: exactly the mass-action law -/
theorem rhs_eq_massAction_nomod (inp : OdeInput) (i : Nat) (hm : inp.mods = [])
    (hi : ¬ (inp.thermal = true ∧ i = inp.nspec)) (c : R) (kv : Coef → R) (y : Nat → R) :
    evalEmitted c kv y (fex inp i) = massAction kv y 0 inp.reacs i := by
  rw [rhs_eq_massAction inp i hi, hm]; simp [modValue]

theorem rhsFrom_isolated (s : Nat) (rs : List Reac) (i : Nat)
    (h : ∀ r ∈ rs, i ∉ r.re ∧ i ∉ r.pr) : rhsFrom s rs i = [] := by
  induction rs generalizing s with
  | nil => rfl
  | cons r rs ih =>
    have hr := h r (by simp)
    have := ih (s+1) (fun r' hr' => h r' (by simp [hr']))
    simp [rhsFrom, reacRhs, this, rep, List.count_eq_zero_of_not_mem hr.1,
      List.count_eq_zero_of_not_mem hr.2]

/-- **C01 (isolated species).** A species that occurs in no reaction and is not the target of
    a modifier gets the empty sum – the text `0.0`. -/
theorem rhs_isolated (inp : OdeInput) (i : Nat) (hi : ¬ (inp.thermal = true ∧ i = inp.nspec))
    (h : ∀ r ∈ inp.reacs, i ∉ r.re ∧ i ∉ r.pr) (hm : ∀ m ∈ inp.mods, m.tgt ≠ i) :
    fex inp i = ⟨false, []⟩ := by
  have : (inp.thermal && i == inp.nspec) = false := by
    rcases Bool.eq_false_or_eq_true inp.thermal with h | h
    · by_cases h2 : i = inp.nspec
      · exact absurd ⟨h, h2⟩ hi
      · simp [h2]
    · simp [h]
  have hm' : modsRhs inp.mods i = [] := by
    unfold modsRhs
    rw [List.flatMap_eq_nil_iff]
    intro m hmem
    have := hm m hmem
    simp [modRhs, Ne.symm this]
  simp [fex, this, rhsFrom_isolated 0 inp.reacs i h, hm']

/-- **C01 (abundance product).** Every abundance factor of every emitted chemical term is a
    *reactant slot of the reaction the term belongs to*: products and pseudo tokens (which never
    receive a slot) cannot enter the product. -/
theorem vars_are_reactants (s : Nat) (rs : List Reac) (i : Nat) :
    ∀ t ∈ rhsFrom s rs i, ∃ r ∈ rs, t.vars = r.re := by
  induction rs generalizing s with
  | nil => intro t ht; simp [rhsFrom] at ht
  | cons r rs ih =>
    intro t ht
    simp only [rhsFrom, reacRhs, rep, List.mem_append, List.mem_replicate] at ht
    rcases ht with (⟨_, rfl⟩ | ⟨_, rfl⟩) | h
    · exact ⟨r, by simp, rfl⟩
    · exact ⟨r, by simp, rfl⟩
    · obtain ⟨r', hr', e⟩ := ih (s+1) t h
      exact ⟨r', by simp [hr'], e⟩

/-- value of a list of thermal processes `Σ_h kh[h] * Π y` -/
def thermSum (mk : Nat → Coef) (kv : Coef → R) (y : Nat → R) (s : Nat) (ps : List (List Nat)) : R :=
  ((ps.zipIdx s).map fun p => kv (mk p.2) * (p.1.map y).prod).sum

theorem evalEqn_thermRhsFrom (neg : Bool) (mk : Nat → Coef) (kv : Coef → R) (y : Nat → R)
    (s : Nat) (ps : List (List Nat)) :
    evalEqn kv y (thermRhsFrom neg mk s ps) = (if neg then -1 else 1) * thermSum mk kv y s ps := by
  induction ps generalizing s with
  | nil => simp [thermRhsFrom, thermSum]
  | cons p ps ih =>
    simp only [thermRhsFrom, evalEqn_cons, ih, thermSum, List.zipIdx_cons, List.map_cons,
      List.sum_cons, evalTerm]
    ring

/-- **C01 (temperature equation).** With heating/cooling selected, the extra equation is
    `c * (Σ heating − Σ cooling)` where `c` is the value of the emitted wrapper
    `(gamma - 1.0) * ( · ) / kerg / npar`. -/
theorem thermal_eq (inp : OdeInput) (ht : inp.thermal = true) (c : R) (kv : Coef → R) (y : Nat → R) :
    evalEmitted c kv y (fex inp inp.nspec) =
      c * (thermSum .kh kv y 0 inp.heat - thermSum .kc kv y 0 inp.cool) := by
  simp [fex, ht, evalEmitted, thermRow, evalEqn_thermRhsFrom]
  ring

/-- the wrapper in a field: `(γ − 1) * S / k_B / n = (γ − 1) * S / (k_B * n)` -/
theorem thermal_wrapper {F : Type*} [Field F] (γ kB n S : F) :
    (γ - 1) * S / kB / n = (γ - 1) * S / (kB * n) := by
  rw [div_div]

/-! ### non-vacuity: concrete networks -/

/-- `H + H → H2` (slots H=0, H2=1): `dH/dt = −2 k y_H²`, `dH2/dt = + k y_H²` -/
example (k0 yH yH2 : ℤ) :
    let inp : OdeInput := ⟨2, [⟨[0,0],[1]⟩], [], [], []⟩
    let kv : Coef → ℤ := fun _ => k0
    let y : Nat → ℤ := fun j => if j = 0 then yH else yH2
    evalEmitted 1 kv y (fex inp 0) = -2 * (k0 * (yH * yH)) ∧
    evalEmitted 1 kv y (fex inp 1) = k0 * (yH * yH) := by
  simp [fex, OdeInput.thermal, rhsFrom, reacRhs, rep, modsRhs, evalEmitted, evalTerm]
  ring

/-- catalyst `H2 + CO → H + H + CO` (H=0,H2=1,CO=2): CO's gain and loss cancel -/
example (k0 : ℤ) (y : Nat → ℤ) :
    let inp : OdeInput := ⟨3, [⟨[1,2],[0,0,2]⟩], [], [], []⟩
    evalEmitted 1 (fun _ => k0) y (fex inp 2) = 0 := by
  simp [fex, OdeInput.thermal, rhsFrom, reacRhs, rep, modsRhs, evalEmitted, evalTerm]

end Naunet.C01
