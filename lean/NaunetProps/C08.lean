/-
  C08 — species names are decomposed into the right elements, charge and phase.
  Partial (named): the characterisation of *later* matching passes on arbitrary user lists is not proved;
  what is proved: the walk accepts only tilings by matches and digit gaps (`walk_covers`), the complete pair
  table of the default element list (`pair_table`), charge counting, and the examples of the property text.
-/
import NaunetModel.Species
import Mathlib.Data.List.Basic

namespace Naunet.C08
open Naunet.Sp

/-- the chemical elements of the default list (the two electron spellings aside) -/
def atoms : List Str := cfgDefault.elements.filter fun e => !(e == "e".toList || e == "E".toList)

def naivePair (x : Str) (n : Nat) (y : Str) (m : Nat) : List (Str × Nat) :=
  if x == y then [(x, n + m)] else [(x, n), (y, m)]

def countText (n : Nat) : Str := if n == 1 then [] else natToStr n

/-- all ordered pairs of default elements with counts in {none, 2, 10} are read as exactly that pair -/
def pairTableOK : Bool :=
  atoms.all fun x => atoms.all fun y => [1, 2, 10].all fun n => [1, 2].all fun m =>
    match parse cfgDefault (x ++ countText n ++ y ++ countText m) with
    | .ok p => p.counts == naivePair x n y m && p.surface.isNone && p.grain.isNone
    | .error _ => false

/-- **C08 (pair table).** Over the default element list (regenerated from the source): every ordered pair
    of element symbols, the first with count ∅ / 2 / 10 and the second with ∅ / 2, is decomposed into exactly those elements with those
    counts – in particular two-letter symbols are never split (`Si` is not `S`+`i`, `Mg` not `M`+`g`) and
    no pair is merged into a foreign longer symbol.  1 944 names, kernel evaluation. -/
theorem pair_table : pairTableOK = true := by decide +kernel

/-- **C08 (longest symbol wins).** `He` is helium, never `H` + `e`; `Fe` never `F` + `e`; a label plus an
    element (`o` + `H2`), excited and cyclic markers, multiply charged ions, ice species. -/
def countsOf (name : String) : Option (List (String × Nat)) :=
  (parse cfgDefault name.toList).toOption.map fun p => p.counts.map fun (e, n) => (String.ofList e, n)

def longestFirstOK : Bool :=
  countsOf "He" == some [("He", 1)] && countsOf "Fe+" == some [("Fe", 1)] && countsOf "Si" == some [("Si", 1)] &&
  countsOf "HeH+" == some [("He", 1), ("H", 1)] && countsOf "SiO" == some [("Si", 1), ("O", 1)] &&
  countsOf "oH2D+" == some [("H", 2), ("D", 1)] && countsOf "#CH3OH" == some [("C", 1), ("H", 4), ("O", 1)] &&
  (parse cfgDefault "#CH3OH".toList).toOption.map (·.surface) == some (some 0) &&
  countsOf "Si++++" == some [("Si", 1)] && countsOf "MgH" == some [("Mg", 1), ("H", 1)]

theorem longest_first_examples : longestFirstOK = true := by decide +kernel

/-- **C08 (foreign characters).** Names with a character that belongs to no configured symbol, count or
    charge, or that start with a count, are rejected – not mis-read. -/
theorem foreign_rejected_examples :
    (["Hx", "H2?O", "2H", "C(O)", "CO2z+", "##CO", "H2O)", "h2o"].all fun n => (countsOf n).isNone) = true := by
  decide +kernel

/-- what a successful walk has checked: the matches tile the text, separated only by digit runs -/
def Tiled (text : Str) : Nat → List Match → Prop
  | prevEnd, [] => prevEnd = text.length ∨
      (text.length > prevEnd ∧ ((text.drop prevEnd).take (text.length - prevEnd)).all isDigit = true)
  | prevEnd, m :: ms =>
      (prevEnd = m.start ∨ (m.start > prevEnd ∧ ((text.drop prevEnd).take (m.start - prevEnd)).all isDigit = true))
      ∧ Tiled text m.stop ms

theorem stepTriple_ok (cfg : Cfg) (text : Str) (prevEnd start : Nat) (prevName : Str) (p q : Parsed)
    (h : stepTriple cfg text prevEnd start prevName p = .ok q) :
    prevEnd = start ∨ (start > prevEnd ∧ ((text.drop prevEnd).take (start - prevEnd)).all isDigit = true) := by
  unfold stepTriple at h
  by_cases he : (prevEnd == start) = true
  · exact Or.inl (by simpa using he)
  · simp only [he] at h
    right
    by_cases hc : (decide (start > prevEnd) && ((text.drop prevEnd).take (start - prevEnd)).all isDigit &&
        !((text.drop prevEnd).take (start - prevEnd)).isEmpty) = true
    · simp only [Bool.and_eq_true, decide_eq_true_eq] at hc
      exact ⟨hc.1.1, hc.1.2⟩
    · simp only [Bool.false_eq_true, if_false] at h
      simp only [hc] at h
      exact absurd h (by simp)

/-- **C08 (coverage).** For every configuration, text and match list: if the walk succeeds, the matched
    symbols tile the (charge-stripped) name and everything between and after them is a run of digits –
    a character outside every configured symbol can therefore never be skipped. -/
theorem walk_covers (cfg : Cfg) (text : Str) (ms : List Match) (prevEnd : Nat) (prevName : Str) (p q : Parsed)
    (h : walk cfg text ms prevEnd prevName p = .ok q) : Tiled text prevEnd ms := by
  induction ms generalizing prevEnd prevName p with
  | nil => exact stepTriple_ok cfg text prevEnd text.length prevName p q h
  | cons m ms ih =>
    simp only [walk] at h
    cases hs : stepTriple cfg text prevEnd m.start prevName p with
    | error e => rw [hs] at h; exact absurd h (by simp)
    | ok p' =>
      rw [hs] at h
      exact ⟨stepTriple_ok cfg text prevEnd m.start prevName p p' hs, ih m.stop m.name p' h⟩

theorem trailing_append (c : Char) (body : Str) (k : Nat) (hb : ∀ x, body.getLast? = some x → x ≠ c) :
    trailing c (body ++ List.replicate k c) = k := by
  unfold trailing
  rw [List.reverse_append, List.reverse_replicate]
  have h1 : ∀ (l : Str), (∀ x, l.head? = some x → x ≠ c) →
      ((List.replicate k c ++ l).takeWhile (· == c)).length = k := by
    intro l hl
    induction k with
    | zero =>
      cases l with
      | nil => rfl
      | cons a t =>
        have : (a == c) = false := by simpa using hl a rfl
        simp [List.takeWhile, this]
    | succ k ih =>
      simp only [List.replicate_succ, List.cons_append, List.takeWhile_cons, beq_self_eq_true, if_true, List.length_cons, ih]
  apply h1
  intro x hx
  rw [List.head?_reverse] at hx
  exact hb x hx

/-- **C08 (charge).** `k` trailing `+` signs give charge `+k` … -/
theorem charge_plus (body : Str) (k : Nat) (hk : 0 < k) (hb : ∀ x, body.getLast? = some x → x ≠ '+')
    (he : isElectron (body ++ List.replicate k '+') = false) :
    charge (body ++ List.replicate k '+') = k := by
  unfold charge
  rw [he, trailing_append '+' body k hb]
  have : trailing '-' (body ++ List.replicate k '+') = 0 := by
    unfold trailing
    rw [List.reverse_append, List.reverse_replicate]
    obtain ⟨j, rfl⟩ : ∃ j, k = j + 1 := ⟨k - 1, by omega⟩
    simp [List.replicate_succ, List.takeWhile]
  simp [this]

/-- … and `k` trailing `-` signs give charge `−k`. -/
theorem charge_minus (body : Str) (k : Nat) (hk : 0 < k) (hb : ∀ x, body.getLast? = some x → x ≠ '-')
    (he : isElectron (body ++ List.replicate k '-') = false) :
    charge (body ++ List.replicate k '-') = -(k : Int) := by
  unfold charge
  rw [he, trailing_append '-' body k hb]
  have : trailing '+' (body ++ List.replicate k '-') = 0 := by
    unfold trailing
    rw [List.reverse_append, List.reverse_replicate]
    obtain ⟨j, rfl⟩ : ∃ j, k = j + 1 := ⟨k - 1, by omega⟩
    simp [List.replicate_succ, List.takeWhile]
  simp [this]

/-- **C08 (mass number).** The mass number is additive over the composition. -/
theorem massNumber_additive (a b : List (Str × Nat)) (s g : Option Nat) :
    massNumber ⟨a ++ b, s, g⟩ = massNumber ⟨a, s, g⟩ + massNumber ⟨b, s, g⟩ := by
  simp [massNumber, List.map_append, List.sum_append]

end Naunet.C08
