/-
  C13 — rate and ODE modifiers change exactly what the user targeted.
-/
import NaunetProps.C01

namespace Naunet.C13
open Naunet

/-- no key equals the reaction's index ⇒ the statement (guard included) is untouched -/
theorem overrideOne_untouched (mods : List (Int × String)) (i : Int) (s : RateStmt)
    (h : ∀ kv ∈ mods, kv.1 ≠ i) : overrideOne mods i s = s := by
  unfold overrideOne
  induction mods generalizing s with
  | nil => rfl
  | cons kv mods ih =>
    have hk : kv.1 ≠ i := h kv (by simp)
    simp only [List.foldl_cons, hk, if_false]
    exact ih s (fun kv' hkv' => h kv' (by simp [hkv']))

/-- some key equals the index ⇒ the statement is the unguarded `k[idx] = value` of a matching entry
    (the last one; Python dict keys are unique so there is only one) -/
theorem overrideOne_hit (mods : List (Int × String)) (i : Int) (s : RateStmt)
    (h : ∃ kv ∈ mods, kv.1 = i) :
    ∃ kv ∈ mods, kv.1 = i ∧ overrideOne mods i s = ⟨none, kv.2⟩ := by
  unfold overrideOne
  induction mods using List.reverseRecOn with
  | nil => simp at h
  | append_singleton mods kv ih =>
    simp only [List.foldl_append, List.foldl_cons, List.foldl_nil]
    by_cases hk : kv.1 = i
    · exact ⟨kv, by simp, hk, by simp [hk]⟩
    · obtain ⟨kv', hmem, hkv'⟩ := h
      have : kv' ∈ mods := by
        rcases List.mem_append.mp hmem with h1 | h1
        · exact h1
        · simp at h1; subst h1; exact absurd hkv' hk
      obtain ⟨w, hw, hwi, he⟩ := ih ⟨kv', this, hkv'⟩
      exact ⟨w, by simp [hw], hwi, by rw [if_neg hk]; exact he⟩

theorem applyOverrides_getElem (mods : List (Int × String)) (idxs : List Int) (ss : List RateStmt)
    (hl : idxs.length = ss.length) (p : Nat) (hp : p < ss.length) :
    (applyOverrides mods idxs ss)[p]? = some (overrideOne mods (idxs[p]'(hl ▸ hp)) ss[p]) := by
  induction idxs generalizing ss p with
  | nil =>
    have : ss = [] := List.length_eq_zero_iff.mp hl.symm
    subst this; simp at hp
  | cons i is ih =>
    cases ss with
    | nil => simp at hp
    | cons s ss =>
      cases p with
      | zero => simp [applyOverrides]
      | succ p =>
        simp only [applyOverrides, List.getElem?_cons_succ, List.getElem_cons_succ]
        exact ih ss (by simpa using hl) p (by simpa using hp)

/-- **C13 (rate modifier, hit).** For every reaction list, modifier table and position `p`: if a
    key equals the file index carried by reaction `p`, its statement becomes the *unguarded*
    assignment of that key's value. -/
theorem override_exact (mods : List (Int × String)) (idxs : List Int) (ss : List RateStmt)
    (hl : idxs.length = ss.length) (p : Nat) (hp : p < ss.length)
    (h : ∃ kv ∈ mods, kv.1 = idxs[p]'(hl ▸ hp)) :
    ∃ kv ∈ mods, kv.1 = idxs[p]'(hl ▸ hp) ∧ (applyOverrides mods idxs ss)[p]? = some ⟨none, kv.2⟩ := by
  obtain ⟨kv, hm, hk, he⟩ := overrideOne_hit mods (idxs[p]'(hl ▸ hp)) ss[p] h
  exact ⟨kv, hm, hk, by rw [applyOverrides_getElem mods idxs ss hl p hp, he]⟩

/-- **C13 (rate modifier, miss).** A reaction whose file index equals no key keeps its statement,
    window guard included; in particular keys that match nothing change nothing at all. -/
theorem override_untouched (mods : List (Int × String)) (idxs : List Int) (ss : List RateStmt)
    (hl : idxs.length = ss.length) (p : Nat) (hp : p < ss.length)
    (h : ∀ kv ∈ mods, kv.1 ≠ idxs[p]'(hl ▸ hp)) :
    (applyOverrides mods idxs ss)[p]? = some ss[p] := by
  rw [applyOverrides_getElem mods idxs ss hl p hp, overrideOne_untouched mods _ _ h]

/-- **C13 (ODE modifier, locality).** Equations that are not a modifier's target receive no term. -/
theorem odeMod_only_target (ms : List OdeMod) (i : Nat) (h : ∀ m ∈ ms, m.tgt ≠ i) :
    modsRhs ms i = [] := by
  unfold modsRhs
  rw [List.flatMap_eq_nil_iff]
  intro m hm
  simp [modRhs, Ne.symm (h m hm)]

/-- **C13 (ODE modifier, value).** The target receives exactly `Σ factor * Π y[deps]` (each listed
    species with its multiplicity), in any commutative ring. -/
theorem odeMod_value {R : Type*} [CommRing R] (kv : Coef → R) (y : Nat → R) (ms : List OdeMod) (i : Nat) :
    evalEqn kv y (modsRhs ms i) =
      (ms.map fun m => if i = m.tgt then kv (.user m.fact) * (m.deps.map y).prod else 0).sum :=
  C01.evalEqn_modsRhs kv y ms i

/-! ### non-vacuity -/
example : applyOverrides [(4894, "1.0")] [4894, 6599, 4894] [⟨some "Tgas>=10", "a"⟩, ⟨none, "b"⟩, ⟨none, "c"⟩]
    = [⟨none, "1.0"⟩, ⟨none, "b"⟩, ⟨none, "1.0"⟩] := by decide

end Naunet.C13
