/-
  C18 — writing a network in the native exchange format and reading it back preserves the model.
  (also the native part of C07)
-/
import NaunetProps.Lemmas.CodecLemmas
import NaunetModel.RateExpr

namespace Naunet.C18
open Naunet.Codec

/-- a clean field: no whitespace, no separator -/
def CleanField (s : Str) : Prop := NoWs s ∧ ',' ∉ s

/-- well-formed abstract line for the native format: at most 3 reactants / 5 products, names non-empty
    and clean, every printed field clean (Python's number formatting never emits blanks inside or commas) -/
structure WF (l : Line) : Prop where
  re_len : l.re.length ≤ 3
  pr_len : l.pr.length ≤ 5
  re_ok  : ∀ x ∈ l.re, CleanField x ∧ x ≠ []
  pr_ok  : ∀ x ∈ l.pr, CleanField x ∧ x ≠ []
  idx    : CleanField l.idx
  a      : CleanField l.a
  b      : CleanField l.b
  c      : CleanField l.c
  tmin   : CleanField l.tmin
  tmax   : CleanField l.tmax
  code   : CleanField l.code
  source : CleanField l.source

theorem mem_fillList (orig : List Str) (n : Nat) (x : Str) (h : x ∈ fillList orig n []) : x ∈ orig ∨ x = [] := by
  unfold fillList at h
  rcases List.mem_append.mp h with h1 | h1
  · exact Or.inl h1
  · exact Or.inr (List.eq_of_mem_replicate h1)

theorem length_fillList (orig : List Str) (n : Nat) (h : orig.length ≤ n) : (fillList orig n []).length = n := by
  simp [fillList]; omega

theorem filter_fillList (orig : List Str) (n : Nat) (h : ∀ x ∈ orig, x ≠ []) :
    (fillList orig n []).filter (fun t => !t.isEmpty) = orig := by
  unfold fillList
  rw [List.filter_append]
  have h1 : orig.filter (fun t => !t.isEmpty) = orig := by
    apply List.filter_eq_self.mpr
    intro x hx
    have := h x hx
    cases x with
    | nil => exact absurd rfl this
    | cons a t => rfl
  have h2 : (List.replicate (n - orig.length) ([] : Str)).filter (fun t => !t.isEmpty) = [] := by
    apply List.filter_eq_nil_iff.mpr
    intro x hx
    rw [List.eq_of_mem_replicate hx]; simp
  rw [h1, h2, List.append_nil]

theorem map_strip_padLeft (xs : List Str) (h : ∀ x ∈ xs, NoWs x) :
    (xs.map (padLeft 12)).map strip = xs := by
  induction xs with
  | nil => rfl
  | cons x xs ih =>
    simp only [List.map_cons]
    rw [strip_padLeft 12 x (h x (by simp)), ih (fun y hy => h y (List.mem_cons_of_mem _ hy))]

theorem noComma_fill (orig : List Str) (n : Nat) (h : ∀ x ∈ orig, CleanField x ∧ x ≠ []) :
    (∀ x ∈ fillList orig n [], ',' ∉ padLeft 12 x) ∧ (∀ x ∈ fillList orig n [], NoWs x) := by
  constructor
  · intro x hx
    rcases mem_fillList orig n x hx with h1 | h1
    · exact notMem_padLeft ',' (by decide) 12 x (h x h1).1.2
    · subst h1; exact notMem_padLeft ',' (by decide) 12 [] (by simp)
  · intro x hx
    rcases mem_fillList orig n x hx with h1 | h1
    · exact (h x h1).1.1
    · subst h1; exact noWs_nil

/-- **C18 / C07 (native round trip).** For every well-formed line – any names, any multiplicities up to
    3 reactants and 5 products, any printed numbers – reading back what `__format__("naunet")` wrote gives
    exactly the same reactants and products (order and multiplicity), α β γ texts, window, type code,
    index and source tag. -/
theorem native_roundtrip (l : Line) (h : WF l) : decodeNative (encodeNative l) = some l := by
  obtain ⟨hre, hpr, hreok, hprok, hidx, ha, hb, hc, hlt, hut, hcode, hsrc⟩ := h
  have lre := length_fillList l.re 3 hre
  have lpr := length_fillList l.pr 5 hpr
  obtain ⟨cre, wre⟩ := noComma_fill l.re 3 hreok
  obtain ⟨cpr, wpr⟩ := noComma_fill l.pr 5 hprok
  have fre := filter_fillList l.re 3 (fun x hx => (hreok x hx).2)
  have fpr := filter_fillList l.pr 5 (fun x hx => (hprok x hx).2)
  generalize hR : fillList l.re 3 [] = R at *
  generalize hP : fillList l.pr 5 [] = P at *
  rcases R with _ | ⟨x1, _ | ⟨x2, _ | ⟨x3, _ | ⟨x4, rr⟩⟩⟩⟩ <;> simp at lre
  rcases P with _ | ⟨y1, _ | ⟨y2, _ | ⟨y3, _ | ⟨y4, _ | ⟨y5, _ | ⟨y6, pp⟩⟩⟩⟩⟩⟩ <;> simp at lpr
  unfold decodeNative encodeNative
  rw [hR, hP]
  have hsplit := splitOnC_joinC ','
    [padRight 5 l.idx, padLeft 12 x1, padLeft 12 x2, padLeft 12 x3, padLeft 12 y1, padLeft 12 y2, padLeft 12 y3,
     padLeft 12 y4, padLeft 12 y5, l.a, l.b, l.c, l.tmin, l.tmax, padLeft 4 l.code, padLeft 8 l.source] (by simp)
    (by
      intro f hf
      simp only [List.mem_cons, List.mem_nil_iff, or_false] at hf
      rcases hf with rfl | rfl | rfl | rfl | rfl | rfl | rfl | rfl | rfl | rfl | rfl | rfl | rfl | rfl | rfl | rfl
      · exact notMem_padRight ',' (by decide) 5 _ hidx.2
      · exact cre x1 (by simp)
      · exact cre x2 (by simp)
      · exact cre x3 (by simp)
      · exact cpr y1 (by simp)
      · exact cpr y2 (by simp)
      · exact cpr y3 (by simp)
      · exact cpr y4 (by simp)
      · exact cpr y5 (by simp)
      · exact ha.2
      · exact hb.2
      · exact hc.2
      · exact hlt.2
      · exact hut.2
      · exact notMem_padLeft ',' (by decide) 4 _ hcode.2
      · exact notMem_padLeft ',' (by decide) 8 _ hsrc.2)
  simp only [List.map_cons, List.map_nil, List.cons_append, List.nil_append, List.singleton_append] at hsplit ⊢
  rw [hsplit]
  simp only [strip_padRight 5 _ hidx.1, strip_padLeft 12 _ (wre x1 (by simp)), strip_padLeft 12 _ (wre x2 (by simp)),
    strip_padLeft 12 _ (wre x3 (by simp)), strip_padLeft 12 _ (wpr y1 (by simp)), strip_padLeft 12 _ (wpr y2 (by simp)),
    strip_padLeft 12 _ (wpr y3 (by simp)), strip_padLeft 12 _ (wpr y4 (by simp)), strip_padLeft 12 _ (wpr y5 (by simp)),
    strip_clean _ ha.1, strip_clean _ hb.1, strip_clean _ hc.1, strip_clean _ hlt.1, strip_clean _ hut.1,
    strip_padLeft 4 _ hcode.1, strip_padLeft 8 _ hsrc.1, fre, fpr]

/-- **C18 (idempotent second cycle).** Writing the read-back line again produces the same text. -/
theorem second_cycle (l : Line) (h : WF l) :
    (decodeNative (encodeNative l)).map encodeNative = some (encodeNative l) := by
  rw [native_roundtrip l h]; rfl

/-! ### non-vacuity -/
example : decodeNative (encodeNative ⟨"12".toList, ["H".toList, "H".toList], ["H2".toList], "1.000e-10".toList,
    "0.000e+00".toList, "0.000e+00".toList, "-1.00".toList, "-1.00".toList, "100".toList, "kida".toList⟩) =
    some ⟨"12".toList, ["H".toList, "H".toList], ["H2".toList], "1.000e-10".toList,
    "0.000e+00".toList, "0.000e+00".toList, "-1.00".toList, "-1.00".toList, "100".toList, "kida".toList⟩ := by decide

end Naunet.C18

/-! ### export + re-render: which format codes keep their law under the native class

`Network.write("naunet")` stores the *basic* reaction-type number; a project re-rendered from its own files
evaluates the native class' law for that number.  The table below is computed from the rate templates of
`NaunetModel.RateExpr` and the code tables regenerated from the source. -/
namespace Naunet.C18
open Naunet.Rate

/-- the type number written for a (format, code) pair -/
def exportedType (fmt : Fmt) (code : Nat) : Nat :=
  match fmt with
  | .kida => ((Tables.kidaFormula2Type.find? (·.1 == code)).map (·.2)).getD 999
  | .leeds => ((Tables.leedsRtype2Type.find? (·.1 == code)).map (·.2)).getD 999
  | _ => code

/-- same syntax tree for every sign class and every first reactant ⇒ same law -/
def lawPreserved (fc : Fmt × Nat) : Bool :=
  (litClasses 0).all fun a => (litClasses 1).all fun b => (litClasses 2).all fun c => shieldCases.all fun r =>
    expected fc.1 fc.2 a b c r == expected .native (exportedType fc.1 fc.2) a b c r

/-- **C18 (export table).** Exactly these (format, code) pairs re-render to the same expression.  Of the
    others, KIDA 2 differs only textually (the native class prints `exp(-0.0*Av)` where KIDA drops the
    factor – same value), Leeds 5 / 15-19 export a number without native law (re-rendering is refused), and
    the rest are the known findings F15 (`F15_witness`). -/
theorem type_code_shared :
    gasCodes.filter lawPreserved =
      [(.kida, 1), (.kida, 3), (.kida, 4), (.kida, 5), (.umist, 100), (.umist, 102), (.umist, 120), (.leeds, 1),
       (.uclchem, 100), (.native, 100), (.native, 101), (.native, 102), (.native, 110), (.native, 111), (.native, 120),
       (.native, 1000)] := by
  decide +kernel

/-- **F15 witnesses.** UMIST `CP`, Leeds 2 / 3 / 4 and UCLCHEM CRP / CRPHOT / PHOTON are exported to a
    number whose native law *exists* and differs. -/
theorem F15_witness :
    ([(Fmt.umist, 101), (.leeds, 2), (.leeds, 3), (.leeds, 4), (.uclchem, 101), (.uclchem, 120), (.uclchem, 102)].all fun fc =>
      !lawPreserved fc && (expected .native (exportedType fc.1 fc.2) ⟨false, false, 0⟩ ⟨false, false, 1⟩ ⟨false, false, 2⟩
        ⟨"H".toList, "HI".toList⟩).isSome) = true := by
  decide +kernel

end Naunet.C18
