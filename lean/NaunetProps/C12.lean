/-
  C12 — KROME rate expressions keep their value when translated from Fortran to C.
  Partial: Lark's Earley parser (which tree is built from the text) is not modelled – the harness compares
  its trees with a reference Fortran parser (findings F7, F8).  Proved: for *every* parse tree the
  translated C tree has the value Fortran assigns to the tree.
-/
import NaunetModel.Fortran
import NaunetProps.Lemmas.CEval

namespace Naunet.C12
open Naunet.CE Naunet.Fortran

noncomputable section

/-- value of a (possibly signed) Fortran number token -/
def sciVal (s : Str) : ℝ :=
  match s with
  | '-' :: r => - numVal r
  | '+' :: r => numVal r
  | _ => numVal s

mutual
  /-- Fortran semantics of a parse tree: `**` is exponentiation, intrinsic functions by name -/
  def evalF (ρ : Env) : FTree → ℝ
    | .sci s => sciVal s
    | .var s => ρ.var s
    | .listvar v idx => ρ.arr (nToY v) (nToY ("IDX".toList ++ idx))
    | .func f args => applyFn ρ f (evalFArgs ρ args)
    | .power a b => evalF ρ a ^ evalF ρ b
    | .paren e => evalF ρ e
    | .bin op a b =>
      if op = '+' then evalF ρ a + evalF ρ b
      else if op = '-' then evalF ρ a - evalF ρ b
      else if op = '*' then evalF ρ a * evalF ρ b
      else if op = '/' then evalF ρ a / evalF ρ b
      else 0
    | .pair a _ => evalF ρ a
    | .unit => 0
  def evalFArgs (ρ : Env) : FTree → List ℝ
    | .pair a rest => evalF ρ a :: evalFArgs ρ rest
    | _ => []
end

theorem eval_numExpr (ρ : Env) (s : Str) : evalE ρ (numExpr s) = sciVal s := by
  unfold numExpr sciVal
  split <;> simp [evalE]

/-- an operator character of the grammar -/
def IsOp (c : Char) : Prop := c = '+' ∨ c = '-' ∨ c = '*' ∨ c = '/'

mutual
  /-- well-formed trees: `bin` nodes carry one of the four operators, argument lists are `pair` chains -/
  def WF : FTree → Prop
    | .bin op a b => IsOp op ∧ WF a ∧ WF b
    | .func _ args => ArgsWF args
    | .power a b => WF a ∧ WF b
    | .paren e => WF e
    | .pair _ _ => False
    | .unit => False
    | _ => True
  def ArgsWF : FTree → Prop
    | .pair a rest => WF a ∧ ArgsWF rest
    | .unit => True
    | _ => False
end

mutual
  /-- **C12 (value preservation).** For every parse tree of the translator's grammar and every valuation of
      the variables, abundances and user functions, the C expression tree produced by the translation has
      exactly the value Fortran semantics assign to the parse tree: `a**b` becomes `pow(a, b)` with the same
      operands; intrinsic calls, parentheses, signed literals and operator chains are kept. -/
  theorem toC_preserves (ρ : Env) : ∀ t : FTree, WF t → evalE ρ (cOf t) = evalF ρ t
    | .sci s, _ => by simp [cOf, evalF, eval_numExpr]
    | .var s, _ => by simp [cOf, evalF, evalE]
    | .listvar v idx, _ => by simp [cOf, evalF, evalE]
    | .func f args, h => by
      have ha := args_preserves ρ args (by simpa [WF] using h)
      simp only [cOf, evalF, evalE, ha]
    | .power a b, h => by
      have h' : WF a ∧ WF b := by simpa [WF] using h
      simp [cOf, evalF, evalE, evalArgs, applyFn, toC_preserves ρ a h'.1, toC_preserves ρ b h'.2]
    | .paren e, h => by
      have h' : WF e := by simpa [WF] using h
      simp [cOf, evalF, toC_preserves ρ e h']
    | .bin op a b, h => by
      have h' : IsOp op ∧ WF a ∧ WF b := by simpa [WF] using h
      have ia := toC_preserves ρ a h'.2.1
      have ib := toC_preserves ρ b h'.2.2
      rcases h'.1 with rfl | rfl | rfl | rfl <;> simp [cOf, evalF, evalE, ia, ib]
    | .pair a b, h => by simp [WF] at h
    | .unit, h => by simp [WF] at h
  theorem args_preserves (ρ : Env) : ∀ t : FTree, ArgsWF t → evalArgs ρ (cOf t) = evalFArgs ρ t
    | .pair a b, h => by
      have h' : WF a ∧ ArgsWF b := by simpa [ArgsWF] using h
      simp [cOf, evalArgs, evalFArgs, toC_preserves ρ a h'.1, args_preserves ρ b h'.2]
    | .unit, _ => by simp [cOf, evalArgs, evalFArgs]
    | .sci _, h => by simp [ArgsWF] at h
    | .var _, h => by simp [ArgsWF] at h
    | .listvar _ _, h => by simp [ArgsWF] at h
    | .func _ _, h => by simp [ArgsWF] at h
    | .power _ _, h => by simp [ArgsWF] at h
    | .paren _, h => by simp [ArgsWF] at h
    | .bin _ _ _, h => by simp [ArgsWF] at h
end

/-- the recorded misreadings of the grammar (finding F7), at tree level: the tree Lark builds for
    `2**3**2` is `(2**3)**2`, whose value 64 is not the Fortran value 512 of `2**(3**2)` -/
theorem F7_witness (ρ : Env) :
    evalF ρ (.power (.power (.sci ['2']) (.sci ['3'])) (.sci ['2'])) ≠
    evalF ρ (.power (.sci ['2']) (.power (.sci ['3']) (.sci ['2']))) := by
  have h2 : numVal ['2'] = 2 := by
    have : parseDec ['2'] = some (2, 0) := by decide
    simp [numVal, this]
  have h3 : numVal ['3'] = 3 := by
    have : parseDec ['3'] = some (3, 0) := by decide
    simp [numVal, this]
  have s2 : sciVal ['2'] = 2 := by rw [show sciVal ['2'] = numVal ['2'] from rfl, h2]
  have s3 : sciVal ['3'] = 3 := by rw [show sciVal ['3'] = numVal ['3'] from rfl, h3]
  simp only [evalF, s2, s3, Real.rpow_ofNat]
  norm_num

/-! ### non-vacuity -/
example : WF (.bin '*' (.sci "1.5e-3".toList) (.func "exp".toList (.pair (.bin '+' (.sci "-32.7".toList)
    (.bin '*' (.sci "13.5".toList) (.var "lnTe".toList))) .unit))) := by
  simp [WF, ArgsWF, IsOp]
example : parsesBack (.bin '*' (.sci "1.5e-3".toList) (.power (.var "Tgas".toList) (.paren (.sci "-0.5".toList)))) = true := by
  decide +kernel

end
/-- **C12 (rounding intrinsics).** `NINT` and `rint` are different functions: they differ exactly at the halves whose lower
    neighbour is even (`NINT(2.5) = 3`, `rint(2.5) = 2`), so a translation of one into the other is not value-preserving - although
    it agrees at every argument a random valuation is likely to draw. -/
theorem nint_rint_differ_at_half : Fortran.fnint (5/2) = 3 ∧ Fortran.crint (5/2) = 2 ∧ Fortran.fnint (-5/2) = -3 ∧ Fortran.crint (-5/2) = -2 := by
  decide +kernel

theorem nint_rint_agree_examples :
    Fortran.fnint (7/2) = Fortran.crint (7/2) ∧ Fortran.fnint (249/100) = Fortran.crint (249/100) ∧
    Fortran.fnint (-13/10) = Fortran.crint (-13/10) ∧ Fortran.fnint 0 = Fortran.crint 0 := by
  decide +kernel

end Naunet.C12
