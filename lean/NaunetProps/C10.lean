/-
  C10 — generated sources are self-contained: every symbol used is declared first.
  Partial (names only): the model covers naunet's own registered names (parameters, constants, derived
  quantities) of one generated function; types and the solver API are checked by compiling against the shim.
-/
import NaunetModel.Symbols
import Mathlib.Data.List.Basic
import Mathlib.Data.List.Nodup

namespace Naunet.C10
open Naunet.Sym

/-- every definition uses only names that are known or defined earlier -/
inductive Closed : List String → List (String × List String) → Prop
  | nil (known) : Closed known []
  | cons (known name uses rest) : (∀ u ∈ uses, u ∈ known) → Closed (name :: known) rest →
      Closed known ((name, uses) :: rest)

/-- **C10 (use-def walk).** The walk reports no undeclared identifier iff every derived quantity uses only
    parameters, constants, built-ins, network names, or derived quantities defined *before* it. -/
theorem firstUndeclared_none_iff (known : List String) (defs : List (String × List String)) :
    firstUndeclared known defs = none ↔ Closed known defs := by
  induction defs generalizing known with
  | nil => exact ⟨fun _ => Closed.nil known, fun _ => rfl⟩
  | cons d rest ih =>
    obtain ⟨name, uses⟩ := d
    simp only [firstUndeclared]
    cases hf : uses.find? (fun u => !(u ∈ known)) with
    | some u =>
      simp only [reduceCtorEq, false_iff]
      intro hc
      cases hc with
      | cons _ _ _ _ hall _ =>
        have hmem := List.mem_of_find?_eq_some hf
        have hp := List.find?_some hf
        simp only [Bool.not_eq_eq_eq_not, Bool.not_true, decide_eq_false_iff_not] at hp
        exact hp (hall u hmem)
    | none =>
      rw [List.find?_eq_none] at hf
      simp only [ih]
      constructor
      · intro h
        refine Closed.cons known name uses rest ?_ h
        intro u hu
        have := hf u hu
        simpa using this
      · intro h
        cases h with
        | cons _ _ _ _ _ hr => exact hr

theorem foldl_merge_nodup (vs : List Var) (acc : List (String × List String)) (h : (acc.map (·.1)).Nodup) :
    ((vs.foldl (fun acc v =>
      if acc.any (·.1 == v.2.1) then acc.map (fun p => if p.1 == v.2.1 then (p.1, v.2.2) else p)
      else acc ++ [(v.2.1, v.2.2)]) acc).map (·.1)).Nodup := by
  induction vs generalizing acc with
  | nil => exact h
  | cons v vs ih =>
    simp only [List.foldl_cons]
    apply ih
    by_cases hany : acc.any (·.1 == v.2.1) = true
    · simp only [hany, if_true]
      have : (acc.map (fun p => if p.1 == v.2.1 then (p.1, v.2.2) else p)).map (·.1) = acc.map (·.1) := by
        rw [List.map_map]
        apply List.map_congr_left
        intro p _
        simp only [Function.comp]
        split <;> rfl
      rw [this]; exact h
    · have hany' : acc.any (·.1 == v.2.1) = false := Bool.eq_false_iff.mpr hany
      simp only [hany', Bool.false_eq_true, if_false]
      rw [List.map_append, List.nodup_append]
      refine ⟨h, by simp, ?_⟩
      intro a ha b hb
      simp only [List.map_cons, List.map_nil, List.mem_singleton] at hb
      subst hb
      intro heq
      apply hany
      rw [List.any_eq_true]
      obtain ⟨p, hp, hpa⟩ := List.mem_map.mp ha
      exact ⟨p, hp, by simp [hpa, heq]⟩

/-- **C10 (declared once).** The merged registry declares every symbol exactly once, whatever components
    register it how often. -/
theorem merge_keys_nodup (kind : String) (comps : List (List Var)) : ((merge kind comps).map (·.1)).Nodup := by
  unfold merge
  exact foldl_merge_nodup _ [] (by simp)

def formats : List String := ["Reaction", "KIDAReaction", "UMISTReaction", "LEEDSReaction", "UCLCHEMReaction", "KROMEReaction"]
def grainModels : List String := ["Grain", "HH93Grain", "RR07Grain", "RR07XGrain"]

/-- **C10 (class combinations, partial).** Over the registries regenerated from the source: for every
    reaction format, alone or combined with a grain model other than `hh93i`, with or without the thermal
    processes, every derived quantity of the generated function uses only declared names – provided the
    network has the species `H2` (side condition `NeedsH2` of the UCLCHEM class; F17).  `hh93i` is closed
    together with the Leeds format (side condition `NeedsLeeds`; F13). -/
theorem closed_combo_partial :
    (formats.all fun r => verdict [r] ["IDX_H2I"] == none) = true ∧
    (formats.all fun r => grainModels.all fun g => verdict [r, g] ["IDX_H2I"] == none) = true ∧
    (formats.all fun r => grainModels.all fun g => verdict [r, g, "ThermalProcess"] ["IDX_H2I", "IDX_TGAS"] == none) = true ∧
    verdict ["LEEDSReaction", "HH93IGrain"] [] = none ∧
    verdict ["KIDAReaction", "LEEDSReaction", "HH93IGrain"] [] = none := by
  decide +kernel

/-- **F13 witness**: `hh93i` without a Leeds reaction uses `stick`, which only the Leeds class declares. -/
theorem F13_witness : verdict ["KIDAReaction", "HH93IGrain"] ["IDX_H2I"] = some "stick" := by decide +kernel

/-- **F17 witness**: a UCLCHEM network without the species `H2` uses the undeclared index macro `IDX_H2I`. -/
theorem F17_witness : verdict ["UCLCHEMReaction"] [] = some "IDX_H2I" := by decide +kernel

end Naunet.C10
