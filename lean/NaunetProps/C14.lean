/-
  C14 — network contents stay consistent under any history of edits.
-/
import NaunetModel.Network
import Mathlib.Data.List.Basic
import Mathlib.Data.List.Perm.Basic

namespace Naunet.C14
open Naunet.Net

theorem mem_unionSet (s xs : List Nat) (x : Nat) : x ∈ unionSet s xs ↔ x ∈ s ∨ x ∈ xs := by
  unfold unionSet
  induction xs generalizing s with
  | nil => simp
  | cons a xs ih =>
    simp only [List.foldl_cons]
    rw [ih]
    by_cases h : a ∈ s
    · simp only [h, if_true, List.mem_cons]
      constructor
      · rintro (h1 | h1); exact Or.inl h1; exact Or.inr (Or.inr h1)
      · rintro (h1 | rfl | h1); exact Or.inl h1; exact Or.inl h; exact Or.inr h1
    · simp only [h, if_false, List.mem_append, List.mem_singleton, List.mem_cons]
      tauto

theorem mem_foldl_union (f : Reac → List Nat) (rs : List Reac) (init : List Nat) (x : Nat) :
    x ∈ rs.foldl (fun acc r => unionSet acc (f r)) init ↔ x ∈ init ∨ ∃ r ∈ rs, x ∈ f r := by
  induction rs generalizing init with
  | nil => simp
  | cons r rs ih =>
    simp only [List.foldl_cons, ih, mem_unionSet, List.mem_cons, exists_eq_or_imp]
    tauto

/-- the cached species sets are exactly the species of the held reactions -/
def CacheOK (s : State) : Prop :=
  (∀ x, x ∈ s.reactants ↔ ∃ r ∈ s.held, x ∈ r.re) ∧ (∀ x, x ∈ s.products ↔ ∃ r ∈ s.held, x ∈ r.pr)
/-- every held reaction passes the allowed-species filter … -/
def HeldOK (s : State) : Prop := ∀ r ∈ s.held, admits s.allowed r = true
/-- … and every skipped one fails it -/
def SkippedOK (s : State) : Prop := ∀ r ∈ s.skipped, admits s.allowed r = false

def Inv (s : State) : Prop := CacheOK s ∧ HeldOK s ∧ SkippedOK s

theorem init_inv : Inv {} := by
  refine ⟨⟨?_, ?_⟩, ?_, ?_⟩ <;> simp [HeldOK, SkippedOK]

theorem add_inv (s : State) (r : Reac) (h : Inv s) : Inv (add s r) := by
  obtain ⟨⟨hc1, hc2⟩, hh, hs⟩ := h
  unfold add
  by_cases ha : admits s.allowed r = true
  · simp only [ha, if_true]
    refine ⟨⟨?_, ?_⟩, ?_, hs⟩
    · intro x; simp only [mem_unionSet, hc1, List.mem_append, List.mem_singleton]
      constructor
      · rintro (⟨q, hq, hx⟩ | hx); exact ⟨q, Or.inl hq, hx⟩; exact ⟨r, Or.inr rfl, hx⟩
      · rintro ⟨q, hq | rfl, hx⟩; exact Or.inl ⟨q, hq, hx⟩; exact Or.inr hx
    · intro x; simp only [mem_unionSet, hc2, List.mem_append, List.mem_singleton]
      constructor
      · rintro (⟨q, hq, hx⟩ | hx); exact ⟨q, Or.inl hq, hx⟩; exact ⟨r, Or.inr rfl, hx⟩
      · rintro ⟨q, hq | rfl, hx⟩; exact Or.inl ⟨q, hq, hx⟩; exact Or.inr hx
    · intro q hq
      rcases List.mem_append.mp hq with h1 | h1
      · exact hh q h1
      · simp at h1; subst h1; exact ha
  · simp only [ha]
    refine ⟨⟨hc1, hc2⟩, hh, ?_⟩
    intro q hq
    rcases List.mem_append.mp hq with h1 | h1
    · exact hs q h1
    · simp at h1; subst h1; simpa using ha

theorem foldl_add_inv (rs : List Reac) (s : State) (h : Inv s) : Inv (rs.foldl add s) := by
  induction rs generalizing s with
  | nil => exact h
  | cons r rs ih => exact ih _ (add_inv s r h)

theorem add_allowed (s : State) (r : Reac) : (add s r).allowed = s.allowed := by
  unfold add; split <;> rfl

theorem foldl_add_allowed (rs : List Reac) (s : State) : (rs.foldl add s).allowed = s.allowed := by
  induction rs generalizing s with
  | nil => rfl
  | cons r rs ih => simp [List.foldl_cons, ih, add_allowed]

/-- shrinking the held list and recomputing the caches keeps the invariant -/
theorem shrink_inv (s : State) (held' : List Reac) (hsub : ∀ r ∈ held', r ∈ s.held) (h : Inv s) :
    Inv (recompute { s with held := held' }) := by
  obtain ⟨_, hh, hs⟩ := h
  refine ⟨⟨?_, ?_⟩, ?_, hs⟩
  · intro x; simp [recompute, mem_foldl_union]
  · intro x; simp [recompute, mem_foldl_union]
  · intro r hr; exact hh r (hsub r hr)

theorem filterIdx_sub (p : Nat → Bool) (i : Nat) (l : List Reac) : ∀ r ∈ filterIdx p i l, r ∈ l := by
  induction l generalizing i with
  | nil => simp [filterIdx]
  | cons a l ih =>
    intro r hr
    simp only [filterIdx] at hr
    split at hr
    · rcases List.mem_cons.mp hr with rfl | h
      · simp
      · exact List.mem_cons_of_mem _ (ih _ r h)
    · exact List.mem_cons_of_mem _ (ih _ r hr)

theorem step_inv (s : State) (op : Op) (h : Inv s) : Inv (step s op) := by
  cases op with
  | add r => exact add_inv s r h
  | addMany rs => exact foldl_add_inv rs s h
  | removeIdx i => exact shrink_inv s _ (fun r hr => List.mem_of_mem_eraseIdx hr) h
  | removeAt i =>
    simp only [step]
    cases pyIndex s.held.length i with
    | none => exact h
    | some k => exact shrink_inv s _ (fun r hr => List.mem_of_mem_eraseIdx hr) h
  | removeIdxs is => exact shrink_inv s _ (filterIdx_sub _ 0 s.held) h
  | removeInst k => exact shrink_inv s _ (fun r hr => (List.mem_filter.mp hr).1) h
  | removeInsts ks => exact shrink_inv s _ (fun r hr => (List.mem_filter.mp hr).1) h
  | setAllowed l =>
    apply foldl_add_inv
    refine ⟨⟨?_, ?_⟩, ?_, ?_⟩ <;> simp [HeldOK, SkippedOK]
  | setRequired l => exact h

/-- **C14 (invariant under any history).** After *any* sequence of additions, removals (by index,
    index list, instance, instance list), allowed-species changes and required-species changes, the
    cached reactant / product sets are exactly those of the reactions currently held, every held
    reaction mentions only allowed species and every skipped one mentions a disallowed species. -/
theorem run_inv (ops : List Op) (s : State) (h : Inv s) : Inv (run s ops) := by
  unfold run
  induction ops generalizing s with
  | nil => exact h
  | cons op ops ih => exact ih _ (step_inv s op h)

theorem reachable_inv (ops : List Op) : Inv (run {} ops) := run_inv ops {} init_inv

/-- **C14 (species).** The network's species are the species of the held reactions plus the
    declared extra species – nothing stale, nothing missing. -/
theorem species_eq (ops : List Op) (x : Nat) :
    x ∈ speciesSet (run {} ops) ↔
      (∃ r ∈ (run {} ops).held, x ∈ r.species) ∨ x ∈ (run {} ops).required := by
  obtain ⟨⟨h1, h2⟩, _, _⟩ := reachable_inv ops
  simp only [speciesSet, mem_unionSet, h1, h2, Reac.species, List.mem_append]
  constructor
  · rintro ((⟨r, hr, hx⟩ | ⟨r, hr, hx⟩) | h)
    · exact Or.inl ⟨r, hr, Or.inl hx⟩
    · exact Or.inl ⟨r, hr, Or.inr hx⟩
    · exact Or.inr h
  · rintro (⟨r, hr, hx | hx⟩ | h)
    · exact Or.inl (Or.inl ⟨r, hr, hx⟩)
    · exact Or.inl (Or.inr ⟨r, hr, hx⟩)
    · exact Or.inr h

/-- **C14 (sources and sinks).** -/
theorem source_sink_eq (ops : List Op) (x : Nat) :
    (x ∈ sources (run {} ops) ↔ (∃ r ∈ (run {} ops).held, x ∈ r.re) ∧ ¬ ∃ r ∈ (run {} ops).held, x ∈ r.pr) ∧
    (x ∈ sinks (run {} ops) ↔ (∃ r ∈ (run {} ops).held, x ∈ r.pr) ∧ ¬ ∃ r ∈ (run {} ops).held, x ∈ r.re) := by
  obtain ⟨⟨h1, h2⟩, _, _⟩ := reachable_inv ops
  simp [sources, sinks, List.mem_filter, h1, h2]

theorem foldl_add_held (rs : List Reac) (s : State) :
    (rs.foldl add s).held = s.held ++ rs.filter (admits s.allowed) ∧
    (rs.foldl add s).skipped = s.skipped ++ rs.filter (fun r => !admits s.allowed r) := by
  induction rs generalizing s with
  | nil => simp
  | cons r rs ih =>
    obtain ⟨i1, i2⟩ := ih (add s r)
    simp only [List.foldl_cons, i1, i2, add_allowed]
    unfold add
    by_cases ha : admits s.allowed r = true
    · simp [ha, List.filter_cons]
    · simp [ha, List.filter_cons]

/-- a network constructed with allowed list `l` from reactions `rs` -/
def construct (l : List Nat) (rs : List Reac) : State := rs.foldl add { allowed := l }

/-- **C14 (late allowed list = construction).** Changing the allowed list later yields exactly the
    held / skipped reactions of a network *constructed* with that list from the reactions recorded so
    far (`held ++ skipped`, i.e. a permutation of the original addition order), and no reaction is
    lost. -/
theorem setAllowed_eq_construct (s : State) (l : List Nat) :
    (step s (.setAllowed l)).held = (construct l (s.held ++ s.skipped)).held ∧
    (step s (.setAllowed l)).skipped = (construct l (s.held ++ s.skipped)).skipped ∧
    ((step s (.setAllowed l)).held ++ (step s (.setAllowed l)).skipped).Perm (s.held ++ s.skipped) := by
  have a := foldl_add_held (s.held ++ s.skipped)
    { s with allowed := l, held := [], skipped := [], reactants := [], products := [] }
  have b := foldl_add_held (s.held ++ s.skipped) ({ allowed := l } : State)
  simp only [step, construct, a.1, a.2, b.1, b.2, List.nil_append, true_and]
  exact List.filter_append_perm _ _

/-! ### non-vacuity -/
example : (run {} [.add ⟨0, [1,2], [3], 0⟩, .add ⟨1, [3], [4], 1⟩, .removeIdx 0]).reactants = [3] := by decide
example : (run {} [.add ⟨0, [1,2], [3], 0⟩, .setAllowed [3,4], .add ⟨1, [3], [4], 1⟩]).held = [⟨1, [3], [4], 1⟩] := by decide

/-- **C14 (positions counted from the end).** `remove_reaction(-1)` takes back the reaction added last: a negative position `-k`
    (1 ≤ k ≤ n) removes exactly the reaction at position `n - k`, and a non-negative one below `n` is that position itself. -/
theorem removeAt_neg (s : State) (k : Nat) (hk : 1 ≤ k) (hn : k ≤ s.held.length) :
    step s (.removeAt (-(k : Int))) = step s (.removeIdx (s.held.length - k)) := by
  have : pyIndex s.held.length (-(k : Int)) = some (s.held.length - k) := by
    unfold pyIndex
    have h1 : ¬ (0 ≤ -(k : Int)) := by omega
    have h2 : (- -(k : Int)).toNat = k := by simp
    simp only [h1, if_false, h2, hn, if_true]
  simp only [step, this]

theorem removeAt_nonneg (s : State) (k : Nat) (hk : k < s.held.length) :
    step s (.removeAt (k : Int)) = step s (.removeIdx k) := by
  have : pyIndex s.held.length (k : Int) = some k := by
    unfold pyIndex
    simp [hk]
  simp only [step, this]

example : (run {} [.add ⟨0, [1], [2], 0⟩, .add ⟨1, [2], [3], 1⟩, .removeAt (-1)]).held = [⟨0, [1], [2], 0⟩] := by decide

/-! ### the `naunet extend` command -/

theorem appendDepletion_inv (a : SpAttr) (key : Nat → Nat → Nat → Nat) (ty : Nat) (s : State) (h : Inv s) :
    Inv (appendDepletion a key ty s) := foldl_add_inv _ s h

theorem appendDesorption_inv (a : SpAttr) (key : Nat → Nat → Nat → Nat) (ty : Nat) (s : State) (h : Inv s) :
    Inv (appendDesorption a key ty s) := foldl_add_inv _ s h

theorem admits_nil (r : Reac) : admits [] r = true := by simp [admits]

theorem filter_admits_nil (rs : List Reac) : rs.filter (admits []) = rs := by
  apply List.filter_eq_self.mpr; intro r _; exact admits_nil r

/-- which species are "present" for the command -/
theorem mem_netSpecies (s : State) (h : Inv s) (x : Nat) : x ∈ netSpecies s ↔ ∃ r ∈ s.held, x ∈ r.species := by
  obtain ⟨⟨h1, h2⟩, _, _⟩ := h
  simp only [netSpecies, mem_unionSet, h1, h2, Reac.species, List.mem_append]
  constructor
  · rintro (⟨r, hr, hx⟩ | ⟨r, hr, hx⟩)
    · exact ⟨r, hr, Or.inl hx⟩
    · exact ⟨r, hr, Or.inr hx⟩
  · rintro ⟨r, hr, hx | hx⟩
    · exact Or.inl ⟨r, hr, hx⟩
    · exact Or.inr ⟨r, hr, hx⟩

/-- **C14 (desorption appended).** Without an allowed list, `--append-…-desorption` keeps every reaction and adds exactly one
    reaction per surface species present, from that species to *its own* gas-phase species (same charge): nothing else. -/
theorem appendDesorption_held (a : SpAttr) (key : Nat → Nat → Nat → Nat) (ty : Nat) (s : State) (hal : s.allowed = []) :
    (appendDesorption a key ty s).held =
      s.held ++ ((netSpecies s).filter a.surface).map fun x => single key ty x (a.gasOf x) := by
  unfold appendDesorption
  rw [(foldl_add_held _ s).1, hal, filter_admits_nil]

theorem appendDepletion_held (a : SpAttr) (key : Nat → Nat → Nat → Nat) (ty : Nat) (s : State) (hal : s.allowed = []) :
    (appendDepletion a key ty s).held =
      s.held ++ ((netSpecies s).filter a.neutralGas).map fun x => single key ty x (a.iceOf x) := by
  unfold appendDepletion
  rw [(foldl_add_held _ s).1, hal, filter_admits_nil]

/-- every reaction of the result is an old one or the desorption of a surface species that was present, to its gas-phase species;
    and every such desorption is there -/
theorem desorption_exact (a : SpAttr) (key : Nat → Nat → Nat → Nat) (ty : Nat) (s : State) (h : Inv s) (hal : s.allowed = [])
    (r : Reac) :
    r ∈ (appendDesorption a key ty s).held ↔
      r ∈ s.held ∨ ∃ x, (∃ q ∈ s.held, x ∈ q.species) ∧ a.surface x = true ∧ r = single key ty x (a.gasOf x) := by
  rw [appendDesorption_held a key ty s hal, List.mem_append, List.mem_map]
  constructor
  · rintro (h1 | ⟨x, hx, rfl⟩)
    · exact Or.inl h1
    · obtain ⟨hx1, hx2⟩ := List.mem_filter.mp hx
      exact Or.inr ⟨x, (mem_netSpecies s h x).mp hx1, hx2, rfl⟩
  · rintro (h1 | ⟨x, hx1, hx2, rfl⟩)
    · exact Or.inl h1
    · exact Or.inr ⟨x, List.mem_filter.mpr ⟨(mem_netSpecies s h x).mpr hx1, hx2⟩, rfl⟩

theorem depletion_exact (a : SpAttr) (key : Nat → Nat → Nat → Nat) (ty : Nat) (s : State) (h : Inv s) (hal : s.allowed = [])
    (r : Reac) :
    r ∈ (appendDepletion a key ty s).held ↔
      r ∈ s.held ∨ ∃ x, (∃ q ∈ s.held, x ∈ q.species) ∧ a.neutralGas x = true ∧ r = single key ty x (a.iceOf x) := by
  rw [appendDepletion_held a key ty s hal, List.mem_append, List.mem_map]
  constructor
  · rintro (h1 | ⟨x, hx, rfl⟩)
    · exact Or.inl h1
    · obtain ⟨hx1, hx2⟩ := List.mem_filter.mp hx
      exact Or.inr ⟨x, (mem_netSpecies s h x).mp hx1, hx2, rfl⟩
  · rintro (h1 | ⟨x, hx1, hx2, rfl⟩)
    · exact Or.inl h1
    · exact Or.inr ⟨x, List.mem_filter.mpr ⟨(mem_netSpecies s h x).mpr hx1, hx2⟩, rfl⟩

theorem foldl_desorb_inv (a : SpAttr) (key : Nat → Nat → Nat → Nat) (tys : List Nat) (s : State) (h : Inv s) :
    Inv (tys.foldl (fun st ty => appendDesorption a key ty st) s) := by
  induction tys generalizing s with
  | nil => exact h
  | cons t ts ih => exact ih _ (appendDesorption_inv a key t s h)

/-- **C14 (the whole command).** Whatever options are combined, the network `naunet extend` writes is consistent: its species lists
    are exactly the species of the reactions it holds. -/
theorem extend_inv (a : SpAttr) (key : Nat → Nat → Nat → Nat) (o : ExtendOpts) (rs : List Reac) : Inv (extend a key o rs) := by
  unfold extend
  have h0 : Inv (rs.foldl add ({} : State)) := foldl_add_inv rs {} init_inv
  have h1 : Inv (match o.keep with
      | none => rs.foldl add ({} : State)
      | some l => ((rs.foldl add ({} : State)).held.filter fun r => r.species.all (· ∈ l)).foldl add {}) := by
    cases o.keep with
    | none => exact h0
    | some l => exact foldl_add_inv _ {} init_inv
  simp only []
  apply foldl_desorb_inv
  split
  · apply appendDepletion_inv
    split
    · exact step_inv _ _ (by split; exact h1; exact step_inv _ _ h1)
    · split; exact h1; exact step_inv _ _ h1
  · split
    · exact step_inv _ _ (by split; exact h1; exact step_inv _ _ h1)
    · split; exact h1; exact step_inv _ _ h1

/-! non-vacuity: `#2 -> 2` style desorption of a charged ice keeps the charge (gasOf 12 = 11, not the neutral 10) -/
example :
    let a : SpAttr := ⟨fun x => x == 10, fun x => x == 12 || x == 13, fun x => x + 3, fun x => if x == 12 then 11 else 10⟩
    ((extend a (fun _ _ _ => 0) ⟨none, [], false, false, [201]⟩ [⟨0, [12, 1], [13, 2], 5⟩]).held.map fun r => (r.re, r.pr)) =
      [([12, 1], [13, 2]), ([12], [11]), ([13], [10])] := by decide

/-! ### one entry per species -/

theorem unionSet_nodup (s xs : List Nat) (h : s.Nodup) : (unionSet s xs).Nodup := by
  unfold unionSet
  induction xs generalizing s with
  | nil => simpa using h
  | cons a xs ih =>
    simp only [List.foldl_cons]
    apply ih
    by_cases ha : a ∈ s
    · simpa [ha] using h
    · simp only [ha, if_false]
      exact List.nodup_append.mpr ⟨h, by simp, by
        intro x hx y hy
        simp at hy; subst hy
        intro e; subst e; exact ha hx⟩

theorem foldl_union_nodup (f : Reac → List Nat) (rs : List Reac) (init : List Nat) (h : init.Nodup) :
    (rs.foldl (fun acc r => unionSet acc (f r)) init).Nodup := by
  induction rs generalizing init with
  | nil => simpa using h
  | cons r rs ih => simp only [List.foldl_cons]; exact ih _ (unionSet_nodup init (f r) h)

/-- the cached reactant / product lists hold every species once -/
def CacheNodup (s : State) : Prop := s.reactants.Nodup ∧ s.products.Nodup

theorem add_cacheNodup (s : State) (r : Reac) (h : CacheNodup s) : CacheNodup (add s r) := by
  unfold add
  split
  · exact ⟨unionSet_nodup _ _ h.1, unionSet_nodup _ _ h.2⟩
  · exact h

theorem foldl_add_cacheNodup (rs : List Reac) (s : State) (h : CacheNodup s) : CacheNodup (rs.foldl add s) := by
  induction rs generalizing s with
  | nil => exact h
  | cons r rs ih => exact ih _ (add_cacheNodup s r h)

theorem recompute_cacheNodup (s : State) : CacheNodup (recompute s) :=
  ⟨foldl_union_nodup _ _ [] (by simp), foldl_union_nodup _ _ [] (by simp)⟩

theorem step_cacheNodup (s : State) (op : Op) (h : CacheNodup s) : CacheNodup (step s op) := by
  cases op with
  | add r => exact add_cacheNodup s r h
  | addMany rs => exact foldl_add_cacheNodup rs s h
  | removeIdx i => exact recompute_cacheNodup _
  | removeAt i =>
    simp only [step]
    cases pyIndex s.held.length i with
    | none => exact h
    | some k => exact recompute_cacheNodup _
  | removeIdxs is => exact recompute_cacheNodup _
  | removeInst k => exact recompute_cacheNodup _
  | removeInsts ks => exact recompute_cacheNodup _
  | setAllowed l => exact foldl_add_cacheNodup _ _ ⟨by simp, by simp⟩
  | setRequired l => exact h

theorem run_cacheNodup (ops : List Op) (s : State) (h : CacheNodup s) : CacheNodup (run s ops) := by
  unfold run
  induction ops generalizing s with
  | nil => exact h
  | cons op ops ih => exact ih _ (step_cacheNodup s op h)

/-- **C14 / C09 (one entry per species).** Whatever the history - and whatever the list of required species repeats or shares with
    the reacting species - the species list of the network names every species exactly once. -/
theorem speciesSet_nodup (ops : List Op) : (speciesSet (run {} ops)).Nodup := by
  have h := run_cacheNodup ops {} ⟨by simp, by simp⟩
  unfold speciesSet
  exact unionSet_nodup _ _ (unionSet_nodup _ _ h.1)

example : speciesSet (run {} [.add ⟨0, [1, 2], [3], 0⟩, .setRequired [2, 7, 7, 1]]) = [1, 2, 3, 7] := by decide

end Naunet.C14
