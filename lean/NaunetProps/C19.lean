/-
  C19 — Solve integrates exactly the requested interval or reports failure.
  Times live in an arbitrary additive commutative group (exact arithmetic).
-/
import NaunetModel.Solve
import Mathlib.Algebra.Group.Basic
import Mathlib.Tactic.Abel

namespace Naunet.C19
open Naunet.Solve

variable {α : Type} [AddCommGroup α]

theorem cvodeCall_inv (o : Outcome α) (y t tout : α) :
    (cvodeCall o y t tout).2.1 - (cvodeCall o y t tout).2.2 = y - t := by
  cases o <;> simp [cvodeCall] <;> abel

/-- the sub-step loop never changes `y − t` (every call advances the state by exactly the time it
    advances the integrator clock), and after `k ≥ 1` successful calls the clock is the last target -/
theorem substeps_inv (env : Env α) (level : Nat) (dt : α) (k step : Nat) (y t : α) (c : Nat) :
    (∀ y' t' c', substeps env level dt k step y t c = .done y' t' c' →
        y' - t' = y - t ∧ (0 < k → t' = env.sub level (step + k - 1) dt)) ∧
    (∀ n y' t' c', substeps env level dt k step y t c = .failed n y' t' c' → y' - t' = y - t) := by
  induction k generalizing step y t c with
  | zero =>
    constructor
    · intro y' t' c' h
      simp only [substeps, SubRes.done.injEq] at h
      obtain ⟨rfl, rfl, _⟩ := h
      exact ⟨rfl, fun h => absurd h (Nat.lt_irrefl 0)⟩
    · intro n y' t' c' h; simp [substeps] at h
  | succ k ih =>
    have hinv := cvodeCall_inv (env.cv c) y t (env.sub level step dt)
    cases hcv : env.cv c with
    | ok =>
      simp only [hcv, cvodeCall] at hinv
      constructor
      · intro y' t' c' h
        simp only [substeps, hcv, cvodeCall] at h
        obtain ⟨h1, h2⟩ := (ih (step+1) _ _ (c+1)).1 y' t' c' h
        refine ⟨by rw [h1]; exact hinv, fun _ => ?_⟩
        by_cases hk : 0 < k
        · rw [h2 hk]; congr 1; omega
        · have hk0 : k = 0 := by omega
          subst hk0
          simp only [substeps, SubRes.done.injEq] at h
          rw [← h.2.1]; congr 1
      · intro n y' t' c' h
        simp only [substeps, hcv, cvodeCall] at h
        rw [(ih (step+1) _ _ (c+1)).2 n y' t' c' h]; exact hinv
    | fail n reach =>
      simp only [hcv, cvodeCall] at hinv
      constructor
      · intro y' t' c' h; simp [substeps, hcv, cvodeCall] at h
      · intro n' y' t' c' h
        simp only [substeps, hcv, cvodeCall, SubRes.failed.injEq] at h
        obtain ⟨_, rfl, rfl, _⟩ := h
        exact hinv

/-- the last sub-step of every level targets the whole remaining interval:
    `pow(10, log10(dt) − level + level * nsub / nsub) = dt` -/
def LastTargetExact (env : Env α) : Prop := ∀ level d, env.sub level (10 * level) d = d

/-- **ladder invariant.** Entering a level with a recoverable flag, "state + remaining interval −
    time already reached" is the requested end state; every successful exit of the ladder then
    returns exactly that end state. -/
theorem levels_success (env : Env α) (hsub : LastTargetExact env) (dtInit yInit : α)
    (fuel level : Nat) (hl : 1 ≤ level) (n : Nat) (y t0 dt : α) (c ci : Nat)
    (hinv : n < 4 → y + (dt - t0) = yInit + dtInit) (yf : α)
    (h : levels env 0 dtInit yInit fuel level n y t0 dt c ci = .success yf) :
    yf = yInit + dtInit := by
  induction fuel generalizing level n y t0 dt c ci with
  | zero => simp [levels] at h
  | succ fuel ih =>
    have key : ∀ (ytmp dt' : α), ytmp + dt' = yInit + dtInit →
        levels.body env 0 dtInit yInit fuel level ytmp dt' c ci = .success yf → yf = yInit + dtInit := by
      intro ytmp dt' hsum hb
      unfold levels.body at hb
      by_cases hre : env.reinit ci = true
      · simp only [hre, if_true] at hb
        have hs := substeps_inv env level dt' (10 * level) 1 ytmp 0 c
        cases hsr : substeps env level dt' (10 * level) 1 ytmp 0 c with
        | done y' t' c' =>
          rw [hsr] at hb
          simp only [Result.success.injEq] at hb
          subst hb
          obtain ⟨h1, h2⟩ := hs.1 y' t' c' hsr
          have hpos : 0 < 10 * level := by omega
          have ht : t' = dt' := by
            rw [h2 hpos]
            have : 1 + 10 * level - 1 = 10 * level := by omega
            rw [this]; exact hsub level dt'
          rw [← hsum]
          have : y' = y' - t' + t' := by abel
          rw [this, h1, ht]; abel
        | failed n' y' t' c' =>
          rw [hsr] at hb
          have h1 := hs.2 n' y' t' c' hsr
          apply ih (level+1) (by omega) n' y' t' dt' c' (ci+1) _ hb
          intro _
          rw [← hsum]
          have : y' + (dt' - t') = (y' - t') + dt' := by abel
          rw [this, h1]; abel
      · simp [hre] at hb
    simp only [levels] at h
    by_cases h4 : n < 4
    · simp only [h4, if_true] at h
      exact key y (dt - t0) (hinv h4) h
    · simp only [h4, if_false] at h
      by_cases h5 : n = 5
      · simp only [h5, if_true] at h
        exact key yInit dtInit rfl h
      · simp [h5] at h

/-- **C19 (exact interval).** Whatever the integrator does – any sequence of successes, recoverable
    flags −1…−4 with arbitrary partial progress, reset flags −6, at any call position of any level –
    a successful return of `Solve` means the state was advanced over exactly `dt`: nothing skipped,
    nothing integrated twice. -/
theorem solve_success_exact (env : Env α) (hsub : LastTargetExact env) (y0 dt yf : α)
    (h : solve env 0 y0 dt = .success yf) : yf = y0 + dt := by
  unfold solve at h
  cases hcv : env.cv 0 with
  | ok =>
    simp only [hcv, cvodeCall, Result.success.injEq] at h
    rw [← h]; abel
  | fail n reach =>
    simp only [hcv, cvodeCall] at h
    apply levels_success env hsub dt y0 5 1 (Nat.le_refl 1) n _ _ dt 1 0 _ yf h
    intro _; abel

theorem levels_fail_logged (env : Env α) (dtInit yInit : α) (fuel level n : Nat) (y t0 dt : α)
    (c ci : Nat) (l yf : α) (h : levels env 0 dtInit yInit fuel level n y t0 dt c ci = .fail l yf) :
    l = yInit := by
  induction fuel generalizing level n y t0 dt c ci with
  | zero => simp only [levels, Result.fail.injEq] at h; exact h.1.symm
  | succ fuel ih =>
    have key : ∀ (ytmp dt' : α),
        levels.body env 0 dtInit yInit fuel level ytmp dt' c ci = .fail l yf → l = yInit := by
      intro ytmp dt' hb
      unfold levels.body at hb
      by_cases hre : env.reinit ci = true
      · simp only [hre, if_true] at hb
        cases hsr : substeps env level dt' (10 * level) 1 ytmp 0 c with
        | done y' t' c' => rw [hsr] at hb; simp at hb
        | failed n' y' t' c' => rw [hsr] at hb; exact ih _ _ _ _ _ _ _ hb
      · simp only [hre, Bool.false_eq_true, if_false, Result.fail.injEq] at hb; exact hb.1.symm
    simp only [levels] at h
    by_cases h4 : n < 4
    · simp only [h4, if_true] at h; exact key _ _ h
    · simp only [h4, if_false] at h
      by_cases h5 : n = 5
      · simp only [h5, if_true] at h; exact key _ _ h
      · simp only [h5, if_false, Result.fail.injEq] at h; exact h.1.symm

/-- **C19 (failure logs the initial state).** Every failing return carries the abundances `Solve`
    was entered with. -/
theorem fail_logs_initial_state (env : Env α) (y0 dt l yf : α)
    (h : solve env 0 y0 dt = .fail l yf) : l = y0 := by
  unfold solve at h
  cases hcv : env.cv 0 with
  | ok => simp [hcv, cvodeCall] at h
  | fail n reach =>
    simp only [hcv, cvodeCall] at h
    exact levels_fail_logged env dt y0 5 1 n _ _ dt 1 0 l yf h

/-- **C19 (unrecoverable flags).** Flag −5 and every flag ≤ −7 on the first call is returned as
    failure, never as success. -/
theorem unrecoverable_fails (env : Env α) (y0 dt : α) (n : Nat) (reach : α → α → α)
    (hcv : env.cv 0 = .fail n reach) (hn : n = 4 ∨ 6 ≤ n) :
    ∃ yf, solve env 0 y0 dt = .fail y0 yf := by
  unfold solve
  simp only [hcv, cvodeCall, levels]
  have h4 : ¬ n < 4 := by omega
  have h5 : ¬ n = 5 := by omega
  simp [h4, h5]

/-- **C19 (failing re-initialisation).** If `CVodeReInit` fails at the first recovery level the
    result is failure. -/
theorem reinit_failure_fails (env : Env α) (y0 dt : α) (n : Nat) (reach : α → α → α)
    (hcv : env.cv 0 = .fail n reach) (hn : n < 4 ∨ n = 5) (hre : env.reinit 0 = false) :
    ∃ yf, solve env 0 y0 dt = .fail y0 yf := by
  unfold solve
  simp only [hcv, cvodeCall, levels]
  rcases hn with h | h
  · simp [h, levels.body, hre]
  · have h4 : ¬ n < 4 := by omega
    simp [h4, h, levels.body, hre]

/-- **C19 (unrecoverable flags, any level).** Whatever the level and the call position at which it arose, a pending flag −5
    or ≤ −7 ends the recovery with failure, the initial state logged. -/
theorem levels_unrecoverable (env : Env α) (dtInit yInit : α) (fuel level n : Nat) (y t0 dt : α) (c ci : Nat)
    (hn : n = 4 ∨ 6 ≤ n) : levels env 0 dtInit yInit fuel level n y t0 dt c ci = .fail yInit y := by
  have h4 : ¬ n < 4 := by omega
  have h5 : ¬ n = 5 := by omega
  cases fuel with
  | zero => simp [levels]
  | succ fuel => simp [levels, h4, h5]

/-- the flag with which the sub-step loop stops is the flag of the call it made last -/
theorem substeps_failed_flag (env : Env α) (level : Nat) (dt : α) (k step : Nat) (y t : α) (c : Nat)
    (n : Nat) (y' t' : α) (c' : Nat) (h : substeps env level dt k step y t c = .failed n y' t' c') :
    c < c' ∧ ∃ r, env.cv (c' - 1) = .fail n r := by
  induction k generalizing step y t c with
  | zero => simp [substeps] at h
  | succ k ih =>
    cases hcv : env.cv c with
    | ok =>
      simp only [substeps, hcv, cvodeCall] at h
      obtain ⟨h1, h2⟩ := ih (step+1) _ _ (c+1) h
      exact ⟨by omega, h2⟩
    | fail m r =>
      simp only [substeps, hcv, cvodeCall, SubRes.failed.injEq] at h
      obtain ⟨rfl, _, _, rfl⟩ := h
      exact ⟨by omega, r, by simpa using hcv⟩

/-- **C19 (unrecoverable flag at any sub-step of any level).** If the sub-step loop of a level stops because one of its
    calls returned an unrecoverable flag, that level returns failure with the initial state logged - it is not retried. -/
theorem body_unrecoverable (env : Env α) (dtInit yInit : α) (fuel level : Nat) (ytmp dt' : α) (c ci : Nat)
    (n : Nat) (y' t' : α) (c' : Nat) (hre : env.reinit ci = true)
    (hs : substeps env level dt' (10 * level) 1 ytmp 0 c = .failed n y' t' c') (hn : n = 4 ∨ 6 ≤ n) :
    levels.body env 0 dtInit yInit fuel level ytmp dt' c ci = .fail yInit y' := by
  unfold levels.body
  simp only [hre, if_true, hs]
  exact levels_unrecoverable env dtInit yInit fuel (level+1) n y' t' dt' c' (ci+1) hn

theorem substeps_allfail (env : Env α) (hall : ∀ c, ∃ n r, env.cv c = .fail n r)
    (level : Nat) (dt : α) (k step : Nat) (y t : α) (c : Nat) (hk : 0 < k) :
    ∃ n y' t' c', substeps env level dt k step y t c = .failed n y' t' c' := by
  cases k with
  | zero => omega
  | succ k =>
    obtain ⟨n, r, hc⟩ := hall c
    simp only [substeps, hc, cvodeCall]
    exact ⟨_, _, _, _, rfl⟩

theorem levels_allfail (env : Env α) (hall : ∀ c, ∃ n r, env.cv c = .fail n r) (dtInit yInit : α)
    (fuel level : Nat) (hl : 1 ≤ level) (n : Nat) (y t0 dt : α) (c ci : Nat) :
    ∀ yf, levels env 0 dtInit yInit fuel level n y t0 dt c ci ≠ .success yf := by
  induction fuel generalizing level n y t0 dt c ci with
  | zero => intro yf; simp [levels]
  | succ fuel ih =>
    intro yf
    have key : ∀ (ytmp dt' : α),
        levels.body env 0 dtInit yInit fuel level ytmp dt' c ci ≠ .success yf := by
      intro ytmp dt'
      unfold levels.body
      by_cases hre : env.reinit ci = true
      · simp only [hre, if_true]
        obtain ⟨n', y', t', c', hs⟩ := substeps_allfail env hall level dt' (10*level) 1 ytmp 0 c (by omega)
        rw [hs]
        exact ih (level+1) (by omega) n' y' t' dt' c' (ci+1) yf
      · simp [hre]
    simp only [levels]
    by_cases h4 : n < 4
    · simp only [h4, if_true]; exact key _ _
    · simp only [h4, if_false]
      by_cases h5 : n = 5
      · simp only [h5, if_true]; exact key _ _
      · simp [h5]

/-- **C19 (five levels, then failure).** If every integrator call fails, `Solve` gives up after the
    fifth level and returns failure. -/
theorem five_levels_then_fail (env : Env α) (hall : ∀ c, ∃ n r, env.cv c = .fail n r) (y0 dt : α) :
    ∀ yf, solve env 0 y0 dt ≠ .success yf := by
  intro yf
  unfold solve
  obtain ⟨n, r, hc⟩ := hall 0
  simp only [hc, cvodeCall]
  exact levels_allfail env hall dt y0 5 1 (Nat.le_refl 1) n _ _ dt 1 0 yf

theorem observe_spec (mx calls step : Nat) (hs : step ≤ mx) :
    observe mx calls step = if step + calls ≤ mx then some (step + calls) else none := by
  induction calls generalizing step with
  | zero => simp [observe, hs]
  | succ calls ih =>
    simp only [observe]
    by_cases h : step + 1 > mx
    · simp [h]; omega
    · simp only [h, if_false, ih (step+1) (by omega)]
      have : step + 1 + calls = step + (calls + 1) := by omega
      rw [this]

/-- **C19 (Odeint step budget).** `Solve` succeeds iff the observer was called at most `mxsteps`
    times; exceeding the budget is reported as failure. -/
theorem odeint_budget (mx calls : Nat) : odeintSolve mx calls = true ↔ calls ≤ mx := by
  unfold odeintSolve
  rw [observe_spec mx calls 0 (Nat.zero_le _)]
  by_cases h : calls ≤ mx <;> simp [h]

/-! ### non-vacuity: a script that fails with flag −1 half-way, then succeeds at level 1 -/
example : solve (α := Int)
    ⟨fun c => if c = 0 then .fail 0 (fun _ _ => 40) else .ok, fun _ => true, fun _ s d => if s = 10 then d else s⟩
    0 0 100 = .success 100 := by
  simp [solve, cvodeCall, levels, levels.body, substeps]

/-! a script whose second sub-step of level 1 returns −8 after a recoverable first failure: failure, initial state logged -/
example : solve (α := Int)
    ⟨fun c => if c = 0 then .fail 0 (fun _ _ => 40) else if c = 2 then .fail 7 (fun t _ => t) else .ok, fun _ => true,
     fun _ s d => if s = 10 then d else s⟩
    0 0 100 = .fail 0 41 := by
  simp [solve, cvodeCall, levels, levels.body, substeps]

example : LastTargetExact (α := Int) ⟨fun _ => .ok, fun _ => true, fun l s d => if s = 10 * l then d else 0⟩ := by
  intro l d; simp


/-- **C19 (the Python caller).** An array comes back from the Python-facing `Solve` only when the integration succeeded – and then
    it holds the state advanced over exactly `dt`; every failure of `Solve` reaches the caller as an exception. -/
theorem pywrap_returned_exact (env : Env α) (hsub : LastTargetExact env) (y0 dt yf : α)
    (h : pyWrapSolve env 0 y0 dt = .returned yf) : yf = y0 + dt := by
  unfold pyWrapSolve at h
  cases hs : solve env 0 y0 dt with
  | success y =>
    rw [hs] at h
    simp only [PyResult.returned.injEq] at h
    rw [← h]
    exact solve_success_exact env hsub y0 dt y hs
  | fail l y => rw [hs] at h; cases h

theorem pywrap_raises_iff_fail (env : Env α) (y0 dt : α) :
    pyWrapSolve env 0 y0 dt = .raised ↔ ∃ l y, solve env 0 y0 dt = .fail l y := by
  unfold pyWrapSolve
  cases hs : solve env 0 y0 dt with
  | success y => simp
  | fail l y => simp

/-- the Odeint wrapper raises exactly when the step budget is exceeded -/
theorem odeint_pywrap_budget (mx calls : Nat) : odeintPyWrap mx calls = true ↔ calls ≤ mx := by
  unfold odeintPyWrap; exact odeint_budget mx calls

end Naunet.C19
