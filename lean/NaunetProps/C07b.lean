/-
  C07 (continued) — round trips for the UMIST, Leeds and UCLCHEM layouts.
  Together with `C07.kida_roundtrip` and `C18.native_roundtrip` every line-oriented decoder of the model
  is shown to recover, for *every* well-formed abstract line, exactly the reactants, products, α β γ,
  temperature window and type code that the line carries.
-/
import NaunetProps.C07

namespace Naunet.C07
open Naunet.Codec

/-! ### UMIST -/

/-- the first 14 colon-separated fields of a UMIST line -/
def umistFields (l : Line) : List Str :=
  [l.idx, l.code] ++ fillList l.re 2 [] ++ fillList l.pr 4 [] ++ ["1".toList, l.a, l.b, l.c, l.tmin, l.tmax]

theorem encodeUmist_eq (l : Line) (tail : List Str) : encodeUmist l tail = joinC ':' (umistFields l ++ tail) := by
  simp [encodeUmist, umistFields]

theorem length_umistFields (l : Line) (hre : l.re.length ≤ 2) (hpr : l.pr.length ≤ 4) : (umistFields l).length = 14 := by
  simp only [umistFields, List.length_append, List.length_cons, List.length_nil,
    C18.length_fillList l.re 2 hre, C18.length_fillList l.pr 4 hpr]

/-- **C07 (UMIST).** Any line laid out in UMIST's colon-separated columns – up to 2 reactants and 4
    products, any further trailing fields (accuracy, reference, …) – is decoded to exactly the named
    reactants and products, the type code, α β γ and the window.  The only requirements are that no
    field contains a colon and that the line has no leading or trailing blank. -/
theorem umist_roundtrip (l : Line) (tail : List Str)
    (hre : l.re.length ≤ 2) (hpr : l.pr.length ≤ 4)
    (hreok : ∀ x ∈ l.re, ':' ∉ x ∧ x ≠ []) (hprok : ∀ x ∈ l.pr, ':' ∉ x ∧ x ≠ [])
    (hf : ∀ f ∈ [l.idx, l.code, l.a, l.b, l.c, l.tmin, l.tmax], ':' ∉ f) (htail : ∀ f ∈ tail, ':' ∉ f)
    (hstrip : strip (encodeUmist l tail) = encodeUmist l tail) (hsrc : l.source = "umist".toList) :
    decodeUmist (encodeUmist l tail) = some l := by
  have hlen := length_umistFields l hre hpr
  have hsplit : splitOnC ':' (joinC ':' (umistFields l ++ tail)) = umistFields l ++ tail := by
    apply splitOnC_joinC
    · intro e
      have := congrArg List.length e
      simp [hlen] at this
    · intro f hfm
      rcases List.mem_append.mp hfm with h1 | h1
      · simp only [umistFields, List.mem_append, List.mem_cons, List.mem_nil_iff, or_false] at h1
        rcases h1 with ((h1 | h1) | h1) | h1
        · rcases h1 with rfl | rfl
          · exact hf _ (by simp)
          · exact hf _ (by simp)
        · rcases C18.mem_fillList l.re 2 f h1 with h2 | h2
          · exact (hreok f h2).1
          · subst h2; simp
        · rcases C18.mem_fillList l.pr 4 f h1 with h2 | h2
          · exact (hprok f h2).1
          · subst h2; simp
        · rcases h1 with rfl | rfl | rfl | rfl | rfl | rfl
          · decide
          all_goals exact hf _ (by simp)
      · exact htail f h1
  unfold decodeUmist
  rw [hstrip, encodeUmist_eq, hsplit, List.take_left' hlen]
  have lre := C18.length_fillList l.re 2 hre
  have lpr := C18.length_fillList l.pr 4 hpr
  have fre := C18.filter_fillList l.re 2 (fun x hx => (hreok x hx).2)
  have fpr := C18.filter_fillList l.pr 4 (fun x hx => (hprok x hx).2)
  unfold umistFields
  generalize hR : fillList l.re 2 [] = R at *
  generalize hP : fillList l.pr 4 [] = P at *
  rcases R with _ | ⟨x1, _ | ⟨x2, _ | ⟨x3, rr⟩⟩⟩ <;> simp at lre
  rcases P with _ | ⟨y1, _ | ⟨y2, _ | ⟨y3, _ | ⟨y4, _ | ⟨y5, pp⟩⟩⟩⟩⟩ <;> simp at lpr
  simp only [List.cons_append, List.nil_append]
  rw [fre, fpr]
  cases l; simp_all

example : decodeUmist (encodeUmist ⟨"5173".toList, ["C".toList, "CH".toList], ["C2".toList, "H".toList], "6.59e-11".toList,
    "0.00".toList, "0.0".toList, "10".toList, "300".toList, "NN".toList, "umist".toList⟩ ["L".toList, "C".toList, "x".toList]) =
    some ⟨"5173".toList, ["C".toList, "CH".toList], ["C2".toList, "H".toList], "6.59e-11".toList,
    "0.00".toList, "0.0".toList, "10".toList, "300".toList, "NN".toList, "umist".toList⟩ := by decide

/-! ### Leeds -/

theorem leedsWidths_eq : Tables.leedsWidths = [5, 30, 50, 8, 9, 10, 5, 5, 3] := by decide

/-- a field that fits its right-aligned column and has no blank inside -/
def FitsL (w : Nat) (x : Str) : Prop := NoWs x ∧ x.length ≤ w

/-- **C07 (Leeds).** Any line laid out in the Leeds fixed-width columns (5 30 50 8 9 10 5 5 3) – up to 3
    reactants and 5 products in 10-character sub-columns, numbers right-aligned in their columns, the type
    in the last two characters of its 3-character column – is decoded to exactly the named reactants and
    products, α β γ, the window, the type and the index. -/
theorem leeds_roundtrip (l : Line)
    (hre : l.re.length ≤ 3) (hpr : l.pr.length ≤ 5)
    (hreok : ∀ x ∈ l.re, NameOK 10 x) (hprok : ∀ x ∈ l.pr, NameOK 10 x)
    (hidx : FitsL 5 l.idx) (ha : FitsL 8 l.a) (hb : FitsL 9 l.b) (hc : FitsL 10 l.c)
    (hlt : FitsL 5 l.tmin) (hut : FitsL 5 l.tmax) (hcode : FitsL 2 l.code)
    (hsrc : l.source = "leeds".toList) :
    decodeLeeds (encodeLeeds l) = some l := by
  have lenR : (columns 10 (fillList l.re 3 [])).length = 30 := by
    rw [length_columns 10 _ (fun x hx => Nat.le_of_lt (fill_colOK 10 l.re 3 hreok (by omega) x hx).2),
      C18.length_fillList l.re 3 hre]
  have lenP : (columns 10 (fillList l.pr 5 [])).length = 50 := by
    rw [length_columns 10 _ (fun x hx => Nat.le_of_lt (fill_colOK 10 l.pr 5 hprok (by omega) x hx).2),
      C18.length_fillList l.pr 5 hpr]
  have hw : Tables.leedsWidths =
      [padRight 5 l.idx, columns 10 (fillList l.re 3 []), columns 10 (fillList l.pr 5 []), padLeft 8 l.a, padLeft 9 l.b,
       padLeft 10 l.c, padLeft 5 l.tmin, padLeft 5 l.tmax, padLeft 3 l.code].map List.length := by
    rw [leedsWidths_eq]
    simp only [List.map_cons, List.map_nil, lenR, lenP, length_padRight 5 _ hidx.2, length_padLeft 8 _ ha.2,
      length_padLeft 9 _ hb.2, length_padLeft 10 _ hc.2, length_padLeft 5 _ hlt.2, length_padLeft 5 _ hut.2,
      length_padLeft 3 _ (Nat.le_succ_of_le hcode.2)]
  unfold decodeLeeds encodeLeeds
  rw [hw, sliceWidths_flatten]
  have wre := words_columns 10 (fillList l.re 3 []) (fill_colOK 10 l.re 3 hreok (by omega)) []
  have wpr := words_columns 10 (fillList l.pr 5 []) (fill_colOK 10 l.pr 5 hprok (by omega)) []
  have hw0 : words [] = [] := rfl
  simp only [List.append_nil, hw0] at wre wpr
  -- the type column: 3 wide, at most 2 characters, so at least one pad blank is dropped
  have hty : strip ((padLeft 3 l.code).drop 1) = l.code := by
    have : (padLeft 3 l.code).drop 1 = padLeft 2 l.code := by
      unfold padLeft
      have h2 := hcode.2
      obtain ⟨k, hk⟩ : ∃ k, 3 - l.code.length = k + 1 := ⟨2 - l.code.length, by omega⟩
      have hk2 : 2 - l.code.length = k := by omega
      rw [hk, hk2, List.replicate_succ]; rfl
    rw [this, strip_padLeft 2 _ hcode.1]
  simp only [wre, wpr, hty, strip_padRight 5 _ hidx.1, strip_padLeft 8 _ ha.1, strip_padLeft 9 _ hb.1,
    strip_padLeft 10 _ hc.1, strip_padLeft 5 _ hlt.1, strip_padLeft 5 _ hut.1,
    C18.filter_fillList l.re 3 (fun x hx => (hreok x hx).2.1), C18.filter_fillList l.pr 5 (fun x hx => (hprok x hx).2.1)]
  cases l; simp_all

/-! ### UCLCHEM -/

/-- names that are not one of UCLCHEM's column keywords (`NAN`, `FREEZE`, `CRP`, …), non-empty, comma-free -/
def UclName (x : Str) : Prop := ',' ∉ x ∧ x ≠ [] ∧ x ∉ uclKeywords

theorem filter_ucl (xs : List Str) (n : Nat) (h : ∀ x ∈ xs, UclName x) :
    (fillList xs n "NAN".toList).filter (fun t => !(t ∈ uclKeywords) && !t.isEmpty) = xs := by
  unfold fillList
  rw [List.filter_append]
  have h1 : xs.filter (fun t => !(t ∈ uclKeywords) && !t.isEmpty) = xs := by
    apply List.filter_eq_self.mpr
    intro x hx
    obtain ⟨_, hne, hk⟩ := h x hx
    cases x with
    | nil => exact absurd rfl hne
    | cons a t => simp [hk]
  have h2 : (List.replicate (n - xs.length) "NAN".toList).filter (fun t => !(t ∈ uclKeywords) && !t.isEmpty) = [] := by
    apply List.filter_eq_nil_iff.mpr
    intro x hx
    rw [List.eq_of_mem_replicate hx]
    have : (['N', 'A', 'N'] : Str) ∈ uclKeywords := by decide
    simp [this]
  rw [h1, h2, List.append_nil]

theorem mem_fillNan (orig : List Str) (n : Nat) (x : Str) (h : x ∈ fillList orig n "NAN".toList) :
    x ∈ orig ∨ x = "NAN".toList := by
  unfold fillList at h
  rcases List.mem_append.mp h with h1 | h1
  · exact Or.inl h1
  · exact Or.inr (List.eq_of_mem_replicate h1)

theorem length_fillNan (orig : List Str) (n : Nat) (h : orig.length ≤ n) : (fillList orig n "NAN".toList).length = n := by
  simp [fillList]; omega

/-- **C07 (UCLCHEM, two-body rows).** A row without a type marker – 1 to 3 reactants, up to 4 products,
    `NAN` fillers – is decoded to exactly those reactants and products with type `MA`-free default `TWOBODY`
    semantics of the table (`code` is the table's default), α β γ and the window as written. -/
theorem uclchem_roundtrip_plain (l : Line)
    (hre : l.re.length ≤ 3) (hpr : l.pr.length ≤ 4)
    (hreok : ∀ x ∈ l.re, UclName x) (hprok : ∀ x ∈ l.pr, UclName x)
    (hf : ∀ f ∈ [l.a, l.b, l.c, l.tmin, l.tmax], ',' ∉ f)
    (hidx : l.idx = "-1".toList) (hcode : l.code = "MA".toList) (hsrc : l.source = "uclchem".toList) :
    decodeUclchem (encodeUclchem l none) = some l := by
  have lre := length_fillNan l.re 3 hre
  have lpr := length_fillNan l.pr 4 hpr
  have fre := filter_ucl l.re 3 hreok
  have fpr := filter_ucl l.pr 4 hprok
  have cre : ∀ x ∈ fillList l.re 3 "NAN".toList, ',' ∉ x := by
    intro x hx
    rcases mem_fillNan _ _ _ hx with h1 | h1
    · exact (hreok x h1).1
    · subst h1; decide
  have cpr : ∀ x ∈ fillList l.pr 4 "NAN".toList, ',' ∉ x := by
    intro x hx
    rcases mem_fillNan _ _ _ hx with h1 | h1
    · exact (hprok x h1).1
    · subst h1; decide
  -- the second column is a reactant or NAN, never a type marker
  have hr2 : ∀ x ∈ fillList l.re 3 "NAN".toList, x ∉ Tables.uclchemReactant2Type.map (·.1.toList) := by
    intro x hx
    rcases mem_fillNan _ _ _ hx with h1 | h1
    · intro hm
      exact (hreok x h1).2.2 (by unfold uclKeywords; exact List.mem_append_left _ hm)
    · subst h1; decide
  unfold decodeUclchem encodeUclchem
  simp only []
  generalize hR : fillList l.re 3 "NAN".toList = R at *
  generalize hP : fillList l.pr 4 "NAN".toList = P at *
  rcases R with _ | ⟨x1, _ | ⟨x2, _ | ⟨x3, _ | ⟨x4, rr⟩⟩⟩⟩ <;> simp at lre
  rcases P with _ | ⟨y1, _ | ⟨y2, _ | ⟨y3, _ | ⟨y4, _ | ⟨y5, pp⟩⟩⟩⟩⟩ <;> simp at lpr
  have hsplit := splitOnC_joinC ',' [x1, x2, x3, y1, y2, y3, y4, l.a, l.b, l.c, l.tmin, l.tmax] (by simp)
    (by
      intro f hfm
      simp only [List.mem_cons, List.mem_nil_iff, or_false] at hfm
      rcases hfm with rfl | rfl | rfl | rfl | rfl | rfl | rfl | rfl | rfl | rfl | rfl | rfl
      · exact cre _ (by simp)
      · exact cre _ (by simp)
      · exact cre _ (by simp)
      · exact cpr _ (by simp)
      · exact cpr _ (by simp)
      · exact cpr _ (by simp)
      · exact cpr _ (by simp)
      all_goals exact hf _ (by simp))
  simp only [List.cons_append, List.nil_append] at hsplit ⊢
  rw [hsplit]
  have h2 := hr2 x2 (by simp)
  simp only [h2, if_false]
  have hnf : ("MA".toList == "FREEZE".toList) = false := by decide
  simp only [hnf, Bool.false_eq_true, if_false, fre, fpr]
  cases l; simp_all

/-- **C07 (UCLCHEM, rows with a type marker in the second column).** `R, MARKER, [R3|NAN], products…` is
    decoded to the reactants without the marker, the marker as the type, and – for `FREEZE` rows, whose
    window columns are overwritten by the reader – the fixed window 0–30 K. -/
theorem uclchem_roundtrip_marker (l : Line) (m r1 : Str) (rest : List Str)
    (hm : m ∈ Tables.uclchemReactant2Type.map (·.1.toList)) (hmc : ',' ∉ m)
    (hl : l.re = r1 :: rest) (hrest : rest.length ≤ 1) (hpr : l.pr.length ≤ 4)
    (hreok : ∀ x ∈ l.re, UclName x) (hprok : ∀ x ∈ l.pr, UclName x)
    (hf : ∀ f ∈ [l.a, l.b, l.c, l.tmin, l.tmax], ',' ∉ f)
    (hidx : l.idx = "-1".toList) (hcode : l.code = m) (hsrc : l.source = "uclchem".toList)
    (hfr : m = "FREEZE".toList → l.tmin = "0".toList ∧ l.tmax = "30".toList) :
    decodeUclchem (encodeUclchem l (some m)) = some l := by
  have lpr := length_fillNan l.pr 4 hpr
  have fpr := filter_ucl l.pr 4 hprok
  have cpr : ∀ x ∈ fillList l.pr 4 "NAN".toList, ',' ∉ x := by
    intro x hx
    rcases mem_fillNan _ _ _ hx with h1 | h1
    · exact (hprok x h1).1
    · subst h1; decide
  have hmk : m ∈ uclKeywords := by unfold uclKeywords; exact List.mem_append_left _ hm
  have hr1 := hreok r1 (by simp [hl])
  unfold decodeUclchem encodeUclchem
  simp only [hl]
  generalize hP : fillList l.pr 4 "NAN".toList = P at *
  rcases P with _ | ⟨y1, _ | ⟨y2, _ | ⟨y3, _ | ⟨y4, _ | ⟨y5, pp⟩⟩⟩⟩⟩ <;> simp at lpr
  -- the third column: the second reactant or the filler
  obtain ⟨x3, hx3, hx3c, hx3f⟩ : ∃ x3, fillList (r1 :: m :: rest) 3 "NAN".toList = [r1, m, x3] ∧ ',' ∉ x3 ∧
      [r1, m, x3].filter (fun t => !(t ∈ uclKeywords) && !t.isEmpty) = r1 :: rest := by
    have hk1 : r1 ∉ uclKeywords := hr1.2.2
    have hne1 : r1.isEmpty = false := by
      cases hh : r1 with
      | nil => exact absurd hh hr1.2.1
      | cons a b => rfl
    rcases rest with _ | ⟨r2, _ | ⟨r3, rr⟩⟩
    · refine ⟨"NAN".toList, by simp [fillList], by decide, ?_⟩
      have : (['N', 'A', 'N'] : Str) ∈ uclKeywords := by decide
      simp [List.filter, hk1, hmk, hne1, this]
    · have hr2 := hreok r2 (by simp [hl])
      have hne2 : r2.isEmpty = false := by
        cases hh : r2 with
        | nil => exact absurd hh hr2.2.1
        | cons a b => rfl
      refine ⟨r2, by simp [fillList], hr2.1, ?_⟩
      simp [List.filter, hk1, hmk, hne1, hr2.2.2, hne2]
    · simp at hrest
  rw [hx3]
  have hsplit := splitOnC_joinC ',' [r1, m, x3, y1, y2, y3, y4, l.a, l.b, l.c, l.tmin, l.tmax] (by simp)
    (by
      intro f hfm
      simp only [List.mem_cons, List.mem_nil_iff, or_false] at hfm
      rcases hfm with rfl | rfl | rfl | rfl | rfl | rfl | rfl | rfl | rfl | rfl | rfl | rfl
      · exact hr1.1
      · exact hmc
      · exact hx3c
      · exact cpr _ (by simp)
      · exact cpr _ (by simp)
      · exact cpr _ (by simp)
      · exact cpr _ (by simp)
      all_goals exact hf _ (by simp))
  simp only [List.cons_append, List.nil_append] at hsplit ⊢
  rw [hsplit]
  simp only [hm, if_true, hx3f, fpr]
  by_cases hfz : m = "FREEZE".toList
  · obtain ⟨h1, h2⟩ := hfr hfz
    subst hfz
    cases l; simp_all
  · have : (m == "FREEZE".toList) = false := by simpa using hfz
    simp only [this, Bool.false_eq_true, if_false]
    cases l; simp_all

example : decodeUclchem (encodeUclchem ⟨"-1".toList, ["H2O".toList], ["#H2O".toList], "1.0".toList, "0.0".toList, "0.0".toList,
    "0".toList, "30".toList, "FREEZE".toList, "uclchem".toList⟩ (some "FREEZE".toList)) =
    some ⟨"-1".toList, ["H2O".toList], ["#H2O".toList], "1.0".toList, "0.0".toList, "0.0".toList,
    "0".toList, "30".toList, "FREEZE".toList, "uclchem".toList⟩ := by decide +kernel

end Naunet.C07
