/-
  C11 — grain-surface rate coefficients follow the selected dust model.
  The reference formulas (accretion, thermal / cosmic-ray desorption, UCLCHEM freeze-out) are written in
  physical form; they are transcribed from Hasegawa & Herbst (1993), Roberts et al. (2007) and UCLCHEM v1.3
  from memory (the papers are not available offline) – see DESIGN.md §4/C11 for what that limits.
-/
import NaunetModel.GrainExpr
import NaunetProps.C05

namespace Naunet.C11
open Naunet.CE Naunet.Rate Naunet.Grain Naunet.C05

/-- **C11 (valid C).** Every implemented (dust model, reaction type) pair emits – for every sign class of α,
    every kind of first / second reactant (neutral ice, tunnelling `GH`, ion, electron) – text that parses as
    a C expression (after `_beautify`: a negative activation barrier does not fuse into `--`). -/
theorem grain_parses : allGrainTextParse = true := by decide +kernel

/-- **C11 (dispatch).** Exactly these (model, type) pairs are implemented; every other request is refused
    with `NotImplementedError` instead of producing a rate.
    Columns: freeze, thermal, cosmic-ray, photon, reactive, H2-formation, recombination, e-capture, surface. -/
theorem dispatch_table :
    (allModels.map fun md => allTypes.map fun ty => implemented md ty) =
      [[true, false, false, false, false, false, false, false, false],   -- base class
       [true, true, true, true, true, false, true, true, true],          -- hh93
       [true, true, true, true, true, false, true, true, true],          -- hh93i
       [true, false, true, true, false, true, false, false, false],      -- rr07
       [true, true, true, true, false, true, false, false, false]] := by  -- rr07x
  decide +kernel

/-- the emitted texts of the central laws parse to the trees the law theorems are stated on -/
theorem law_trees_match : lawTreesMatch = true := by decide +kernel

noncomputable section

theorem numVal_8 : numVal ['8', '.', '0'] = 8 := by
  have : parseDec ['8', '.', '0'] = some (80, -1) := by decide
  simp only [numVal, this]; norm_num
theorem numVal_2 : numVal ['2', '.', '0'] = 2 := by
  have : parseDec ['2', '.', '0'] = some (20, -1) := by decide
  simp only [numVal, this]; norm_num
theorem numVal_457e4 : numVal ['4', '.', '5', '7', 'e', '4'] = 45700 := by
  have : parseDec ['4', '.', '5', '7', 'e', '4'] = some (457, 2) := by decide
  simp only [numVal, this]; norm_num
theorem numVal_1671em4 : numVal ['1', '6', '.', '7', '1', 'e', '-', '4'] = 16.71e-4 := by
  have : parseDec ['1', '6', '.', '7', '1', 'e', '-', '4'] = some (1671, -6) := by decide
  simp only [numVal, this]; norm_num
theorem numVal_1em30 : numVal ['1', 'e', '-', '3', '0'] = 1e-30 := by
  have : parseDec ['1', 'e', '-', '3', '0'] = some (1, -30) := by decide
  simp only [numVal, this]; norm_num
theorem numVal_0p0 : numVal ['0', '.', '0'] = 0 := by
  have : parseDec ['0', '.', '0'] = some (0, -1) := by decide
  simp only [numVal, this]; norm_num

abbrev v (ρ : Env) (s : String) : ℝ := ρ.var s.toList

theorem eval_cond (ρ : Env) (c a b : Expr) :
    evalE ρ (.cond c a b) = if evalE ρ c ≠ 0 then evalE ρ a else evalE ρ b := by
  rw [evalE]

/-- **C11 (accretion, Hasegawa & Herbst 1993).**
    `k = opt · α · π r_G² · n_g · sqrt(8 k_B T / (π m_u A))` – sticking coefficient α, geometric grain cross
    section, grain density, mean thermal speed of *this species* (its own mass number `A`). -/
theorem hh93_depletion_law (ρ : Env) (a : Lit) (s : SpecInfo) :
    evalE ρ (hh93DepletionTree a s) =
      v ρ "opt_frz" * litVal ρ a * v ρ "pi" * v ρ "rG" * v ρ "rG" * v ρ "gdens" *
        Real.sqrt (8 * v ρ "kerg" * v ρ "Tgas" / (v ρ "pi" * v ρ "amu" * ρ.mag s.massId)) := by
  simp [v, hh93DepletionTree, sqrtE, call1, M, evalE, evalArgs, applyFn, numVal_8]

/-- the characteristic frequency `ν₀ = sqrt(2 n_s k_B E_b / (π² m_u A))` of the species' own binding
    energy (`eb_<alias>`) and mass number -/
theorem nu0_law (ρ : Env) (s : SpecInfo) :
    evalE ρ (nu0Tree s) =
      Real.sqrt (2 * v ρ "sites" * v ρ "kerg" * ρ.var ("eb_".toList ++ s.alias) /
        (v ρ "pi" * v ρ "pi" * v ρ "amu" * ρ.mag s.massId)) := by
  simp [v, nu0Tree, sqrtE, call1, M, evalE, evalArgs, applyFn, numVal_2]

/-- **C11 (thermal desorption, HH93).** `k = opt · cov · N_mono · n_sites · ν₀ · exp(−E_b / T_dust)` -/
theorem hh93_thermal_law (ρ : Env) (td : String) (s : SpecInfo) :
    evalE ρ (hh93ThermalTree td s) =
      v ρ "opt_thd" * v ρ "cov" * v ρ "nMono" * v ρ "densites" * evalE ρ (nu0Tree s) *
        Real.exp (- ρ.var ("eb_".toList ++ s.alias) / v ρ td) := by
  simp [v, hh93ThermalTree, expE, call1, evalE, evalArgs, applyFn]

/-- **C11 (freeze-out, Roberts et al. 2007 / UCLCHEM).** neutrals: `4.57e4 α σ_g fr sqrt(T / A)`;
    ions additionally `(1 + 16.71e-4 / (r_G T))`; electrons the Coulomb factor without the thermal speed. -/
theorem rr07_depletion_law (ρ : Env) (a : Lit) (s : SpecInfo) :
    evalE ρ (rr07DepletionTree a s) =
      45700 * litVal ρ a * v ρ "gxsec" * v ρ "fr" *
        (if s.electron then 1 else Real.sqrt (v ρ "Tgas" / ρ.mag s.massId)) *
        (if s.electron || s.charged then (1 + 16.71e-4 / (v ρ "rG" * v ρ "Tgas")) else 1) := by
  unfold rr07DepletionTree
  by_cases he : s.electron = true <;> by_cases hc : s.charged = true <;>
    simp [v, he, hc, sqrtE, call1, M, evalE, evalArgs, applyFn, numVal_457e4, numVal_1671em4, numVal_1p0]

/-- **C11 (thermal desorption, rr07x).** active only while there is a mantle (`mantabund > 1e-30`), then
    `k = opt · ν₀ · 2 · n_sites · exp(−E_b / T_dust)`; otherwise exactly 0. -/
theorem rr07x_thermal_law (ρ : Env) (td : String) (s : SpecInfo) :
    evalE ρ (rr07xThermalTree td s) =
      if v ρ "mantabund" > 1e-30 then
        v ρ "opt_thd" * evalE ρ (nu0Tree s) * 2 * v ρ "densites" * Real.exp (- ρ.var ("eb_".toList ++ s.alias) / v ρ td)
      else 0 := by
  unfold rr07xThermalTree
  have hc : evalE ρ (.bin ['>'] (V "mantabund") (N "1e-30")) = b2r (v ρ "mantabund" > 1e-30) := by
    simp [evalE, v, numVal_1em30]
  have hbody : evalE ρ (mul (mul (mul (mul (V "opt_thd") (nu0Tree s)) (N "2.0")) (V "densites"))
      (expE (dvd (.neg (.var ("eb_".toList ++ s.alias))) (V td)))) =
      v ρ "opt_thd" * evalE ρ (nu0Tree s) * 2 * v ρ "densites" * Real.exp (- ρ.var ("eb_".toList ++ s.alias) / v ρ td) := by
    simp [v, expE, call1, evalE, evalArgs, applyFn, numVal_2]
  have hz : evalE ρ (N "0.0") = 0 := by simp [numVal_0p0]
  rw [eval_cond, hc, hbody, hz]
  by_cases h : v ρ "mantabund" > 1e-30
  · simp only [b2r, h, if_true]; simp
  · simp only [b2r, h, if_false]; simp

theorem numVal_4 : numVal ['4', '.', '0'] = 4 := by
  have : parseDec ['4', '.', '0'] = some (40, -1) := by decide
  simp only [numVal, this]; norm_num
theorem numVal_164em4 : numVal ['1', '.', '6', '4', 'e', '-', '4'] = 1.64e-4 := by
  have : parseDec ['1', '.', '6', '4', 'e', '-', '4'] = some (164, -6) := by decide
  simp only [numVal, this]; norm_num

/-- **C11 (the RR07 gates).** Every RR07 desorption process is switched by two conditions: there is a mantle, and the
    species' *own* binding energy does not exceed the ceiling *of that process* (`eb_h2d` for H2-formation desorption,
    `eb_crd` for cosmic-ray desorption, …); otherwise the coefficient is exactly 0. -/
theorem rr07_guard_law (ρ : Env) (ebmax : String) (s : SpecInfo) (rate : Expr) :
    evalE ρ (rr07GuardTree ebmax s rate) =
      if v ρ "mantabund" > 1e-30 ∧ v ρ ebmax ≥ ρ.mag s.ebId then evalE ρ rate else 0 := by
  unfold rr07GuardTree
  have hc1 : evalE ρ (.bin ['>'] (V "mantabund") (N "1e-30")) = b2r (v ρ "mantabund" > 1e-30) := by
    simp [evalE, v, numVal_1em30]
  have hc2 : evalE ρ (.bin ['>', '='] (V ebmax) (M s.ebId)) = b2r (v ρ ebmax ≥ ρ.mag s.ebId) := by
    simp [evalE, v, M]
  have hz : evalE ρ (N "0.0") = 0 := by simp [numVal_0p0]
  rw [eval_cond, eval_cond, hc1, hc2, hz]
  by_cases h1 : v ρ "mantabund" > 1e-30 <;> by_cases h2 : v ρ ebmax ≥ ρ.mag s.ebId <;> simp [b2r, h1, h2]

/-- **C11 (H2-formation desorption, RR07).** `k = opt · ε_H2 · R_H2 · n(H) / mantle`, gated by `eb_h2d`. -/
theorem rr07_h2_law (ρ : Env) (s : SpecInfo) :
    evalE ρ (rr07H2Tree s) =
      if v ρ "mantabund" > 1e-30 ∧ v ρ "eb_h2d" ≥ ρ.mag s.ebId then
        v ρ "opt_h2d" * v ρ "h2deseff" * v ρ "H2formation" * ρ.arr "y".toList "IDX_HI".toList / v ρ "mant"
      else 0 := by
  unfold rr07H2Tree
  rw [rr07_guard_law]
  have : evalE ρ rr07H2RateTree =
      v ρ "opt_h2d" * v ρ "h2deseff" * v ρ "H2formation" * ρ.arr "y".toList "IDX_HI".toList / v ρ "mant" := by
    have hidx : evalE ρ ((V "y").idx (V "IDX_HI")) = ρ.arr "y".toList "IDX_HI".toList := by
      unfold V; rw [evalE]
    simp [v, rr07H2RateTree, hidx]
  rw [this]

/-- **C11 (cosmic-ray desorption, RR07).** `k = opt · 4π · ε_cr · (ζ/ζ_ISM) · 1.64e-4 · σ_g / mantle`, gated by `eb_crd`. -/
theorem rr07_cosmicray_law (ρ : Env) (s : SpecInfo) :
    evalE ρ (rr07CosmicRayTree s) =
      if v ρ "mantabund" > 1e-30 ∧ v ρ "eb_crd" ≥ ρ.mag s.ebId then
        v ρ "opt_crd" * 4 * v ρ "pi" * v ρ "crdeseff" * (v ρ "zeta" / v ρ "zism") * 1.64e-4 * v ρ "gxsec" / v ρ "mant"
      else 0 := by
  unfold rr07CosmicRayTree
  rw [rr07_guard_law]
  have : evalE ρ rr07CosmicRayRateTree =
      v ρ "opt_crd" * 4 * v ρ "pi" * v ρ "crdeseff" * (v ρ "zeta" / v ρ "zism") * 1.64e-4 * v ρ "gxsec" / v ρ "mant" := by
    simp [v, rr07CosmicRayRateTree, evalE, numVal_4, numVal_164em4]
  rw [this]

theorem numVal_302 : numVal ['3', '.', '0', '2'] = 3.02 := by
  have : parseDec ['3', '.', '0', '2'] = some (302, -2) := by decide
  simp only [numVal, this]; norm_num

/-- **C11 (cosmic-ray desorption, HH93).** `k = opt · cov · f(duty) · N_mono · n_sites · (ζ/ζ_ISM) · ν₀ · exp(−E_b / T_cr)`:
    the thermal law evaluated at the peak temperature of a cosmic-ray heated grain, times the duty cycle. -/
theorem hh93_cosmicray_law (ρ : Env) (s : SpecInfo) :
    evalE ρ (hh93CosmicRayTree s) =
      v ρ "opt_crd" * v ρ "cov" * v ρ "duty" * v ρ "nMono" * v ρ "densites" * (v ρ "zeta" / v ρ "zism") *
        evalE ρ (nu0Tree s) * Real.exp (- ρ.var ("eb_".toList ++ s.alias) / v ρ "Tcr") := by
  simp [v, hh93CosmicRayTree, expE, call1, evalE, evalArgs, applyFn]

/-- **C11 (photodesorption, HH93).** `k = opt · cov · (G₀ F_H e^{−3.02 A_V} + F_crp ζ/ζ_ISM) · Y · N_mono · a_g`
    with the species' own yield `Y`. -/
theorem hh93_photon_law (ρ : Env) (s : SpecInfo) :
    evalE ρ (hh93PhotonTree s) =
      v ρ "opt_uvd" * v ρ "cov" *
        (v ρ "G0" * v ρ "habing" * Real.exp (- v ρ "Av" * 3.02) + v ρ "crphot" * (v ρ "zeta" / v ρ "zism")) *
        ρ.mag s.yieldId * v ρ "nMono" * v ρ "garea" := by
  simp [v, hh93PhotonTree, expE, call1, M, evalE, evalArgs, applyFn, numVal_302]

/-- **C11 (electron capture by grains, HH93).** `k = π r_G² · sqrt(8 k_B T / π / m_u / m_e[amu])` -/
theorem hh93_ecapture_law (ρ : Env) :
    evalE ρ hh93ECaptureTree =
      v ρ "pi" * v ρ "rG" * v ρ "rG" * Real.sqrt (8 * v ρ "kerg" * v ρ "Tgas" / v ρ "pi" / v ρ "amu" / v ρ "meu") := by
  simp [v, hh93ECaptureTree, sqrtE, call1, evalE, evalArgs, applyFn, numVal_8]


/-! ### the remaining laws -/

theorem law_trees_match2 : lawTreesMatch2 = true := by decide +kernel
theorem surface_trees_match : surfaceTreesMatch = true := by decide +kernel

theorem numVal_4875e3 : numVal ['4', '.', '8', '7', '5', 'e', '3'] = 4875 := by
  have : parseDec ['4', '.', '8', '7', '5', 'e', '3'] = some (4875, 0) := by decide
  simp only [numVal, this]; norm_num
theorem numVal_1p8 : numVal ['1', '.', '8'] = 1.8 := by
  have : parseDec ['1', '.', '8'] = some (18, -1) := by decide
  simp only [numVal, this]; norm_num

theorem base_depletion_law (ρ : Env) (a : Lit) (s : SpecInfo) :
    evalE ρ (baseDepletionTree a s) =
      litVal ρ a * v ρ "pi" * v ρ "rG" * v ρ "rG" * v ρ "gdens" *
        Real.sqrt (8 * v ρ "kerg" * v ρ "Tgas" / (v ρ "pi" * v ρ "amu" * ρ.mag s.massId)) := by
  simp [v, baseDepletionTree, sqrtE, call1, M, evalE, evalArgs, applyFn, numVal_8]

theorem rr07_photon_law (ρ : Env) (s : SpecInfo) :
    evalE ρ (rr07PhotonTree s) =
      if v ρ "mantabund" > 1e-30 ∧ v ρ "eb_uvd" ≥ ρ.mag s.ebId then
        v ρ "opt_uvd" * 4875 * v ρ "gxsec" *
          (v ρ "zeta" / v ρ "zism" + v ρ "G0" / v ρ "uvcreff" * Real.exp (-1.8 * v ρ "Av")) * ρ.mag s.yieldId / v ρ "mant"
      else 0 := by
  unfold rr07PhotonTree
  rw [rr07_guard_law]
  have : evalE ρ (rr07PhotonRateTree s) =
      v ρ "opt_uvd" * 4875 * v ρ "gxsec" *
          (v ρ "zeta" / v ρ "zism" + v ρ "G0" / v ρ "uvcreff" * Real.exp (-1.8 * v ρ "Av")) * ρ.mag s.yieldId / v ρ "mant" := by
    simp [v, rr07PhotonRateTree, expE, call1, M, evalE, evalArgs, applyFn, numVal_4875e3, numVal_1p8]
  rw [this]

theorem eval_e2 (ρ : Env) : evalE ρ e2 = v ρ "echarge" ^ (2 : ℝ) := by
  simp [v, e2, powE, call2, evalE, evalArgs, applyFn, numVal_2]

theorem hh93_recombine_law (ρ : Env) (a : Lit) (s : SpecInfo) :
    evalE ρ (hh93RecombineTree a s) =
      litVal ρ a * v ρ "pi" * v ρ "rG" * v ρ "rG" * v ρ "gdens" *
        Real.sqrt (8 * v ρ "kerg" * v ρ "Tgas" / (v ρ "pi" * v ρ "amu" * ρ.mag s.massId)) *
        (1 + v ρ "echarge" ^ (2 : ℝ) / v ρ "rG" / v ρ "kerg" / v ρ "Tgas") *
        (1 + Real.sqrt (2 * v ρ "echarge" ^ (2 : ℝ) / (v ρ "rG" * v ρ "kerg" * v ρ "Tgas" + 2 * v ρ "echarge" ^ (2 : ℝ)))) := by
  unfold hh93RecombineTree
  simp [v, sqrtE, call1, M, evalE, evalArgs, applyFn, numVal_8, numVal_2, numVal_1p0, eval_e2]

/-- hopping rate of one reactant, as a number -/
def hopRate (ρ : Env) (td : String) (s : SpecInfo) : ℝ :=
  v ρ "freq" * Real.sqrt (ρ.mag s.ebId / ρ.mag s.massId) * Real.exp (- ρ.mag s.ebId * v ρ "hop" / v ρ td) / v ρ "unisites"
/-- tunnelling rate of one reactant -/
def tunnelRate (ρ : Env) (s : SpecInfo) : ℝ :=
  v ρ "freq" * Real.sqrt (ρ.mag s.ebId / ρ.mag s.massId) *
    Real.exp (v ρ "quan" * Real.sqrt (v ρ "hop" * ρ.mag s.massId * ρ.mag s.ebId)) / v ρ "unisites"
def mobility (ρ : Env) (td : String) (s : SpecInfo) : ℝ :=
  if s.tunnel then max (hopRate ρ td s) (tunnelRate ρ s) else hopRate ρ td s
def barrier (ρ : Env) (td : String) (a : Lit) (s1 s2 : SpecInfo) : ℝ :=
  if s1.tunnel || s2.tunnel then
    max (Real.exp (- litVal ρ a / v ρ td))
      (Real.exp (v ρ "quan" * Real.sqrt (ρ.mag s1.massId * ρ.mag s2.massId / (ρ.mag s1.massId + ρ.mag s2.massId) * litVal ρ a)))
  else Real.exp (- litVal ρ a / v ρ td)

theorem eval_sdiff (ρ : Env) (td : String) (s : SpecInfo) : evalE ρ (sdiffTree td s) = hopRate ρ td s := by
  simp [v, hopRate, sdiffTree, sfreqTree, sqrtE, expE, call1, M, evalE, evalArgs, applyFn]
theorem eval_squan (ρ : Env) (s : SpecInfo) : evalE ρ (squanTree s) = tunnelRate ρ s := by
  simp [v, tunnelRate, squanTree, sfreqTree, sqrtE, expE, call1, M, evalE, evalArgs, applyFn]
theorem eval_mob (ρ : Env) (td : String) (s : SpecInfo) : evalE ρ (mobTree td s) = mobility ρ td s := by
  unfold mobTree mobility
  by_cases h : s.tunnel = true
  · simp [h, fmaxE, call2, evalE, evalArgs, applyFn, eval_sdiff, eval_squan]
  · simp [h, eval_sdiff]
theorem eval_kappa (ρ : Env) (td : String) (a : Lit) : evalE ρ (kappaTree td a) = Real.exp (- litVal ρ a / v ρ td) := by
  simp [v, kappaTree, expE, call1, evalE, evalArgs, applyFn]
theorem eval_kquan (ρ : Env) (a : Lit) (s1 s2 : SpecInfo) : evalE ρ (kquanTree a s1 s2) =
    Real.exp (v ρ "quan" * Real.sqrt (ρ.mag s1.massId * ρ.mag s2.massId / (ρ.mag s1.massId + ρ.mag s2.massId) * litVal ρ a)) := by
  simp [v, kquanTree, sqrtE, expE, call1, M, evalE, evalArgs, applyFn]
theorem eval_barrier (ρ : Env) (td : String) (a : Lit) (s1 s2 : SpecInfo) :
    evalE ρ (barrierTree td a s1 s2) = barrier ρ td a s1 s2 := by
  unfold barrierTree barrier
  by_cases h : (s1.tunnel || s2.tunnel) = true
  · simp only [h, if_true]; simp [fmaxE, call2, evalE, evalArgs, applyFn, eval_kappa, eval_kquan]
  · simp only [h]; simp [eval_kappa]
theorem eval_sites2 (ρ : Env) : evalE ρ sites2Tree = (v ρ "nMono" * v ρ "densites") ^ (2 : ℝ) := by
  simp [v, sites2Tree, powE, call2, evalE, evalArgs, applyFn, numVal_2]

/-- **C11 (two-body surface reaction, HH93).**
    `k = κ · (R₁ + R₂) · (N_mono n_sites)² / n_g · cov²`: each reactant scans the surface by thermal hopping
    (`ν exp(−E_b·hop/T_dust) / N_sites` with its *own* binding energy and mass number), the two mobilities add, the
    reaction succeeds with `exp(−E_a/T_dust)`; for `GH` and `GH2` hopping competes with tunnelling
    (`ν exp(quan·sqrt(hop·A·E_b)) / N_sites`, the faster wins) and the barrier can be tunnelled through with the
    reduced mass of the pair. -/
theorem hh93_surface_law (ρ : Env) (td : String) (a : Lit) (s1 s2 : SpecInfo) :
    evalE ρ (hh93SurfaceTree td a s1 s2) =
      barrier ρ td a s1 s2 * (mobility ρ td s1 + mobility ρ td s2) *
        (v ρ "nMono" * v ρ "densites") ^ (2 : ℝ) / v ρ "gdens" * v ρ "cov" * v ρ "cov" := by
  simp [v, hh93SurfaceTree, eval_barrier, eval_mob, eval_sites2]

/-- **C11 (reactive desorption, HH93).** the same encounter rate times the switch and the branching ratio -/
theorem hh93_reactive_law (ρ : Env) (td : String) (a : Lit) (s1 s2 : SpecInfo) :
    evalE ρ (hh93ReactiveTree td a s1 s2) =
      v ρ "opt_rcd" * v ρ "branch" * evalE ρ (hh93SurfaceTree td a s1 s2) := by
  rw [hh93_surface_law]
  simp [v, hh93ReactiveTree, eval_barrier, eval_mob, eval_sites2]
  ring

/-- without a light reactant the law contains no tunnelling term at all -/
theorem hh93_surface_no_tunnel (ρ : Env) (td : String) (a : Lit) (s1 s2 : SpecInfo)
    (h1 : s1.tunnel = false) (h2 : s2.tunnel = false) :
    evalE ρ (hh93SurfaceTree td a s1 s2) =
      Real.exp (- litVal ρ a / v ρ td) * (hopRate ρ td s1 + hopRate ρ td s2) *
        (v ρ "nMono" * v ρ "densites") ^ (2 : ℝ) / v ρ "gdens" * v ρ "cov" * v ρ "cov" := by
  rw [hh93_surface_law]; simp [barrier, mobility, h1, h2]

/-- the rate is symmetric in the two reactants -/
theorem hh93_surface_symm (ρ : Env) (td : String) (a : Lit) (s1 s2 : SpecInfo) :
    evalE ρ (hh93SurfaceTree td a s1 s2) = evalE ρ (hh93SurfaceTree td a s2 s1) := by
  rw [hh93_surface_law, hh93_surface_law]
  have hb : barrier ρ td a s1 s2 = barrier ρ td a s2 s1 := by
    unfold barrier
    rw [Bool.or_comm, mul_comm (ρ.mag s1.massId) (ρ.mag s2.massId), add_comm (ρ.mag s1.massId) (ρ.mag s2.massId)]
  rw [hb, add_comm (mobility ρ td s1)]


end
end Naunet.C11
