/-
  Physics helpers (C01 / C04 / C16): what `GetNumDens`, `GetMu` and `GetElementAbund` compute does not depend on the temperature
  slot that follows the species in a thermal network's vector; `mu * n` is the mass density; element totals are linear.
-/
import NaunetModel.Physics
import Mathlib.Tactic.Ring
import Mathlib.Tactic.FieldSimp

namespace Naunet.Physics

theorem sumR_append (a b : List Rat) : sumR (a ++ b) = sumR a + sumR b := by
  induction a with
  | nil => simp [sumR]
  | cons x xs ih => simp only [sumR, List.cons_append, List.foldr_cons] at *; rw [ih]; ring

/-- the particle density does not see what follows the species' slots (the temperature) -/
theorem numDens_ignores_tail (ys extra : List Rat) : numDens ys.length (ys ++ extra) = numDens ys.length ys := by
  simp [numDens]

theorem zipWith_ignores_tail {α : Type} (f : α → Rat → Rat) (sps : List α) (ys extra : List Rat) (h : ys.length = sps.length) :
    List.zipWith f sps (ys ++ extra) = List.zipWith f sps ys := by
  induction sps generalizing ys with
  | nil => simp
  | cons s ss ih =>
    cases ys with
    | nil => simp at h
    | cons v vs => simp only [List.cons_append, List.zipWith_cons_cons]; rw [ih vs (by simpa using h)]

theorem elementAbund_ignores_tail (sps : List Sp) (e : Nat) (ys extra : List Rat) (h : ys.length = sps.length) :
    elementAbund sps e (ys ++ extra) = elementAbund sps e ys := by
  unfold elementAbund; rw [zipWith_ignores_tail _ sps ys extra h]

theorem mu_ignores_tail (sps : List Sp) (ys extra : List Rat) (h : ys.length = sps.length) :
    mu sps (ys ++ extra) = mu sps ys := by
  unfold mu massDens
  rw [zipWith_ignores_tail _ sps ys extra h, ← h, numDens_ignores_tail]

/-- `mu * n = Σ A_i y_i` whenever there are particles at all -/
theorem mu_mul_numDens (sps : List Sp) (y : List Rat) (h : numDens sps.length y ≠ 0) :
    mu sps y * numDens sps.length y = massDens sps y := by
  unfold mu; field_simp

/-- element totals are additive in the abundance vector … -/
theorem elementAbund_add (sps : List Sp) (e : Nat) (y z : List Rat) (h : y.length = z.length) :
    elementAbund sps e (List.zipWith (· + ·) y z) = elementAbund sps e y + elementAbund sps e z := by
  unfold elementAbund
  induction sps generalizing y z with
  | nil => simp [sumR]
  | cons s ss ih =>
    cases y with
    | nil => cases z with
      | nil => simp [sumR]
      | cons _ _ => simp at h
    | cons a as => cases z with
      | nil => simp at h
      | cons b bs =>
        simp only [List.zipWith_cons_cons, sumR, List.foldr_cons] at *
        rw [ih as bs (by simpa using h)]; ring

/-- … and homogeneous -/
theorem elementAbund_smul (sps : List Sp) (e : Nat) (c : Rat) (y : List Rat) :
    elementAbund sps e (y.map (c * ·)) = c * elementAbund sps e y := by
  unfold elementAbund
  induction sps generalizing y with
  | nil => simp [sumR]
  | cons s ss ih =>
    cases y with
    | nil => simp [sumR]
    | cons a as => simp only [List.map_cons, List.zipWith_cons_cons, sumR, List.foldr_cons] at *; rw [ih as]; ring

example : numDens 2 [1, 2, 10000] = 3 ∧ mu [⟨1, [1]⟩, ⟨2, [2]⟩] [1, 2, 10000] = 5 / 3 ∧ elementAbund [⟨1, [1]⟩, ⟨2, [2]⟩] 0 [1, 2, 10000] = 5 := by
  decide +kernel
end Naunet.Physics
