/-
  C04 — balanced networks give element- and charge-conserving generated dynamics.
-/
import NaunetProps.C01

namespace Naunet.C04
open Naunet

variable {R : Type*} [CommRing R]

/-- a reaction is balanced for the weight `w` (number of atoms of one element per species, or the
    charge): reactant side and product side carry the same total weight -/
def Balanced (w : Nat → R) (r : Reac) : Prop := (r.re.map w).sum = (r.pr.map w).sum

def InRange (n : Nat) (r : Reac) : Prop := (∀ x ∈ r.re, x < n) ∧ (∀ x ∈ r.pr, x < n)

theorem weighted_massTerm (w : Nat → R) (n : Nat) (kv : Coef → R) (y : Nat → R) (rl : Nat) (r : Reac)
    (hb : Balanced w r) (hr : InRange n r) :
    (∑ i ∈ Finset.range n, w i * massTerm kv y i rl r) = 0 := by
  have h1 := sum_weight_count w n r.re hr.1
  have h2 := sum_weight_count w n r.pr hr.2
  have : ∀ i, w i * massTerm kv y i rl r =
      (w i * (r.pr.count i : R) - w i * (r.re.count i : R)) * (kv (.k rl) * (r.re.map y).prod) := by
    intro i; unfold massTerm; ring
  simp only [this, ← Finset.sum_mul, Finset.sum_sub_distrib, h1, h2]
  rw [hb]; ring

theorem weighted_massAction (w : Nat → R) (n : Nat) (kv : Coef → R) (y : Nat → R) (s : Nat)
    (rs : List Reac) (hb : ∀ r ∈ rs, Balanced w r) (hr : ∀ r ∈ rs, InRange n r) :
    (∑ i ∈ Finset.range n, w i * massAction kv y s rs i) = 0 := by
  induction rs generalizing s with
  | nil => simp [massAction]
  | cons r rs ih =>
    have e : ∀ i, massAction kv y s (r :: rs) i = massTerm kv y i s r + massAction kv y (s+1) rs i := by
      intro i; simp [massAction, List.zipIdx_cons]
    simp only [e, mul_add, Finset.sum_add_distrib]
    rw [weighted_massTerm w n kv y s r (hb r (by simp)) (hr r (by simp)),
      ih (s+1) (fun r' h => hb r' (by simp [h])) (fun r' h => hr r' (by simp [h]))]
    simp

/-- **C04.** If every reaction conserves the weight `w` (atoms of an element, or charge), the
    `w`-weighted sum of the *emitted* species derivatives vanishes identically – for every abundance
    vector and every value of the rate coefficients, in any commutative ring. -/
theorem conservation (inp : OdeInput) (hm : inp.mods = []) (w : Nat → R)
    (hb : ∀ r ∈ inp.reacs, Balanced w r) (hr : ∀ r ∈ inp.reacs, InRange inp.nspec r)
    (c : R) (kv : Coef → R) (y : Nat → R) :
    (∑ i ∈ Finset.range inp.nspec, w i * evalEmitted c kv y (fex inp i)) = 0 := by
  have : ∀ i ∈ Finset.range inp.nspec,
      w i * evalEmitted c kv y (fex inp i) = w i * massAction kv y 0 inp.reacs i := by
    intro i hi
    have hne : ¬ (inp.thermal = true ∧ i = inp.nspec) := by
      intro h; have := Finset.mem_range.mp hi; omega
    rw [C01.rhs_eq_massAction_nomod inp i hm hne]
  rw [Finset.sum_congr rfl this]
  exact weighted_massAction w inp.nspec kv y 0 inp.reacs hb hr

/-! ### non-vacuity: `H + CR → H+ + e-` (H=0, H+=1, e-=2) conserves H nuclei and charge -/
example : Balanced (fun i => if i = 2 then (0:ℤ) else 1) ⟨[0],[1,2]⟩ := by simp [Balanced]
example : Balanced (fun i => if i = 1 then (1:ℤ) else if i = 2 then -1 else 0) ⟨[0],[1,2]⟩ := by
  simp [Balanced]
example : InRange 3 ⟨[0],[1,2]⟩ := by constructor <;> simp

end Naunet.C04
