/-
  C15 — duplicate detection reports exactly the repeated reactions.
  Stated for any comparison `eq` that is an equivalence relation (the key-based modes `brief`,
  `minimal`, `short` always are; the default mode is one for typed reactions with consistent
  hashing – see F14 / F16 in DESIGN.md for where it is not).
-/
import NaunetModel.Network
import Mathlib.Data.List.Basic
import Mathlib.Data.List.Pairwise

namespace Naunet.C15
open Naunet.Net

variable {α : Type}

structure IsEquiv (eq : α → α → Bool) : Prop where
  refl  : ∀ a, eq a a = true
  symm  : ∀ a b, eq a b = true → eq b a = true
  trans : ∀ a b c, eq a b = true → eq b c = true → eq a c = true

/-- `reps` represents `seenl`: every seen element is equivalent to a representative, and
    representatives are seen elements -/
def Covers (eq : α → α → Bool) (reps seenl : List α) : Prop :=
  (∀ p ∈ seenl, ∃ r ∈ reps, eq r p = true) ∧ (∀ r ∈ reps, r ∈ seenl)

theorem any_reps_iff (eq : α → α → Bool) (he : IsEquiv eq) (reps seenl : List α)
    (hc : Covers eq reps seenl) (x : α) :
    reps.any (fun r => eq r x) = true ↔ ∃ p ∈ seenl, eq p x = true := by
  simp only [List.any_eq_true]
  constructor
  · rintro ⟨r, hr, h⟩; exact ⟨r, hc.2 r hr, h⟩
  · rintro ⟨p, hp, h⟩
    obtain ⟨r, hr, hrp⟩ := hc.1 p hp
    exact ⟨r, hr, he.trans r p x hrp h⟩

theorem covers_step (eq : α → α → Bool) (he : IsEquiv eq) (reps seenl : List α)
    (hc : Covers eq reps seenl) (x : α) :
    Covers eq (if reps.any (fun r => eq r x) then reps else reps ++ [x]) (seenl ++ [x]) := by
  by_cases h : reps.any (fun r => eq r x) = true
  · simp only [h, if_true]
    refine ⟨?_, fun r hr => List.mem_append_left _ (hc.2 r hr)⟩
    intro p hp
    rcases List.mem_append.mp hp with h1 | h1
    · exact hc.1 p h1
    · simp at h1; subst h1
      obtain ⟨r, hr, hrx⟩ := List.any_eq_true.mp h
      exact ⟨r, hr, hrx⟩
  · simp only [h]
    refine ⟨?_, ?_⟩
    · intro p hp
      rcases List.mem_append.mp hp with h1 | h1
      · obtain ⟨r, hr, hrp⟩ := hc.1 p h1
        exact ⟨r, List.mem_append_left _ hr, hrp⟩
      · simp at h1; subst h1
        exact ⟨p, by simp, he.refl p⟩
    · intro r hr
      rcases List.mem_append.mp hr with h1 | h1
      · exact List.mem_append_left _ (hc.2 r h1)
      · exact List.mem_append_right _ h1

/-- **C15 (report).** Index `i + k` is reported iff the element at position `k` of the remaining
    list is equivalent to an earlier element (already seen, or earlier in the remaining list). -/
theorem dupIdx_iff (eq : α → α → Bool) (he : IsEquiv eq) (reps seenl : List α)
    (hc : Covers eq reps seenl) (i : Nat) (xs : List α) (m : Nat) :
    m ∈ dupIdx eq reps i xs ↔
      ∃ k a, xs[k]? = some a ∧ m = i + k ∧
        ((∃ p ∈ seenl, eq p a = true) ∨ ∃ j b, j < k ∧ xs[j]? = some b ∧ eq b a = true) := by
  induction xs generalizing reps seenl i with
  | nil => simp [dupIdx]
  | cons x xs ih =>
    have hstep := covers_step eq he reps seenl hc x
    have hany := any_reps_iff eq he reps seenl hc x
    have earlier : ∀ (k : Nat) (a : α),
        ((∃ p ∈ seenl ++ [x], eq p a = true) ∨ ∃ j b, j < k ∧ xs[j]? = some b ∧ eq b a = true) ↔
        ((∃ p ∈ seenl, eq p a = true) ∨ ∃ j b, j < k + 1 ∧ (x :: xs)[j]? = some b ∧ eq b a = true) := by
      intro k a
      simp only [List.mem_append, List.mem_singleton]
      constructor
      · rintro (⟨p, hp | rfl, h⟩ | ⟨j, b, hj, hb, h⟩)
        · exact Or.inl ⟨p, hp, h⟩
        · exact Or.inr ⟨0, p, by omega, by simp, h⟩
        · exact Or.inr ⟨j+1, b, by omega, by simpa using hb, h⟩
      · rintro (⟨p, hp, h⟩ | ⟨j, b, hj, hb, h⟩)
        · exact Or.inl ⟨p, Or.inl hp, h⟩
        · cases j with
          | zero =>
            simp at hb; subst hb
            exact Or.inl ⟨x, Or.inr rfl, h⟩
          | succ j => exact Or.inr ⟨j, b, by omega, by simpa using hb, h⟩
    by_cases h : reps.any (fun r => eq r x) = true
    · have hd : dupIdx eq reps i (x :: xs) = i :: dupIdx eq reps (i+1) xs := by simp [dupIdx, h]
      rw [hd, List.mem_cons]
      simp only [h, if_true] at hstep
      rw [ih reps (seenl ++ [x]) hstep (i+1)]
      constructor
      · rintro (rfl | ⟨k, a, hk, rfl, hh⟩)
        · exact ⟨0, x, by simp, rfl, Or.inl (hany.mp h)⟩
        · exact ⟨k+1, a, by simpa using hk, by omega, (earlier k a).mp hh⟩
      · rintro ⟨k, a, hk, rfl, hh⟩
        cases k with
        | zero => exact Or.inl rfl
        | succ k =>
          exact Or.inr ⟨k, a, by simpa using hk, by omega, (earlier k a).mpr hh⟩
    · have hd : dupIdx eq reps i (x :: xs) = dupIdx eq (reps ++ [x]) (i+1) xs := by simp [dupIdx, h]
      rw [hd]
      simp only [h] at hstep
      rw [ih (reps ++ [x]) (seenl ++ [x]) hstep (i+1)]
      constructor
      · rintro ⟨k, a, hk, rfl, hh⟩
        exact ⟨k+1, a, by simpa using hk, by omega, (earlier k a).mp hh⟩
      · rintro ⟨k, a, hk, rfl, hh⟩
        cases k with
        | zero =>
          exfalso
          simp at hk; subst hk
          rcases hh with hh | ⟨j, b, hj, _, _⟩
          · exact h (hany.mpr hh)
          · omega
        | succ k =>
          exact ⟨k, a, by simpa using hk, by omega, (earlier k a).mpr hh⟩

/-- **C15.** For every reaction list and every comparison mode that is an equivalence: an index is
    reported as duplicate iff an *earlier* reaction is equivalent to it. -/
theorem dup_iff_earlier_equal (eq : α → α → Bool) (he : IsEquiv eq) (xs : List α) (m : Nat) :
    m ∈ dupIdx eq [] 0 xs ↔
      ∃ a, xs[m]? = some a ∧ ∃ j b, j < m ∧ xs[j]? = some b ∧ eq b a = true := by
  rw [dupIdx_iff eq he [] [] ⟨by simp, by simp⟩ 0 xs m]
  constructor
  · rintro ⟨k, a, hk, hm, hh⟩
    have : m = k := by omega
    subst this
    rcases hh with ⟨p, hp, _⟩ | hh
    · simp at hp
    · exact ⟨a, hk, hh⟩
  · rintro ⟨a, hk, hh⟩
    exact ⟨m, a, hk, by omega, Or.inr hh⟩

/-- the reported indices are strictly increasing ("in order") -/
theorem dupIdx_sorted (eq : α → α → Bool) (reps : List α) (i : Nat) (xs : List α) :
    (dupIdx eq reps i xs).Pairwise (· < ·) ∧ ∀ m ∈ dupIdx eq reps i xs, i ≤ m := by
  induction xs generalizing reps i with
  | nil => simp [dupIdx]
  | cons x xs ih =>
    simp only [dupIdx]
    split
    · obtain ⟨h1, h2⟩ := ih reps (i+1)
      refine ⟨List.pairwise_cons.mpr ⟨fun m hm => by have := h2 m hm; omega, h1⟩, ?_⟩
      intro m hm
      rcases List.mem_cons.mp hm with rfl | hm
      · exact Nat.le_refl _
      · have := h2 m hm; omega
    · obtain ⟨h1, h2⟩ := ih (reps ++ [x]) (i+1)
      exact ⟨h1, fun m hm => by have := h2 m hm; omega⟩

/-- **C15 (removal).** After removing the reported reactions no two remaining reactions are
    equivalent, and every original reaction is equivalent to a remaining one: one representative of
    every class. -/
theorem dedup_spec (eq : α → α → Bool) (he : IsEquiv eq) (reps seenl : List α)
    (hc : Covers eq reps seenl) (xs : List α) :
    (dedup eq reps xs).Pairwise (fun a b => eq a b = false) ∧
    (∀ a ∈ dedup eq reps xs, ∀ p ∈ seenl, eq p a = false) ∧
    (∀ a ∈ dedup eq reps xs, a ∈ xs) ∧
    (∀ x ∈ xs, (∃ p ∈ seenl, eq p x = true) ∨ ∃ a ∈ dedup eq reps xs, eq a x = true) := by
  induction xs generalizing reps seenl with
  | nil => simp [dedup]
  | cons x xs ih =>
    have hstep := covers_step eq he reps seenl hc x
    have hany := any_reps_iff eq he reps seenl hc x
    by_cases h : reps.any (fun r => eq r x) = true
    · simp only [dedup, h, if_true]
      simp only [h, if_true] at hstep
      obtain ⟨i1, i2, i3, i4⟩ := ih reps (seenl ++ [x]) hstep
      refine ⟨i1, ?_, fun a ha => List.mem_cons_of_mem _ (i3 a ha), ?_⟩
      · intro a ha p hp; exact i2 a ha p (List.mem_append_left _ hp)
      · intro y hy
        rcases List.mem_cons.mp hy with rfl | hy
        · exact Or.inl (hany.mp h)
        · rcases i4 y hy with ⟨p, hp, hpy⟩ | hr
          · rcases List.mem_append.mp hp with h1 | h1
            · exact Or.inl ⟨p, h1, hpy⟩
            · simp at h1; subst h1
              obtain ⟨q, hq, hqx⟩ := hany.mp h
              exact Or.inl ⟨q, hq, he.trans q p y hqx hpy⟩
          · exact Or.inr hr
    · simp only [dedup, h]
      simp only [h] at hstep
      obtain ⟨i1, i2, i3, i4⟩ := ih (reps ++ [x]) (seenl ++ [x]) hstep
      have hnot : ∀ p ∈ seenl, eq p x = false := by
        intro p hp
        by_contra hcon
        exact h (hany.mpr ⟨p, hp, by simpa using hcon⟩)
      refine ⟨List.pairwise_cons.mpr ⟨?_, i1⟩, ?_, ?_, ?_⟩
      · intro a ha; exact i2 a ha x (by simp)
      · intro a ha p hp
        rcases List.mem_cons.mp ha with rfl | ha
        · exact hnot p hp
        · exact i2 a ha p (List.mem_append_left _ hp)
      · intro a ha
        rcases List.mem_cons.mp ha with rfl | ha
        · simp
        · exact List.mem_cons_of_mem _ (i3 a ha)
      · intro y hy
        rcases List.mem_cons.mp hy with rfl | hy
        · exact Or.inr ⟨y, by simp, he.refl y⟩
        · rcases i4 y hy with ⟨p, hp, hpy⟩ | ⟨a, ha, hay⟩
          · rcases List.mem_append.mp hp with h1 | h1
            · exact Or.inl ⟨p, h1, hpy⟩
            · simp at h1; subst h1; exact Or.inr ⟨p, by simp, hpy⟩
          · exact Or.inr ⟨a, List.mem_cons_of_mem _ ha, hay⟩

theorem remove_dups_one_representative (eq : α → α → Bool) (he : IsEquiv eq) (xs : List α) :
    (dedup eq [] xs).Pairwise (fun a b => eq a b = false) ∧
    (∀ x ∈ xs, ∃ a ∈ dedup eq [] xs, eq a x = true) ∧ (∀ a ∈ dedup eq [] xs, a ∈ xs) := by
  obtain ⟨h1, _, h3, h4⟩ := dedup_spec eq he [] [] ⟨by simp, by simp⟩ xs
  refine ⟨h1, ?_, h3⟩
  intro x hx
  rcases h4 x hx with ⟨p, hp, _⟩ | h
  · simp at hp
  · exact h

/-- key-based modes (`brief`, `minimal`, `short`: comparison of formatted strings) are equivalences -/
theorem key_isEquiv {κ : Type} [DecidableEq κ] (key : α → κ) : IsEquiv (fun a b => decide (key a = key b)) :=
  ⟨by simp, by intro a b h; simp at h ⊢; exact h.symm, by intro a b c h1 h2; simp at h1 h2 ⊢; exact h1.trans h2⟩

/-- marking the first matching representative does not change the representatives -/
theorem mark_map_fst (eq : α → α → Bool) (x : α) (reps : List (α × Bool)) (acc : List (α × Bool)) (b : Bool) :
    ((reps.foldl (fun (acc : List (α × Bool) × Bool) r =>
          if !acc.2 && eq r.1 x then (acc.1 ++ [(r.1, true)], true) else (acc.1 ++ [r], acc.2)) (acc, b)).1).map (·.1)
      = acc.map (·.1) ++ reps.map (·.1) := by
  induction reps generalizing acc b with
  | nil => simp
  | cons r reps ih =>
    simp only [List.foldl_cons]
    split
    · rw [ih]; simp
    · rw [ih]; simp

/-- the dictionary-with-index-lists algorithm of `find_duplicate_reaction` reports the same indices
    as the plain accumulator the theorems above are about -/
theorem dupGo_fst (eq : α → α → Bool) (reps : List (α × Bool)) (i : Nat) (xs : List α) :
    (dupGo eq reps i xs).1 = dupIdx eq (reps.map (·.1)) i xs := by
  induction xs generalizing reps i with
  | nil => simp [dupGo, dupIdx]
  | cons x xs ih =>
    have hany : (reps.map (·.1)).any (fun r => eq r x) = reps.any (fun r => eq r.1 x) := by
      simp [List.any_map, Function.comp_def]
    by_cases h : reps.any (fun r => eq r.1 x) = true
    · simp only [dupGo, dupIdx, hany, h, if_true]
      rw [ih]
      have := mark_map_fst eq x reps [] false
      simp only [List.map_nil, List.nil_append] at this
      rw [this]
    · simp only [dupGo, dupIdx, hany, h]
      have := ih (reps ++ [(x, false)]) (i+1)
      simp only [List.map_append, List.map_cons, List.map_nil] at this
      exact this

theorem findDup_fst (eq : α → α → Bool) (xs : List α) : (findDup eq xs).1 = dupIdx eq [] 0 xs := by
  simp [findDup, dupGo_fst]

/-! ### the default mode is *not* an equivalence when untyped (`UNKNOWN`) reactions are mixed in:
    `X ~ UNKNOWN ~ Y` but `X ≁ Y` (finding F14) -/
inductive Ty | x | y | unknown deriving DecidableEq
def tyEq (a b : Ty) : Bool := a == b || a == .unknown || b == .unknown
theorem F14_witness : dupIdx tyEq [] 0 [Ty.x, Ty.unknown, Ty.y] = [1] ∧ tyEq Ty.unknown Ty.y = true := by decide

/-! ### non-vacuity -/
example : dupIdx (fun a b : Nat => decide (a % 3 = b % 3)) [] 0 [1, 2, 4, 5, 7, 3] = [2, 3, 4] := by decide
example : dedup (fun a b : Nat => decide (a % 3 = b % 3)) [] [1, 2, 4, 5, 7, 3] = [1, 2, 3] := by decide
example : (findDup (fun a b : Nat => decide (a % 3 = b % 3)) [1, 2, 4, 5, 7, 3]) = ([2, 3, 4], [1, 2]) := by decide

end Naunet.C15
