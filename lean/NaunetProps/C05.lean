/-
  C05 — gas-phase rate coefficients follow each database's published rate law, and the emitted text
  is always valid C.
-/
import NaunetModel.RateExpr
import NaunetModel.Generated.Tables
import NaunetProps.Lemmas.CEval

namespace Naunet.C05
open Naunet.CE Naunet.Rate

/-- **C05 (valid C, expected structure).** For every (format, code) that produces a gas-phase rate,
    every sign class of α, β, γ (positive, negative, `0.0`, `-0.0`; magnitudes arbitrary) and every
    shielding case, the emitted text – after `_beautify` – lexes with C's maximal munch and parses,
    with no `--` / `++` token, to exactly the tree `expected` describes.  Exhaustive kernel
    evaluation over 32 templates × 64 sign classes × 7 first reactants. -/
theorem parse_eq_expected : allMatch = true := by decide +kernel

/-- unfolding of the exhaustive check for one case -/
theorem parse_case (fc : Fmt × Nat) (a b c : Lit) (r : Re1) (hfc : fc ∈ gasCodes)
    (ha : a ∈ litClasses 0) (hb : b ∈ litClasses 1) (hc : c ∈ litClasses 2) (hr : r ∈ shieldCases) :
    ∃ txt, gasRate fc.1 fc.2 a b c r = .ok txt ∧ parseC txt = expected fc.1 fc.2 a b c r ∧
      (parseC txt).isSome = true := by
  have h := parse_eq_expected
  simp only [allMatch, List.all_eq_true] at h
  have h1 := h fc hfc a ha b hb c hc r hr
  cases hg : gasRate fc.1 fc.2 a b c r with
  | error e => rw [hg] at h1; simp at h1
  | ok txt =>
    rw [hg] at h1
    have he : parseC txt = expected fc.1 fc.2 a b c r := by simpa using h1
    refine ⟨txt, rfl, he, ?_⟩
    rw [he]
    have := hfc
    simp only [gasCodes, List.mem_cons, List.mem_nil_iff, or_false] at this
    rcases this with h | h | h | h | h | h | h | h | h | h | h | h | h | h | h | h | h | h | h | h | h | h | h | h | h | h | h | h | h | h | h | h <;>
      (subst h; simp only [expected]; (try split) <;> rfl)

/-- **F2 witness.** Without `_beautify` a negative γ fuses into the `--` token: not an expression.
    (The pinned tree omitted `_beautify` in the base `Reaction.rateexpr`; repaired by a `fix:` commit.) -/
theorem F2_witness :
    (rawRate .native 100 ⟨false, false, 0⟩ ⟨false, false, 1⟩ ⟨true, false, 2⟩ ⟨[], []⟩).toOption.bind parseC = none := by
  decide +kernel

/-- **C05 (code tables).** The code → reaction-type tables extracted from the *current* sources are the
    published classifications: KIDA formulae 1-6 (cosmic-ray, photo, Kooij, ionpol1, ionpol2, three-body);
    UMIST RATE12 two-letter codes (CP = direct cosmic-ray proton, CR = cosmic-ray induced photon, PH = photo-process,
    all others two-body Kooij); Leeds (Walsh et al.) types 1-5; UCLCHEM pseudo-reactants. -/
theorem type_tables :
    Tables.kidaFormula2Type = [(1, 101), (2, 102), (3, 100), (4, 110), (5, 111), (6, 103)] ∧
    Tables.umistCode2Type = [("AD", 100), ("CD", 100), ("CE", 100), ("CP", 101), ("CR", 120), ("DR", 100), ("IN", 100),
      ("MN", 100), ("NN", 100), ("PH", 102), ("RA", 100), ("REA", 100), ("RR", 100)] ∧
    Tables.leedsRtype2Type.take 5 = [(1, 100), (2, 101), (3, 120), (4, 102), (5, 130)] ∧
    Tables.uclchemReactant2Type.take 3 = [("CRP", 101), ("PHOTON", 102), ("CRPHOT", 120)] ∧
    (("GAS_TWOBODY", 100) ∈ Tables.reactionTypes ∧ ("GAS_COSMICRAY", 101) ∈ Tables.reactionTypes ∧
     ("GAS_PHOTON", 102) ∈ Tables.reactionTypes ∧ ("GAS_KIDA_IP1", 110) ∈ Tables.reactionTypes ∧
     ("GAS_KIDA_IP2", 111) ∈ Tables.reactionTypes ∧ ("GAS_UMIST_CRPHOT", 120) ∈ Tables.reactionTypes) := by
  decide

/-! ### the laws over ℝ -/
noncomputable section

/-- value of a parameter: sign class applied to the magnitude -/
def litVal (ρ : Env) (l : Lit) : ℝ := if l.neg then - ρ.mag l.id else ρ.mag l.id

/-- the sign class describes the value: `zero` ↔ the value is 0 -/
def LitSound (ρ : Env) (l : Lit) : Prop := (l.zero = true ↔ ρ.mag l.id = 0)

@[simp] theorem eval_tree (ρ : Env) (l : Lit) : evalE ρ l.tree = litVal ρ l := by
  unfold Lit.tree litVal; split <;> simp [evalE]

@[simp] theorem eval_negTree (ρ : Env) (l : Lit) : evalE ρ l.negTree = - litVal ρ l := by
  unfold Lit.negTree litVal; split <;> simp [evalE]

@[simp] theorem numVal_300 : numVal ['3', '0', '0', '.', '0'] = 300 := by
  have : parseDec ['3', '0', '0', '.', '0'] = some (3000, -1) := by decide
  simp only [numVal, this]; norm_num
@[simp] theorem numVal_062 : numVal ['0', '.', '6', '2'] = 0.62 := by
  have : parseDec ['0', '.', '6', '2'] = some (62, -2) := by decide
  simp only [numVal, this]; norm_num
@[simp] theorem numVal_04767 : numVal ['0', '.', '4', '7', '6', '7'] = 0.4767 := by
  have : parseDec ['0', '.', '4', '7', '6', '7'] = some (4767, -4) := by decide
  simp only [numVal, this]; norm_num
@[simp] theorem numVal_1 : numVal ['1'] = 1 := by
  have : parseDec ['1'] = some (1, 0) := by decide
  simp only [numVal, this]; norm_num
@[simp] theorem numVal_1p0 : numVal ['1', '.', '0'] = 1 := by
  have : parseDec ['1', '.', '0'] = some (10, -1) := by decide
  simp only [numVal, this]; norm_num
@[simp] theorem numVal_00967 : numVal ['0', '.', '0', '9', '6', '7'] = 0.0967 := by
  have : parseDec ['0', '.', '0', '9', '6', '7'] = some (967, -4) := by decide
  simp only [numVal, this]; norm_num
@[simp] theorem numVal_10526 : numVal ['1', '0', '.', '5', '2', '6'] = 10.526 := by
  have : parseDec ['1', '0', '.', '5', '2', '6'] = some (10526, -3) := by decide
  simp only [numVal, this]; norm_num
@[simp] theorem numVal_1p7 : numVal ['1', '.', '7'] = 1.7 := by
  have : parseDec ['1', '.', '7'] = some (17, -1) := by decide
  simp only [numVal, this]; norm_num

@[simp] theorem eval_V (ρ : Env) (s : String) : evalE ρ (V s) = ρ.var s.toList := by simp [V, evalE]
@[simp] theorem eval_mul (ρ : Env) (a b : Expr) : evalE ρ (mul a b) = evalE ρ a * evalE ρ b := by simp [mul, evalE]
@[simp] theorem eval_dvd (ρ : Env) (a b : Expr) : evalE ρ (dvd a b) = evalE ρ a / evalE ρ b := by simp [dvd, evalE]
@[simp] theorem eval_add (ρ : Env) (a b : Expr) : evalE ρ (add a b) = evalE ρ a + evalE ρ b := by simp [add, evalE]
@[simp] theorem eval_sub (ρ : Env) (a b : Expr) : evalE ρ (sub a b) = evalE ρ a - evalE ρ b := by simp [sub, evalE]
@[simp] theorem eval_N (ρ : Env) (s : String) : evalE ρ (N s) = numVal s.toList := by simp [N, evalE]

theorem eval_powT (ρ : Env) (b : Lit) :
    evalE ρ (powT b) = (ρ.var "Tgas".toList / 300) ^ (litVal ρ b) := by
  simp [powT, call2, evalE, evalArgs, applyFn, numVal_300]

theorem eval_expOverT (ρ : Env) (c : Lit) :
    evalE ρ (expOverT c) = Real.exp (- litVal ρ c / ρ.var "Tgas".toList) := by
  simp [expOverT, call1, evalE, evalArgs, applyFn]

theorem eval_expAv (ρ : Env) (c : Lit) :
    evalE ρ (expAv c) = Real.exp (- litVal ρ c * ρ.var "Av".toList) := by
  simp [expAv, call1, evalE, evalArgs, applyFn]

theorem eval_sqrt300 (ρ : Env) : evalE ρ sqrt300 = Real.sqrt (300 / ρ.var "Tgas".toList) := by
  simp [sqrt300, call1, evalE, evalArgs, applyFn, numVal_300]

theorem litVal_zero (ρ : Env) (l : Lit) (h : LitSound ρ l) (hz : l.zero = true) : litVal ρ l = 0 := by
  have := h.mp hz
  unfold litVal; split <;> simp [this]

/-- **C05 (Kooij / modified Arrhenius: KIDA 3, UMIST two-body, Leeds 1, UCLCHEM MA, native 100).**
    For all α, β, γ (any sign, zero included) and all temperatures `T ≠ 0`:
    `k = α (T/300)^β exp(−γ/T)`.  A zero β or γ drops its factor from the text – with value 1. -/
theorem arrhenius_law (ρ : Env) (a b c : Lit) (hb : LitSound ρ b) (hc : LitSound ρ c) :
    evalE ρ (arrheniusTree a b c) =
      litVal ρ a * (ρ.var "Tgas".toList / 300) ^ (litVal ρ b) * Real.exp (- litVal ρ c / ρ.var "Tgas".toList) := by
  unfold arrheniusTree
  by_cases hbz : b.zero = true <;> by_cases hcz : c.zero = true
  · simp [hbz, hcz, prodOf, litVal_zero ρ b hb hbz, litVal_zero ρ c hc hcz]
  · simp [hbz, hcz, prodOf, litVal_zero ρ b hb hbz, eval_expOverT]
  · simp [hbz, hcz, prodOf, litVal_zero ρ c hc hcz, eval_powT]
  · simp [hbz, hcz, prodOf, eval_powT, eval_expOverT]

/-- **C05 (KIDA 1 / native cosmic-ray): `k = α ζ`** -/
theorem cosmicray_law (ρ : Env) (a b c : Lit) (r : Re1) :
    (expected .kida 1 a b c r).map (evalE ρ) = some (litVal ρ a * ρ.var "zeta".toList) ∧
    (expected .native 101 a b c r).map (evalE ρ) = some (litVal ρ a * ρ.var "zeta".toList) := by
  simp [expected]

/-- **C05 (photo-process: KIDA 2, UMIST PH, native 102): `k = α exp(−γ A_v)`** -/
theorem photo_law (ρ : Env) (a b c : Lit) (r : Re1) (hc : LitSound ρ c) :
    (expected .kida 2 a b c r).map (evalE ρ) = some (litVal ρ a * Real.exp (- litVal ρ c * ρ.var "Av".toList)) ∧
    (expected .umist 102 a b c r).map (evalE ρ) = some (litVal ρ a * Real.exp (- litVal ρ c * ρ.var "Av".toList)) ∧
    (expected .native 102 a b c r).map (evalE ρ) = some (litVal ρ a * Real.exp (- litVal ρ c * ρ.var "Av".toList)) := by
  refine ⟨?_, ?_, ?_⟩
  · by_cases hcz : c.zero = true
    · simp [expected, hcz, prodOf, litVal_zero ρ c hc hcz]
    · simp [expected, hcz, prodOf, eval_expAv]
  · simp [expected, eval_expAv]
  · simp [expected, eval_expAv]

/-- **C05 (KIDA ionpol1 / native 110): `k = α β (0.62 + 0.4767 γ (300/T)^½)`** -/
theorem ionpol1_law (ρ : Env) (a b c : Lit) :
    evalE ρ (ionpol1Tree a b c) =
      litVal ρ a * litVal ρ b * (0.62 + 0.4767 * litVal ρ c * Real.sqrt (300 / ρ.var "Tgas".toList)) := by
  simp [ionpol1Tree, eval_sqrt300, numVal_062, numVal_04767]

/-- **C05 (KIDA ionpol2 / native 111): `k = α β (1 + 0.0967 γ (300/T)^½ + γ² (300/T) / 10.526)`** -/
theorem ionpol2_law (ρ : Env) (a b c : Lit) :
    evalE ρ (ionpol2Tree a b c) =
      litVal ρ a * litVal ρ b * (1 + 0.0967 * litVal ρ c * Real.sqrt (300 / ρ.var "Tgas".toList)
        + litVal ρ c * litVal ρ c * (300 / ρ.var "Tgas".toList) / 10.526) := by
  simp [ionpol2Tree, eval_sqrt300, numVal_1, numVal_00967, numVal_10526, numVal_300]

/-- **C05 (UMIST CP): the direct cosmic-ray rate is the tabulated α** -/
theorem umist_cp_law (ρ : Env) (a b c : Lit) (r : Re1) :
    (expected .umist 101 a b c r).map (evalE ρ) = some (litVal ρ a) := by
  simp [expected]

/-- **C05 (cosmic-ray induced photo-process: UMIST CR, native 120):
    `k = α (T/300)^β γ / (1 − ω)`** -/
theorem crphot_law (ρ : Env) (a b c : Lit) :
    evalE ρ (crphotTree "1" id a b c) =
      litVal ρ a * (ρ.var "Tgas".toList / 300) ^ (litVal ρ b) * litVal ρ c / (1 - ρ.var "omega".toList) := by
  simp [crphotTree, eval_powT, numVal_1]

/-- **C05 (Leeds 3 / 11, UCLCHEM CRPHOT): scaled by the cosmic-ray (+ X-ray) rate in units of the ISM
    value** -/
theorem crphot_scaled_law (ρ : Env) (a b c : Lit) :
    evalE ρ (crphotTree "1.0" (fun x => mul x zetaLeeds) a b c) =
      litVal ρ a * ((ρ.var "zeta_cr".toList + ρ.var "zeta_xr".toList) / ρ.var "zism".toList)
        * (ρ.var "Tgas".toList / 300) ^ (litVal ρ b) * litVal ρ c / (1 - ρ.var "omega".toList) ∧
    evalE ρ (crphotTree "1.0" (fun x => mul x zetaUcl) a b c) =
      litVal ρ a * (ρ.var "zeta".toList / ρ.var "zism".toList)
        * (ρ.var "Tgas".toList / 300) ^ (litVal ρ b) * litVal ρ c / (1 - ρ.var "omega".toList) := by
  constructor <;> simp [crphotTree, eval_powT, numVal_1p0, zetaLeeds, zetaUcl]

/-- **C05 (Leeds 2 / UCLCHEM CR): direct cosmic-ray ionisation scaled to the ISM rate** -/
theorem cr_scaled_law (ρ : Env) (a b c : Lit) (r : Re1) :
    (expected .leeds 2 a b c r).map (evalE ρ) =
      some (litVal ρ a * (ρ.var "zeta_cr".toList + ρ.var "zeta_xr".toList) / ρ.var "zism".toList) ∧
    (expected .uclchem 101 a b c r).map (evalE ρ) =
      some (litVal ρ a * (ρ.var "zeta".toList / ρ.var "zism".toList)) := by
  constructor <;> simp [expected, zetaUcl]

/-- **C05 (Leeds 4 without shielding, UCLCHEM PH): `k = G₀ α exp(−γ A_v)` (UCLCHEM: `/ 1.7`, Habing →
    Draine)** -/
theorem photo_g0_law (ρ : Env) (a b c : Lit) :
    (expected .leeds 4 a b c ⟨"H".toList, "HI".toList⟩).map (evalE ρ) =
      some (ρ.var "G0".toList * litVal ρ a * Real.exp (- litVal ρ c * ρ.var "Av".toList)) ∧
    (expected .uclchem 102 a b c ⟨"H".toList, "HI".toList⟩).map (evalE ρ) =
      some (ρ.var "G0".toList * litVal ρ a * Real.exp (- litVal ρ c * ρ.var "Av".toList) / 1.7) := by
  constructor
  · have : ("H".toList ∈ ["H2".toList, "CO".toList, "N2".toList]) = False := by decide
    simp [expected, this, eval_expAv]
  · have : ("H".toList = "CO".toList) = False := by decide
    simp [expected, this, eval_expAv, numVal_1p7]

/-! ### non-vacuity: concrete values -/
example : LitSound ⟨fun i => if i = 1 then 0 else 5, fun _ => 10, fun _ _ => 0, fun _ _ => 0⟩ ⟨false, true, 1⟩ := by
  simp [LitSound]
example : (⟨false, false, 0⟩ : Lit) ∈ litClasses 0 ∧ (.native, 100) ∈ gasCodes := by decide

end
end Naunet.C05
