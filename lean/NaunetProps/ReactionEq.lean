/-
  C15 / C14 — the equality that duplicate detection, removal by instance and `where_reaction` rest on:
  reactant / product order never matters, multiplicity does, equal reactions hash alike (the precondition of the hash-based
  first-seen table), and on typed reactions the relation is an equivalence.
-/
import NaunetModel.ReactionEq
import Mathlib.Data.List.Sort

namespace Naunet.ReqEq

theorem sortN_perm (l : List Nat) : (sortN l).Perm l := List.mergeSort_perm l _

theorem sortN_sorted (l : List Nat) : (sortN l).Pairwise (fun a b => decide (a ≤ b) = true) :=
  List.pairwise_mergeSort (by intro a b c h1 h2; simp only [decide_eq_true_eq] at *; omega)
    (by intro a b; simp only [Bool.or_eq_true, decide_eq_true_eq]; omega) l

/-- sorting forgets the order and nothing else -/
theorem sortN_eq_iff_perm (a b : List Nat) : sortN a = sortN b ↔ a.Perm b := by
  constructor
  · intro h
    exact ((sortN_perm a).symm.trans (h ▸ List.Perm.refl _)).trans (sortN_perm b)
  · intro h
    apply List.Perm.eq_of_pairwise (le := fun a b => decide (a ≤ b) = true)
    · intro x y _ _ h1 h2; simp only [decide_eq_true_eq] at h1 h2; omega
    · exact sortN_sorted a
    · exact sortN_sorted b
    · exact ((sortN_perm a).trans h).trans (sortN_perm b).symm

/-- **reactant / product order never matters** -/
theorem eqR_perm (a b : R) (hre : a.re.Perm b.re) (hpr : a.pr.Perm b.pr) (ht : a.tmin = b.tmin) (hT : a.tmax = b.tmax)
    (hty : a.ty = b.ty) : eqR a b = true := by
  simp [eqR, rpeq, msetEq, (sortN_eq_iff_perm _ _).2 hre, (sortN_eq_iff_perm _ _).2 hpr, ht, hT, hty]

/-- **multiplicity matters**: equal reactions have the same number of occurrences of every species on each side -/
theorem eqR_count (a b : R) (h : eqR a b = true) (s : Nat) : a.re.count s = b.re.count s ∧ a.pr.count s = b.pr.count s := by
  simp only [eqR, rpeq, msetEq, Bool.and_eq_true, beq_iff_eq] at h
  exact ⟨((sortN_eq_iff_perm _ _).1 h.1.1.1.1).count_eq s, ((sortN_eq_iff_perm _ _).1 h.1.1.1.2).count_eq s⟩

/-- **equal reactions hash alike** - what a hash-based table of first-seen reactions needs -/
theorem eqR_hash (a b : R) (h : eqR a b = true) : hashKey a = hashKey b := by
  simp only [eqR, rpeq, msetEq, Bool.and_eq_true, beq_iff_eq] at h
  simp [hashKey, h.1.1.1.1, h.1.1.1.2]

/-- both temperature bounds are part of the identity -/
theorem eqR_window (a b : R) (h : eqR a b = true) : a.tmin = b.tmin ∧ a.tmax = b.tmax := by
  simp only [eqR, Bool.and_eq_true, beq_iff_eq] at h
  exact ⟨h.1.1.2, h.1.2⟩

theorem eqR_refl (a : R) : eqR a a = true := by simp [eqR, rpeq, msetEq]

theorem eqR_symm (a b : R) (h : eqR a b = true) : eqR b a = true := by
  simp only [eqR, rpeq, msetEq, Bool.and_eq_true, beq_iff_eq, Bool.or_eq_true] at *
  obtain ⟨⟨⟨⟨h1, h2⟩, h3⟩, h4⟩, h5⟩ := h
  refine ⟨⟨⟨⟨h1.symm, h2.symm⟩, h3.symm⟩, h4.symm⟩, ?_⟩
  rcases h5 with (h5 | h5) | h5
  · exact Or.inl (Or.inl h5.symm)
  · exact Or.inr h5
  · exact Or.inl (Or.inr h5)

/-- on typed reactions the relation is transitive (with UNKNOWN it is not: finding F14) -/
theorem eqR_trans_typed (a b c : R) (hb : b.ty ≠ 999) (h1 : eqR a b = true) (h2 : eqR b c = true) : eqR a c = true := by
  simp only [eqR, rpeq, msetEq, Bool.and_eq_true, beq_iff_eq, Bool.or_eq_true] at *
  obtain ⟨⟨⟨⟨a1, a2⟩, a3⟩, a4⟩, a5⟩ := h1
  obtain ⟨⟨⟨⟨b1, b2⟩, b3⟩, b4⟩, b5⟩ := h2
  refine ⟨⟨⟨⟨a1.trans b1, a2.trans b2⟩, a3.trans b3⟩, a4.trans b4⟩, ?_⟩
  rcases a5 with (a5 | a5) | a5 <;> rcases b5 with (b5 | b5) | b5
  · exact Or.inl (Or.inl (a5.trans b5))
  · exact absurd b5 hb
  · exact Or.inr b5
  · exact Or.inl (Or.inr a5)
  · exact Or.inl (Or.inr a5)
  · exact Or.inl (Or.inr a5)
  · exact absurd a5 hb
  · exact absurd a5 hb
  · exact absurd a5 hb

/-- `H + H -> H2` and `H -> H2` are different reactions -/
example : eqR ⟨[0, 0], [1], -100, -100, 100⟩ ⟨[0], [1], -100, -100, 100⟩ = false :=
  Bool.eq_false_iff.2 fun h => by have := (eqR_count _ _ h 0).1; simp at this

/-- `H + H2 + H` and `H + H + H2` are one reaction, and hash alike whatever their windows and types -/
example : eqR ⟨[0, 1, 0], [2], -100, -100, 100⟩ ⟨[0, 0, 1], [2], -100, -100, 100⟩ = true :=
  eqR_perm _ _ (by decide) (by decide) rfl rfl rfl

example : hashKey ⟨[0, 1, 0], [2], -100, -100, 100⟩ = hashKey ⟨[0, 0, 1], [2], 5, 7, 101⟩ := by
  simp only [hashKey, Prod.mk.injEq]
  exact ⟨(sortN_eq_iff_perm _ _).2 (by decide), trivial⟩

/-- the upper bound counts -/
example : eqR ⟨[0], [1], 1000, 28000, 100⟩ ⟨[0], [1], 1000, 30000, 100⟩ = false :=
  Bool.eq_false_iff.2 fun h => by have := (eqR_window _ _ h).2; simp at this

/-- F14: with an UNKNOWN-typed reaction in the middle the relation is not transitive -/
example : eqR ⟨[0], [1], 0, 0, 100⟩ ⟨[0], [1], 0, 0, 999⟩ = true ∧ eqR ⟨[0], [1], 0, 0, 999⟩ ⟨[0], [1], 0, 0, 102⟩ = true
    ∧ eqR ⟨[0], [1], 0, 0, 100⟩ ⟨[0], [1], 0, 0, 102⟩ = false := by
  simp [eqR, rpeq, msetEq]

end Naunet.ReqEq
