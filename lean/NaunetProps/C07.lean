/-
  C07 — reaction files of all formats are decoded faithfully.
  Native round trip: `C18.native_roundtrip`.  UMIST / Leeds / UCLCHEM round trips: `C07b`.  KROME's
  format-directed reader (directive state machine, standard-layout round trip): `NaunetModel.Krome`, `C07c`.
-/
import NaunetProps.C18

namespace Naunet.C07
open Naunet.Codec

/-! ### encoders (the published column layouts) -/

def kidaTail (l : Line) (unc1 unc2 unctype itype n1 n2 : Str) : List Str :=
  [l.a, l.b, l.c, unc1, unc2, unctype, itype, l.tmin, l.tmax, l.code, l.idx, n1, n2]

/-- KIDA: 3 reactant columns of 11 + blank, 5 product columns of 11 + blank, 13 blank-separated fields -/
def encodeKida (l : Line) (u1 u2 ut it n1 n2 : Str) : Str :=
  columns 11 (fillList l.re 3 []) ++ [' '] ++ (columns 11 (fillList l.pr 5 []) ++ [' '] ++ joinC ' ' (kidaTail l u1 u2 ut it n1 n2))

/-- Leeds: widths 5 30 50 8 9 10 5 5 3 -/
def encodeLeeds (l : Line) : Str :=
  [padRight 5 l.idx, columns 10 (fillList l.re 3 []), columns 10 (fillList l.pr 5 []), padLeft 8 l.a, padLeft 9 l.b,
   padLeft 10 l.c, padLeft 5 l.tmin, padLeft 5 l.tmax, padLeft 3 l.code].flatten

def encodeUclchem (l : Line) (marker : Option Str) : Str :=
  let re := match marker with
    | some m => (match l.re with | r1 :: rest => r1 :: m :: rest | [] => [[], m])
    | none => l.re
  joinC ',' (fillList re 3 "NAN".toList ++ fillList l.pr 4 "NAN".toList ++ [l.a, l.b, l.c, l.tmin, l.tmax])

/-- names usable in a column of width `w` -/
def NameOK (w : Nat) (x : Str) : Prop := NoWs x ∧ x ≠ [] ∧ x.length < w

theorem fill_colOK (w : Nat) (orig : List Str) (n : Nat) (h : ∀ x ∈ orig, NameOK w x) (hw : 0 < w) :
    ∀ x ∈ fillList orig n [], NoWs x ∧ x.length < w := by
  intro x hx
  rcases C18.mem_fillList orig n x hx with h1 | h1
  · exact ⟨(h x h1).1, (h x h1).2.2⟩
  · subst h1; exact ⟨noWs_nil, hw⟩

theorem take_append_len (a b : Str) (n : Nat) (h : a.length = n) : (a ++ b).take n = a := by
  subst h; exact List.take_left' rfl
theorem drop_append_len (a b : Str) (n : Nat) (h : a.length = n) : (a ++ b).drop n = b := by
  subst h; exact List.drop_left' rfl

/-- **C07 (KIDA).** For every line laid out in KIDA's columns – 1-3 reactants, 0-5 products, names up to
    10 characters, any 13 tail fields – the decoder returns exactly the reactants and products named
    (order and multiplicity), α β γ, the window, the formula and the index. -/
theorem kida_roundtrip (l : Line) (u1 u2 ut it n1 n2 : Str)
    (hre : l.re.length ≤ 3) (hpr : l.pr.length ≤ 5) (hre1 : l.re ≠ [])
    (hreok : ∀ x ∈ l.re, NameOK 11 x) (hprok : ∀ x ∈ l.pr, NameOK 11 x)
    (htail : ∀ f ∈ kidaTail l u1 u2 ut it n1 n2, NoWs f ∧ f ≠ []) (hsrc : l.source = "kida".toList) :
    decodeKida (encodeKida l u1 u2 ut it n1 n2) = some l := by
  have hk1 : Tables.kidaRlen = 34 := by decide
  have hk2 : Tables.kidaPlen = 56 := by decide
  -- the line starts with the first character of the first reactant and ends with the last tail field
  have lenR : (columns 11 (fillList l.re 3 []) ++ [' ']).length = 34 := by
    rw [List.length_append, length_columns 11 _ (fun x hx => Nat.le_of_lt (fill_colOK 11 l.re 3 hreok (by omega) x hx).2),
      C18.length_fillList l.re 3 hre]; rfl
  have lenP : (columns 11 (fillList l.pr 5 []) ++ [' ']).length = 56 := by
    rw [List.length_append, length_columns 11 _ (fun x hx => Nat.le_of_lt (fill_colOK 11 l.pr 5 hprok (by omega) x hx).2),
      C18.length_fillList l.pr 5 hpr]; rfl
  have hstrip : strip (encodeKida l u1 u2 ut it n1 n2) = encodeKida l u1 u2 ut it n1 n2 := by
    obtain ⟨r1, rest, hr⟩ : ∃ r1 rest, l.re = r1 :: rest := by
      cases hl : l.re with
      | nil => exact absurd hl hre1
      | cons a b => exact ⟨a, b, rfl⟩
    have hr1 := hreok r1 (by simp [hr])
    obtain ⟨c0, r1t, hc0⟩ : ∃ c0 r1t, r1 = c0 :: r1t := by
      cases hh : r1 with
      | nil => exact absurd hh hr1.2.1
      | cons a b => exact ⟨a, b, rfl⟩
    have hn2 := htail n2 (by simp [kidaTail])
    obtain ⟨cz, hcz⟩ : ∃ cz, n2.getLast? = some cz := by
      cases hh : n2.getLast? with
      | none => exact absurd (List.getLast?_eq_none_iff.mp hh) hn2.2
      | some z => exact ⟨z, rfl⟩
    have hz : isWs cz = false := hn2.1 cz (List.mem_of_getLast? hcz)
    have hc : isWs c0 = false := hr1.1 c0 (by simp [hc0])
    have hhead : (encodeKida l u1 u2 ut it n1 n2).head? = some c0 := by
      unfold encodeKida
      simp [hr, hc0, fillList, columns, padRight]
    have hlast : (encodeKida l u1 u2 ut it n1 n2).getLast? = some cz := by
      unfold encodeKida
      have hj : joinC ' ' (kidaTail l u1 u2 ut it n1 n2) ≠ [] :=
        joinC_ne_nil ' ' _ n2 (by simp [kidaTail]) hn2.2
      rw [List.getLast?_append_of_ne_nil _ (by simpa using hj), List.getLast?_append_of_ne_nil _ hj,
        getLast?_joinC ' ' _ n2 (by simp [kidaTail]) hn2.2, hcz]
    exact strip_of_head_last _ c0 cz hhead hlast hc hz
  unfold decodeKida
  simp only [hstrip, hk1, hk2]
  have e1 : (encodeKida l u1 u2 ut it n1 n2).take 34 = columns 11 (fillList l.re 3 []) ++ [' '] := by
    unfold encodeKida; exact take_append_len _ _ 34 lenR
  have e2 : (encodeKida l u1 u2 ut it n1 n2).drop 34 =
      columns 11 (fillList l.pr 5 []) ++ [' '] ++ joinC ' ' (kidaTail l u1 u2 ut it n1 n2) := by
    unfold encodeKida; exact drop_append_len _ _ 34 lenR
  have e3 : (encodeKida l u1 u2 ut it n1 n2).drop (34 + 56) = joinC ' ' (kidaTail l u1 u2 ut it n1 n2) := by
    rw [← List.drop_drop, e2]; exact drop_append_len _ _ 56 lenP
  rw [e3, words_joinC_space _ htail, e1, e2, take_append_len _ _ 56 lenP]
  have wre := words_columns 11 (fillList l.re 3 []) (fill_colOK 11 l.re 3 hreok (by omega)) [' ']
  have wpr := words_columns 11 (fillList l.pr 5 []) (fill_colOK 11 l.pr 5 hprok (by omega)) [' ']
  have hsp : words [' '] = [] := words_spaces 1
  rw [wre, wpr, hsp, C18.filter_fillList l.re 3 (fun x hx => (hreok x hx).2.1),
    C18.filter_fillList l.pr 5 (fun x hx => (hprok x hx).2.1)]
  simp only [kidaTail, List.append_nil]
  cases l; simp_all

/-- **C07 (markers).** Whatever tokens a decoder returns, the species created from them never contain
    an empty name or a configured pseudo-element (CR, CRP, PHOTON, CRPHOT, …). -/
theorem markers_never_species (pseudo toks : List Str) :
    ∀ t ∈ speciesOf pseudo toks, t ∈ toks ∧ t ≠ [] ∧ t ∉ pseudo := by
  intro t ht
  simp only [speciesOf, List.mem_filter, Bool.and_eq_true, Bool.not_eq_eq_eq_not, Bool.not_true,
    decide_eq_false_iff_not] at ht
  refine ⟨ht.1, ?_, ht.2.2⟩
  intro e; subst e; simp at ht

/-- **C07 (file level).** Reading a concatenation of files is the concatenation of the readings: each
    data line contributes exactly one reaction, in order. -/
theorem readFile_append (f : Fmt) (l₁ l₂ : List Str) (x₁ x₂ : List Line)
    (h1 : readFile f l₁ = some x₁) (h2 : readFile f l₂ = some x₂) :
    readFile f (l₁ ++ l₂) = some (x₁ ++ x₂) := by
  induction l₁ generalizing x₁ with
  | nil => simp [readFile] at h1; subst h1; simpa using h2
  | cons a l₁ ih =>
    simp only [List.cons_append, readFile] at h1 ⊢
    by_cases hb : isBlank a = true
    · simp only [hb, if_true] at h1 ⊢; exact ih x₁ h1
    · have hb' : isBlank a = false := by simpa using hb
      simp only [hb', Bool.false_eq_true, if_false] at h1 ⊢
      cases hd : decode f a with
      | none => simp [hd] at h1
      | some y =>
        cases hr : readFile f l₁ with
        | none => simp [hd, hr] at h1
        | some ys =>
          simp only [hd, hr, Option.some.injEq] at h1
          subst h1
          simp [ih ys hr]

/-- blank lines add no reaction -/
theorem readFile_blank (f : Fmt) (b : Str) (hb : isBlank b = true) (ls : List Str) :
    readFile f (b :: ls) = readFile f ls := by
  simp [readFile, hb]

/-- a data line adds exactly one reaction -/
theorem readFile_data (f : Fmt) (a : Str) (ha : isBlank a = false) (y : Line) (hd : decode f a = some y)
    (ls : List Str) (ys : List Line) (hr : readFile f ls = some ys) :
    readFile f (a :: ls) = some (y :: ys) := by
  simp [readFile, ha, hd, hr]

/-! ### non-vacuity: real lines of the bundled test data -/
set_option maxRecDepth 100000 in
example : (decodeKida ("C          CH                     H          C2                                            " ++
    "2.400e-10  0.000e+00  0.000e+00 2.00e+00 1.00e+02 logn  4     10    300  3  4894 1  1").toList).map
    (fun l => (l.re, l.pr, l.code, l.idx)) =
    some (["C".toList, "CH".toList], ["H".toList, "C2".toList], "3".toList, "4894".toList) := by decide +kernel
set_option maxRecDepth 100000 in
example : (decodeUmist "5173:NN:C:CH:C2:H:::1:6.59e-11:0.00:0.0:10:300:L:C:x::".toList).map (fun l => (l.re, l.pr, l.code)) =
    some (["C".toList, "CH".toList], ["C2".toList, "H".toList], "NN".toList) := by decide +kernel
set_option maxRecDepth 100000 in
example : (decodeLeeds "4956 C         CH                  C2        H                                       6.59E-11     0.00       0.0    541000  1".toList).map
    (fun l => (l.idx, l.re, l.pr, l.tmax ++ ('|' :: l.a) ++ ('|' :: l.tmin) ++ ('|' :: l.code))) =
    some ("4956".toList, ["C".toList, "CH".toList], ["C2".toList, "H".toList], "41000|6.59E-11|5|1".toList) := by
  decide +kernel
set_option maxRecDepth 100000 in
example : (decodeUclchem "H2O,FREEZE,NAN,#H2O,NAN,NAN,NAN,1.0,0.0,0.0,0,0".toList).map (fun l => (l.re, l.pr, l.code, l.tmax)) =
    some (["H2O".toList], ["#H2O".toList], "FREEZE".toList, "30".toList) := by decide +kernel

end Naunet.C07
