/-
  C07 (continued) — the KROME reader as a state machine over lines.

  * comment and directive lines never contribute a reaction, whatever the state;
  * a data line contributes exactly one reaction, decoded under the layout in force at that point, and
    leaves the class state alone;
  * reading is compositional (`readKrome_append`): a file is read as its first part followed by its second
    part started in the state the first part left behind – so a directive placed late in a file acts on the
    lines after it and only on those;
  * for the standard layout `idx,R,R,R,P,P,P,P,Tmin,Tmax,rate` every well-formed abstract line is recovered
    exactly (`std_roundtrip`).
-/
import NaunetModel.Krome
import NaunetProps.C07b

namespace Naunet.C07
open Naunet.Codec Naunet.Krome

theorem strip_nil : strip ([] : Str) = [] := rfl

/-- **C07 (KROME directives).** A line that `preprocessing` recognises as comment or directive adds no
    reaction, in any state. -/
theorem directive_no_reaction (st : KState) (line : Str) (h : isDirective line = true) : (step st line).2 = none := by
  unfold isDirective at h
  unfold step preprocess
  by_cases h1 : isComment line = true
  · rw [if_pos h1]; simp only [strip_nil, List.isEmpty_nil, if_true]
  · rw [if_neg h1]
    by_cases h2 : isFormat line = true
    · rw [if_pos h2]; simp only [strip_nil, List.isEmpty_nil, if_true]
    · rw [if_neg h2]
      by_cases h3 : isVar line = true
      · rw [if_pos h3]; simp only [strip_nil, List.isEmpty_nil, if_true]
      · rw [if_neg h3]
        by_cases h4 : isCommon line = true
        · rw [if_pos h4]; simp only [strip_nil, List.isEmpty_nil, if_true]
        · exfalso
          simp only [Bool.or_eq_true] at h
          rcases h with ((h | h) | h) | h
          · exact h1 h
          · exact h2 h
          · exact h3 h
          · exact h4 h

/-- comments leave the class state alone -/
theorem comment_keeps_state (st : KState) (line : Str) (h : isComment line = true) : (step st line).1 = st := by
  unfold step preprocess
  rw [if_pos h]
  simp only [strip_nil, List.isEmpty_nil, if_true]

/-- **C07 (indented comments, F30).** A comment marker after any number of blanks makes the line a comment: it adds no reaction and
    leaves the reader's state alone. -/
theorem indented_comment_no_reaction (st : KState) (n : Nat) (rest : Str) :
    step st (List.replicate n ' ' ++ '#' :: rest) = (st, none) ∧ step st (List.replicate n ' ' ++ '/' :: '/' :: rest) = (st, none) := by
  have h1 : isComment (List.replicate n ' ' ++ '#' :: rest) = true := by
    unfold isComment lstrip
    rw [dropWhile_spaces]
    simp [List.dropWhile, isWs]
  have h2 : isComment (List.replicate n ' ' ++ '/' :: '/' :: rest) = true := by
    unfold isComment lstrip
    rw [dropWhile_spaces]
    simp [List.dropWhile, isWs]
  constructor
  · unfold step preprocess
    rw [if_pos h1]
    simp only [strip_nil, List.isEmpty_nil, if_true]
  · unfold step preprocess
    rw [if_pos h2]
    simp only [strip_nil, List.isEmpty_nil, if_true]

example : (readKrome KState.init ["1,H,E,,H+,E,E,,NONE,NONE,1.0d-10".toList, "   # a note".toList, "\t".toList]).2.length = 1 := by decide

theorem dropWhile_append_singleton (p : Char → Bool) (l : Str) (a : Char) (ha : p a = false) :
    (l ++ [a]).dropWhile p = l.dropWhile p ++ [a] := by
  induction l with
  | nil => simp [List.dropWhile, ha]
  | cons x xs ih =>
    by_cases hx : p x = true
    · simp [List.dropWhile, hx, ih]
    · simp [List.dropWhile, hx]

/-- `str.strip()` is idempotent -/
theorem strip_idem (s : Str) : strip (strip s) = strip s := by
  unfold strip
  have h2 : ∀ t : Str, rstrip (rstrip t) = rstrip t := by
    intro t; unfold rstrip
    rw [List.reverse_reverse]
    have : ∀ l : Str, (l.dropWhile isWs).dropWhile isWs = l.dropWhile isWs := by
      intro l
      induction l with
      | nil => rfl
      | cons x xs ih =>
        by_cases hx : isWs x = true
        · simp only [List.dropWhile, hx]; exact ih
        · have hx' : isWs x = false := by simpa using hx
          simp only [List.dropWhile, hx']
    rw [this]
  have h1 : lstrip (rstrip (lstrip s)) = rstrip (lstrip s) := by
    unfold lstrip
    cases h : s.dropWhile isWs with
    | nil => rfl
    | cons a r =>
      have ha : isWs a = false := by
        have := List.head?_dropWhile_not isWs s
        rw [h] at this
        simpa using this
      have hr : rstrip (a :: r) = a :: (r.reverse.dropWhile isWs).reverse := by
        unfold rstrip
        rw [List.reverse_cons, dropWhile_append_singleton isWs _ a ha]
        simp
      rw [hr]
      simp [List.dropWhile, ha]
  rw [h1, h2]

/-- **C07 (KROME data lines).** A line that is not a directive and not blank contributes exactly one
    reaction – the fields of the stripped line zipped with the layout in force – and does not touch the state. -/
theorem data_line (st : KState) (line : Str) (hd : isDirective line = false) (hb : isBlank line = false) :
    step st line = (st, some (parseLine st.format (strip line))) := by
  unfold isDirective at hd
  simp only [Bool.or_eq_false_iff] at hd
  obtain ⟨⟨⟨h1, h2⟩, h3⟩, h4⟩ := hd
  unfold isBlank at hb
  unfold step preprocess
  rw [if_neg (by rw [h1]; decide), if_neg (by rw [h2]; decide), if_neg (by rw [h3]; decide), if_neg (by rw [h4]; decide)]
  simp only [strip_idem, hb, Bool.false_eq_true, if_false]

/-- reading is a left-to-right fold: a file is its first part followed by its second part read in the
    state the first part left behind -/
theorem readKrome_append (st : KState) (l₁ l₂ : List Str) :
    readKrome st (l₁ ++ l₂) =
      ((readKrome (readKrome st l₁).1 l₂).1, (readKrome st l₁).2 ++ (readKrome (readKrome st l₁).1 l₂).2) := by
  induction l₁ generalizing st with
  | nil => simp [readKrome]
  | cons l ls ih =>
    simp only [List.cons_append, readKrome]
    rw [ih (step st l).1]
    cases (step st l).2 <;> simp

/-- **C07 (late directives).** A directive acts on the lines after it and only on those: the reactions of
    the lines before it are what they would be without it. -/
theorem late_directive (st : KState) (before after : List Str) (d : Str) (hd : isDirective d = true) :
    (readKrome st (before ++ d :: after)).2 =
      (readKrome st before).2 ++ (readKrome (step (readKrome st before).1 d).1 after).2 := by
  rw [readKrome_append]
  simp only [readKrome]
  rw [directive_no_reaction _ d hd]

/-! ### the standard layout -/

theorem keys_std : keysOf KState.init.format =
    ["idx".toList, "r".toList, "r".toList, "r".toList, "p".toList, "p".toList, "p".toList, "p".toList,
     "tmin".toList, "tmax".toList, "rate".toList] := by decide +kernel

theorem foldl_r (l : KLine) (vals : List Str) :
    (vals.map (fun v => ("r".toList, v))).foldl assign l = { l with re := l.re ++ vals.filter (fun v => !v.isEmpty) } := by
  induction vals generalizing l with
  | nil => simp
  | cons v vs ih =>
    simp only [List.map_cons, List.foldl_cons]
    rw [ih]
    cases hv : v with
    | nil => simp [assign]
    | cons a t =>
      have h1 : (("r".toList : Str) == "idx".toList) = false := by decide
      simp [assign, h1]

theorem foldl_p (l : KLine) (vals : List Str) :
    (vals.map (fun v => ("p".toList, v))).foldl assign l = { l with pr := l.pr ++ vals.filter (fun v => !v.isEmpty) } := by
  induction vals generalizing l with
  | nil => simp
  | cons v vs ih =>
    simp only [List.map_cons, List.foldl_cons]
    rw [ih]
    cases hv : v with
    | nil => simp [assign]
    | cons a t =>
      have h1 : (("p".toList : Str) == "idx".toList) = false := by decide
      have h2 : (("p".toList : Str) == "r".toList) = false := by decide
      simp [assign, h1, h2]

/-- what the reader keeps of a Tmin / Tmax column -/
def boundOf (v : Str) : Option Str := if v.isEmpty || upper v ∈ noBound then none else some (boundText v)

theorem assign_idx (l : KLine) (v : Str) (hv : v ≠ []) : assign l ("idx".toList, v) = { l with idx := some v } := by
  cases v with
  | nil => exact absurd rfl hv
  | cons a t => simp [assign]

theorem assign_tmin (l : KLine) (v : Str) : assign l ("tmin".toList, v) = { l with tmin := (boundOf v).orElse fun _ => l.tmin } := by
  have h1 : (("tmin".toList : Str) == "idx".toList) = false := by decide
  have h2 : (("tmin".toList : Str) == "r".toList) = false := by decide
  have h3 : (("tmin".toList : Str) == "p".toList) = false := by decide
  cases v with
  | nil => simp [assign, boundOf]
  | cons a t =>
    by_cases hb : upper (a :: t) ∈ noBound
    · simp [assign, boundOf, h1, h2, h3, hb]
    · simp [assign, boundOf, h1, h2, h3, hb]

theorem assign_tmax (l : KLine) (v : Str) : assign l ("tmax".toList, v) = { l with tmax := (boundOf v).orElse fun _ => l.tmax } := by
  have h1 : (("tmax".toList : Str) == "idx".toList) = false := by decide
  have h2 : (("tmax".toList : Str) == "r".toList) = false := by decide
  have h3 : (("tmax".toList : Str) == "p".toList) = false := by decide
  have h4 : (("tmax".toList : Str) == "tmin".toList) = false := by decide
  cases v with
  | nil => simp [assign, boundOf]
  | cons a t =>
    by_cases hb : upper (a :: t) ∈ noBound
    · simp [assign, boundOf, h1, h2, h3, h4, hb]
    · simp [assign, boundOf, h1, h2, h3, h4, hb]

theorem assign_rate (l : KLine) (v : Str) (hv : v ≠ []) :
    assign l ("rate".toList, v) = { l with rate := some (fixRate v) } := by
  have h1 : (("rate".toList : Str) == "idx".toList) = false := by decide
  have h2 : (("rate".toList : Str) == "r".toList) = false := by decide
  have h3 : (("rate".toList : Str) == "p".toList) = false := by decide
  have h4 : (("rate".toList : Str) == "tmin".toList) = false := by decide
  have h5 : (("rate".toList : Str) == "tmax".toList) = false := by decide
  cases v with
  | nil => exact absurd rfl hv
  | cons a t => simp [assign, h1, h2, h3, h4, h5]

/-- **C07 (KROME, standard layout).** Every line laid out as `idx,R,R,R,P,P,P,P,Tmin,Tmax,rate` – up to 3
    reactants and 4 products in any of the columns' order, empty columns for the unused ones, comma-free
    fields, no blank at either end – is decoded to exactly the index, the reactants and products in order
    and with multiplicity, the bounds (none for `NONE`/`N`/`N/A`/`NO`/empty, else the text with the Fortran
    comparison operators and the `d` exponent removed) and the rate text with every call `dexp(…)` spelled `exp(…)`. -/
theorem std_roundtrip (idx : Str) (re pr : List Str) (tmin tmax rate : Str)
    (hre : re.length ≤ 3) (hpr : pr.length ≤ 4)
    (hreok : ∀ x ∈ re, ',' ∉ x ∧ x ≠ []) (hprok : ∀ x ∈ pr, ',' ∉ x ∧ x ≠ [])
    (hf : ∀ f ∈ [idx, tmin, tmax, rate], ',' ∉ f) (hidx : idx ≠ []) (hrate : rate ≠ [])
    (hstrip : strip (encodeStd idx re pr tmin tmax rate) = encodeStd idx re pr tmin tmax rate)
    (hhead : idx.head? ≠ some '#') :
    parseLine KState.init.format (encodeStd idx re pr tmin tmax rate) =
      { idx := some idx, re := re, pr := pr, tmin := boundOf tmin, tmax := boundOf tmax,
        rate := some (fixRate rate) } := by
  have lre := C18.length_fillList re 3 hre
  have lpr := C18.length_fillList pr 4 hpr
  have fre := C18.filter_fillList re 3 (fun x hx => (hreok x hx).2)
  have fpr := C18.filter_fillList pr 4 (fun x hx => (hprok x hx).2)
  have cre : ∀ x ∈ fillList re 3 [], ',' ∉ x := by
    intro x hx
    rcases C18.mem_fillList _ _ _ hx with h1 | h1
    · exact (hreok x h1).1
    · subst h1; simp
  have cpr : ∀ x ∈ fillList pr 4 [], ',' ∉ x := by
    intro x hx
    rcases C18.mem_fillList _ _ _ hx with h1 | h1
    · exact (hprok x h1).1
    · subst h1; simp
  unfold parseLine
  rw [hstrip, keys_std]
  unfold encodeStd at *
  generalize hR : fillList re 3 [] = R at *
  generalize hP : fillList pr 4 [] = P at *
  rcases R with _ | ⟨x1, _ | ⟨x2, _ | ⟨x3, _ | ⟨x4, rr⟩⟩⟩⟩ <;> simp at lre
  rcases P with _ | ⟨y1, _ | ⟨y2, _ | ⟨y3, _ | ⟨y4, _ | ⟨y5, pp⟩⟩⟩⟩⟩ <;> simp at lpr
  have hsplit := splitOnC_joinC ',' [idx, x1, x2, x3, y1, y2, y3, y4, tmin, tmax, rate] (by simp)
    (by
      intro f hfm
      simp only [List.mem_cons, List.mem_nil_iff, or_false] at hfm
      rcases hfm with rfl | rfl | rfl | rfl | rfl | rfl | rfl | rfl | rfl | rfl | rfl
      · exact hf _ (by simp)
      · exact cre _ (by simp)
      · exact cre _ (by simp)
      · exact cre _ (by simp)
      · exact cpr _ (by simp)
      · exact cpr _ (by simp)
      · exact cpr _ (by simp)
      · exact cpr _ (by simp)
      all_goals exact hf _ (by simp))
  simp only [List.cons_append, List.nil_append] at hsplit ⊢
  -- the line is not empty and does not start with '#'
  have hne : (joinC ',' [idx, x1, x2, x3, y1, y2, y3, y4, tmin, tmax, rate]).isEmpty = false := by
    cases idx with
    | nil => exact absurd rfl hidx
    | cons a t => simp [joinC]
  have hh : ((joinC ',' [idx, x1, x2, x3, y1, y2, y3, y4, tmin, tmax, rate]).head? == some '#') = false := by
    cases idx with
    | nil => exact absurd rfl hidx
    | cons a t =>
      simp only [joinC, List.cons_append, List.head?_cons]
      simpa using hhead
  rw [hne, hh, hsplit]
  simp only [Bool.false_or, Bool.false_eq_true, if_false]
  have hz : ((["idx".toList, "r".toList, "r".toList, "r".toList, "p".toList, "p".toList, "p".toList, "p".toList,
      "tmin".toList, "tmax".toList, "rate".toList] : List Str).zip [idx, x1, x2, x3, y1, y2, y3, y4, tmin, tmax, rate]) =
      [("idx".toList, idx)] ++ [x1, x2, x3].map (fun v => ("r".toList, v)) ++ [y1, y2, y3, y4].map (fun v => ("p".toList, v)) ++
        [("tmin".toList, tmin), ("tmax".toList, tmax), ("rate".toList, rate)] := by rfl
  rw [hz, List.foldl_append, List.foldl_append, List.foldl_append, foldl_p, foldl_r]
  simp only [List.foldl_cons, List.foldl_nil, assign_idx _ idx hidx, assign_tmin, assign_tmax, assign_rate _ rate hrate, fre, fpr,
    List.nil_append, Option.orElse_none]
  cases boundOf tmin <;> cases boundOf tmax <;> rfl

example : fixRate "user_dexp*dexp (x)+xdexp(y)-dexpz".toList = "user_dexp*exp (x)+xdexp(y)-dexpz".toList := by decide +kernel

example : parseLine KState.init.format "7,H+,E,,H,,,,>5.5d3,NONE,3.92d-13*dexp(-Tgas)".toList =
    { idx := some "7".toList, re := ["H+".toList, "E".toList], pr := ["H".toList], tmin := some "5.5e3".toList, tmax := none,
      rate := some "3.92d-13*exp(-Tgas)".toList } := by decide +kernel

/-- a layout change in mid-file is honoured from the next line on -/
example : (readKrome KState.init ["1,H,E,,H+,E,E,,NONE,NONE,1.0\n".toList, "@format:idx,R,P,rate\n".toList, "2,H+,H,3.0\n".toList]).2 =
    [{ idx := some "1".toList, re := ["H".toList, "E".toList], pr := ["H+".toList, "E".toList, "E".toList], rate := some "1.0".toList },
     { idx := some "2".toList, re := ["H+".toList], pr := ["H".toList], rate := some "3.0".toList }] := by decide +kernel

end Naunet.C07
