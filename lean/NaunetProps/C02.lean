/-
  C02 — the analytic Jacobian is the exact derivative of the emitted right-hand side.

  Reading of "rate coefficients held fixed" (DESIGN.md §4/C02): every identifier of the
  emitted text other than `y[IDX_*]` is a constant, i.e. an independent variable of the
  polynomial ring `ℤ[Coef ⊕ ℕ]`; the derivative is `MvPolynomial.pderiv (inr j)`.
-/
import NaunetProps.Lemmas.OdePoly

namespace Naunet.C02
open Naunet MvPolynomial
noncomputable section

/-- every reactant slot of every thermal process is a species slot (never the temperature slot) -/
def ThermalWF (inp : OdeInput) : Prop :=
  (∀ p ∈ inp.heat, ∀ x ∈ p, x < inp.nspec) ∧ (∀ p ∈ inp.cool, ∀ x ∈ p, x < inp.nspec)

theorem thermJacFrom_nil (neg : Bool) (mk : Nat → Coef) (s : Nat) (ps : List (List Nat)) (j : Nat)
    (h : ∀ p ∈ ps, j ∉ p) : thermJacFrom neg mk s ps j = [] := by
  induction ps generalizing s with
  | nil => rfl
  | cons p ps ih =>
    have hp := h p (by simp)
    simp [thermJacFrom, rep, List.count_eq_zero_of_not_mem hp,
      ih (s+1) (fun q hq => h q (by simp [hq]))]

/-- **C02.** For every network, modifier set and thermal selection, every row `i` and column `j`:
    the emitted Jacobian entry is the partial derivative with respect to `y[j]` of the emitted
    right-hand side of equation `i` – as polynomials, hence for all abundance vectors and all values
    of the rate coefficients.  `c` is the wrapper symbol of the temperature row, any polynomial not
    containing abundances. -/
theorem jac_eq_pderiv (inp : OdeInput) (hwf : ThermalWF inp) (c : P)
    (hc : ∀ j, pderiv (Sum.inr j : V) c = 0) (i j : Nat) :
    emittedPoly c (jacEntry inp i j) = pderiv (Sum.inr j : V) (emittedPoly c (fex inp i)) := by
  unfold jacEntry fex
  by_cases hrow : (inp.thermal && i == inp.nspec) = true
  · simp only [hrow, if_true]
    have hS : pderiv (Sum.inr j : V) (toPoly (thermRow inp)) = toPoly (thermJacRow inp j) := by
      simp only [thermRow, thermJacRow, toPoly_append, map_add, pderiv_thermRhsFrom]
    have hmain : pderiv (Sum.inr j : V) (emittedPoly c ⟨true, thermRow inp⟩)
        = c * toPoly (thermJacRow inp j) := by
      simp only [emittedPoly, evalEmitted, if_true, Derivation.leibniz, hc, smul_eq_mul]
      rw [show evalEqn kvar yvar (thermRow inp) = toPoly (thermRow inp) from rfl, hS]
      simp
    rw [hmain]
    by_cases hj : j < inp.nspec
    · simp only [hj, if_true]
      by_cases he : (thermJacRow inp j).isEmpty = true
      · have : thermJacRow inp j = [] := List.isEmpty_iff.mp he
        simp [this, emittedPoly, evalEmitted, toPoly]
      · simp [he, emittedPoly, evalEmitted, toPoly]
    · simp only [hj, if_false]
      have hnot : ∀ p ∈ inp.heat, j ∉ p := fun p hp hx => hj (hwf.1 p hp j hx)
      have hnot' : ∀ p ∈ inp.cool, j ∉ p := fun p hp hx => hj (hwf.2 p hp j hx)
      simp [thermJacRow, thermJacFrom_nil _ _ _ _ _ hnot, thermJacFrom_nil _ _ _ _ _ hnot',
        emittedPoly, evalEmitted, toPoly]
  · simp only [hrow]
    simp only [emittedPoly, evalEmitted, Bool.false_eq_true, if_false]
    change toPoly _ = pderiv _ (toPoly _)
    simp only [toPoly_append, map_add, pderiv_rhsFrom, pderiv_modsRhs]

/-- **C02 (omitted entries).** An entry the generator leaves out of the sparse structure – its
    text is `0.0`, the empty term list – is a derivative that is identically zero. -/
theorem jac_omitted_is_zero (inp : OdeInput) (hwf : ThermalWF inp) (c : P)
    (hc : ∀ j, pderiv (Sum.inr j : V) c = 0) (i j : Nat)
    (h : (jacEntry inp i j).isZero = true) :
    pderiv (Sum.inr j : V) (emittedPoly c (fex inp i)) = 0 := by
  rw [← jac_eq_pderiv inp hwf c hc i j]
  have : (jacEntry inp i j).terms = [] := List.isEmpty_iff.mp h
  unfold emittedPoly evalEmitted
  split <;> simp [this]

/-- **C02 (ODE modifiers).** For a modifier term with *any* dependency list (0, 1, 2, 3 … species,
    repeated ones included) the Jacobian contribution is the derivative of the added term. -/
theorem modJac_eq_pderiv (m : OdeMod) (i j : Nat) :
    toPoly (modJac m i j) = pderiv (Sum.inr j : V) (toPoly (modRhs m i)) :=
  (pderiv_modRhs m i j).symm

/-! ### non-vacuity -/

/-- `H + H → H2`: ∂(dH/dt)/∂H is `−4 k y_H` (two loss terms, each differentiating to `2 y_H`)
    – the model emits four terms `− k*y_H`. -/
example : jacEntry ⟨2, [⟨[0,0],[1]⟩], [], [], []⟩ 0 0 =
    ⟨false, List.replicate 4 ⟨true, .k 0, [0]⟩⟩ := by decide

/-- a modifier depending on two species, one repeated: `+(f)*y0*y0*y2` -/
example : modJac ⟨1, "f", [0,0,2]⟩ 1 0 = List.replicate 2 ⟨false, .user "f", [0,2]⟩ := by decide

example : ThermalWF ⟨3, [], [], [], [[0,2]]⟩ := by
  constructor <;> simp

end
end Naunet.C02
