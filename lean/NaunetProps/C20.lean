/-
  C20 — project configuration round trip: what is configured is what is rendered.
  (tomlkit's dump / load is trusted as the identity on the TOML tree; the theorems are about the option syntax)
-/
import NaunetModel.Config
import NaunetProps.Lemmas.CodecLemmas

namespace Naunet.C20
open Naunet.Codec Naunet.Cfg

/-- an item that the option syntax can carry: no whitespace, no list separator, not empty -/
def ItemOK (x : Str) : Prop := NoWs x ∧ ',' ∉ x ∧ x ≠ []

theorem filter_nonempty_self (items : List Str) (h : ∀ x ∈ items, x ≠ []) :
    items.filter (fun e => !e.isEmpty) = items := by
  apply List.filter_eq_self.mpr
  intro x hx
  cases x with
  | nil => exact absurd rfl (h [] hx)
  | cons a t => rfl

theorem map_strip_self (items : List Str) (h : ∀ x ∈ items, NoWs x) : items.map strip = items := by
  induction items with
  | nil => rfl
  | cons x xs ih =>
    simp only [List.map_cons]
    rw [strip_clean x (h x (by simp)), ih (fun y hy => h y (List.mem_cons_of_mem _ hy))]

/-- **C20 (lists).** For every list of separator-free items – elements, pseudo-elements, allowed and
    extra species, files, formats, heating / cooling names – reading back the written option string gives
    exactly the list, the empty list included. -/
theorem parseList_showList (items : List Str) (h : ∀ x ∈ items, ItemOK x) : parseList (showList items) = items := by
  unfold parseList showList
  cases items with
  | nil => simp [joinC, splitOnC]
  | cons a rest =>
    rw [splitOnC_joinC ',' (a :: rest) (by simp) (fun f hf => (h f hf).2.1),
      filter_nonempty_self _ (fun x hx => (h x hx).2.2), map_strip_self _ (fun x hx => (h x hx).1)]

/-- keys and values of a table: additionally free of the key/value separator -/
def KVOK (sep : Char) (p : Str × Str) : Prop :=
  NoWs p.1 ∧ NoWs p.2 ∧ ',' ∉ p.1 ∧ ',' ∉ p.2 ∧ sep ∉ p.1 ∧ sep ∉ p.2 ∧ p.1 ≠ []

theorem strip_space_clean (v : Str) (h : NoWs v) : strip (' ' :: v) = v := by
  have := strip_padLeft (v.length + 1) v h
  simpa [padLeft] using this

theorem parseKV_entry (sep : Char) (p : Str × Str) (h : KVOK sep p) (hsep : sep ≠ ' ') :
    (match splitOnC sep (p.1 ++ sep :: ' ' :: p.2) with
      | k :: v :: _ => some (strip k, strip v)
      | _ => none) = some p := by
  obtain ⟨h1, h2, _, _, h5, h6, _⟩ := h
  rw [splitOnC_append_sep sep p.1 _ h5]
  have : sep ∉ (' ' :: p.2) := by
    intro hm
    rcases List.mem_cons.mp hm with e | e
    · exact hsep e
    · exact h6 e
  rw [splitOnC_noSep sep _ this]
  simp only [strip_clean p.1 h1, strip_space_clean p.2 h2]

/-- **C20 (key / value tables).** Element replacements and shielding choices written as `key: value,…` are
    read back as exactly the same table. -/
theorem parseKV_showKV (sep : Char) (hsep : sep ≠ ' ') (hsc : sep ≠ ',') (pairs : List (Str × Str))
    (h : ∀ p ∈ pairs, KVOK sep p) : parseKV sep (showKV sep pairs) = some pairs := by
  unfold parseKV showKV
  cases pairs with
  | nil => simp [joinC, splitOnC]
  | cons a rest =>
    have hnc : ∀ f ∈ (a :: rest).map (fun p => p.1 ++ sep :: ' ' :: p.2), ',' ∉ f := by
      intro f hf
      obtain ⟨p, hp, rfl⟩ := List.mem_map.mp hf
      obtain ⟨_, _, h3, h4, _⟩ := h p hp
      intro hm
      rcases List.mem_append.mp hm with e | e
      · exact h3 e
      · rcases List.mem_cons.mp e with e | e
        · exact hsc e.symm
        · rcases List.mem_cons.mp e with e | e
          · exact absurd e (by decide)
          · exact h4 e
    rw [splitOnC_joinC ',' _ (by simp) hnc]
    have hne : ∀ x ∈ (a :: rest).map (fun p => p.1 ++ sep :: ' ' :: p.2), x ≠ [] := by
      intro x hx
      obtain ⟨p, _, rfl⟩ := List.mem_map.mp hx
      simp
    rw [filter_nonempty_self _ hne, List.mapM_map]
    have : ∀ (l : List (Str × Str)), (∀ p ∈ l, KVOK sep p) →
        l.mapM ((fun r => match splitOnC sep r with | k :: v :: _ => some (strip k, strip v) | _ => none) ∘
          fun p => p.1 ++ sep :: ' ' :: p.2) = some l := by
      intro l hl
      induction l with
      | nil => rfl
      | cons q qs ih =>
        rw [List.mapM_cons]
        simp only [Function.comp]
        rw [parseKV_entry sep q (hl q (by simp)) hsep, ih (fun p hp => hl p (List.mem_cons_of_mem _ hp))]
        rfl
    exact this (a :: rest) h

/-- **C20 (whole description).** A description whose items are free of the option syntax's separators
    survives the path through the option strings unchanged, field by field. -/
theorem config_roundtrip (d : Desc)
    (h1 : ∀ x ∈ d.elements, ItemOK x) (h2 : ∀ x ∈ d.pseudo, ItemOK x) (h3 : ∀ p ∈ d.replacement, KVOK ':' p)
    (h4 : ∀ x ∈ d.allowed, ItemOK x) (h5 : ∀ x ∈ d.required, ItemOK x) (h6 : ∀ x ∈ d.heating, ItemOK x)
    (h7 : ∀ x ∈ d.cooling, ItemOK x) (h8 : ∀ p ∈ d.shielding, KVOK ':' p) (h9 : ∀ x ∈ d.files, ItemOK x)
    (h10 : ∀ x ∈ d.formats, ItemOK x) :
    readOptions (showList d.elements) (showList d.pseudo) (showKV ':' d.replacement) (showList d.allowed)
      (showList d.required) (showList d.heating) (showList d.cooling) (showKV ':' d.shielding) (showList d.files)
      (showList d.formats) = some d := by
  unfold readOptions
  rw [parseKV_showKV ':' (by decide) (by decide) _ h3, parseKV_showKV ':' (by decide) (by decide) _ h8]
  simp only [parseList_showList _ h1, parseList_showList _ h2, parseList_showList _ h4, parseList_showList _ h5,
    parseList_showList _ h6, parseList_showList _ h7, parseList_showList _ h9, parseList_showList _ h10]
  rfl

/-- a value containing the list separator is *split*, not carried: outside the quantifier of the round trip -/
theorem separator_splits : parseList "a,b".toList = ["a".toList, "b".toList] := by decide

/-! ### non-vacuity -/
example : parseList (showList ["H".toList, "He".toList, "C".toList]) = ["H".toList, "He".toList, "C".toList] := by decide
example : parseKV ':' (showKV ':' [("HE".toList, "He".toList), ("MG".toList, "Mg".toList)]) =
    some [("HE".toList, "He".toList), ("MG".toList, "Mg".toList)] := by decide

end Naunet.C20
