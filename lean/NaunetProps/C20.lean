/-
  C20 — project configuration round trip: what is configured is what is rendered.
  (tomlkit's dump / load is trusted as the identity on the TOML tree; the theorems are about the option syntax)
-/
import NaunetModel.Config
import NaunetProps.Lemmas.CodecLemmas

namespace Naunet.C20
open Naunet.Codec Naunet.Cfg

/-- an item that the option syntax can carry: no whitespace, no list separator, not empty -/
def ItemOK (x : Str) : Prop := NoWs x ∧ ',' ∉ x ∧ x ≠ []

theorem filter_nonempty_self (items : List Str) (h : ∀ x ∈ items, x ≠ []) :
    items.filter (fun e => !e.isEmpty) = items := by
  apply List.filter_eq_self.mpr
  intro x hx
  cases x with
  | nil => exact absurd rfl (h [] hx)
  | cons a t => rfl

theorem map_strip_self (items : List Str) (h : ∀ x ∈ items, NoWs x) : items.map strip = items := by
  induction items with
  | nil => rfl
  | cons x xs ih =>
    simp only [List.map_cons]
    rw [strip_clean x (h x (by simp)), ih (fun y hy => h y (List.mem_cons_of_mem _ hy))]

/-- **C20 (lists).** For every list of separator-free items – elements, pseudo-elements, allowed and
    extra species, files, formats, heating / cooling names – reading back the written option string gives
    exactly the list, the empty list included. -/
theorem parseList_showList (items : List Str) (h : ∀ x ∈ items, ItemOK x) : parseList (showList items) = items := by
  unfold parseList showList
  cases items with
  | nil => simp [joinC, splitOnC]
  | cons a rest =>
    rw [splitOnC_joinC ',' (a :: rest) (by simp) (fun f hf => (h f hf).2.1),
      filter_nonempty_self _ (fun x hx => (h x hx).2.2), map_strip_self _ (fun x hx => (h x hx).1)]

/-- keys and values of a table: additionally free of the key/value separator -/
def KVOK (sep : Char) (p : Str × Str) : Prop :=
  NoWs p.1 ∧ NoWs p.2 ∧ ',' ∉ p.1 ∧ ',' ∉ p.2 ∧ sep ∉ p.1 ∧ sep ∉ p.2 ∧ p.1 ≠ []

theorem strip_space_clean (v : Str) (h : NoWs v) : strip (' ' :: v) = v := by
  have := strip_padLeft (v.length + 1) v h
  simpa [padLeft] using this

theorem parseKV_entry (sep : Char) (p : Str × Str) (h : KVOK sep p) (hsep : sep ≠ ' ') :
    (match splitOnC sep (p.1 ++ sep :: ' ' :: p.2) with
      | k :: v :: _ => some (strip k, strip v)
      | _ => none) = some p := by
  obtain ⟨h1, h2, _, _, h5, h6, _⟩ := h
  rw [splitOnC_append_sep sep p.1 _ h5]
  have : sep ∉ (' ' :: p.2) := by
    intro hm
    rcases List.mem_cons.mp hm with e | e
    · exact hsep e
    · exact h6 e
  rw [splitOnC_noSep sep _ this]
  simp only [strip_clean p.1 h1, strip_space_clean p.2 h2]

/-- **C20 (key / value tables).** Element replacements and shielding choices written as `key: value,…` are
    read back as exactly the same table. -/
theorem parseKV_showKV (sep : Char) (hsep : sep ≠ ' ') (hsc : sep ≠ ',') (pairs : List (Str × Str))
    (h : ∀ p ∈ pairs, KVOK sep p) : parseKV sep (showKV sep pairs) = some pairs := by
  unfold parseKV showKV
  cases pairs with
  | nil => simp [joinC, splitOnC]
  | cons a rest =>
    have hnc : ∀ f ∈ (a :: rest).map (fun p => p.1 ++ sep :: ' ' :: p.2), ',' ∉ f := by
      intro f hf
      obtain ⟨p, hp, rfl⟩ := List.mem_map.mp hf
      obtain ⟨_, _, h3, h4, _⟩ := h p hp
      intro hm
      rcases List.mem_append.mp hm with e | e
      · exact h3 e
      · rcases List.mem_cons.mp e with e | e
        · exact hsc e.symm
        · rcases List.mem_cons.mp e with e | e
          · exact absurd e (by decide)
          · exact h4 e
    rw [splitOnC_joinC ',' _ (by simp) hnc]
    have hne : ∀ x ∈ (a :: rest).map (fun p => p.1 ++ sep :: ' ' :: p.2), x ≠ [] := by
      intro x hx
      obtain ⟨p, _, rfl⟩ := List.mem_map.mp hx
      simp
    rw [filter_nonempty_self _ hne, List.mapM_map]
    have : ∀ (l : List (Str × Str)), (∀ p ∈ l, KVOK sep p) →
        l.mapM ((fun r => match splitOnC sep r with | k :: v :: _ => some (strip k, strip v) | _ => none) ∘
          fun p => p.1 ++ sep :: ' ' :: p.2) = some l := by
      intro l hl
      induction l with
      | nil => rfl
      | cons q qs ih =>
        rw [List.mapM_cons]
        simp only [Function.comp]
        rw [parseKV_entry sep q (hl q (by simp)) hsep, ih (fun p hp => hl p (List.mem_cons_of_mem _ hp))]
        rfl
    exact this (a :: rest) h

/-- **C20 (whole description).** A description whose items are free of the option syntax's separators
    survives the path through the option strings unchanged, field by field. -/
theorem config_roundtrip (d : Desc)
    (h1 : ∀ x ∈ d.elements, ItemOK x) (h2 : ∀ x ∈ d.pseudo, ItemOK x) (h3 : ∀ p ∈ d.replacement, KVOK ':' p)
    (h4 : ∀ x ∈ d.allowed, ItemOK x) (h5 : ∀ x ∈ d.required, ItemOK x) (h6 : ∀ x ∈ d.heating, ItemOK x)
    (h7 : ∀ x ∈ d.cooling, ItemOK x) (h8 : ∀ p ∈ d.shielding, KVOK ':' p) (h9 : ∀ x ∈ d.files, ItemOK x)
    (h10 : ∀ x ∈ d.formats, ItemOK x) :
    readOptions (showList d.elements) (showList d.pseudo) (showKV ':' d.replacement) (showList d.allowed)
      (showList d.required) (showList d.heating) (showList d.cooling) (showKV ':' d.shielding) (showList d.files)
      (showList d.formats) = some d := by
  unfold readOptions
  rw [parseKV_showKV ':' (by decide) (by decide) _ h3, parseKV_showKV ':' (by decide) (by decide) _ h8]
  simp only [parseList_showList _ h1, parseList_showList _ h2, parseList_showList _ h4, parseList_showList _ h5,
    parseList_showList _ h6, parseList_showList _ h7, parseList_showList _ h9, parseList_showList _ h10]
  rfl

/-- a value containing the list separator is *split*, not carried: outside the quantifier of the round trip -/
theorem separator_splits : parseList "a,b".toList = ["a".toList, "b".toList] := by decide

/-! ### non-vacuity -/
example : parseList (showList ["H".toList, "He".toList, "C".toList]) = ["H".toList, "He".toList, "C".toList] := by decide
example : parseKV ':' (showKV ':' [("HE".toList, "He".toList), ("MG".toList, "Mg".toList)]) =
    some [("HE".toList, "He".toList), ("MG".toList, "Mg".toList)] := by decide

/-! ### rate and ODE modifiers -/

/-- trimmed and not empty: first and last character are not blanks (inner blanks are allowed: `2.0 * zeta`) -/
def Trimmed (s : Str) : Prop := ∃ a z, s.head? = some a ∧ s.getLast? = some z ∧ isWs a = false ∧ isWs z = false

theorem Trimmed.strip {s : Str} (h : Trimmed s) : strip s = s := by
  obtain ⟨a, z, h1, h2, ha, hz⟩ := h
  exact strip_of_head_last s a z h1 h2 ha hz

theorem Trimmed.ne_nil {s : Str} (h : Trimmed s) : s ≠ [] := by
  obtain ⟨a, _, h1, _⟩ := h
  intro e; subst e; simp at h1

/-- what a rate-modifier entry must look like to be carried: key and value trimmed, free of `,` and `:` -/
def RateOK (p : Str × Str) : Prop :=
  Trimmed p.1 ∧ Trimmed p.2 ∧ ',' ∉ p.1 ∧ ',' ∉ p.2 ∧ ':' ∉ p.1 ∧ ':' ∉ p.2

theorem trimmed_piece (p : Str × Str) (h : RateOK p) : Trimmed (p.1 ++ ':' :: p.2) := by
  obtain ⟨⟨a, _, h1, _, ha, _⟩, ⟨_, z, _, h2, _, hz⟩, _⟩ := h
  refine ⟨a, z, ?_, ?_, ha, hz⟩
  · cases hp : p.1 with
    | nil => rw [hp] at h1; simp at h1
    | cons x xs => rw [hp] at h1; simpa using h1
  · rw [List.getLast?_append_of_ne_nil _ (by simp)]
    cases hp : p.2 with
    | nil => rw [hp] at h2; simp at h2
    | cons x xs => rw [hp] at h2; rw [List.getLast?_cons_of_ne_nil (by simp)]; exact h2

theorem parseRatePiece_show (p : Str × Str) (h : RateOK p) : parseRatePiece (p.1 ++ ':' :: p.2) = some p := by
  unfold parseRatePiece
  obtain ⟨h1, h2, _, _, h5, h6⟩ := h
  rw [splitOnC_append_sep ':' p.1 _ h5, splitOnC_noSep ':' _ h6]
  simp only [h1.strip, h2.strip]

/-- **C20 (rate modifiers).** A non-empty table of rate modifiers written as `idx:expr,idx:expr,…` is read back as exactly
    the same sequence of entries – for every expression that is trimmed and free of `,` and `:` (blanks inside are kept). -/
theorem parseRateMod_show (pairs : List (Str × Str)) (hne : pairs ≠ []) (h : ∀ p ∈ pairs, RateOK p) :
    parseRateMod [showRateMod pairs] = some pairs := by
  unfold parseRateMod showRateMod
  simp only [List.flatMap_cons, List.flatMap_nil, List.append_nil]
  have hnc : ∀ f ∈ pairs.map (fun p => p.1 ++ ':' :: p.2), ',' ∉ f := by
    intro f hf
    obtain ⟨p, hp, rfl⟩ := List.mem_map.mp hf
    obtain ⟨_, _, h3, h4, _⟩ := h p hp
    intro hm
    rcases List.mem_append.mp hm with e | e
    · exact h3 e
    · rcases List.mem_cons.mp e with e | e
      · exact absurd e (by decide)
      · exact h4 e
  rw [splitOnC_joinC ',' _ (by simpa using hne) hnc]
  have : ∀ (l : List (Str × Str)), (∀ p ∈ l, RateOK p) →
      ((l.map (fun p => p.1 ++ ':' :: p.2)).map strip).mapM parseRatePiece = some l := by
    intro l hl
    induction l with
    | nil => rfl
    | cons q qs ih =>
      simp only [List.map_cons, List.mapM_cons]
      rw [(trimmed_piece q (hl q (by simp))).strip, parseRatePiece_show q (hl q (by simp)),
        ih (fun p hp => hl p (List.mem_cons_of_mem _ hp))]
      rfl
  exact this pairs h

/-- a piece without `:` is refused (IndexError in the code), an expression containing `,` is cut there:
    both are outside the quantifier of the round trip -/
theorem rate_piece_without_colon : parseRateMod ["3".toList] = none := by decide
theorem rate_value_with_comma : parseRateMod ["3:pow(Tgas, 0.5)".toList] = none := by decide

theorem dictSet_fresh (d : List (Str × Str)) (k v : Str) (h : ∀ p ∈ d, p.1 ≠ k) : dictSet d k v = d ++ [(k, v)] := by
  unfold dictSet
  have : d.any (fun p => p.1 == k) = false := by
    rw [List.any_eq_false]; intro p hp; simpa using h p hp
  simp [this]

/-- with distinct keys the dictionary is the sequence itself -/
theorem dictOf_nodup (ps : List (Str × Str)) (h : (ps.map (·.1)).Nodup) : dictOf ps = ps := by
  unfold dictOf
  have : ∀ (acc l : List (Str × Str)), ((acc ++ l).map (·.1)).Nodup →
      l.foldl (fun d p => dictSet d p.1 p.2) acc = acc ++ l := by
    intro acc l
    induction l generalizing acc with
    | nil => intro _; simp
    | cons q qs ih =>
      intro hnd
      simp only [List.foldl_cons]
      have hfresh : ∀ p ∈ acc, p.1 ≠ q.1 := by
        intro p hp e
        rw [List.map_append, List.map_cons] at hnd
        have := (List.nodup_append.mp hnd).2.2 (p.1) (List.mem_map_of_mem hp) (q.1) (by simp)
        exact this e
      rw [dictSet_fresh acc q.1 q.2 hfresh]
      have := ih (acc ++ [(q.1, q.2)]) (by simpa [List.append_assoc] using hnd)
      simpa [List.append_assoc] using this
  simpa using this [] ps (by simpa using h)

/-- what an ODE-modifier term must look like: the target free of `:` and `;`, the factor free of `:` `,` `;`,
    every dependency a blank-free, non-empty word without brackets and separators -/
def DepOK (x : Str) : Prop := NoWs x ∧ x ≠ [] ∧ '[' ∉ x ∧ ']' ∉ x ∧ ',' ∉ x ∧ ':' ∉ x ∧ ';' ∉ x
def TermOK (t : OdeTerm) : Prop :=
  ':' ∉ t.key ∧ ';' ∉ t.key ∧ ':' ∉ t.fact ∧ ',' ∉ t.fact ∧ ';' ∉ t.fact ∧ ∀ x ∈ t.deps, DepOK x

theorem not_mem_joinC (c s : Char) (hcs : c ≠ s) (fs : List Str) (h : ∀ f ∈ fs, c ∉ f) : c ∉ joinC s fs := by
  induction fs with
  | nil => simp [joinC]
  | cons f fs ih =>
    cases fs with
    | nil => simpa [joinC] using h f (by simp)
    | cons g rest =>
      simp only [joinC]
      intro hm
      rcases List.mem_append.mp hm with e | e
      · exact h f (by simp) e
      · rcases List.mem_cons.mp e with e | e
        · exact hcs e
        · exact ih (fun x hx => h x (List.mem_cons_of_mem _ hx)) e

theorem dropBrackets_clean (s : Str) (h1 : '[' ∉ s) (h2 : ']' ∉ s) : dropBrackets s = s := by
  unfold dropBrackets
  apply List.filter_eq_self.mpr
  intro c hc
  have a : c ≠ '[' := fun e => h1 (e ▸ hc)
  have b : c ≠ ']' := fun e => h2 (e ▸ hc)
  simp [a, b]

theorem dropBrackets_wrapped (s : Str) (h1 : '[' ∉ s) (h2 : ']' ∉ s) : dropBrackets ('[' :: (s ++ [']'])) = s := by
  have := dropBrackets_clean s h1 h2
  unfold dropBrackets at *
  simp [List.filter_append, this]

theorem head?_joinC (c : Char) (f : Str) (fs : List Str) (hne : f ≠ []) : (joinC c (f :: fs)).head? = f.head? := by
  cases fs with
  | nil => simp [joinC]
  | cons g rest =>
    simp only [joinC]
    cases f with
    | nil => exact absurd rfl hne
    | cons a b => simp

theorem strip_joinC_deps (deps : List Str) (h : ∀ x ∈ deps, DepOK x) : strip (joinC ' ' deps) = joinC ' ' deps := by
  cases deps with
  | nil => decide
  | cons f fs =>
    have hf := h f (by simp)
    obtain ⟨a, ha⟩ : ∃ a, f.head? = some a := by
      cases f with
      | nil => exact absurd rfl hf.2.1
      | cons a b => exact ⟨a, rfl⟩
    have hl : ∃ g, (f :: fs).getLast? = some g := ⟨(f :: fs).getLast (by simp), List.getLast?_eq_some_getLast (by simp)⟩
    obtain ⟨g, hg⟩ := hl
    have hgm : g ∈ f :: fs := List.mem_of_getLast? hg
    have hgo := h g hgm
    obtain ⟨z, hz⟩ : ∃ z, g.getLast? = some z := by
      cases hgl : g.getLast? with
      | none => exact absurd (List.getLast?_eq_none_iff.mp hgl) hgo.2.1
      | some z => exact ⟨z, rfl⟩
    apply strip_of_head_last _ a z
    · rw [head?_joinC ' ' f fs hf.2.1]; exact ha
    · rw [getLast?_joinC ' ' (f :: fs) g hg hgo.2.1]; exact hz
    · exact hf.1 a (List.mem_of_head? ha)   -- first character of a blank-free word
    · exact hgo.1 z (List.mem_of_getLast? hz)

theorem parseOdeTerm_show (t : OdeTerm) (h : TermOK t) : parseOdeTerm (showOdeBody t) = some t := by
  obtain ⟨hk1, _, hf1, hf2, _, hd⟩ := h
  unfold parseOdeTerm showOdeBody
  have hj1 : ':' ∉ joinC ' ' t.deps := not_mem_joinC ':' ' ' (by decide) _ (fun x hx => (hd x hx).2.2.2.2.2.1)
  have hj2 : ',' ∉ joinC ' ' t.deps := not_mem_joinC ',' ' ' (by decide) _ (fun x hx => (hd x hx).2.2.2.2.1)
  have hj3 : '[' ∉ joinC ' ' t.deps := not_mem_joinC '[' ' ' (by decide) _ (fun x hx => (hd x hx).2.2.1)
  have hj4 : ']' ∉ joinC ' ' t.deps := not_mem_joinC ']' ' ' (by decide) _ (fun x hx => (hd x hx).2.2.2.1)
  have hv : ':' ∉ t.fact ++ ',' :: '[' :: (joinC ' ' t.deps ++ [']']) := by
    intro hm
    rcases List.mem_append.mp hm with e | e
    · exact hf1 e
    · simp only [List.mem_cons, List.mem_append, List.mem_nil_iff, or_false] at e
      rcases e with e | e | e | e
      · exact absurd e (by decide)
      · exact absurd e (by decide)
      · exact hj1 e
      · exact absurd e (by decide)
  rw [splitOnC_append_sep ':' t.key _ hk1, splitOnC_noSep ':' _ hv]
  have hr : ',' ∉ '[' :: (joinC ' ' t.deps ++ [']']) := by
    intro hm
    simp only [List.mem_cons, List.mem_append, List.mem_nil_iff, or_false] at hm
    rcases hm with e | e | e
    · exact absurd e (by decide)
    · exact hj2 e
    · exact absurd e (by decide)
  simp only []
  rw [splitOnC_append_sep ',' t.fact _ hf2, splitOnC_noSep ',' _ hr]
  simp only []
  rw [dropBrackets_wrapped _ hj3 hj4, strip_joinC_deps _ hd, words_joinC_space _ (fun f hf => ⟨(hd f hf).1, (hd f hf).2.1⟩)]

theorem showOdeBody_ne_nil (t : OdeTerm) : showOdeBody t ≠ [] := by
  unfold showOdeBody; simp

theorem showOdeBody_noSemi (t : OdeTerm) (h : TermOK t) : ';' ∉ showOdeBody t := by
  obtain ⟨_, hk2, _, _, hf3, hd⟩ := h
  unfold showOdeBody
  have hj : ';' ∉ joinC ' ' t.deps := not_mem_joinC ';' ' ' (by decide) _ (fun x hx => (hd x hx).2.2.2.2.2.2)
  intro hm
  simp only [List.mem_cons, List.mem_append, List.mem_nil_iff, or_false] at hm
  rcases hm with e | e | e | e | e | e | e
  · exact hk2 e
  · exact absurd e (by decide)
  · exact hf3 e
  · exact absurd e (by decide)
  · exact absurd e (by decide)
  · exact hj e
  · exact absurd e (by decide)

/-- **C20 (ODE modifiers, one occurrence).** Terms written as `target:factor,[dep dep …];` – any number of them in one option
    string – are read back as exactly the same terms in the same order. -/
theorem parseOdeOcc_show (ts : List OdeTerm) (h : ∀ t ∈ ts, TermOK t) :
    parseOdeOcc (splitOnC ';' (showOdeOcc ts)) = some ts := by
  induction ts with
  | nil => rfl
  | cons t ts ih =>
    have ht := h t (by simp)
    simp only [showOdeOcc]
    rw [splitOnC_append_sep ';' _ _ (showOdeBody_noSemi t ht)]
    simp only [parseOdeOcc]
    have hne : (showOdeBody t).isEmpty = false := by
      cases hb : showOdeBody t with
      | nil => exact absurd hb (showOdeBody_ne_nil t)
      | cons a b => rfl
    rw [hne, parseOdeTerm_show t ht, ih (fun x hx => h x (List.mem_cons_of_mem _ hx))]
    rfl

/-- **C20 (ODE modifiers, several occurrences).** However the terms are distributed over repeated `--ode-modifier` options,
    the terms read are the concatenation, in order. -/
theorem parseOdeMod_show (occs : List (List OdeTerm)) (h : ∀ ts ∈ occs, ∀ t ∈ ts, TermOK t) :
    parseOdeMod (occs.map showOdeOcc) = some occs.flatten := by
  unfold parseOdeMod
  have : (occs.map showOdeOcc).mapM (fun l => parseOdeOcc (splitOnC ';' l)) = some occs := by
    induction occs with
    | nil => rfl
    | cons o os ih =>
      simp only [List.map_cons, List.mapM_cons]
      rw [parseOdeOcc_show o (h o (by simp)), ih (fun ts hts => h ts (List.mem_cons_of_mem _ hts))]
      rfl
  rw [this]; rfl

/-- the grouping does not depend on where the option strings were cut -/
theorem group_independent_of_cuts (occs occs' : List (List OdeTerm)) (he : occs.flatten = occs'.flatten)
    (h : ∀ ts ∈ occs, ∀ t ∈ ts, TermOK t) (h' : ∀ ts ∈ occs', ∀ t ∈ ts, TermOK t) :
    (parseOdeMod (occs.map showOdeOcc)).map groupTerms = (parseOdeMod (occs'.map showOdeOcc)).map groupTerms := by
  rw [parseOdeMod_show occs h, parseOdeMod_show occs' h', he]

/-- an empty piece ends the occurrence: terms after `;;` are dropped silently (the code says `break`) -/
theorem empty_piece_ends : parseOdeOcc (splitOnC ';' "A:f,[B];;C:g,[D];".toList) =
    some [⟨"A".toList, "f".toList, ["B".toList]⟩] := by decide

/-! non-vacuity -/
example : parseRateMod [showRateMod [("3".toList, "2.0 * zeta".toList), ("7".toList, "0.0".toList)]] =
    some [("3".toList, "2.0 * zeta".toList), ("7".toList, "0.0".toList)] := by decide
example : parseOdeMod [showOdeOcc [⟨"H2".toList, "0.5 * hloss".toList, ["H".toList]⟩, ⟨"H".toList, "-hloss".toList, ["H".toList, "H2".toList]⟩]] =
    some [⟨"H2".toList, "0.5 * hloss".toList, ["H".toList]⟩, ⟨"H".toList, "-hloss".toList, ["H".toList, "H2".toList]⟩] := by decide
example : groupTerms [⟨"H".toList, "a".toList, []⟩, ⟨"G".toList, "b".toList, []⟩, ⟨"H".toList, "c".toList, [["x"].head!.toList]⟩] =
    [("H".toList, ["a".toList, "c".toList], [[], ["x".toList]]), ("G".toList, ["b".toList], [[]])] := by decide

end Naunet.C20
