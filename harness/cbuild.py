"""Compile rendered naunet sources against /verif/shim (SUNDIALS / Boost stand-ins)."""
from __future__ import annotations
import subprocess
from pathlib import Path
from .common import ROOT

SHIM = ROOT / "shim"
CXX = ["g++", "-std=c++17", "-w"]


def sources(path: Path):
    return sorted((Path(path) / "src").glob("*.cpp"))


def syntax_only(path: Path, files=None, extra_flags=()):
    """g++ -fsyntax-only on every rendered .cpp; returns list of (file, stderr) for failures"""
    path = Path(path)
    bad = []
    for f in files or sources(path):
        r = subprocess.run([*CXX, "-fsyntax-only", f"-I{SHIM/'include'}", f"-I{path/'include'}", *extra_flags, str(f)],
                           capture_output=True, text=True)
        if r.returncode != 0:
            bad.append((f.name, r.stderr))
    return bad


def build(path: Path, driver: Path, out: Path, backend: str, files=None, sanitize=False, defines=()):
    path = Path(path)
    srcs = [str(f) for f in (files if files is not None else sources(path))]
    shim_src = [str(SHIM / "sundials_shim.cpp")] if backend != "rosenbrock4" else [str(SHIM / "odeint_shim.cpp")]
    flags = ["-O0", "-g"] + (["-fsanitize=address,undefined", "-fno-sanitize-recover=undefined"] if sanitize else [])
    cmd = [*CXX, *flags, *[f"-D{d}" for d in defines], f"-I{SHIM/'include'}", f"-I{path/'include'}", *srcs, *shim_src,
           str(driver), "-o", str(out), "-lm"]
    r = subprocess.run(cmd, capture_output=True, text=True)
    return r.returncode == 0, r.stderr
