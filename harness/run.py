"""entry point: python -m harness.run <Cxx> <quick|thorough|--replay file>"""
import sys


def main():
    if len(sys.argv) < 2:
        print("usage: check <Cxx> <quick|thorough|--replay file>")
        return 2
    pid = sys.argv[1]
    rest = sys.argv[2:]
    if rest and rest[0] == "--replay":
        from . import replay
        return replay.run(pid, rest[1])
    if pid in ("C01", "C02", "C03", "C04", "C13"):
        from . import ode_checks
        return ode_checks.run(pid, rest)
    if pid in ("C14", "C15"):
        from . import net_checks
        return {"C14": net_checks.run_c14, "C15": net_checks.run_c15}[pid](rest)
    if pid in ("C07", "C18"):
        from . import codec_checks
        return {"C07": codec_checks.run_c07, "C18": codec_checks.run_c18}[pid](rest)
    if pid in ("C08", "C09"):
        from . import species_checks
        return {"C08": species_checks.run_c08, "C09": species_checks.run_c09}[pid](rest)
    if pid == "C05":
        from . import c05
        return c05.run(rest)
    if pid == "C06":
        from . import c06
        return c06.run(rest)
    if pid == "C10":
        from . import c10
        return c10.run(rest)
    if pid == "C11":
        from . import c11
        return c11.run(rest)
    if pid == "C12":
        from . import c12
        return c12.run(rest)
    if pid == "C16":
        from . import c16
        return c16.run(rest)
    if pid == "C17":
        from . import c17
        return c17.run(rest)
    if pid == "C20":
        from . import c20
        return c20.run(rest)
    if pid == "C19":
        from . import c19
        return c19.run(rest)
    print(f"no check registered for {pid}")
    return 2


def guarded():
    """A check that raises instead of deciding has met output of the generator it cannot interpret: the tie between the model
    and the code is broken at that point.  That is reported like any other broken correspondence - a violation without a
    failing input, the traceback as the replay - not as a crash of the tool."""
    try:
        return main()
    except (KeyboardInterrupt, SystemExit):
        raise
    except BaseException:
        import json
        import os
        import traceback
        from pathlib import Path
        pid = sys.argv[1] if len(sys.argv) > 1 else "unknown"
        tier = next((a for a in sys.argv[2:] if a in ("quick", "thorough")), os.environ.get("VERIF_TIER", "quick"))
        seed = os.environ.get("VERIF_SEED", "0")
        root = Path(__file__).resolve().parent.parent
        rel = Path("replays") / pid / f"{tier}-{seed}-harness-exception.json"
        (root / rel).parent.mkdir(parents=True, exist_ok=True)
        (root / rel).write_text(json.dumps({"property": pid, "tier": tier, "seed": seed, "no_failing_input_found": True,
                                            "broken_correspondence": [{"stage": "harness-exception", "traceback": traceback.format_exc()[-4000:]}],
                                            "note": "the check could not interpret what the implementation produced; nothing is claimed "
                                                    "about the property on this tree"}, indent=1))
        traceback.print_exc()
        print(f"VIOLATION property={pid} replay={rel} no-failing-input-found", flush=True)
        return 1


if __name__ == "__main__":
    sys.exit(guarded())
