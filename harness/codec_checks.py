"""C07 (six formats decoded faithfully) and C18 (native write/read round trip, export + re-render).

impl   : real Network reading generated files / Network.write / re-reading
model  : Lean `Codec.readFile` + decoders, `encodeNative`
oracle : the abstract reactions the generator encoded (ground truth), numeric fields compared as floats
"""
from __future__ import annotations

import math
import os
import sys
from pathlib import Path

from . import ceval, cparse, netgen
from .common import Check, lean_driver, quiet_naunet, silenced, tier_and_seed

quiet_naunet()

C07_THEOREMS = ["Naunet.C07.kida_roundtrip", "Naunet.C07.umist_roundtrip", "Naunet.C07.leeds_roundtrip",
                "Naunet.C07.uclchem_roundtrip_plain", "Naunet.C07.uclchem_roundtrip_marker", "Naunet.C18.native_roundtrip",
                "Naunet.C07.std_roundtrip", "Naunet.C07.directive_no_reaction", "Naunet.C07.data_line", "Naunet.C07.readKrome_append",
                "Naunet.C07.late_directive", "Naunet.C07.comment_keeps_state", "Naunet.C07.indented_comment_no_reaction", "Naunet.C07.markers_never_species",
                "Naunet.C07.readFile_append", "Naunet.C07.readFile_blank", "Naunet.C07.readFile_data",
                "Naunet.Codec.splitOnC_joinC", "Naunet.Codec.words_columns", "Naunet.Codec.words_joinC_space"]
C18_THEOREMS = ["Naunet.C18.native_roundtrip", "Naunet.C18.second_cycle", "Naunet.C18.type_code_shared", "Naunet.C18.F15_witness", "Naunet.Codec.splitOnC_joinC",
                "Naunet.Codec.strip_padLeft", "Naunet.Codec.strip_padRight"]
C07_RULE = ("abstract reactions (1-3 reactants with repeats, 0-5 products, marker tokens, names filling their column, signed and "
            "exponent-notation numbers, every type / formula / code) encoded by the generator's own encoders into KIDA, Leeds, "
            "UMIST, KROME, UCLCHEM and native lines; files with blank, comment and directive lines interleaved; case = one data "
            "line; non-trivial = line has at least 2 species")
C18_RULE = ("networks read from every input format or built through the API, written with Network.write('naunet'), read back, "
            "written again (idempotence), and the re-read network's rate expressions compared numerically with the direct ones; "
            "case = one reaction of one network; non-trivial = reaction has a window, a repeated species or a non-two-body type")

ELEMENTS = ["e", "E", "H", "D", "He", "C", "N", "O", "F", "Na", "Mg", "Al", "Si", "P", "S", "Cl", "Ar", "Ca", "Fe", "Ni"]
PSEUDO = ["CR", "CRP", "XRAY", "Photon", "PHOTON", "CRPHOT", "X", "M", "p", "o", "m", "c-", "l-", r"\*", "g"]

GAS = ["H", "H2", "H+", "H-", "H2+", "H3+", "He", "He+", "C", "C+", "O", "CO", "HCO+", "OH", "H2O", "H3O+", "CH4", "N2", "NH3",
       "N2H+", "Si", "SiO", "Mg+", "e-", "C2H5OH", "CH3OCH3", "HC3N", "Si++++"]
LONG = ["CH3COOCH3", "C2H5OH2+", "CH3CH2CHO", "H2CCCCCCH+"]  # names that fill a column
LONGER = ["CH3CH2CH2CH2OH", "CH3CH2CH2CH2OH2+", "CH3OCH2CH2OCH3", "HCCCCCCCCCCCN"]  # wider than any native column (delimited formats only)


def pick_species(rng, n, pool, allow_repeat=True):
    out = [rng.choice(pool) for _ in range(n)]
    if n >= 2 and allow_repeat and rng.random() < 0.25:
        out[1] = out[0]
    return out


def num(rng, kind, signed=False):
    if kind == "alpha":
        v = rng.choice([1e-10, 2.4e-10, 6.59e-11, 1.0, 9.99e-9, 1.3e-17])
        # a negative pre-factor uses the sign column of a fixed-width field (KIDA: e10.3; the Leeds column has no room for it)
        return -v if signed and rng.random() < 0.25 else v
    if kind == "beta":
        return rng.choice([0.0, 0.5, -0.5, 2.5, -1.0])
    return rng.choice([0.0, 30450.0, 100.5, -5.0, 1.0e4])


def gen_abstract(rng, fmt):
    """abstract reaction for a format (respecting that format's arity limits)"""
    maxre, maxpr = {"kida": (3, 5), "leeds": (3, 5), "umist": (2, 4), "krome": (3, 4), "uclchem": (3, 4), "naunet": (3, 5)}[fmt]
    width = {"kida": 10, "leeds": 9}.get(fmt, 99)
    pool = [s for s in GAS + (LONG + LONGER if rng.random() < 0.3 else []) if len(s) <= width]
    if fmt == "krome":
        pool = [s for s in pool if s not in ("e-",)] + ["E"]
    nre = rng.randint(1, maxre)
    npr = rng.randint(0, maxpr) if fmt not in ("umist",) else rng.randint(1, maxpr)
    re_, pr_ = pick_species(rng, nre, pool), pick_species(rng, npr, pool)
    # surface species (default prefix `#`), also as the very first token of a line
    # (KROME: `#` opens a comment line; Leeds: the class has its own prefix `G`)
    if rng.random() < 0.2 and fmt in ("kida", "umist", "uclchem", "naunet"):
        re_[0] = rng.choice(["#CO", "#H2O", "#H", "#CH4"])
        if pr_ and rng.random() < 0.5:
            pr_[0] = re_[0][1:]
    elif rng.random() < 0.15 and fmt == "leeds":
        re_[0] = rng.choice(["GCO", "GH2O", "GH"])
    # names that fill a fixed-width column completely are legal only in the last column of a block
    if fmt == "kida" and nre == 3 and rng.random() < 0.3:
        re_[2] = "CH3COOCH3H+"
    if fmt == "kida" and npr == 5 and rng.random() < 0.5:
        pr_[4] = "CH3COOCH3H+"
    if fmt == "leeds" and npr == 5 and rng.random() < 0.5:
        pr_[4] = "CH3CH2CHO+"
    r = {"re": re_, "pr": pr_, "pseudo_re": [], "pseudo_pr": [],
         "alpha": num(rng, "alpha", signed=fmt in ("kida", "umist", "uclchem", "naunet")), "beta": num(rng, "beta"), "gamma": num(rng, "gamma"),
         "tmin": rng.choice([-9999.0, 10.0, 5.0, 100.0]), "tmax": rng.choice([9999.0, 300.0, 41000.0, 800.0])}
    shape = rng.random()
    if shape < 0.15:        # a lower bound only (the upper one is the "unbounded" sentinel): tmin > tmax
        r["tmin"], r["tmax"] = rng.choice([300.0, 100.0, 10.0]), -1.0
    elif shape < 0.25:      # an upper bound only
        r["tmin"], r["tmax"] = -1.0, rng.choice([300.0, 800.0])
    if fmt == "leeds" and rng.random() < 0.4:   # numbers that use every character of their column
        r["beta"], r["gamma"], r["tmin"], r["tmax"] = -12345.68, -1234567.5, 10000.0, 41000.0
    return r


# ---------------------------------------------------------------------------- encoders (generator's own)


def enc_kida(r, idx, formula):
    re_ = r["re"] + r["pseudo_re"]
    rs = "".join(f"{x:<11}" for x in re_ + [""] * (3 - len(re_)))
    ps = "".join(f"{x:<11}" for x in r["pr"] + r["pseudo_pr"] + [""] * (5 - len(r["pr"]) - len(r["pseudo_pr"])))
    return (f"{rs} {ps} {r['alpha']:10.3e} {r['beta']:10.3e} {r['gamma']:10.3e} 2.00e+00 0.00e+00 logn  4 "
            f"{int(r['tmin']):>6d} {int(r['tmax']):>6d} {formula:>2d} {idx:>5d} 1  1")


def enc_umist(r, idx, code):
    re_ = r["re"] + r["pseudo_re"]
    sp = re_ + [""] * (2 - len(re_)) + r["pr"] + r["pseudo_pr"] + [""] * (4 - len(r["pr"]) - len(r["pseudo_pr"]))
    return ":".join([str(idx), code, *sp, "1", f"{r['alpha']:.2e}", f"{r['beta']:.2f}", f"{r['gamma']:.1f}", f"{r['tmin']:g}",
                     f"{r['tmax']:g}", "L", "C", '"10.1086/190919"', "", ""])


def enc_leeds(r, idx, rtype):
    re_ = r["re"] + r["pseudo_re"]
    rs = "".join(f"{x:<10}" for x in re_ + [""] * (3 - len(re_)))
    ps = "".join(f"{x:<10}" for x in r["pr"] + r["pseudo_pr"] + [""] * (5 - len(r["pr"]) - len(r["pseudo_pr"])))
    return f"{idx:<5d}{rs}{ps}{r['alpha']:8.2E}{r['beta']:9.2f}{r['gamma']:10.1f}{int(max(r['tmin'], 0)):5d}{int(r['tmax']):5d}{rtype:3d}"


def enc_uclchem(r, marker):
    re_ = list(r["re"])
    if marker:
        re_ = re_[:1] + [marker] + re_[1:2]
    re_ = re_ + ["NAN"] * (3 - len(re_))
    pr_ = r["pr"] + r.get("ucl_marker_products", [])
    pr_ = pr_ + ["NAN"] * (4 - len(pr_))
    return ",".join([*re_, *pr_, f"{r['alpha']:.2e}", f"{r['beta']:.2f}", f"{r['gamma']:.1f}", f"{r['tmin']:g}", f"{r['tmax']:g}"])


def enc_native(r, idx, rtype, source="test"):
    re_ = r["re"] + r["pseudo_re"]
    pr_ = r["pr"] + r["pseudo_pr"]
    return ",".join([f"{idx:<5}", *[f"{x:>12}" for x in re_ + [""] * (3 - len(re_))], *[f"{x:>12}" for x in pr_ + [""] * (5 - len(pr_))],
                     f"{r['alpha']:10.3e}", f"{r['beta']:10.3e}", f"{r['gamma']:10.3e}", f"{r['tmin']:9.2f}", f"{r['tmax']:9.2f}",
                     f"{rtype:>4}", f"{source:>8}"])


def enc_krome(r, idx, fmtkeys):
    # an absent bound is a keyword or - as KIDA-derived files and naunet's own KROME writer spell it - the sentinel -9999
    tmin_txt = f"{r['tmin']:g}" if r["tmin"] > 0 else r.get("krome_tmin_text", "NONE")
    vals = {"idx": str(idx), "tmin": tmin_txt, "tmax": r.get("krome_tmax_text") or (f"{r['tmax']:g}" if r["tmax"] > 0 else "N"),
            "rate": f"{r['alpha']:.3e}*(T32)**({r['beta']:.2f})".replace("e-", "d-").replace("e+", "d") + r.get("krome_rate_suffix", "")}
    ri, pi = iter(r["re"] + r["pseudo_re"]), iter(r["pr"])
    out = []
    for k in fmtkeys:
        kl = k.lower()
        if kl == "r":
            out.append(next(ri, ""))
        elif kl == "p":
            out.append(next(pi, ""))
        else:
            out.append(vals[kl])
    return ",".join(out)


UMIST_TYPES = {"AD": 100, "CD": 100, "CE": 100, "CP": 101, "CR": 120, "DR": 100, "IN": 100, "MN": 100, "NN": 100, "PH": 102,
               "RA": 100, "REA": 100, "RR": 100}
KIDA_TYPES = {1: 101, 2: 102, 3: 100, 4: 110, 5: 111, 6: 103}
LEEDS_TYPES = {1: 100, 2: 101, 3: 120, 4: 102, 5: 130, 6: 220, 7: 200, 8: 201, 9: 202, 10: 203, 11: 301, 12: 302, 13: 300, 14: 204, 20: 221}
UCL_TYPES = {None: 100, "CRP": 101, "PHOTON": 102, "CRPHOT": 120, "FREEZE": 200, "DESOH2": 210, "DESCR": 202, "DEUVCR": 203,
             "THERM": 201, "DIFF": 310, "CHEMDES": 204}


# column layouts of a KROME file: any order, any letter case, with or without an index column
KROME_LAYOUTS = [["idx", "R", "R", "R", "P", "P", "P", "P", "Tmin", "Tmax", "rate"],
                 ["idx", "r", "r", "p", "p", "p", "tmin", "tmax", "rate"],
                 ["Tmin", "Tmax", "idx", "R", "R", "P", "P", "P", "rate"],
                 ["r", "r", "r", "p", "p", "tmin", "tmax", "rate"],
                 ["tmin", "tmax", "r", "r", "p", "p", "p", "rate", "idx"],
                 ["rate", "R", "R", "P", "P", "P", "P"],
                 ["p", "p", "p", "r", "r", "idx", "rate"]]


def gen_file(rng, fmt, n, layout=None, extra_markers=()):
    """returns (lines incl. noise, expected list of dicts in file order); `extra_markers`: pseudo-elements the project declares
    on top of the default ones"""
    lines, exp = [], []
    fmtkeys = None
    if fmt == "krome":
        fmtkeys = KROME_LAYOUTS[layout % len(KROME_LAYOUTS)] if layout is not None else rng.choice(KROME_LAYOUTS)
        lines.append("@format:" + ",".join(fmtkeys))
        lines.append("@common:user_crate")
        lines.append("@var:T32x = Tgas/3d2")
    # the numbers a database gives its reactions: mostly 1..n in file order, sometimes out of order, far from the positions, or with
    # a number used twice (one reaction listed once per temperature range)
    numbering = list(range(1, n + 1))
    shape = rng.random()
    if shape < 0.2:
        rng.shuffle(numbering)
    elif shape < 0.3:
        numbering = [1000 * rng.randint(1, 9) + k for k in numbering]
        numbering[-1] = numbering[0]
    for i in range(n):
        if fmt != "krome" and rng.random() < 0.15:
            lines.append(rng.choice(["", "   ", "\t"]))
        if fmt == "krome" and rng.random() < 0.2:
            lines.append(rng.choice(["# a comment", "// another", "", "#1,H,H,,H2", "   # an indented comment", "\t// a tabbed one",
                                     "  #2,H,H,,H2"]))
        if fmt == "krome" and rng.random() < 0.12:   # directives may come anywhere; the layout may change in mid-file
            kind = rng.choice(["format", "common", "var", "hnuclei"])
            if kind == "format":
                fmtkeys = rng.choice(KROME_LAYOUTS)
                lines.append("@format:" + ",".join(fmtkeys))
            elif kind == "common":
                lines.append(f"@common:user_x{i},user_y{i}")
            elif kind == "var":
                lines.append(f"@var: v{i} = Tgas*{i}.5d0")
            else:
                lines.append("@var:Hnuclei = get_Hnuclei(n(:))")
        r = gen_abstract(rng, fmt)
        idx = numbering[i]
        if fmt == "krome":
            # the call dexp(…) is respelled, an identifier that contains those letters is not
            r["krome_rate_suffix"] = rng.choice(["", "", "*dexp(-1d0*Te)", "*user_dexp", "*dexp (Te)", "+xdexp", "/dexp(Te)*dexpected"])
            nr = sum(1 for k in fmtkeys if k.lower() == "r")
            npk = sum(1 for k in fmtkeys if k.lower() == "p")
            r["re"], r["pr"] = r["re"][:nr], r["pr"][:npk]
        if rng.random() < 0.2 and fmt in ("kida", "naunet", "leeds") and len(r["re"]) < 3:
            r["pseudo_re"] = [rng.choice(["CR", "CRP", "PHOTON", "CRPHOT", *extra_markers, *extra_markers])]
        if rng.random() < 0.1 and fmt in ("kida", "naunet") and len(r["pr"]) < 5:
            r["pseudo_pr"] = ["Photon"]
        if fmt == "umist" and rng.random() < 0.3 and len(r["re"]) < 2:
            r["pseudo_re"] = [rng.choice(["CRP", "PHOTON", "CRPHOT", *extra_markers])]
        e = dict(r)
        e["idx"] = idx
        if fmt == "kida":
            formula = rng.randint(1, 6)
            lines.append(enc_kida(r, idx, formula))
            e["type"] = KIDA_TYPES[formula]
            e["tmin"], e["tmax"] = float(int(r["tmin"])), float(int(r["tmax"]))
        elif fmt == "umist":
            code = rng.choice(list(UMIST_TYPES))
            lines.append(enc_umist(r, idx, code))
            e["type"] = UMIST_TYPES[code]
        elif fmt == "leeds":
            rtype = rng.choice(list(LEEDS_TYPES))
            lines.append(enc_leeds(r, idx, rtype))
            e["type"] = LEEDS_TYPES[rtype]
            e["tmin"], e["tmax"] = float(int(max(r["tmin"], 0))), float(int(r["tmax"]))
        elif fmt == "uclchem":
            marker = rng.choice([None, None, "CRP", "PHOTON", "CRPHOT", "FREEZE", "DESOH2", "DESCR", "DEUVCR", "THERM"])
            if i == 1:
                marker, r["pr"] = None, r["pr"][:3]        # (one radiative two-body line in every file)
                e["pr"] = r["pr"]
            if marker:
                r["re"] = r["re"][:2]
                e["re"] = r["re"]
            if marker in (None, "CRP") and len(r["pr"]) < 4 and (rng.random() < 0.35 or i == 1):
                # radiative association / recombination lists the emitted photon among the products, cosmic-ray ionisation sometimes
                # the particle: a marker in a product column names no species and does not decide the reaction type
                r["ucl_marker_products"] = [rng.choice(["PHOTON", "CRP"]) if marker is None else "CRP"]
            lines.append(enc_uclchem(r, marker))
            e["type"] = UCL_TYPES[marker]
            e["idx"] = -1
            if marker == "FREEZE":
                e["tmin"], e["tmax"] = 0.0, 30.0
        elif fmt == "naunet":
            rtype = rng.choice([100, 101, 102, 110, 111, 120, 999])
            lines.append(enc_native(r, idx, rtype))
            e["type"] = rtype
        elif fmt == "krome":
            if r["tmin"] <= 0 and rng.random() < 0.5:
                r["krome_tmin_text"] = rng.choice(["-9999", "-9999.00", "-1d0", ">-1d1", "N/A"])
            if r["tmax"] > 0 and rng.random() < 0.3:
                r["krome_tmax_text"] = rng.choice(["+", "<+", ".LE."]) + f"{r['tmax']:g}"
            lines.append(enc_krome(r, idx, fmtkeys))
            lk = [k.lower() for k in fmtkeys]
            if "idx" not in lk:
                e["idx"] = -1
            if "tmin" not in lk:
                r.pop("krome_tmin_text", None)
                r["tmin"] = -1.0
            if "tmax" not in lk:
                r["tmax"] = -1.0
            e["type"] = 999
            e["tmin"] = r["tmin"] if r["tmin"] > 0 else {"-9999": -9999.0, "-9999.00": -9999.0, "-1d0": -1.0, ">-1d1": -10.0}.get(
                r.get("krome_tmin_text"), -1.0)
            e["tmax"] = r["tmax"] if r["tmax"] > 0 else -1.0
        exp.append(e)
    if rng.random() < 0.5 and fmt != "krome":
        lines.append("")
    return lines, exp


def fclose(a, b, rel=1e-3):
    return abs(a - b) <= rel * max(abs(a), abs(b), 1e-300)


# a project's own marker list: some default markers dropped, two new ones declared
PSEUDO_CUSTOM = ["CR", "CRP", "Photon", "PHOTON", "CRPHOT", "M", "UV", "FRZ"]


def read_network(fmt, path, surface_prefix=None, pseudo=None):
    from naunet.network import Network
    from .ode_checks import reset_species_state
    reset_species_state()
    kw = {"species_kwargs": {"grain_symbol": "GRAIN", "surface_prefix": surface_prefix, "bulk_prefix": "@"}} if surface_prefix else {}
    with silenced():
        return Network(filelist=[str(path)], fileformats=[fmt], elements=list(ELEMENTS), pseudo_elements=list(pseudo or PSEUDO), **kw)


def umist_multifit_witness(chk):
    """A RATE12 line may carry several fits (NE > 1, nine fields per fit), each with coefficients and a temperature range of
    its own - 20 of the 6173 lines of the bundled rate12.umist do.  What the line encodes is the reaction over *every* range."""
    line = ('75:AD:H-:H:H2:e-:::2:4.82e-09:0.02:4.3:10:100:M:A:"10.1103/PhysRevA.82.042708":"n":'
            '4.32e-09:-0.39:39.4:101:3000:M:A:"10.1103/PhysRevA.82.042708":"n":')
    f = chk.scratch / "multifit.umist"
    f.write_text(line + "\n")
    try:
        net = read_network("umist", f)
    except Exception as e:
        chk.violation({"kind": "read-raised", "format": "umist", "error": type(e).__name__}, f"a two-fit RATE12 line raised {e}", input=line)
        return
    wins = sorted((r.temp_min, r.temp_max, r.alpha) for r in net.reaction_list)
    chk.count(("umist-multifit",), nontrivial=True)
    if wins != [(10.0, 100.0, 4.82e-09), (101.0, 3000.0, 4.32e-09)]:
        chk.violation({"kind": "umist-multifit-dropped"},
                      f"a RATE12 line with two fits (10-100 K and 101-3000 K) decodes to {wins}: the second fit is dropped without a "
                      f"message, the reaction has no rate between 101 and 3000 K", input=line)


def krome_two_files_one_format(chk):
    """`fileformats` may be one string for a list of files.  Every KROME file starts from the default column layout: a `@format:` of
    the first file is not in force in the second."""
    from naunet.network import Network
    from .ode_checks import reset_species_state
    a = chk.scratch / "zz-first.krome"          # (listed first, sorts last: the files are read in the order they are listed)
    b = chk.scratch / "aa-second.krome"
    a.write_text("@format:idx,R,R,P,P,rate\n1,H,H,H2,,1.0d-10\n@format:idx,R,P,P,P,Tmin,Tmax,rate\n3,H2,H,H,,NONE,NONE,2.0d-10\n")
    b.write_text("2,H+,E,,H,g,,,NONE,.LE.5.5e3,3.92d-13\n4,H,E,,H+,E,E,,>1d2,NONE,5.0d-11\n")
    reset_species_state()
    try:
        with silenced():
            net = Network(filelist=[str(a), str(b)], fileformats="krome", elements=list(ELEMENTS), pseudo_elements=list(PSEUDO))
    except Exception as e:
        chk.violation({"kind": "read-raised", "format": "krome", "error": type(e).__name__},
                      f"reading two KROME files with one format string raised {type(e).__name__}: {e}", input=[a.read_text(), b.read_text()])
        return
    got = [([s.name for s in r.reactants], [s.name for s in r.products], r.temp_min, r.temp_max, r.idxfromfile) for r in net.reaction_list]
    want = [(["H", "H"], ["H2"], -1.0, -1.0, 1), (["H2"], ["H", "H"], -1.0, -1.0, 3), (["H+", "E"], ["H"], -1.0, 5500.0, 2),
            (["H", "E"], ["H+", "E", "E"], 100.0, -1.0, 4)]
    chk.count(("krome-two-files",), nontrivial=True)
    if got != want:
        i = next((k for k, (g, w) in enumerate(zip(got, want)) if g != w), min(len(got), len(want)))
        chk.violation({"kind": "decoded-wrong", "format": "krome", "field": "layout-of-second-file"},
                      f"two KROME files read with fileformats=\"krome\": line {i + 1} decodes to {got[i] if i < len(got) else None}, it names "
                      f"{want[i] if i < len(want) else None} (the second file has no @format: its columns are the default layout)",
                      input={"first_file": a.read_text().split(chr(10)), "second_file": b.read_text().split(chr(10))})


def run_c07(argv):
    tier, seed = tier_and_seed(argv)
    chk = Check("C07", tier, seed, ["NaunetProps.C07", "NaunetProps.C07b", "NaunetProps.C07c"], C07_THEOREMS, C07_RULE)
    chk.prove()
    rng = chk.rng
    nfiles = 3 if tier == "quick" else 20
    nlines = 12 if tier == "quick" else 40
    reqs, pend, kreqs, kpend = [], [], [], []
    for fmt in ["kida", "umist", "leeds", "krome", "uclchem", "naunet"]:
        for k in range(nfiles):
            # every third file belongs to a project with its own pseudo-element list
            pseudo = PSEUDO_CUSTOM if k % 3 == 1 else PSEUDO
            lines, exp = gen_file(rng, fmt, nlines, layout=3 + k,      # every layout opens a file sooner or later
                                  extra_markers=("UV", "FRZ") if pseudo is PSEUDO_CUSTOM else ())
            f = chk.scratch / f"{fmt}{k}.txt"
            f.write_text("\n".join(lines) + "\n")
            show = {"format": fmt, "lines": lines[:6], "pseudo_elements": pseudo}
            chk.hist["pseudo:" + ("custom" if pseudo is PSEUDO_CUSTOM else "default")] += 1
            try:
                net = read_network(fmt, f, pseudo=pseudo)
            except Exception as e:
                chk.violation({"kind": "read-raised", "format": fmt, "error": type(e).__name__},
                              f"reading a well-formed {fmt} file raised {type(e).__name__}: {e}", input=show)
                continue
            got = net.reaction_list
            chk.hist[f"fmt:{fmt}"] += len(exp)
            if len(got) != len(exp):
                blanks = sum(1 for l in lines if not l.strip())
                chk.violation({"kind": "reaction-count", "format": fmt, "blank_lines": blanks > 0},
                              f"{fmt}: {len(exp)} data lines gave {len(got)} reactions", input=show)
                continue
            for n, (g, e) in enumerate(zip(got, exp)):
                chk.count((fmt, k, n), nontrivial=len(e["re"]) + len(e["pr"]) >= 2)
                gre, gpr = [s.name for s in g.reactants], [s.name for s in g.products]
                ere = [("e-" if x == "E" and False else x) for x in e["re"]]
                bad = None
                if gre != e["re"] or gpr != e["pr"]:
                    bad = f"species {gre} -> {gpr}, the line names {e['re']} -> {e['pr']}"
                elif fmt != "krome" and not (fclose(g.alpha, e["alpha"]) and fclose(g.beta, e["beta"], 1e-2) and fclose(g.gamma, e["gamma"], 1e-2)):
                    bad = f"coefficients {g.alpha, g.beta, g.gamma} vs {e['alpha'], e['beta'], e['gamma']}"
                elif (g.temp_min, g.temp_max) != (e["tmin"], e["tmax"]):
                    bad = f"window {(g.temp_min, g.temp_max)} vs {(e['tmin'], e['tmax'])}"
                elif g.idxfromfile != e["idx"]:
                    bad = f"index {g.idxfromfile} vs {e['idx']}"
                elif int(g.reaction_type) != e["type"]:
                    bad = f"type {int(g.reaction_type)} vs {e['type']}"
                if bad:
                    chk.violation({"kind": "decoded-wrong", "format": fmt, "field": bad.split()[0]},
                                  f"{fmt} line decoded to {bad}", input={"line": [l for l in lines if l.strip() and not l.startswith(('@', '#', '/'))][n]})
                    break
            if k == 0:
                chk.sample({"format": fmt, "line": next(l for l in lines if l.strip() and l[0] not in "@#/"),
                            "decoded": [[s.name for s in got[0].reactants], [s.name for s in got[0].products], got[0].alpha,
                                        got[0].temp_min, got[0].temp_max, int(got[0].reaction_type)]})
            if fmt != "krome":
                reqs.append({"cmd": "decode", "fmt": fmt, "lines": lines, "pseudo": pseudo})
                pend.append((fmt, lines, got))
            else:
                from naunet.reactions.kromereaction import KROMEReaction
                kreqs.append({"cmd": "kromefile", "lines": f.read_text().splitlines(keepends=True), "pseudo": pseudo})
                kpend.append((lines, {"format": KROMEReaction.reacformat, "commons": list(KROMEReaction._user_commons),
                                      "vars": list(KROMEReaction._user_vars),
                                      "reactions": [{"idx": g.idxfromfile, "reactants": [s.name for s in g.reactants],
                                                     "products": [s.name for s in g.products], "tmin": g.temp_min, "tmax": g.temp_max,
                                                     "rate": g.rate_string} for g in got]}))
    umist_multifit_witness(chk)
    krome_two_files_one_format(chk)
    if getattr(chk, "lean_ok", False) and reqs:
        try:
            answers = lean_driver(reqs)
        except Exception as e:
            chk.corr_break("driver", None, None, str(e)[:300])
            answers = []
        for (fmt, lines, got), ans in zip(pend, answers):
            if isinstance(ans, dict):
                chk.corr_break("decode", {"format": fmt, "lines": lines[:4]}, ans, f"{len(got)} reactions")
                continue
            ok = len(ans) == len(got)
            for a, g in zip(ans, got):
                l = a["line"]
                try:
                    same = (a["reactants"] == [s.name for s in g.reactants] and a["products"] == [s.name for s in g.products]
                            and float(l["a"]) == g.alpha and float(l["b"]) == g.beta and float(l["c"]) == g.gamma
                            and float(l["tmin"]) == g.temp_min and float(l["tmax"]) == g.temp_max and int(l["idx"]) == g.idxfromfile)
                except ValueError:
                    same = False
                if not same:
                    ok = False
                    chk.corr_break("decode", {"format": fmt}, a, [[s.name for s in g.reactants], [s.name for s in g.products], g.alpha,
                                                                 g.beta, g.gamma, g.temp_min, g.temp_max, g.idxfromfile])
                    break
            if ok:
                chk.traces += 1
    # the KROME reader: class state after the file (layout in force, @common, @var) and every decoded line
    if getattr(chk, "lean_ok", False) and kreqs:
        try:
            answers = lean_driver(kreqs)
        except Exception as e:
            chk.corr_break("driver", None, None, str(e)[:300])
            answers = []
        for (lines, want), ans in zip(kpend, answers):
            if "error" in ans:
                chk.corr_break("krome-reader", {"lines": lines[:5]}, ans, None)
                continue
            try:
                fl = lambda x, d: d if x is None else float(x)
                got_m = {"format": ans["format"], "commons": ans["commons"], "vars": ans["vars"],
                         "reactions": [{"idx": int(r["idx"]) if r["idx"] is not None else -1, "reactants": r["reactants"], "products": r["products"],
                                        "tmin": fl(r["tmin"], -1.0), "tmax": fl(r["tmax"], -1.0), "rate": r["rate"]} for r in ans["reactions"]]}
            except (ValueError, TypeError) as e:
                chk.corr_break("krome-reader", {"lines": lines[:5]}, ans, f"model fields not numeric: {e}")
                continue
            if got_m != want:
                diff = [k for k in want if want[k] != got_m[k]]
                first = None
                if diff == ["reactions"]:
                    first = next(((a, b) for a, b in zip(got_m["reactions"], want["reactions"]) if a != b), (len(got_m["reactions"]), len(want["reactions"])))
                chk.corr_break("krome-reader", {"lines": lines[:8], "differs_in": diff}, first or {k: got_m[k] for k in diff}, {k: want[k] for k in diff} if not first else None)
            else:
                chk.traces += 1
    return chk.finish()


# ------------------------------------------------------------------------------------------- C18


def reaction_view(r):
    return {"re": sorted(s.name for s in r.reactants), "pr": sorted(s.name for s in r.products),
            "tmin": f"{r.temp_min:9.2f}", "tmax": f"{r.temp_max:9.2f}", "type": int(r.reaction_type), "idx": r.idxfromfile,
            "a": f"{r.alpha:10.3e}", "b": f"{r.beta:10.3e}", "c": f"{r.gamma:10.3e}"}


def run_c18(argv):
    from naunet.network import Network
    from .ode_checks import reset_species_state
    tier, seed = tier_and_seed(argv)
    chk = Check("C18", tier, seed, ["NaunetProps.C18"], C18_THEOREMS, C18_RULE)
    chk.prove()
    rng = chk.rng
    nfiles = 2 if tier == "quick" else 12
    reqs, pend = [], []
    corpus = {   # witnesses of the known findings F15-*: always exercised first
        "umist": ['1:CP:H2::H2+:e-:::1:1.20e-17:0.00:0.0:10:41000:L:C:"x"::', '2:NN:C:CH:C2:H:::1:6.59e-11:0.00:0.0:10:300:L:C:"x"::'],
        "leeds": [netgen.leeds_line(1, ["H2"], ["H2+", "e-"], a=1.2e-17, rtype=2), netgen.leeds_line(2, ["CO"], ["C", "O"], a=5.0e0, c=1.0, rtype=3),
                  netgen.leeds_line(3, ["OH"], ["O", "H"], a=3.9e-10, c=2.2, rtype=4)],
        "uclchem": ["H2,CRP,NAN,H2+,E-,NAN,NAN,1.2e-17,0.0,0.0,0,0", "CH4,CRPHOT,NAN,CH2,H2,NAN,NAN,1.0,0.0,1170.0,0,0",
                    "OH,PHOTON,NAN,O,H,NAN,NAN,3.9e-10,0.0,2.2,0,0"],
    }
    for fmt in ["kida", "umist", "leeds", "uclchem", "naunet", "krome"]:
        for k in range(nfiles + 1):
            if k == nfiles:
                if fmt not in corpus:
                    continue
                lines, exp = corpus[fmt], None
            else:
                lines, exp = gen_file(rng, fmt, 10 if tier == "quick" else 40)
            f = chk.scratch / f"in-{fmt}{k}.txt"
            f.write_text("\n".join(lines) + "\n")
            try:
                net = read_network(fmt, f)
            except Exception as e:
                continue  # C07's business
            if not net.reaction_list:
                continue
            w1, w2 = chk.scratch / f"w1-{fmt}{k}.naunet", chk.scratch / f"w2-{fmt}{k}.naunet"
            show = {"input_format": fmt, "first_lines": lines[:3]}
            try:
                with silenced():
                    net.write(w1, "naunet")
                # (the native file is read under the project's own symbol convention: Leeds networks mark ices with `G`)
                sp = "G" if fmt == "leeds" else None
                n1 = read_network("naunet", w1, sp)
                with silenced():
                    n1.write(w2, "naunet")
                n2 = read_network("naunet", w2, sp)
            except Exception as e:
                gices = sorted({s.name for r in net.reaction_list for s in r.reactants + r.products if s.is_surface and s.name.startswith("G")})
                cause = "non-default-surface-prefix" if gices and any(f"{g} starts with" in str(e) for g in gices) else "other"
                chk.violation({"kind": "cycle-raised", "input_format": fmt, "error": type(e).__name__, "cause": cause},
                              f"write/read cycle of a {fmt} network raised {type(e).__name__}: {e}", input=show)
                continue
            t1, t2 = w1.read_text(), w2.read_text()
            if len(n1.reaction_list) != len(net.reaction_list) or len(n2.reaction_list) != len(net.reaction_list):
                chk.violation({"kind": "cycle-count", "input_format": fmt},
                              f"{len(net.reaction_list)} reactions written, {len(n1.reaction_list)} / {len(n2.reaction_list)} read back", input=show)
                continue
            if t1 != t2:
                d = next((a, b) for a, b in zip(t1.split("\n"), t2.split("\n")) if a != b) if t1.count("\n") == t2.count("\n") else ("line count", "")
                chk.violation({"kind": "second-cycle-differs", "input_format": fmt}, "second write differs from the first", input=show,
                              first=d[0], second=d[1])
                continue
            for n, (a, b) in enumerate(zip(net.reaction_list, n1.reaction_list)):
                va, vb = reaction_view(a), reaction_view(b)
                chk.count((fmt, k, n), nontrivial=va["type"] != 100 or a.temp_min > 0 or len(set(va["re"])) < len(va["re"]))
                chk.hist[f"fmt:{fmt}"] += 1
                if [s.name for s in b.reactants] != sorted(s.name for s in a.reactants):
                    pass  # the writer sorts the names: multiset equality is what is claimed
                if va != vb or b.source.strip() != a.source.strip() or b.source != b.source.strip():
                    diff = [k2 for k2 in va if va[k2] != vb[k2]] + (["source"] if b.source != a.source.strip() else [])
                    chk.violation({"kind": "roundtrip-differs", "input_format": fmt, "fields": diff},
                                  f"reaction read back differs in {diff}", input=show, written=va, read=vb, source=[a.source, b.source])
                    break
                # export + re-render: the re-read reaction must compute the same law or refuse
                law_check(chk, rng, fmt, a, b, show)
            if [s.name for s in net.species] != [s.name for s in n1.species]:
                chk.violation({"kind": "species-list-differs", "input_format": fmt}, "species list changed by the round trip", input=show)
            # write -> edit -> write: what is written is the network as it is *now* (re-indexed, a coefficient and a window
            # changed through the public attributes), not what an earlier write saw
            w3 = chk.scratch / f"w3-{fmt}{k}.naunet"
            try:
                with silenced():
                    net.reindex()
                    e0 = net.reaction_list[-1]
                    e0.alpha = 10.0 * e0.alpha if e0.alpha else 3.3e-9
                    e0.temp_min, e0.temp_max = 12.0, 345.0
                    net.write(w3, "naunet")
                n3 = read_network("naunet", w3, "G" if fmt == "leeds" else None)
            except Exception as e:
                chk.hist["rewrite-refused:" + type(e).__name__] += 1
                n3 = None
            if n3 is not None:
                chk.hist["write-edit-write"] += 1
                va = [reaction_view(r) for r in net.reaction_list]
                vb = [reaction_view(r) for r in n3.reaction_list]
                if va != vb:
                    i = next((i for i, (x, y) in enumerate(zip(va, vb)) if x != y), min(len(va), len(vb)))
                    chk.violation({"kind": "rewrite-stale", "input_format": fmt},
                                  "a network written, edited (reindex, alpha and window of one reaction) and written again reads back "
                                  "as something else than the edited network", input=show,
                                  in_memory=va[i] if i < len(va) else None, read_back=vb[i] if i < len(vb) else None)
            # model: the text written is the model's encoding of the printed fields
            for r in net.reaction_list[:6]:
                reqs.append({"cmd": "encode_native", "idx": f"{r.idxfromfile}", "re": sorted(s.name for s in r.reactants),
                             "pr": sorted(s.name for s in r.products), "a": f"{r.alpha:10.3e}", "b": f"{r.beta:10.3e}",
                             "c": f"{r.gamma:10.3e}", "tmin": f"{r.temp_min:9.2f}", "tmax": f"{r.temp_max:9.2f}",
                             "code": f"{r.reaction_type}", "source": r.source.strip()})
                pend.append(f"{r:naunet}")
            # narrowed after it was built (allowed species assigned to the loaded network), then written: what is read back has the
            # species of the narrowed network - the same list the network itself reports, and renders from
            if len(net.reaction_list) >= 2:
                w4 = chk.scratch / f"w4-{fmt}{k}.naunet"
                try:
                    with silenced():
                        keep_r = net.reaction_list[: max(1, len(net.reaction_list) // 2)]
                        names = sorted({s.name for r in keep_r for s in r.reactants + r.products})
                        net.allowed_species = names
                        net.write(w4, "naunet")
                        own = sorted(s.name for s in net.species)
                    n4 = read_network("naunet", w4, "G" if fmt == "leeds" else None)
                    with silenced():
                        back4 = sorted(s.name for s in n4.species)
                except Exception as e:
                    chk.hist["narrow-refused:" + type(e).__name__] += 1
                    own = back4 = None
                if own is not None:
                    chk.hist["narrow-then-write"] += 1
                    if own != back4:
                        chk.violation({"kind": "narrowed-species-differ", "input_format": fmt},
                                      f"after assigning allowed_species the network lists the species {own}; the file it writes reads back "
                                      f"with the species {back4}", input=show, allowed=names)
            if k == 0:
                chk.sample({"input_format": fmt, "written": t1.split("\n")[0]})
    # a network that holds no reaction (an empty one, one with required species only, one whose allowed list keeps nothing): what it
    # writes reads back as a network without reactions
    for label, mk_net in (("empty", lambda: Network()), ("required-only", lambda: Network(required_species=["H", "He"])),
                          ("all-filtered", lambda: Network(filelist=[str(chk.scratch / "in-naunet0.txt")], fileformats=["naunet"],
                                                           allowed_species=["Xe"]))):
        w5 = chk.scratch / f"w5-{label}.naunet"
        try:
            with silenced():
                reset_species_state()
                e_net = mk_net()
                n_held = len(e_net.reaction_list)
                e_net.write(w5, "naunet")
            back5 = read_network("naunet", w5)
            n_back = len(back5.reaction_list)
        except Exception as e:
            chk.hist["empty-write-refused:" + type(e).__name__] += 1
            continue
        chk.count(("empty-write", label), nontrivial=True)
        chk.hist["empty-write"] += 1
        if n_held != 0 or n_back != 0:
            chk.violation({"kind": "empty-network-roundtrip", "case": label},
                          f"a network without reactions ({label}: {n_held} held) written in the native format reads back with {n_back} "
                          f"reaction(s)", written=w5.read_text()[:300])
    # export + re-render of whole projects (files *and* configuration): the C20 machinery on descriptions that carry rate
    # modifiers (numbers and expressions), so that what the exported project computes is compared with the direct rendering
    from . import c20
    descs = []
    for k in range(3 if tier == "quick" else 15):
        d = c20.gen_desc(rng, k)
        while d["replacement"]:
            d = c20.gen_desc(rng, k)
        d["allowed"], d["required"], d["cooling"] = [], [], []
        d["rate_modifier"] = {str(rng.choice([1, 2, 3])): rng.choice([0.0, 0, "0.0", 2.5e-10]), "5": rng.choice(["2.0 * zeta", 0.0, "1.0e-10"])}
        if k == 0:
            # a network whose reactions carry no number (built from plain Reaction objects, or read from a file that has none): the
            # exported reactions.naunet has none either, and the modifiers of the exported project still name the same reactions
            import re as _re
            d["files"] = [["".join(_re.sub(r"^[^,]*,", "-1   ,", ln, count=1) + "\n" for ln in c.splitlines() if ln.strip()), f]
                          for c, f in d["files"]]
            d["rate_modifier"] = {"1": "2.5e-10 * sqrt(Tgas)", "3": 0.0}
        descs.append(d)
    descs.append(c20.grain_species_desc(rng))
    descs.append(c20.user_binding_desc(rng))      # user binding energies and yields have to survive the export as well
    c20.process(chk, descs, [])
    # exporting an edited network again into the same project directory: the project's files must describe the edited network
    from .c17 import run_worker, native
    from .c20 import BACK
    for k, d in enumerate(descs[:2 if tier == "quick" else 8]):
        d = dict(d, rate_modifier={}, ode_modifier={})
        d.pop("ode_modifier_terms", None)
        edir = chk.scratch / f"reexport{k}" / "proj"
        edir.parent.mkdir(parents=True)
        extra = native(90 + k, ["C+", "O"], ["CO", "H+"], a=3.3e-10) if not d["replacement"] else native(90 + k, ["MG+", "H"], ["MG", "H+"], a=3.3e-10)
        back = list(BACK[d["method"]])
        job = {"steps": [{"op": "build", "id": "A", "desc": d},
                         {"op": "export", "id": "A", "dir": str(edir), "backend": back, "tag": ["export-1", k]},
                         {"op": "add_line", "id": "A", "line": extra, "fmt": "naunet"},
                         {"op": "export", "id": "A", "dir": str(edir), "backend": back, "tag": ["export-2", k]},
                         {"op": "cli_render", "dir": str(edir), "tag": ["re-render", k]},
                         {"op": "render", "id": "A", "backend": back, "tag": ["direct", k]}]}
        res = run_worker(job, 0)
        chk.count(("re-export", k), nontrivial=True)
        if isinstance(res, dict) or any("error" in r for r in res):
            err = res.get("crash") if isinstance(res, dict) else next(r["error"] for r in res if "error" in r)
            chk.violation({"kind": "re-export-raised"}, f"export / add / export / render sequence raised: {str(err)[-300:]}",
                          input={"description": {x: d[x] for x in ("kwargs", "method")}, "added_line": extra})
            continue
        rer, direct = res[2], res[3]
        if rer.get("canon") != direct.get("canon"):
            chk.violation({"kind": "re-export-stale"},
                          "after editing a network and exporting it again into the same directory, `naunet render` there does not "
                          "reproduce the direct rendering of the edited network",
                          input={"description": {x: d[x] for x in ("kwargs", "method")}, "sequence": "build, export, add_reaction, export, render",
                                 "added_line": extra}, re_rendered=rer.get("canon"), direct=direct.get("canon"))
    if getattr(chk, "lean_ok", False) and reqs:
        try:
            answers = lean_driver(reqs)
        except Exception as e:
            chk.corr_break("driver", None, None, str(e)[:300])
            answers = []
        for req, want, ans in zip(reqs, pend, answers):
            if ans != want:
                chk.corr_break("encode-native", req, ans, want)
            else:
                chk.traces += 1
    return chk.finish()


def law_check(chk, rng, fmt, orig, back, show):
    """the native class re-reading the exported line must not silently compute a different rate"""
    GRAIN = {200, 201, 202, 203, 204, 210, 220, 221, 300, 301, 302, 310}
    if int(orig.reaction_type) in GRAIN or fmt == "krome":
        return
    try:
        with silenced():
            s_orig = orig.rateexpr(None)
    except Exception:
        return  # the direct rendering refuses: nothing to preserve
    try:
        with silenced():
            s_back = back.rateexpr(None)
    except Exception:
        chk.hist["re-render-refused"] += 1
        return  # refused with an error: allowed
    env = {"Tgas": rng.choice([10.0, 100.0, 3000.0]), "Av": rng.choice([0.5, 3.0]), "zeta": 2.6e-17, "omega": 0.5, "zism": 1.3e-17,
           "zeta_cr": 2.6e-17, "zeta_xr": 0.0, "G0": 2.0, "h2col": 1e20, "cocol": 1e15, "n2col": 1e15, "lambdabar": 1000.0,
           "GetShieldingFactor": lambda *x: 1.0, "GetGrainScattering": lambda *x: 1.0, "IDX_H2I": 0, "IDX_COI": 0, "IDX_N2I": 0}
    try:
        v1 = ceval.ev(cparse.parse_expr(s_orig), env)
        v2 = ceval.ev(cparse.parse_expr(s_back), env)
    except Exception:
        return
    tol = 2e-3 * max(abs(v1), abs(v2), 1e-300)   # alpha/beta/gamma only to the printed precision
    if abs(v1 - v2) > tol:
        code = getattr(orig, "code", None) or getattr(orig, "rtype", None) or getattr(orig, "formula", None) or int(orig.reaction_type)
        chk.violation({"kind": "law-changed-silently", "input_format": fmt, "code": str(code)},
                      f"{fmt} reaction (code {code}) renders `{s_orig}` directly but `{s_back}` after export/re-read: {v1!r} vs {v2!r}",
                      input=show)


if __name__ == "__main__":
    sys.exit({"C07": run_c07, "C18": run_c18}[sys.argv[1]](sys.argv[2:]))
