"""C12: KROME rate expressions keep their value when translated from Fortran to C.

impl   : real KROMEReaction.rateexpr() (regex pre-passes + Lark Earley parser + CExpression transformer)
model  : Lean `Fortran.toC` / `cOf` / `parsesBack` on the tree Lark built (serialised)
oracle : an independent reference Fortran reader (precedence, right-associative **, unary minus below **)
         evaluating the Fortran text; the C text is evaluated with C semantics at the same valuation
"""
from __future__ import annotations

import math
import re
import sys
from pathlib import Path

from . import ceval, cparse
from .common import Check, REPO, lean_driver, quiet_naunet, silenced, tier_and_seed

quiet_naunet()
MODULES = ["NaunetProps.C12"]
THEOREMS = ["Naunet.C12.toC_preserves", "Naunet.C12.args_preserves", "Naunet.C12.eval_numExpr", "Naunet.C12.F7_witness",
            "Naunet.C12.nint_rint_differ_at_half", "Naunet.C12.nint_rint_agree_examples"]
RULE = ("expressions derived from the translator's own grammar (numbers with d/e exponents and signs, variables, intrinsic calls, "
        "parentheses, + - * /, ** incl. chains and signed literal bases, n(idx_X) references) up to depth 4, plus every rate of the "
        "bundled KROME networks; each translated text is evaluated under C semantics and compared with the reference Fortran value "
        "at random valuations; case = one expression; non-trivial = contains ** or a function call or an abundance reference")

VARS = ["Tgas", "Te", "lnTe", "invT", "invTe", "T32", "sqrTgas", "user_x", "nH"]
FUNCS = ["exp", "sqrt", "log", "log10"]
SPECIES = {"H": "HI", "Hp": "HII", "Hm": "HM", "E": "EM", "H2": "H2I", "H2p": "H2II", "HE": "HEI", "HEp": "HEII", "HEpp": "HEIII",
           "C": "CI", "O": "OI", "D": "DI", "Cp": "CII", "Cpp": "CIII", "Op": "OII", "Opp": "OIII", "Cm": "CM"}


# ------------------------------------------------------------------ reference Fortran reader

FTOK = re.compile(r"\s*(?:(\d+\.?\d*(?:[deDE][+-]?\d+)?|\.\d+(?:[deDE][+-]?\d+)?)|([A-Za-z_]\w*)|(\*\*|[-+*/(),]))")


class FReject(Exception):
    pass


def ftokens(s):
    pos, out = 0, []
    s = s.strip()
    while pos < len(s):
        m = FTOK.match(s, pos)
        if not m:
            raise FReject(f"bad character at {pos}")
        pos = m.end()
        if m.group(1):
            out.append(("num", m.group(1)))
        elif m.group(2):
            out.append(("id", m.group(2)))
        else:
            out.append(("op", m.group(3)))
    return out


class FParser:
    """Fortran 90 expression semantics: ** binds tighter than unary minus and is right-associative"""

    def __init__(self, toks):
        self.t, self.i = toks, 0
        self.features = set()

    def peek(self):
        return self.t[self.i] if self.i < len(self.t) else (None, None)

    def eat(self, v=None):
        k, x = self.peek()
        if k is None or (v is not None and x != v):
            raise FReject(f"expected {v}")
        self.i += 1
        return x

    def expr(self):
        k, x = self.peek()
        sign = 1
        if k == "op" and x in "+-":
            self.eat()
            sign = -1 if x == "-" else 1
            self.features.add("leading-sign")
            nk, nx = self.peek()
        node = self.term()
        if sign < 0:
            node = ("neg", node)
        while self.peek()[0] == "op" and self.peek()[1] in "+-":
            op = self.eat()
            k, x = self.peek()
            if k == "op" and x in "+-":       # `a--b`: not standard Fortran; the sign belongs to the operand
                self.eat()
                self.features.add("sign-after-operator")
                r = self.term()
                r = ("neg", r) if x == "-" else r
            else:
                r = self.term()
            node = ("bin", op, node, r)
        return node

    def term(self):
        node = self.factor()
        while self.peek()[0] == "op" and self.peek()[1] in "*/":
            op = self.eat()
            k, x = self.peek()
            if k == "op" and x in "+-":       # `a*-b`: not standard Fortran; read the sign as part of the operand
                self.eat()
                self.features.add("sign-after-operator")
                r = self.factor()
                r = ("neg", r) if x == "-" else r
            else:
                r = self.factor()
            node = ("bin", op, node, r)
        return node

    def factor(self):
        base = self.primary()
        if self.peek() == ("op", "**"):
            self.eat()
            k, x = self.peek()
            if k == "op" and x in "+-":
                self.eat()
                e = self.factor()
                e = ("neg", e) if x == "-" else e
            else:
                e = self.factor()                  # right associative
            if e[0] == "pow":
                self.features.add("chained-power")
            return ("pow", base, e)
        return base

    def primary(self):
        k, x = self.peek()
        if k == "num":
            self.eat()
            return ("num", x)
        if k == "id":
            self.eat()
            if self.peek() == ("op", "("):
                self.eat("(")
                if x == "n" and self.peek()[0] == "id" and self.peek()[1].startswith("idx_"):
                    name = self.eat()
                    self.eat(")")
                    self.features.add("abundance")
                    return ("abund", name[4:])
                args = [self.expr()]
                while self.peek() == ("op", ","):
                    self.eat()
                    args.append(self.expr())
                self.eat(")")
                self.features.add("call")
                return ("call", x, args)
            return ("var", x)
        if (k, x) == ("op", "("):
            self.eat()
            e = self.expr()
            self.eat(")")
            return e
        raise FReject(f"unexpected {x}")


def fparse(s):
    p = FParser(ftokens(s))
    e = p.expr()
    if p.i != len(p.t):
        raise FReject("trailing tokens")
    return e, p.features


def feval(e, env):
    k = e[0]
    if k == "num":
        # a literal without point and exponent is a Fortran INTEGER: like C, INTEGER / INTEGER truncates
        return int(e[1]) if e[1].isdigit() else float(e[1].lower().replace("d", "e"))
    if k == "var":
        return env[e[1]]
    if k == "abund":
        return env["abund:" + e[1]]
    if k == "neg":
        return -feval(e[1], env)
    if k == "pow":
        return math.pow(feval(e[1], env), feval(e[2], env))    # always a REAL power (what the translation to pow() assumes)
    if k == "call":
        a = [float(feval(x, env)) for x in e[2]]
        f = {"dexp": "exp", "dsqrt": "sqrt", "dlog": "log", "dlog10": "log10", "dabs": "abs", "dnint": "nint", "dmod": "mod",
             "dsign": "sign", "dmax1": "max", "dmin1": "min"}.get(e[1], e[1])
        # Fortran's generic intrinsics: NINT rounds halves away from zero, MOD truncates, SIGN(a, b) = |a| with the sign of b
        return {"exp": math.exp, "sqrt": math.sqrt, "log": math.log, "log10": math.log10, "abs": abs,
                "nint": lambda x: math.floor(abs(x) + 0.5) * (1 if x >= 0 else -1), "max": max, "min": min, "mod": math.fmod,
                "sign": lambda x, y: abs(x) if y >= 0 else -abs(x)}[f](*a)
    if k == "bin":
        l, r = feval(e[2], env), feval(e[3], env)
        if e[1] == "/":
            return ceval._cdiv(l, r)
        return {"+": l + r, "-": l - r, "*": l * r}[e[1]]
    raise ValueError(e)


# ------------------------------------------------------------------ generator


def gen_expr(rng, depth):
    r = rng.random()
    if depth == 0 or r < 0.25:
        c = rng.random()
        if c < 0.4:
            v = rng.choice([2.0, 1.5, 3, 0.5, 6.77, 1e2, 3.92, 10, 1, 2, 7])
            txt = rng.choice([f"{v}", f"{v}d0", f"{float(v):.3e}".replace("e", "d"), f"{float(v):.2e}", f"{v}d0", f"{v}d+00", f"{v}d-0"]
                             if isinstance(v, int) else
                             [f"{v}", f"{v}d0", f"{float(v):.3e}".replace("e", "d"), f"{float(v):.2e}"])
            if rng.random() < 0.2:
                txt = "-" + txt
            return txt
        if c < 0.85:
            return rng.choice(VARS)
        return f"n(idx_{rng.choice(list(SPECIES))})"
    if r < 0.45:
        op = rng.choice(["+", "-", "*", "/", "*", "+"])
        right = gen_expr(rng, depth - 1)
        if op in "-/" and rng.random() < 0.5 and not re.fullmatch(r"[\w.]+", right):
            right = f"({right})"        # a parenthesised right operand of a non-associative operator
        return f"{gen_expr(rng, depth - 1)}{op}{right}"
    if r < 0.62:
        base = gen_expr(rng, depth - 1)
        if not re.fullmatch(r"[\w.]+|-?[\d.]+(d-?\d+)?", base):
            base = f"({base})"
        ex = rng.choice(["2", "0.5", "0.6353d0", "(-0.5)", "1.5d0", "-2", "2**2", "3**0.5", "user_x", "Te", "T32", "sqrt(Te)"])
        sign = "-" if rng.random() < 0.15 else ""      # Fortran: -x**2 is -(x**2)
        return f"{sign}{base}**{ex}"
    if r < 0.8:
        return f"{rng.choice(FUNCS)}({gen_expr(rng, depth - 1)})"
    return f"({gen_expr(rng, depth - 1)})"


class Env(dict):
    """valuation: every identifier gets a reproducible random value on first use"""

    def __init__(self, rng):
        super().__init__()
        self.rng = rng

    def __missing__(self, k):
        if k == "Hnuclei":
            return self["nH"]
        v = self.rng.uniform(0.6, 3.0)
        self[k] = v
        return v


def valuation(rng):
    return Env(rng)


def krome_alias(name):
    """alias of the species a KROME index name denotes (trailing p = +, m = -, E = electron)"""
    if name.upper() == "E":
        return name + "M"
    m = re.fullmatch(r"(.*?)(p+|m+)?", name)
    base, ch = m.group(1), m.group(2) or ""
    if ch.startswith("p"):
        return base + "I" * (len(ch) + 1)
    if ch.startswith("m"):
        return base + "M" * len(ch)
    return base + "I"


def c_env(env, names_f):
    class CEnv(dict):
        def __missing__(self2, k):
            m = re.fullmatch(r"y\[IDX_(\w+)\]", k)
            if m:
                for nf in names_f:
                    if krome_alias(nf).upper() == m.group(1).upper():
                        return env["abund:" + nf]
                raise KeyError(k)
            return env[k]
    return CEnv()


def lark_to_ftree(t):
    """serialise the Lark tree into the model's FTree"""
    from lark import Tree, Token
    if isinstance(t, Token):
        raise ValueError("token at tree position")
    name = t.data
    ch = t.children
    if name in ("expression", "multiply"):
        node = lark_to_ftree(ch[0])
        for i in range(1, len(ch), 2):
            node = ["bin", str(ch[i]), node, lark_to_ftree(ch[i + 1])]
        return node
    if name == "atom":
        if len(ch) == 1:
            return lark_to_ftree(ch[0])
        return ["paren", lark_to_ftree(ch[1])]
    if name == "scientific":
        return ["sci", "".join(str(c) for c in ch)]
    if name == "variable":
        return ["var", "".join(str(c) for c in ch)]
    if name == "power":
        return ["power", lark_to_ftree(ch[0]), lark_to_ftree(ch[2])]
    if name == "listvar":
        return ["listvar", "".join(str(c) for c in ch[0].children), "".join(str(c) for c in ch[2].children)]
    if name == "func":
        args = [lark_to_ftree(c) for c in ch[2:-1] if not isinstance(c, Token)]
        node = ["unit"]
        for a in reversed(args):
            node = ["pair", a, node]
        return ["func", "".join(str(c) for c in ch[0].children), node]
    raise ValueError(name)


def run(argv):
    from naunet.reactions.kromereaction import KROMEReaction
    tier, seed = tier_and_seed(argv)
    chk = Check("C12", tier, seed, MODULES, THEOREMS, RULE)
    chk.prove()
    rng = chk.rng
    exprs = ["2**3**2", "-2.0**2", "Tgas**2**0.5", "3.0*-2.0**2", "n(idx_H2)*2.0", "n(idx_E)+1.0", "n(idx_H)*n(idx_Hp)", "n(idx_Cpp)*n(idx_Cp)", "n(idx_Opp)+n(idx_Cm)",   # finding witnesses first
             "3.92d-13*invTe**0.6353d0", "exp(-32.7d0+13.5d0*lnTe)", "1.d0/(1.d0+Tgas)", "sqrt(Tgas)*T32**(-0.5)",
             "Tgas**(1d0/3d0)", "2d0/3d0*Te", "1d0/2d0", "(3d0/4d0)*Tgas**(5d-1)", "7d0/2d0+1d1/4d0",
             "Tgas**(1/2)", "3/2*1.1d-10*Te", "Tgas**(-2/3)", "7/2/Tgas*1d-8", "2*3/4*Tgas", "Te*(5/2)+Tgas/2",
             "exp(-(Tgas/1.2d3)**2)", "3.0d-9*exp(-T32**1.5d0)", "-Tgas**2", "Te*(-invTe**2)", "-n(idx_H)**2", "-sqrt(Tgas)**3",
             "1.2d-8/(Tgas/3.d2)", "Te/(T32/invTe)", "2.0/(Tgas/300.0)/(Te/2.0)", "Tgas-(Te-T32)", "Tgas/(Te*T32)", "Tgas-(Te+T32)",
             # an exponent that is a variable (or a call), followed by further terms - with and without blanks
             "4.0d-10*(T32**user_x+0.25+nH*invT)", "4.0d-10*(T32**user_x + 0.25 + nH*invT)", "Tgas**user_x-1-1", "Tgas**user_x - 1 - 1",
             "Tgas**user_x-1.5d0+Te", "T32**sqrt(Te)+0.5+Te", "T32**Te2x+2+Tgas", "Te**user_x-0.5*Tgas-2.0",
             # the double-precision specific names of the supported intrinsics
             "1d-10*dsqrt(Tgas)", "dlog(Tgas)+dlog10(Te)*2d0", "dabs(Tgas-3d2)*dexp(-1d0/Te)", "user_dexp*dsqrt(T32)",
             # generic intrinsics that C knows under another name (or not at all): whatever is emitted has the Fortran value
             "1d-10*nint(Tgas/1d2)", "nint(Tgas/1d2-2d0)*Te", "max(Tgas,1d2)*1d-3", "min(Tgas,3d2)+1d0", "mod(Tgas,7d0)*2d0",
             "sign(2d0,Tgas-3d2)*Te"]
    n_fixed = len(exprs)
    for f in [REPO / "tests/data/primordial.krome", REPO / "naunet/examples/primordial/primordial.krome",
              REPO / "naunet/examples/deuterium/deuterium.krome", REPO / "tests/data/minimal.krome"]:
        if f.exists():
            for line in f.read_text().splitlines():
                if line and line[0].isdigit() and line.count(",") >= 9:
                    exprs.append(line.split(",")[-1].strip())
    nb = len(exprs)
    n_rand = 250 if tier == "quick" else 4000
    for _ in range(n_rand):
        e = gen_expr(rng, rng.randint(1, 4))
        if rng.random() < 0.3:     # the same text with blanks around its binary + and - (free-form Fortran allows them anywhere)
            e = re.sub(r"(?<=[\w)])(?<![0-9.][deDE])([+-])(?=[\w(.])", r" \1 ", e)
        exprs.append(e)
    # malformed stream: must be rejected or value-preserving, never silently altered
    exprs += ["-x", "exp(-x)", "a^2", "2 x", "sin(x)*", "(a+b", "a**", "1.0e", "a=b", "Tgas//2.0", "2.0//3.0*Te", "Te**//2",
              # a literal torn apart by a blank before its exponent is not a Fortran number
              "3.0e -2*Tgas**0.5", "1.5 e3", "2 E+3*Te", "1.0d -10*Tgas", "4.2d0 d2", "Tgas*2.5 e-1", "1.0e - 3 + Te"]
    reqs, pend = [], []
    KROMEReaction.initialize()
    KROMEReaction.reacformat = "idx,r,p,rate"
    for n, fx in enumerate(exprs):
        bundled = n_fixed <= n < nb
        try:
            with silenced():
                if "," in fx:
                    kr = KROMEReaction("1,H,H2,1.0")
                    kr.rate_string = fx.replace("dexp", "exp")
                else:
                    kr = KROMEReaction(f"1,H,H2,{fx}")       # through the line reader, as a network file would
        except Exception as e:
            chk.hist["rejected-by-reader:" + type(e).__name__] += 1
            continue
        try:
            with silenced():
                ctext = kr.rateexpr()
            cerr = None
        except Exception as e:
            ctext, cerr = None, type(e).__name__
        try:
            ftree, feats = fparse(fx)
            fok = True
        except FReject:
            ftree, feats, fok = None, set(), False
        nontriv = bool(feats & {"call", "abundance"}) or "**" in fx
        chk.count(fx, nontrivial=nontriv)
        chk.hist["bundled" if bundled else "generated"] += 1
        case = {"fortran": fx[:300], "c": None if ctext is None else ctext[:300]}
        if ctext is None:
            chk.hist["rejected:" + str(cerr)] += 1
            if bundled:
                chk.violation({"kind": "bundled-rate-rejected"}, f"a rate of a bundled KROME network is rejected: {cerr}", input=case)
            continue
        if len(chk.samples) < 6 and n >= nb:
            chk.sample(case)
        # ---- oracle: value under C semantics == value under Fortran semantics
        if not fok:
            chk.violation({"kind": "accepted-outside-grammar"}, "the reference Fortran reader rejects the text but a C expression was produced",
                          input=case)
            continue
        try:
            cast = cparse.parse_expr(ctext)
        except cparse.CParseError as e:
            chk.violation({"kind": "not-an-expression"}, f"translated text is not a C expression: {e}", input=case)
            continue
        bad = False
        # abundance references
        names_f = re.findall(r"n\(idx_(\w+)\)", fx)
        names_c = re.findall(r"y\[IDX_(\w+)\]", ctext)
        want_c = [krome_alias(x) for x in names_f]
        if [x.upper() for x in names_c] != [x.upper() for x in want_c]:
            wrong = sorted({f for f, c, w in zip(names_f, names_c, want_c) if c.upper() != w.upper()})
            # an unresolved reference gives an undeclared macro (the build stops); a reference that lands on *another* species of
            # the table compiles and silently reads the wrong abundance
            others = {v.upper() for v in SPECIES.values()}
            silent = any(c.upper() != w.upper() and c.upper() in others for c, w in zip(names_c, want_c))
            chk.violation({"kind": "abundance-ref", "names": wrong, "lands_on_other_species": silent},
                          f"n(idx_X) references {wrong} become y[IDX_{names_c}] instead of the species' abundance variables {want_c}", input=case)
            continue
        for trial in range(3):
            env = valuation(rng)
            if trial == 0 and "nint" in fx:
                env["Tgas"] = 250.0          # an argument exactly between two integers (NINT(2.5) = 3)
            try:
                fv = feval(ftree, env)
            except (ValueError, OverflowError, ZeroDivisionError):
                continue
            try:
                cv = ceval.ev(cast, c_env(env, names_f))
            except (ValueError, OverflowError, ZeroDivisionError, KeyError):
                continue
            if isinstance(fv, complex) or isinstance(cv, complex):
                continue
            if abs(fv - cv) > 1e-9 * max(abs(fv), abs(cv), 1e-300):
                feature = "chained-power" if "chained-power" in feats else (
                    "signed-literal-base" if re.search(r"(^|[-+*/(,])\s*-\d[\d.]*(?:[de][+-]?\d+)?\*\*", fx) else "other")
                chk.violation({"kind": "value-differs", "feature": feature},
                              f"`{fx}` has Fortran value {fv!r} but the C text `{ctext}` evaluates to {cv!r}", input=case,
                              valuation=dict(env))
                bad = True
                break
        if bad:
            continue
        # ---- model request on the tree Lark built
        try:
            tree = lark_to_ftree(kr._kromerateconverter._expr)
            reqs.append({"cmd": "ftoc", "tree": tree})
            pend.append((case, ctext))
        except Exception as e:
            chk.corr_break("tree-shape", case, None, f"{type(e).__name__}: {e}")
    if getattr(chk, "lean_ok", False):
        # the two rounding functions of the model (`Fortran.fnint`, `Fortran.crint`) against the reference reader's NINT and the C
        # evaluator's rint, on halves, quarters and tenths
        vals = [[k_, 2] for k_ in range(-9, 10)] + [[k_, 4] for k_ in range(-9, 10)] + [[k_, 10] for k_ in range(-26, 27, 3)]
        try:
            ans_ = lean_driver([{"cmd": "nint", "vals": vals}])[0]
            for (n_, d_), (mf, mc) in zip(vals, ans_):
                x_ = n_ / d_
                rf = feval(("call", "nint", [("num", "0.0")]), {}) if False else (math.floor(abs(x_) + 0.5) * (1 if x_ >= 0 else -1))
                rc = ceval.ev(cparse.parse_expr(f"rint({abs(x_)!r})"), {}) * (1 if x_ >= 0 else -1)
                if mf != rf or mc != rc:
                    chk.corr_break("rounding-intrinsics", {"x": x_}, {"nint": mf, "rint": mc}, {"nint": rf, "rint": rc})
                    break
            else:
                chk.traces += 1
                chk.hist["rounding-intrinsics-compared"] += len(vals)
        except Exception as e:
            chk.corr_break("driver", None, None, str(e)[:300])
    if getattr(chk, "lean_ok", False) and reqs:
        try:
            answers = lean_driver(reqs)
        except Exception as e:
            chk.corr_break("driver", None, None, str(e)[:300])
            answers = []
        ws = lambda s: "".join(s.split())
        for (case, ctext), ans in zip(pend, answers):
            if "error" in ans or ws(ans["text"]) != ws(ctext):
                chk.corr_break("fortran-to-c", case, ans, ctext)
            else:
                chk.traces += 1
                chk.hist["tree-parses-back" if ans["parses_back"] else "tree-not-parse-stable"] += 1
        # the d-exponent pre-pass
        samples = ["3.92d-13*invTe**0.6353d0", "1.d0/(1.d0+Tgas)", "2d3+user_d1", "1.5d-3*dd", "6.0d0*idx", "3.000d+00*x"]
        try:
            ans = lean_driver([{"cmd": "dexp", "text": s} for s in samples])
            for s, a in zip(samples, ans):
                want = re.sub(r"(\d\.?)d([+\-]?\d)", r"\1e\2", s)
                if a != want:
                    chk.corr_break("dexp", s, a, want)
                else:
                    chk.traces += 1
        except Exception as e:
            chk.corr_break("driver", None, None, str(e)[:300])
    file_level(chk, rng)
    compiled_intrinsics(chk, rng)
    return chk.finish()


def compiled_intrinsics(chk, rng):
    """The intrinsic functions a KROME rate may call are emitted verbatim: what they compute is decided by the compiler and
    by the headers the emitted file includes, not by the text.  A file whose rates call exp, sqrt, log, log10 and abs on
    non-integral reals of both signs is rendered, EvalRates is compiled as its own translation unit and run, and every k[i] is
    compared with the Fortran value of its line."""
    import subprocess
    from naunet.network import Network
    from . import cbuild
    from .common import ROOT
    from .rendering import render
    from .ode_checks import reset_species_state
    # (KROME declares every @var as real*8: `nd` is 3.0 and `1/nd` a real quotient, whatever the literal looks like)
    lines = ["@var:xa = abs(Tgas/3d2 - 2.5d0)", "@var:nd = 3", "@var:nhalf = 7", "@var:sigma_t = 6.6524587d-25", "@var:fine = 1.2345678912d0",
             "@format:idx,R,R,P,rate",
             "1,H,H,H2,1.0d-10*abs(Tgas/1d2 - 3.7d0)",
             "2,H,E,H+,3d-11*sqrt(xa) + 1d-12*exp(-1d0*xa)",
             "3,H2,E,H,1d-12*log10(Tgas)*abs(-0.4d0)",
             "4,H+,E,H,1d-13*log(Tgas)/abs(0.25d0 - Tgas*1d-3)",
             "5,H2,H,H,2d-10*abs(xa - 0.75d0)",
             "6,H,H,H2,1d-10*dsqrt(Tgas)*dabs(xa - 0.75d0)/dlog10(Tgas) + 1d-12*dlog(Tgas)",
             "7,H2,H,H,1d-10*Tgas**(1/nd) + nhalf/2*6d-10",
             "8,H,E,H+,sigma_t*1d15*Tgas*fine"]          # every digit of a numeric @var counts
    frates = [l.split(",")[-1] for l in lines if l[0].isdigit()]
    temps = [rng.uniform(20.0, 240.0), rng.uniform(260.0, 700.0), rng.uniform(800.0, 2000.0), 315.0]
    for backend in ("dense", "rosenbrock4"):
        d = chk.scratch / f"krome-intrinsics-{backend}"
        d.mkdir(parents=True, exist_ok=True)
        (d / "net.krome").write_text("\n".join(lines) + "\n")
        reset_species_state()
        try:
            with silenced():
                net = Network(filelist=[str(d / "net.krome")], fileformats=["krome"], elements=["E", "H"], pseudo_elements=["g"])
                render(net, backend, d / "out")
        except Exception as e:
            chk.violation({"kind": "krome-file-refused", "file": "intrinsics"}, f"a well-formed KROME file was refused: "
                          f"{type(e).__name__}: {e}", input=lines)
            return
        path = d / "out"
        files = [path / "src" / ("naunet_ode.cpp" if backend == "rosenbrock4" else "naunet_rates.cpp"),
                 path / "src" / "naunet_physics.cpp", path / "src" / "naunet_constants.cpp", path / "src" / "naunet_utilities.cpp"]
        if backend != "rosenbrock4":
            files.append(path / "src" / "naunet_fex.cpp")
        exe = path / "c12"
        ok, err = cbuild.build(path, ROOT / "shim" / "c06_driver.cpp", exe, backend, files=[f for f in files if f.exists()],
                               defines=["C06_ODEINT"] if backend == "rosenbrock4" else [])
        if not ok:
            chk.violation({"kind": "does-not-compile", "backend": backend}, "the rendered rates of a KROME file that calls intrinsic "
                          "functions do not compile", input=lines, error=err[-1200:])
            continue
        r = subprocess.run([str(exe)], input="\n".join(repr(t) for t in temps) + "\n", capture_output=True, text=True, timeout=300)
        out = r.stdout.strip().split("\n")
        if r.returncode != 0 or len(out) != len(temps):
            chk.corr_break("compiled-intrinsics", {"backend": backend}, None, f"rc={r.returncode} {r.stderr[-300:]}")
            continue
        for t, row in zip(temps, out):
            got = [float(x) for x in row.split("|")[0].split()]
            fenv = {"Tgas": t, "Te": t * 8.617343e-5, "T32": t / 300.0, "invT": 1.0 / t}
            fenv["xa"] = float(feval(fparse("abs(Tgas/3d2 - 2.5d0)")[0], fenv))
            fenv["nd"], fenv["nhalf"], fenv["sigma_t"], fenv["fine"] = 3.0, 7.0, 6.6524587e-25, 1.2345678912
            want = [float(feval(fparse(fx)[0], fenv)) for fx in frates]
            chk.count(("krome-compiled", backend, t), nontrivial=True)
            chk.hist["krome-compiled"] += 1
            bad = [i for i, (g, w) in enumerate(zip(got, want)) if not abs(g - w) <= 1e-9 * max(abs(g), abs(w), 1e-300)]
            if len(got) != len(want) or bad:
                i = bad[0] if bad else 0
                chk.violation({"kind": "compiled-rate-differs", "backend": backend},
                              f"compiled {backend} EvalRates at Tgas={t!r}: rate {i + 1} `{frates[i]}` has Fortran value {want[i]!r}, the "
                              f"compiled code gives {got[i] if i < len(got) else None!r} (an intrinsic bound to another function, "
                              f"e.g. the integer abs)", input=lines, temperature=t)
                break


def file_level(chk, rng):
    """whole KROME files through the generator: every rate of the emitted EvalRates, evaluated with the user variables the
    file defines (`@var`, in file order - a later assignment of the same variable replaces the earlier one, as in KROME, where
    the variable block precedes the rate block), equals the Fortran value of that line's expression"""
    from naunet.network import Network
    from .rendering import Rendered, render
    from .ode_checks import reset_species_state
    files = {
        "var-reassigned": ["@common:user_crate", "@var:ksc = 2.d0", "@format:idx,R,R,P,Tmin,Tmax,rate", "1,H,H,H2,NONE,NONE,1.0d-10*ksc",
                           "@var:ksc = 2.d0*sqrt(Tgas/3d2)", "2,H,E,H+,NONE,NONE,3.0d-11*ksc*user_crate", "3,H2,E,H,NONE,NONE,ksc**2*1d-12"],
        "var-chain": ["@common:user_crate,user_av", "@var:a1 = 1.5d0*user_av", "@var:a2 = a1**2+1d0", "@format:idx,R,R,P,rate",
                      "1,H,H,H2,1.0d-10*a2", "2,H,E,H+,a1/a2*user_crate", "3,H2,E,H,dexp(-1d0*a1)*1d-9"],
    }
    for label, lines in files.items():
        d = chk.scratch / f"krome-{label}"
        d.mkdir(parents=True, exist_ok=True)
        (d / "net.krome").write_text("\n".join(lines) + "\n")
        reset_species_state()
        try:
            with silenced():
                net = Network(filelist=[str(d / "net.krome")], fileformats=["krome"], elements=["E", "H"], pseudo_elements=["g"])
                render(net, "dense", d / "out")
        except Exception as e:
            chk.violation({"kind": "krome-file-refused", "file": label}, f"a well-formed KROME file was refused: {type(e).__name__}: {e}",
                          input=lines)
            continue
        rd = Rendered(d / "out", "dense")
        body = cparse.function_body((d / "out" / "src" / "naunet_rates.cpp").read_text(), "EvalRates")
        decls = re.findall(r"\brealtype\s+(\w+)\s*=\s*([^;]+);", body)
        rates = rd.rates("k")
        # Fortran side: user variables in file order (last assignment wins), then each rate line
        fvars, frates = {}, []
        for l in lines:
            if l.startswith("@var:"):
                nm, rhs = l[5:].split("=", 1)
                fvars[nm.strip()] = rhs.strip()
            elif l and l[0].isdigit():
                frates.append(l.split(",")[-1])
        for trial in range(3):
            base = {"Tgas": rng.uniform(20.0, 900.0), "user_crate": rng.uniform(0.5, 2.0), "user_av": rng.uniform(0.5, 2.0)}
            fenv = dict(base)
            fenv.update({"Te": base["Tgas"] * 8.617343e-5, "T32": base["Tgas"] / 300.0, "invT": 1.0 / base["Tgas"]})
            try:
                for nm, rhs in fvars.items():
                    fenv[nm] = float(feval(fparse(rhs)[0], fenv))
                want = [float(feval(fparse(fx)[0], fenv)) for fx in frates]
            except (FReject, KeyError, ValueError, ZeroDivisionError, OverflowError):
                break
            cenv = dict(base)
            try:
                for nm, rhs in decls:
                    if "->" in rhs:
                        cenv.setdefault(nm, base.get(nm, 1.0))
                    else:
                        cenv[nm] = float(ceval.ev(cparse.parse_expr(rhs), cenv))
                got = [float(ceval.ev(cparse.parse_expr(r), cenv)) for _, r, _ in rates]
            except (cparse.CParseError, KeyError, ValueError, ZeroDivisionError, OverflowError) as e:
                chk.corr_break("krome-file", {"file": label}, None, f"emitted EvalRates not evaluable: {e}")
                break
            chk.count(("krome-file", label, trial), nontrivial=True)
            chk.hist["krome-file"] += 1
            bad = [i for i, (g, w) in enumerate(zip(got, want)) if abs(g - w) > 1e-9 * max(abs(g), abs(w), 1e-300)]
            if len(got) != len(want) or bad:
                i = bad[0] if bad else 0
                chk.violation({"kind": "krome-file-value-differs", "file": label},
                              f"KROME file `{label}`: rate {i + 1} `{frates[i] if i < len(frates) else '?'}` has Fortran value "
                              f"{want[i] if i < len(want) else None!r} under the file's @var assignments, the emitted code gives "
                              f"{got[i] if i < len(got) else None!r}", input=lines,
                              emitted_declarations=[f"{a} = {b}" for a, b in decls if "->" not in b][:12])
                break


if __name__ == "__main__":
    sys.exit(run(sys.argv[1:]))
