"""Render a real naunet Network with the real TemplateLoader into a scratch directory and read the
emitted files back with cparse (no use of naunet's internal ODE content)."""
from __future__ import annotations

import re
from pathlib import Path

from . import cparse
from .common import silenced

BACKENDS = {
    "dense": ("cvode", "dense", "cpu"),
    "sparse": ("cvode", "sparse", "cpu"),
    "cusparse": ("cvode", "cusparse", "gpu"),
    "rosenbrock4": ("odeint", "rosenbrock4", "cpu"),
}


def render(net, backend: str, path: Path, templates=None, jac_pattern=False, name="proj"):
    from naunet.templateloader import TemplateLoader

    solver, method, device = BACKENDS[backend]
    tl = TemplateLoader(solver, method, device)
    path = Path(path)
    path.mkdir(parents=True, exist_ok=True)
    with silenced():
        tl.render(name, net, templates=templates, path=path, jac_pattern=jac_pattern)
    return path


def _read(path: Path, *names):
    for n in names:
        p = path / n
        if p.exists():
            return p.read_text()
    raise FileNotFoundError(f"none of {names} under {path}")


def int_define(macros, name):
    v = macros[name]
    return int(v)


class Rendered:
    """structured view of one rendered project (what the C++ text says)"""

    def __init__(self, path: Path, backend: str):
        self.path = Path(path)
        self.backend = backend
        self.macros_text = _read(self.path, "include/naunet_macros.h")
        self.macros = cparse.defines(self.macros_text)
        self.nspec = int(self.macros["NSPECIES"])
        self.nheat = int(self.macros["NHEATPROCS"])
        self.ncool = int(self.macros["NCOOLPROCS"])
        self.thermal = bool(self.nheat or self.ncool)
        self.neqns = (self.nspec + (1 if self.thermal else 0)) or 1
        self.nreac = int(self.macros["NREACTIONS"])
        self.nnz = int(self.macros["NNZ"])
        self.nelem = int(self.macros["NELEMENTS"])
        self.idx = {}  # macro name (IDX_xxx) -> slot
        self.idx_order = []
        self.elem_idx = {}
        for k, v in self.macros.items():
            if k.startswith("IDX_ELEM_"):
                self.elem_idx[k] = int(v)
            elif k.startswith("IDX_") and k != "IDX_TGAS":
                self.idx[k] = int(v)
                self.idx_order.append(k)
        if self.thermal:
            self.idx["IDX_TGAS"] = self.nspec
        # all `#define IDX_...` lines including duplicates (cparse.defines keeps the first)
        self.idx_lines = re.findall(r"^#define (IDX_\S*)[ \t]+(\S+)[ \t]*$", self.macros_text, re.M)

    # ---------------------------------------------------------------- right-hand sides
    def fex(self):
        """slot -> rhs text with `y[IDX_..]` naming (cusparse kernel renamed back)"""
        if self.backend == "rosenbrock4":
            text = _read(self.path, "src/naunet_ode.cpp")
            body = cparse.function_body(text, "fex::operator()") if "fex::operator()" in text else text
        elif self.backend == "cusparse":
            text = _read(self.path, "src/naunet_fex.cu", "src/naunet_fex.cpp")
            body = cparse.function_body(text, "FexKernel")
        else:
            text = _read(self.path, "src/naunet_fex.cpp")
            body = cparse.function_body(text, "Fex")
        out = {}
        order = []
        for lhs, rhs, _ in cparse.assignments(body, r"ydot\[[^\]]*\]"):
            inner = lhs[len("ydot["):-1].strip()
            if self.backend == "cusparse":
                if not inner.startswith("yistart +"):
                    raise cparse.CParseError(f"cusparse lhs without yistart: {lhs}")
                inner = inner[len("yistart +"):].strip()
                if "y[IDX" in rhs:
                    raise cparse.CParseError(f"cusparse kernel reads the un-offset vector: {rhs[:80]}")
                rhs = rhs.replace("y_cur[IDX", "y[IDX")
            slot = self.slot_of(inner)
            if slot in out:
                raise cparse.CParseError(f"equation {inner} assigned twice")
            out[slot] = rhs
            order.append(slot)
        self.fex_order = order
        return out

    def expand_many(self, exprs):
        """each expression as the compiler sees it after including naunet_macros.h (one run of the real preprocessor)"""
        import subprocess
        from .cbuild import SHIM
        cache = self.__dict__.setdefault("_expanded", {})
        todo = [e for e in dict.fromkeys(exprs) if e not in cache]
        if todo:
            src = '#include "naunet_macros.h"\n' + "".join(f"VERIF_EXPR_{i} {e}\n" for i, e in enumerate(todo))
            r = subprocess.run(["g++", "-E", "-P", "-x", "c++", f"-I{self.path / 'include'}", f"-I{SHIM / 'include'}", "-"],
                               input=src, capture_output=True, text=True)
            for i, e in enumerate(todo):
                m = re.search(rf"VERIF_EXPR_{i}\s+([^\n]*)", r.stdout)
                if r.returncode != 0 or not m:
                    raise cparse.CParseError(f"preprocessor failed on `{e}`: {r.stderr[-200:]}")
                cache[e] = m.group(1)
        return [cache[e] for e in exprs]

    def expand(self, expr: str) -> str:
        return self.expand_many([expr])[0]

    def macro_hygiene(self):
        """size macros are used inside products and quotients (`cur * NEQUATIONS`, `lrw / NEQUATIONS`, `i * NEQUATIONS + j`):
        each must behave as one value there.  Returns [(name, value_in_product, expected)] for the offenders."""
        from . import ceval
        names = [n for n in ("NEQUATIONS", "NSPECIES", "NNZ", "NREACTIONS", "NELEMENTS", "THERMAL", "NHEATPROCS", "NCOOLPROCS")
                 if n in self.macros]
        exprs = [f"({n})" for n in names] + [f"7 * {n} * 3 - 1000 / (1000 / {n} * {n} + 1)" for n in names]
        try:
            texts = self.expand_many(exprs)
        except cparse.CParseError:
            return []
        bad = []
        for k, name in enumerate(names):
            try:
                alone = ceval.ev(cparse.parse_expr(texts[k]), {})
                inprod = ceval.ev(cparse.parse_expr(texts[len(names) + k]), {})
            except (cparse.CParseError, ZeroDivisionError, KeyError):
                continue
            if not alone:
                continue
            want = 7 * alone * 3 - ceval._cdiv(1000, (ceval._cdiv(1000, alone) * alone + 1))
            if inprod != want:
                bad.append((name, inprod, want))
        return bad

    def batch_layout(self):
        """cusparse only: where system number `cur` of a batch lives.  Returns a list of (what, cur, offset, expected) for
        cur = 0..3: the kernels' own offset expressions evaluated with the macros of naunet_macros.h, next to the offset the
        N_Vector / batched CSR matrix layout requires (NEQUATIONS entries per system, NNZ stored entries per system)."""
        from . import ceval
        if self.backend != "cusparse":
            return []
        env0 = {}
        out = []

        expand = self.expand
        ftext = _read(self.path, "src/naunet_fex.cu", "src/naunet_fex.cpp")
        jtext = _read(self.path, "src/naunet_jac.cu", "src/naunet_jac.cpp")
        for what, body, var, per in (("fex-y", cparse.function_body(ftext, "FexKernel"), "yistart", self.neqns),
                                     ("jac-y", cparse.function_body(jtext, "JacKernel"), "yistart", self.neqns),
                                     ("jac-data", cparse.function_body(jtext, "JacKernel"), "jistart", self.nnz)):
            m = re.search(r"\bint\s+" + var + r"\s*=\s*([^;]+);", body)
            if not m:
                raise cparse.CParseError(f"{what}: no `int {var} = ...;` in the kernel")
            ast = cparse.parse_expr(expand(m.group(1)))
            for cur in range(4):
                got = ceval.ev(ast, dict(env0, cur=cur))
                out.append((what, cur, got, cur * per))
            base = re.search(r"realtype\s*\*\s*y_cur\s*=\s*([^;]+);", body)
            if not base or "".join(base.group(1).split()) != "y+yistart":
                raise cparse.CParseError(f"{what}: y_cur is not y + yistart")
            if var == "yistart":
                # every system evaluates its rates with its own abundances and its own parameter block
                ud = re.search(r"NaunetData\s*\*\s*udata\s*=\s*([^;]+);", body)
                own = bool(ud) and "".join(ud.group(1).split()) == "&d_udata[cur]"
                calls = re.findall(r"\bEval\w*Rates\s*\(([^;]*)\)\s*;", body)
                args_ok = all([a.strip() for a in c.split(",")][1:] == ["y_cur", "udata"] for c in calls)
                out.append((what.split("-")[0] + "-udata", 1, int(own and args_ok and bool(calls)), 1))
        for fn, text in (("Fex", ftext),):
            body = cparse.function_body(text, fn)
            m = re.search(r"\bint\s+nsystem\s*=\s*([^;]+);", body)
            if m and "lrw" in m.group(1):     # the number of systems derived from the vector length
                ast = cparse.parse_expr(expand(m.group(1)))
                for nsys in (1, 3):
                    got = ceval.ev(ast, dict(env0, lrw=nsys * self.neqns))
                    out.append((fn + "-nsystem", nsys, got, nsys))
        return out

    def slot_of(self, name: str) -> int:
        name = name.strip()
        if name in self.idx:
            return self.idx[name]
        if re.fullmatch(r"\d+", name):
            return int(name)
        raise cparse.CParseError(f"unknown index macro {name}")

    # ---------------------------------------------------------------- local bindings of the two functions
    def local_bindings(self, which):
        """[(guards, name, rhs)]: the scalar definitions that precede the equations of Fex (`which == "fex"`) or Jac, with the
        conditional compilation resolved by the real preprocessor against this project's naunet_macros.h"""
        import subprocess
        from .cbuild import SHIM
        b = self.backend
        if b == "rosenbrock4":
            text = _read(self.path, "src/naunet_ode.cpp")
            name = "Fex::operator()" if which == "fex" else "Jac::operator()"
            start = r"ydot\[" if which == "fex" else r"\bj\s*\("
        elif b == "cusparse":
            text = _read(self.path, f"src/naunet_{which}.cu", f"src/naunet_{which}.cpp")
            name = "FexKernel" if which == "fex" else "JacKernel"
            start = r"ydot\[" if which == "fex" else r"\bdata\["
        else:
            text = _read(self.path, f"src/naunet_{which}.cpp")
            name = "Fex" if which == "fex" else "Jac"
            start = r"ydot\[" if which == "fex" else (r"IJth\s*\(" if b == "dense" else r"\bdata\[")
        # keep the preprocessor lines: function_body strips comments only
        body = cparse.function_body(text, name)
        m = re.search(r"(?:(?<=\n)|(?<=[{;]))[ \t]*" + start + r"[^;=]*=(?!=)", body)
        if m:
            body = body[:m.start()]
        src = '#include "naunet_macros.h"\nVERIF_BODY_BEGIN\n' + body + "\n"
        r = subprocess.run(["g++", "-E", "-P", "-x", "c++", f"-I{self.path / 'include'}", f"-I{SHIM / 'include'}", "-"],
                           input=src, capture_output=True, text=True)
        if r.returncode != 0 or "VERIF_BODY_BEGIN" not in r.stdout:
            raise cparse.CParseError(f"preprocessor failed on the body of {name}: {r.stderr[-200:]}")
        out = r.stdout.split("VERIF_BODY_BEGIN", 1)[1]
        if b == "cusparse":
            out = re.sub(r"\by_cur\b", "y", out)
        return cparse.scalar_statements(out)

    # ---------------------------------------------------------------- Jacobian
    def jac(self):
        """returns dict with 'entries': {(r,c): rhs}, and for CSR back-ends 'rowptr','cols'"""
        b = self.backend
        if b == "rosenbrock4":
            text = _read(self.path, "src/naunet_ode.cpp")
            ents = {}
            for lhs, rhs, _ in cparse.assignments(text, r"j\(\s*\d+\s*,\s*\d+\s*\)"):
                r, c = map(int, re.findall(r"\d+", lhs))
                if (r, c) in ents:
                    raise cparse.CParseError(f"j({r},{c}) assigned twice")
                ents[(r, c)] = rhs
            return {"entries": ents}
        if b == "dense":
            text = _read(self.path, "src/naunet_jac.cpp")
            body = cparse.function_body(text, "Jac")
            ents = {}
            for lhs, rhs, _ in cparse.assignments(body, r"IJth\(\s*jmatrix\s*,\s*\d+\s*,\s*\d+\s*\)"):
                r, c = map(int, re.findall(r"\d+", lhs))
                if (r, c) in ents:
                    raise cparse.CParseError(f"IJth({r},{c}) assigned twice")
                ents[(r, c)] = rhs
            return {"entries": ents}
        if b == "sparse":
            text = _read(self.path, "src/naunet_jac.cpp")
            body = cparse.function_body(text, "Jac")
            rowptr = self._indexed(body, "rowptrs")
            cols = self._indexed(body, "colvals")
            data = self._indexed(body, "data", numeric=False)
        else:
            text = _read(self.path, "src/naunet_jac.cu", "src/naunet_jac.cpp")
            init = cparse.function_body(text, "InitJac")
            rowptr = self._initialiser(init, "rowptrs")
            cols = self._initialiser(init, "colvals")
            kern = cparse.function_body(text, "JacKernel")
            data = {}
            for lhs, rhs, _ in cparse.assignments(kern, r"data\[[^\]]*\]"):
                inner = lhs[len("data["):-1].strip()
                if not inner.startswith("jistart +"):
                    raise cparse.CParseError(f"cusparse data lhs without jistart: {lhs}")
                n = int(inner[len("jistart +"):])
                if n in data:
                    raise cparse.CParseError(f"data[{n}] assigned twice")
                if "y[IDX" in rhs:
                    raise cparse.CParseError("cusparse kernel reads the un-offset vector")
                data[n] = rhs.replace("y_cur[IDX", "y[IDX")
            data = [data[i] for i in range(len(data))] if sorted(data) == list(range(len(data))) else data
        return {"rowptr": rowptr, "cols": cols, "data": data}

    @staticmethod
    def _indexed(body, name, numeric=True):
        d = {}
        for lhs, rhs, _ in cparse.assignments(body, re.escape(name) + r"\[\s*\d+\s*\]"):
            n = int(re.findall(r"\d+", lhs)[0])
            if n in d:
                raise cparse.CParseError(f"{name}[{n}] assigned twice")
            d[n] = int(rhs) if numeric else rhs
        if sorted(d) != list(range(len(d))):
            raise cparse.CParseError(f"{name}[] subscripts are not 0..{len(d)-1}: {sorted(d)[:10]}")
        return [d[i] for i in range(len(d))]

    @staticmethod
    def _initialiser(body, name):
        m = re.search(r"int\s+" + re.escape(name) + r"\s*\[([^\]]*)\]\s*=\s*\{([^}]*)\}", body, re.S)
        if not m:
            raise cparse.CParseError(f"initialiser of {name} not found")
        vals = [int(x) for x in m.group(2).replace("\n", " ").split(",") if x.strip()]
        return {"decl": m.group(1).strip(), "vals": vals}

    # ---------------------------------------------------------------- rates
    def rates(self, sym="k"):
        """list of (index, rhs_text, cond_text_or_None) in emission order from EvalRates"""
        if self.backend == "rosenbrock4":
            text = _read(self.path, "src/naunet_ode.cpp")
        elif self.backend == "cusparse":
            text = _read(self.path, "src/naunet_rates.cu", "src/naunet_rates.cpp")
        else:
            text = _read(self.path, "src/naunet_rates.cpp")
        fname = {"k": "EvalRates", "kh": "EvalHeatingRates", "kc": "EvalCoolingRates"}[sym]
        body = cparse.function_body(text, fname)
        out = []
        for lhs, rhs, cond in cparse.guarded_assignments(body, re.escape(sym) + r"\[\s*\d+\s*\]"):
            out.append((int(re.findall(r"\d+", lhs)[0]), rhs, cond))
        return out

    def pattern(self):
        p = self.path / "jac_pattern.dat"
        return [[int(x) for x in line.split()] for line in p.read_text().split("\n") if line.strip()]
