"""Worker process for C09: rebuilds networks described on stdin (one JSON object per line) with the real naunet and prints, per
network, the order of `Network.species` and the index macros a dense rendering gives them.  Run with a chosen PYTHONHASHSEED:
`naunet render`, `naunet render --patch …` and a later re-render are separate processes, so the artefacts agree only if the
order does not depend on the process."""
import json
import logging
import os
import sys
from pathlib import Path

logging.disable(logging.CRITICAL)
os.environ["TQDM_DISABLE"] = "1"
sys.path.insert(0, str(Path(__file__).resolve().parent.parent))


def main():
    from harness.common import silenced
    from harness.species_checks import CFGS, configure
    from naunet import chemistrydata
    from naunet.network import Network
    from naunet.reactions import Reaction
    from naunet.reactiontype import ReactionType as RT
    for line in sys.stdin:
        job = json.loads(line)
        try:
            cfg = CFGS[job["cfg"]]
            configure(cfg)
            chemistrydata.user_binding_energy.clear()
            if job.get("binding"):
                chemistrydata.update_binding_energy(job["binding"])
            rs = [Reaction(list(re_), list(pr_), alpha=1e-10, reaction_type=RT(t), idxfromfile=i + 1)
                  for i, (re_, pr_, t) in enumerate(job["reactions"])]
            with silenced():
                net = Network(rs, elements=list(cfg["elements"]), pseudo_elements=list(cfg["pseudo"]),
                              required_species=list(job["required"]) or None)
                out = {"species": [s.name for s in net.species], "elements": [e.name for e in net.elements]}
                # the host-code patch, rendered before anything else looks at the species' aliases (as `naunet render --patch enzo`
                # does in a process of its own)
                try:
                    import re
                    import tempfile
                    from naunet.patches import EnzoPatch
                    with tempfile.TemporaryDirectory() as d:
                        EnzoPatch("cpu").render(net, templates=["naunet_enzo.h.j2"], path=d)
                        out["enzo"] = re.findall(r"^#define A_(\S+)\s", (Path(d) / "naunet_enzo.h").read_text(), re.M)
                except Exception:
                    out["enzo"] = None
        except Exception as e:
            out = {"error": type(e).__name__}
        print(json.dumps(out), flush=True)


if __name__ == "__main__":
    main()
