"""C05: gas-phase rate coefficients follow each database's published law; emitted text is valid C.

impl   : real reaction objects of every format (created from a baseline line of that format, then given the test
         coefficients) -> rateexpr()
model  : Lean `Rate.gasRate` (character-level text with opaque magnitudes)
oracle : the published law of each (format, code), written here independently, evaluated in binary64 and compared
         with the evaluation of the emitted text; `g++ -fsyntax-only` over all emitted strings
"""
from __future__ import annotations

import math
import re
import subprocess
import sys
from pathlib import Path

from . import ceval, cparse, netgen
from .common import Check, lean_driver, quiet_naunet, silenced, tier_and_seed

quiet_naunet()
MODULES = ["NaunetProps.C05"]
THEOREMS = ["Naunet.C05.parse_eq_expected", "Naunet.C05.parse_case", "Naunet.C05.F2_witness", "Naunet.C05.type_tables",
            "Naunet.C05.arrhenius_law", "Naunet.C05.cosmicray_law", "Naunet.C05.photo_law", "Naunet.C05.ionpol1_law",
            "Naunet.C05.ionpol2_law", "Naunet.C05.umist_cp_law", "Naunet.C05.crphot_law", "Naunet.C05.crphot_scaled_law",
            "Naunet.C05.cr_scaled_law", "Naunet.C05.photo_g0_law"]
RULE = ("every (format, code) of the five reaction classes x coefficient triples drawn from {positive, negative, 0.0, -0.0} x "
        "{integer-valued, 1e-10-like, 1e300, 5e-324 denormal} x first reactant {H, H2, CO, N2, GH2, GCO}; each emitted string is "
        "compared character by character with the model, evaluated at random physical parameters against the published law, and "
        "compiled with g++ -fsyntax-only; case = (format, code, coefficients); non-trivial = at least one coefficient negative or zero")

# published laws, by (format, code); p = physical parameters


def law(fmt, code, a, b, c, p, first):
    T, Av, zeta, omega, zism, zcr, zxr, G0 = p["Tgas"], p["Av"], p["zeta"], p["omega"], p["zism"], p["zeta_cr"], p["zeta_xr"], p["G0"]
    arr = lambda: a * math.pow(T / 300.0, b) * math.exp(-c / T)
    if (fmt, code) in (("kida", 3), ("umist", "two-body"), ("leeds", 1), ("uclchem", "MA"), ("naunet", 100)):
        return arr()
    if (fmt, code) in (("kida", 1), ("naunet", 101)):
        return a * zeta
    if (fmt, code) in (("kida", 2), ("umist", "PH"), ("naunet", 102)):
        return a * math.exp(-c * Av)
    if (fmt, code) in (("kida", 4), ("naunet", 110)):
        return a * b * (0.62 + 0.4767 * c * math.sqrt(300.0 / T))
    if (fmt, code) in (("kida", 5), ("naunet", 111)):
        return a * b * (1 + 0.0967 * c * math.sqrt(300.0 / T) + c * c * (300.0 / T) / 10.526)
    if (fmt, code) == ("umist", "CP"):
        return a
    if (fmt, code) in (("umist", "CR"), ("naunet", 120)):
        return a * math.pow(T / 300.0, b) * c / (1 - omega)
    if (fmt, code) == ("leeds", 2):
        return a * (zcr + zxr) / zism
    if (fmt, code) in (("leeds", 3), ("leeds", 11)):
        return a * ((zcr + zxr) / zism) * math.pow(T / 300.0, b) * c / (1.0 - omega)
    if (fmt, code) in (("leeds", 4), ("leeds", 12)):
        base = G0 * a * math.exp(-c * Av)
        return base * p["shield"] if first in ("H2", "CO", "N2", "GH2", "GCO", "GN2") else base
    if (fmt, code) in (("leeds", 5), ("leeds", 15), ("leeds", 16), ("leeds", 17), ("leeds", 18), ("leeds", 19), ("naunet", 1000)):
        return 0.0
    if (fmt, code) == ("uclchem", "CRP"):
        return a * (zeta / zism)
    if (fmt, code) == ("uclchem", "CRPHOT"):
        return a * (zeta / zism) * math.pow(T / 300.0, b) * c / (1.0 - omega)
    if (fmt, code) == ("uclchem", "PHOTON"):
        if first == "CO":
            return 2.0e-10 * G0 * p["shield"] * p["scatter"] / 1.7
        return G0 * a * math.exp(-c * Av) / 1.7
    raise KeyError((fmt, code))


UMIST_TWOBODY = ["AD", "CD", "CE", "DR", "IN", "MN", "NN", "RA", "REA", "RR"]


def cases():
    out = []
    for f in range(1, 7):
        out.append(("kida", f))
    for code in UMIST_TWOBODY + ["PH", "CP", "CR"]:
        out.append(("umist", code))
    for t in [1, 2, 3, 4, 5, 11, 12, 15, 16, 17, 18, 19]:
        out.append(("leeds", t))
    for k in ["MA", "CRP", "CRPHOT", "PHOTON", "MA+photon-product", "MA+crp-product"]:
        out.append(("uclchem", k))     # (a two-body row may list PHOTON / CRP among its *products*: radiative association)
    for t in [100, 101, 102, 110, 111, 120, 1000, 103, 130, 999]:
        out.append(("naunet", t))
    return out


def make_reaction(fmt, code, first, abc=None):
    """a real reaction object of the format's class, read from a line of that format.  With `abc` the three coefficients
    are written into the line in the database's own column layout (KIDA: 3(e10.3,1x), sign in the first column of the field)
    and the values the text denotes are returned as well."""
    if abc is not None:
        from naunet.reactions import KIDAReaction, UMISTReaction, UCLCHEMReaction
        a, b, c = abc
        if fmt == "kida":
            ta, tb, tc = f"{a:10.3e}", f"{b:10.3e}", f"{c:10.3e}"
            line = (f"{first:<11}{'H':<11}{'':<11} {'C':<11}{'':<44} {ta} {tb} {tc} 2.00e+00 0.00e+00 logn  1    -9999   9999 "
                    f"{code:>2d}     1 1  1")
            return KIDAReaction(line), (float(ta), float(tb), float(tc)), line
        if fmt == "umist":
            ta, tb, tc = f"{a:.2e}", f"{b:.2f}", f"{c:.1f}"
            line = f"1:{code}:{first}:H:C::::1:{ta}:{tb}:{tc}:10:41000:L:C:\"x\"::"
            return UMISTReaction(line), (float(ta), float(tb), float(tc)), line
        if fmt == "uclchem":
            marker = {"MA": "H", "CRP": "CRP", "CRPHOT": "CRPHOT", "PHOTON": "PHOTON"}.get(code, "H")
            prods = {"MA+photon-product": "C,PHOTON,NAN,NAN", "MA+crp-product": "C,H,CRP,NAN"}.get(code, "C,NAN,NAN,NAN")
            ta, tb, tc = f"{a:.3e}", f"{b!r}", f"{c!r}"
            line = f"{first},{marker},NAN,{prods},{ta},{tb},{tc},0,0"
            return UCLCHEMReaction(line), (float(ta), float(tb), float(tc)), line
        raise KeyError(fmt)
    from naunet.reactions import KIDAReaction, UMISTReaction, LEEDSReaction, UCLCHEMReaction, Reaction
    from naunet.reactiontype import ReactionType as RT
    second = "H"
    if fmt == "kida":
        ar = netgen.AReac([], [], idx=1)
        line = f"{first:<11}{second:<11}{'':<11} {'C':<11}{'':<44} 1.000e-10 0.000e+00 0.000e+00 2.00e+00 0.00e+00 logn  1    -9999   9999 {code:>2d}     1 1  1"
        return KIDAReaction(line)
    if fmt == "umist":
        return UMISTReaction(f"1:{code}:{first}:{second}:C::::1:1.00e-10:0.00:0.0:10:41000:L:C:\"x\"::")
    if fmt == "leeds":
        f1 = first if code != 12 else first
        return LEEDSReaction(netgen.leeds_line(1, [f1, second] if code in (1,) else [f1], ["C"], rtype=code))
    if fmt == "uclchem":
        marker = {"MA": "H", "CRP": "CRP", "CRPHOT": "CRPHOT", "PHOTON": "PHOTON"}.get(code, "H")
        prods = {"MA+photon-product": "C,PHOTON,NAN,NAN", "MA+crp-product": "C,H,CRP,NAN"}.get(code, "C,NAN,NAN,NAN")
        return UCLCHEMReaction(f"{first},{marker},NAN,{prods},1.0e-10,0.0,0.0,0,0")
    return Reaction([first, second], ["C"], reaction_type=RT(code))


def model_code(fmt, code):
    if fmt == "umist":
        return {"PH": 102, "CP": 101, "CR": 120}.get(code, 100)
    if fmt == "uclchem":
        return {"MA": 100, "CRP": 101, "CRPHOT": 120, "PHOTON": 102}.get(code, 100)
    return code


def law_code(fmt, code):
    if fmt == "umist" and code in UMIST_TWOBODY:
        return "two-body"
    if fmt == "uclchem" and str(code).startswith("MA"):
        return "MA"
    return code


VALUES = [1e-10, 2.5e-9, 5.0, 300.0, 1.0, 1e300, 5e-324, 0.0, -0.0, 0.5, 1741.0,
          1.2345678912345e-10, 12.345678912345, 0.123456789012, 2.9999999e-9]     # every digit of a coefficient counts


def draw(rng):
    v = rng.choice(VALUES)
    return -v if (rng.random() < 0.4 and v != 0) else v


def lit(x):
    r = repr(float(x))
    return [r.startswith("-"), x == 0], r.lstrip("-")


def run(argv):
    from .ode_checks import reset_species_state
    tier, seed = tier_and_seed(argv)
    chk = Check("C05", tier, seed, MODULES, THEOREMS, RULE)
    chk.prove()
    rng = chk.rng
    reps = 8 if tier == "quick" else 60
    reset_species_state()
    reqs, pend, strings = [], [], []
    for fmt, code in cases():
        firsts = ["H"]
        if (fmt, code) in (("leeds", 4), ("uclchem", "PHOTON")):
            firsts = ["H", "H2", "CO", "N2", "C", "O", "N", "CO2", "HCO", "H2O"]   # incl. names inside / around the shielded ones
        if (fmt, code) == ("leeds", 12):
            firsts = ["GH", "GH2", "GCO", "GN2", "GC", "GO", "GCO2"]
        for first in firsts:
            try:
                with silenced():
                    r0 = make_reaction(fmt, code, first)
            except Exception as e:
                chk.violation({"kind": "construct-raised", "fmt": fmt, "code": str(code)}, f"creating a {fmt} reaction of code {code} raised {e}")
                continue
            for rep in range(reps):
                a, b, c = draw(rng), draw(rng), draw(rng)
                fixed = [(1e-10, -0.5, -5.0), (1e-10, 0.0, 0.0), (2.5e-9, 0.5, 0.0), (2.5e-9, 0.0, 100.0), (3.0e-10, -0.0, -0.0),
                         (1.2345678912345e-10, 0.123456789012, 12.345678912345)]
                if rep < len(fixed):
                    a, b, c = fixed[rep]          # the classic fusion case and every zero pattern first
                r0.alpha, r0.beta, r0.gamma = a, b, c
                case = {"fmt": fmt, "code": code, "first": first, "alpha": a, "beta": b, "gamma": c}
                nontriv = any(x <= 0 for x in (a, b, c))
                chk.count((fmt, str(code), first, a, b, c), nontrivial=nontriv)
                chk.hist[f"fmt:{fmt}"] += 1
                try:
                    with silenced():
                        txt = r0.rateexpr(None)
                    err = None
                except Exception as e:
                    txt, err = None, type(e).__name__
                # ---- oracle
                try:
                    law(fmt, law_code(fmt, code), 1.0, 1.0, 1.0, phys(rng), first)
                    has_law = True
                except KeyError:
                    has_law = False
                if not has_law:
                    if txt is not None:
                        chk.violation({"kind": "rate-for-undefined-code", "fmt": fmt, "code": str(code)},
                                      f"{fmt} code {code} has no published gas-phase law here but a rate was emitted: {txt}", input=case)
                    chk.hist["refused:" + str(err)] += 1
                else:
                    if txt is None:
                        chk.violation({"kind": "rate-refused", "fmt": fmt, "code": str(code), "error": err},
                                      f"{fmt} code {code}: rateexpr raised {err}", input=case)
                        continue
                    strings.append(txt)
                    bad = oracle_eval(chk, rng, fmt, code, first, a, b, c, txt, case)
                    if bad:
                        continue
                if len(chk.samples) < 5 and txt:
                    chk.sample({**case, "emitted": txt})
                (na, ma), (nb, mb), (nc, mc) = lit(a), lit(b), lit(c)
                alias = r0.reactants[0].alias if r0.reactants else ""
                name = r0.reactants[0].name if r0.reactants else ""
                reqs.append({"cmd": "gasrate", "fmt": fmt, "code": model_code(fmt, code) if has_law or fmt != "umist" else 0,
                             "a": na, "b": nb, "c": nc, "name": name, "alias": alias})
                pend.append((case, txt, err, [ma, mb, mc]))
    # ---- the same laws with the coefficients read from a line of the database's own layout (signed values in every column)
    FILE_VALUES = [(1e-10, -0.5, -5.0), (-1e-10, 0.5, 100.0), (-2.5e-9, -1.0, -30.5), (2.5e-9, 0.0, 0.0), (-1.0, 0.0, 12.5)]
    for fmt, code in cases():
        if fmt not in ("kida", "umist", "uclchem"):
            continue
        try:
            law(fmt, law_code(fmt, code), 1.0, 1.0, 1.0, phys(rng), "H")
        except KeyError:
            continue
        for abc in FILE_VALUES + [(draw(rng), draw(rng), draw(rng)) for _ in range(2 if tier == "quick" else 20)]:
            if any(abs(x) > 1e90 or (x != 0 and abs(x) < 1e-90) for x in abc):
                continue     # outside what a two-digit exponent column can carry
            try:
                with silenced():
                    r1, (a, b, c), line = make_reaction(fmt, code, "H", abc)
                    txt = r1.rateexpr(None)
            except Exception as e:
                chk.violation({"kind": "line-route-raised", "fmt": fmt, "code": str(code), "error": type(e).__name__},
                              f"reading a {fmt} line with signed coefficients and emitting its rate raised {type(e).__name__}: {e}",
                              input={"fmt": fmt, "code": code, "abc": abc})
                continue
            case = {"fmt": fmt, "code": code, "first": "H", "alpha": a, "beta": b, "gamma": c, "line": line, "route": "line"}
            chk.count((fmt, str(code), "line", a, b, c), nontrivial=any(x < 0 for x in (a, b, c)))
            chk.hist[f"line-route:{fmt}"] += 1
            strings.append(txt)
            oracle_eval(chk, rng, fmt, code, "H", a, b, c, txt, case)
    # ---- the same expressions as they arrive in the generated EvalRates of either solver
    rendered_rates_check(chk, rng)
    # ---- all strings must compile as C expressions
    syntax_check(chk, strings)
    # ---- model correspondence
    if getattr(chk, "lean_ok", False) and reqs:
        try:
            answers = lean_driver(reqs)
        except Exception as e:
            chk.corr_break("driver", None, None, str(e)[:300])
            answers = []
        for (case, txt, err, mags), ans in zip(pend, answers):
            if "text" in ans:
                mtxt = "".join(seg if isinstance(seg, str) else mags[seg] for seg in ans["text"])
                if txt != mtxt:
                    chk.corr_break("rate-text", case, mtxt, txt if txt is not None else f"raised {err}")
                else:
                    chk.traces += 1
            else:
                if txt is not None:
                    chk.corr_break("rate-text", case, ans, txt)
                elif ans.get("error_kind") == "NotImplementedError" and err != "NotImplementedError":
                    chk.corr_break("rate-error", case, ans, err)
                else:
                    chk.traces += 1
    return chk.finish()


def rendered_rates_check(chk, rng):
    """`rateexpr()` is what the reaction computes; what the generated library computes is the statement `k[i] = …;` that
    arrives in `EvalRates`.  A network with one reaction per database law is rendered for both solvers: every reaction must
    have its own statement, in order, whose expression is the reaction's rate expression token by token."""
    from naunet.network import Network
    from .ode_checks import reset_species_state
    from .rendering import Rendered, render
    picks = [("kida", 1), ("kida", 2), ("kida", 3), ("kida", 4), ("kida", 5), ("umist", "CP"), ("umist", "NN"), ("umist", "CR"),
             ("umist", "PH"), ("uclchem", "MA"), ("uclchem", "CRP")]
    for first_k in (0, 5):          # two networks: another reaction comes first (the statement right after the function's preamble)
        order = picks[first_k:] + picks[:first_k]
        reacs, want = [], []
        reset_species_state()
        for fmt, code in order:
            try:
                with silenced():
                    r1, _, _ = make_reaction(fmt, code, "H", (2.5e-9, -0.5, 12.5))
                    want.append(r1.rateexpr(None))
                    reacs.append(r1)
            except Exception:
                continue
        if len(reacs) < 3:
            continue
        # second network: the reactions carry database numbers (1-based, as every file numbers them) and the user replaces the rate of
        # ONE of them by number - every other reaction still follows its own law, the named one gets the replacement
        modified_at = None
        if first_k == 5:
            for i_, r_ in enumerate(reacs):
                r_.idxfromfile = i_ + 1
            modified_at = 2
            want[modified_at] = "1.0e-30"
        for b in ("dense", "rosenbrock4"):
            d = chk.scratch / f"rendered-{first_k}-{b}"
            try:
                with silenced():
                    net = Network(reacs, rate_modifier={modified_at + 1: "1.0e-30"}) if modified_at is not None else Network(reacs)
                    render(net, b, d)
                got = Rendered(d, b).rates("k")
            except Exception as e:
                chk.hist["rendered-rates-refused:" + type(e).__name__] += 1
                continue
            chk.count(("rendered-rates", first_k, b), nontrivial=True)
            chk.hist["rendered-rates"] += 1
            gi = {i: cparse.token_text(rhs) for i, rhs, _ in got}
            for i, w in enumerate(want):
                if gi.get(i) != cparse.token_text(w):
                    chk.violation({"kind": "rendered-rate-differs", "backend": b, "position": "first" if i == 0 else "later"},
                                  f"{b}: the statement for reaction {i} ({order[i][0]} {order[i][1]}) in the generated EvalRates is "
                                  f"{'missing' if i not in gi else 'not the rate expression of that reaction'}", input={"order": [list(map(str, o)) for o in order]},
                                  expected=w, observed=gi.get(i))
                    break


def phys(rng):
    return {"Tgas": rng.choice([10.0, 35.5, 300.0, 1e4]), "Av": rng.choice([0.0, 1.0, 7.5]), "zeta": rng.choice([1.3e-17, 5e-16]),
            "omega": rng.choice([0.5, 0.0]), "zism": 1.3e-17, "zeta_cr": rng.choice([1.3e-17, 1e-15]), "zeta_xr": rng.choice([0.0, 1e-18]),
            "G0": rng.choice([1.0, 1e3]), "shield": rng.choice([1.0, 0.25]), "scatter": rng.choice([1.0, 0.5])}


def close(x, y):
    if math.isnan(x) or math.isnan(y):
        return math.isnan(x) and math.isnan(y)
    if math.isinf(x) or math.isinf(y):
        return x == y
    return abs(x - y) <= 1e-9 * max(abs(x), abs(y), 1e-320)


def oracle_eval(chk, rng, fmt, code, first, a, b, c, txt, case):
    try:
        ast = cparse.parse_expr(txt)
    except cparse.CParseError as e:
        chk.violation({"kind": "not-an-expression", "fmt": fmt, "code": str(code)}, f"emitted text is not a C expression: {txt!r} ({e})", input=case)
        return True
    if "--" in txt.replace(" ", "") and "--" in txt or "++" in txt:
        chk.violation({"kind": "operator-fusion", "fmt": fmt, "code": str(code)}, f"emitted text contains a fused operator: {txt!r}", input=case)
        return True
    for _ in range(3):
        p = phys(rng)
        env = dict(p)
        env["h2col"] = 0.5 * 1.59e21 * p["Av"]
        env["cocol"] = env["n2col"] = 1e-5 * env["h2col"]
        env["lambdabar"] = 1000.0
        env["GetShieldingFactor"] = lambda *x: p["shield"]
        env["GetGrainScattering"] = lambda *x: p["scatter"]
        for n in set(re.findall(r"IDX_\w+", txt if isinstance(txt, str) else "")) | {"IDX_H2I", "IDX_COI", "IDX_N2I"}:
            env[n] = 0.0
        try:
            got = ceval.ev(ast, env)
        except (OverflowError, ZeroDivisionError, ValueError):
            got = None
        try:
            want = law(fmt, law_code(fmt, code), a, b, c, p, first)
        except (OverflowError, ZeroDivisionError, ValueError):
            want = None
        if (got is None) != (want is None) or (got is not None and not close(got, want)):
            chk.violation({"kind": "law-differs", "fmt": fmt, "code": str(code)},
                          f"{fmt} code {code}: emitted `{txt}` evaluates to {got!r}, the published law gives {want!r}",
                          input=case, parameters=p)
            return True
    return False


def syntax_check(chk, strings):
    if not strings:
        return
    src = chk.scratch / "rates.cpp"
    uniq = sorted(set(strings))
    body = "\n".join(f"    k[{i}] = {s};" for i, s in enumerate(uniq))
    src.write_text("#include <math.h>\ndouble GetShieldingFactor(int,double,double,double,int);\ndouble GetGrainScattering(double,double);\n"
                   "#define IDX_H2I 0\n#define IDX_COI 1\n#define IDX_N2I 2\n"
                   "void f(double *k, double Tgas, double Av, double zeta, double omega, double zism, double zeta_cr, double zeta_xr,\n"
                   "       double G0, double h2col, double cocol, double n2col, double lambdabar) {\n" + body + "\n}\n")
    r = subprocess.run(["g++", "-std=c++17", "-fsyntax-only", "-w", str(src)], capture_output=True, text=True)
    if r.returncode != 0:
        import re
        lines = sorted({int(m) for m in re.findall(r"rates\.cpp:(\d+):", r.stderr)})
        bad = [uniq[l - 9] for l in lines if 0 <= l - 9 < len(uniq)][:3]
        chk.violation({"kind": "does-not-compile"}, f"g++ rejects emitted rate expressions, e.g. {bad}", stderr=r.stderr[:800])
    chk.extra["strings_compiled"] = len(uniq)


if __name__ == "__main__":
    sys.exit(run(sys.argv[1:]))
