"""binary64 evaluation of cparse ASTs (C semantics for the operators the templates emit)"""
import math


def ev(e, env):
    k = e[0]
    if k == "num":
        return float(e[1])
    if k == "id":
        return env[e[1]]
    if k == "idx":
        from .poly import atom_name
        return env[atom_name(e)]
    if k == "neg":
        return -ev(e[1], env)
    if k == "pos":
        return +ev(e[1], env)
    if k == "not":
        return 0.0 if ev(e[1], env) else 1.0
    if k == "cond":
        return ev(e[2], env) if ev(e[1], env) else ev(e[3], env)
    if k == "call":
        a = [ev(x, env) for x in e[2]]
        f = e[1]
        if f == "pow":
            return math.pow(a[0], a[1])
        if f == "exp":
            return math.exp(a[0])
        if f == "sqrt":
            return math.sqrt(a[0])
        if f == "log":
            return math.log(a[0])
        if f == "log10":
            return math.log10(a[0])
        if f in ("fabs", "abs"):
            return abs(a[0])
        if f == "max":
            return max(a)
        if f == "min":
            return min(a)
        if f in env:
            return env[f](*a)
        raise KeyError(f"unknown function {f}")
    if k == "bin":
        op = e[1]
        if op == "&&":
            return 1.0 if (ev(e[2], env) and ev(e[3], env)) else 0.0
        if op == "||":
            return 1.0 if (ev(e[2], env) or ev(e[3], env)) else 0.0
        l, r = ev(e[2], env), ev(e[3], env)
        if op == "+":
            return l + r
        if op == "-":
            return l - r
        if op == "*":
            return l * r
        if op == "/":
            return l / r
        return 1.0 if {"<": l < r, ">": l > r, "<=": l <= r, ">=": l >= r, "==": l == r, "!=": l != r}[op] else 0.0
    raise ValueError(f"cannot evaluate {e}")
