"""binary64 evaluation of cparse ASTs (C semantics for the operators the templates emit).

Integer literals are C `int`s: arithmetic between two of them stays integral and `/` truncates (`1/3 == 0`), exactly
as the compiler would evaluate the emitted text; anything else is promoted to double."""
import math


def _cdiv(l, r):
    if isinstance(l, int) and isinstance(r, int) and not isinstance(l, bool) and not isinstance(r, bool):
        if r == 0:
            raise ZeroDivisionError("integer division by zero")
        q = abs(l) // abs(r)
        return q if (l >= 0) == (r >= 0) else -q
    return l / r


def ev(e, env):
    k = e[0]
    if k == "num":
        t = str(e[1])
        return int(t) if t.isdigit() else float(t)
    if k == "id":
        return env[e[1]]
    if k == "idx":
        from .poly import atom_name
        return env[atom_name(e)]
    if k == "neg":
        return -ev(e[1], env)
    if k == "pos":
        return +ev(e[1], env)
    if k == "not":
        return 0.0 if ev(e[1], env) else 1.0
    if k == "cond":
        return ev(e[2], env) if ev(e[1], env) else ev(e[3], env)
    if k == "call":
        a = [ev(x, env) for x in e[2]]
        a = [float(x) if isinstance(x, int) else x for x in a]
        f = e[1]
        if f == "pow":
            return math.pow(a[0], a[1])
        if f == "exp":
            return math.exp(a[0])
        if f == "sqrt":
            return math.sqrt(a[0])
        if f == "log":
            return math.log(a[0])
        if f == "log10":
            return math.log10(a[0])
        if f in ("fabs", "abs"):
            return abs(a[0])
        if f == "rint":                 # C: to the nearest integer, halves to even (the default rounding mode)
            return float(round(a[0]))
        if f in ("fmax",):
            return max(a)
        if f in ("fmin",):
            return min(a)
        if f == "fmod":
            return math.fmod(a[0], a[1])
        if f == "copysign":
            return math.copysign(a[0], a[1])
        if f == "max":
            return max(a)
        if f == "min":
            return min(a)
        if f in env:
            return env[f](*a)
        raise KeyError(f"unknown function {f}")
    if k == "bin":
        op = e[1]
        if op == "&&":
            return 1.0 if (ev(e[2], env) and ev(e[3], env)) else 0.0
        if op == "||":
            return 1.0 if (ev(e[2], env) or ev(e[3], env)) else 0.0
        l, r = ev(e[2], env), ev(e[3], env)
        if op == "+":
            return l + r
        if op == "-":
            return l - r
        if op == "*":
            return l * r
        if op == "/":
            return _cdiv(l, r)
        return 1.0 if {"<": l < r, ">": l > r, "<=": l <= r, ">=": l >= r, "==": l == r, "!=": l != r}[op] else 0.0
    raise ValueError(f"cannot evaluate {e}")
