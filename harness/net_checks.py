"""C14 (network consistent under edit histories) and C15 (duplicate detection).

impl   : the real naunet.network.Network driven through its API (and the `naunet extend` command)
model  : Lean `Naunet.Net.step` / `findDup` through the driver
oracle : an independent recompute-from-scratch reference (C14) / O(n^2) pairwise comparison (C15)
"""
from __future__ import annotations

import itertools
import json
import os
import sys
from collections import Counter
from pathlib import Path

from .common import Check, lean_driver, quiet_naunet, silenced, tier_and_seed

quiet_naunet()

C14_THEOREMS = ["Naunet.C14.speciesSet_nodup", "Naunet.C14.unionSet_nodup", "Naunet.C14.run_cacheNodup", "Naunet.C14.removeAt_neg", "Naunet.C14.removeAt_nonneg", "Naunet.C14.appendDepletion_inv", "Naunet.C14.appendDesorption_inv", "Naunet.C14.appendDesorption_held",
                "Naunet.C14.appendDepletion_held", "Naunet.C14.desorption_exact", "Naunet.C14.depletion_exact", "Naunet.C14.extend_inv",
                "Naunet.C14.run_inv", "Naunet.C14.reachable_inv", "Naunet.C14.step_inv", "Naunet.C14.species_eq",
                "Naunet.C14.source_sink_eq", "Naunet.C14.setAllowed_eq_construct", "Naunet.C14.foldl_add_held"]
C15_THEOREMS = ["Naunet.C15.dup_iff_earlier_equal", "Naunet.C15.dupIdx_iff", "Naunet.C15.dupIdx_sorted",
                "Naunet.C15.remove_dups_one_representative", "Naunet.C15.dedup_spec", "Naunet.C15.key_isEquiv",
                "Naunet.C15.findDup_fst", "Naunet.C15.F14_witness", "Naunet.ReqEq.eqR_perm", "Naunet.ReqEq.eqR_count", "Naunet.ReqEq.eqR_hash",
                "Naunet.ReqEq.eqR_window", "Naunet.ReqEq.eqR_refl", "Naunet.ReqEq.eqR_symm", "Naunet.ReqEq.eqR_trans_typed"]
C14_RULE = ("edit histories over a small species alphabet: add / add-many / remove by index, index list, instance, instance "
            "list / set allowed / set required, random length up to 40 (quick) or 400 (thorough) plus (thorough) all op-kind "
            "sequences of length 3; after every step species, held reactions, sources and sinks are compared; the `naunet "
            "extend` command is run on generated files. case = one step of one history; non-trivial = network non-empty")
C15_RULE = ("reaction lists with permuted reactants/products, repeated species, variants differing only in window or type, "
            "runs of 2-6 repeats, x modes {default, brief, minimal, short}; case = (list, mode); non-trivial = at least one "
            "duplicate pair")

NAMES = ["H", "H2", "C", "O", "CO", "e-", "H+", "OH", "H2O", "C+"]
# spellings that denote the same species (Species.__eq__): the reference works on canonical names
ALT = {"E": "e-"}
canon = lambda s: ALT.get(s, s)
respell = lambda rng, s: rng.choice([k for k, v in ALT.items() if v == s]) if s in ALT.values() and rng.random() < 0.3 else s


def setup_species():
    from .ode_checks import reset_species_state
    reset_species_state()


# ------------------------------------------------------------------------------------------- C14


class RefNet:
    """recompute-from-scratch reference of the property statement"""

    def __init__(self):
        self.held, self.skipped, self.allowed, self.required = [], [], [], []

    def admits(self, r):
        allowed = {canon(x) for x in self.allowed}
        return not self.allowed or all(canon(s) in allowed for s in r["re"] + r["pr"])

    def add(self, r):
        (self.held if self.admits(r) else self.skipped).append(r)

    def apply(self, op):
        k, a = op
        if k == "add":
            self.add(a)
        elif k == "addMany":
            for r in a:
                self.add(r)
        elif k == "removeIdx":
            self.held.pop(a)
        elif k == "removeIdxs":
            self.held = [r for i, r in enumerate(self.held) if i not in a]
        elif k == "removeInst":
            self.held = [r for r in self.held if r["eqk"] != a["eqk"]]
        elif k == "removeInsts":
            ks = {x["eqk"] for x in a}
            self.held = [r for r in self.held if r["eqk"] not in ks]
        elif k == "setAllowed":
            rec = self.held + self.skipped
            self.allowed, self.held, self.skipped = list(a), [], []
            for r in rec:
                self.add(r)
        elif k == "setRequired":
            self.required = list(a)

    def species(self):
        return sorted({canon(s) for r in self.held for s in r["re"] + r["pr"]} | {canon(s) for s in self.required})

    def sources_sinks(self):
        re_ = {canon(s) for r in self.held for s in r["re"]}
        pr_ = {canon(s) for r in self.held for s in r["pr"]}
        return sorted(re_ - pr_), sorted(pr_ - re_)


class Gen14:
    def __init__(self, rng, nspecies):
        self.rng = rng
        self.names = rng.sample(NAMES, nspecies)
        self.uid = 0
        self.classes = {}

    def reac(self):
        rng = self.rng
        re_ = [respell(rng, rng.choice(self.names)) for _ in range(rng.choice([1, 2, 2, 3]))]
        pr_ = [respell(rng, rng.choice(self.names)) for _ in range(rng.choice([0, 1, 1, 2, 3]))]
        tmin = rng.choice([-1.0, -1.0, 10.0])
        key = (tuple(sorted(map(canon, re_))), tuple(sorted(map(canon, pr_))), tmin)
        eqk = self.classes.setdefault(key, len(self.classes))
        self.uid += 1
        return {"uid": self.uid, "re": re_, "pr": pr_, "tmin": tmin, "eqk": eqk}

    def variant(self, r):
        """the same species with another multiplicity (`H + H -> H2` next to `H -> H2`): a different reaction"""
        rng = self.rng
        re_, pr_ = list(r["re"]), list(r["pr"])
        side = re_ if (rng.random() < 0.6 or not pr_) else pr_
        dup = [x for x in side if sum(1 for y in side if canon(y) == canon(x)) > 1]
        if dup and (rng.random() < 0.5 or len(side) >= 3):
            side.remove(dup[0])
        elif len(side) < 3:
            side.append(rng.choice(side))
        key = (tuple(sorted(map(canon, re_))), tuple(sorted(map(canon, pr_))), r["tmin"])
        eqk = self.classes.setdefault(key, len(self.classes))
        self.uid += 1
        return {"uid": self.uid, "re": re_, "pr": pr_, "tmin": r["tmin"], "eqk": eqk}

    def clone(self, r):
        self.uid += 1
        rng = self.rng
        re_, pr_ = list(r["re"]), list(r["pr"])
        rng.shuffle(re_)
        rng.shuffle(pr_)
        return {"uid": self.uid, "re": re_, "pr": pr_, "tmin": r["tmin"], "eqk": r["eqk"]}

    def op(self, ref: RefNet, kind=None):
        rng = self.rng
        kinds = ["add"] * 4 + ["addMany", "removeIdx", "removeIdxs", "removeInst", "removeInsts", "setAllowed", "setAllowed",
                               "setRequired"]
        k = kind or rng.choice(kinds)
        n = len(ref.held)
        everything = ref.held + ref.skipped
        if k == "add":
            if everything and rng.random() < 0.3:
                return (k, self.clone(rng.choice(everything)))
            if everything and rng.random() < 0.25:
                return (k, self.variant(rng.choice(everything)))
            return (k, self.reac())
        if k == "addMany":
            return (k, [self.reac() for _ in range(rng.randint(0, 4))])
        if k == "removeIdx":
            if n == 0:
                return ("add", self.reac())
            i_ = rng.randrange(n)
            # (Python's convention for a position counted from the end: -1 takes back the reaction added last)
            return (k, NegIdx(i_ - n, i_) if rng.random() < 0.3 else i_)
        if k == "removeIdxs":
            idxs = sorted(rng.sample(range(n), rng.randint(0, min(n, 3)))) if n else []
            if idxs and rng.random() < 0.4:       # positions collected from several searches: unordered, one of them found twice
                idxs = idxs + [rng.choice(idxs)]
                rng.shuffle(idxs)
            return (k, idxs)
        if k == "removeInst":
            if not everything:
                return ("add", self.reac())
            return (k, self.clone(rng.choice(everything)))
        if k == "removeInsts":
            return (k, [self.clone(rng.choice(everything)) for _ in range(rng.randint(0, 2))] if everything else [])
        if k == "setAllowed":
            if rng.random() < 0.25:
                return (k, [])
            # never conflict with the declared required species (the constructor refuses that combination)
            return (k, [respell(rng, x) for x in rng.sample(self.names, rng.randint(1, len(self.names)))])
        return ("setRequired", [respell(rng, x) for x in rng.sample(self.names, rng.randint(0, 2))])


def make_reaction(r):
    from naunet.reactions import Reaction
    from naunet.reactiontype import ReactionType as RT
    return Reaction(list(r["re"]), list(r["pr"]), temp_min=r["tmin"], temp_max=-1.0, alpha=1e-10,
                    reaction_type=RT.GAS_TWOBODY, idxfromfile=r["uid"])


def apply_impl(net, op, objs):
    k, a = op
    if k == "add":
        o = make_reaction(a)
        objs[id(o)] = a["uid"]
        net.add_reaction(o)
    elif k == "addMany":
        for r in a:
            o = make_reaction(r)
            objs[id(o)] = r["uid"]
            net.add_reaction(o)
    elif k in ("removeIdx", "removeIdxs"):
        net.remove_reaction(a)
    elif k == "removeInst":
        net.remove_reaction(make_reaction(a))
    elif k == "removeInsts":
        net.remove_reaction([make_reaction(r) for r in a])
    elif k == "setAllowed":
        net.allowed_species = list(a)
    elif k == "setRequired":
        net.required_species = list(a)


class NegIdx(int):
    """a negative list position together with the non-negative position it denotes (what the model is told)"""
    def __new__(cls, neg, pos):
        o = super().__new__(cls, neg)
        o.pos = pos
        return o


def op_json(op, ids):
    k, a = op
    enc = lambda r: [r["uid"], [ids[canon(s)] for s in r["re"]], [ids[canon(s)] for s in r["pr"]], r["eqk"]]
    if k == "add":
        return [k, enc(a)]
    if k == "addMany":
        return [k, [enc(r) for r in a]]
    if k == "removeIdx":
        return ["removeAt", int(a)] if isinstance(a, NegIdx) else [k, a]      # (the model reads Python's positions itself)
    if k == "removeIdxs":
        return [k, a]
    if k == "removeInst":
        return [k, a["eqk"]]
    if k == "removeInsts":
        return [k, [r["eqk"] for r in a]]
    return [k, [ids[canon(s)] for s in a]]


def op_show(op):
    k, a = op
    sh = lambda r: " + ".join(r["re"]) + " -> " + " + ".join(r["pr"]) + (f" [T>{r['tmin']}]" if r["tmin"] > 0 else "")
    if k == "add" or k == "removeInst":
        return [k, sh(a)]
    if k in ("addMany", "removeInsts"):
        return [k, [sh(r) for r in a]]
    return [k, a]


def snapshot_impl(net, objs):
    src, snk = net.find_source_sink()
    return {"held": [objs.get(id(r), -1) for r in net.reaction_list],
            "skipped": [objs.get(id(r), -1) for r in net._skipped_reactions],
            "species": sorted(canon(s.name) for s in net.species),
            "sources": sorted(canon(s.name) for s in src), "sinks": sorted(canon(s.name) for s in snk)}


def run_history(chk, ops_gen, hist_id):
    """ops_gen(ref) yields ops one at a time given the reference state"""
    from naunet.network import Network
    setup_species()
    with silenced():
        net = Network()
    ref = RefNet()
    objs = {}
    ops, impl_snaps = [], []
    for op in ops_gen(ref):
        ops.append(op)
        try:
            with silenced():
                apply_impl(net, op, objs)
        except Exception as e:
            chk.violation({"kind": "edit-raised", "op": op[0], "error": type(e).__name__},
                          f"{op[0]} raised {type(e).__name__}: {e}", history=[op_show(o) for o in ops])
            return None
        ref.apply(op)
        try:
            snap = snapshot_impl(net, objs)
        except Exception as e:
            chk.violation({"kind": "query-raised", "op": op[0], "error": type(e).__name__},
                          f"species / find_source_sink raised {type(e).__name__}: {e} after {op[0]}",
                          history=[op_show(o) for o in ops])
            return None
        impl_snaps.append(snap)
        chk.count((hist_id, len(ops)), nontrivial=bool(ref.held or ref.skipped))
        chk.hist["op:" + op[0]] += 1
        # ---- oracle
        want_src, want_snk = ref.sources_sinks()
        want = {"held": [r["uid"] for r in ref.held], "species": ref.species(), "sources": want_src, "sinks": want_snk}
        got_cmp = {k: snap[k] for k in want}
        if op[0] == "setAllowed":  # order after a late allowed list is not claimed (multiset)
            want["held"], got_cmp["held"] = sorted(want["held"]), sorted(got_cmp["held"])
        if got_cmp != want:
            bad = [k for k in want if want[k] != got_cmp[k]]
            chk.violation({"kind": "inconsistent-after-edit", "op": op[0], "fields": bad},
                          f"after {op[0]} the network's {', '.join(bad)} differ from those of the reactions it holds",
                          history=[op_show(o) for o in ops], expected={k: want[k] for k in bad},
                          observed={k: got_cmp[k] for k in bad})
            return None
    return ops, impl_snaps, net


def run_c14(argv):
    tier, seed = tier_and_seed(argv)
    chk = Check("C14", tier, seed, ["NaunetProps.C14"], C14_THEOREMS, C14_RULE)
    chk.prove()
    rng = chk.rng
    nhist = 40 if tier == "quick" else 300
    maxlen = 40 if tier == "quick" else 400
    histories = []
    for h in range(nhist):
        gen = Gen14(rng, rng.randint(2, 6))
        length = rng.randint(1, maxlen if h % 10 == 0 else 25)

        def ops_gen(ref, gen=gen, length=length):
            for _ in range(length):
                yield gen.op(ref)

        res = run_history(chk, ops_gen, h)
        if res:
            histories.append((gen, *res))
    if tier == "thorough":
        kinds = ["add", "addMany", "removeIdx", "removeIdxs", "removeInst", "removeInsts", "setAllowed", "setRequired"]
        for n, combo in enumerate(itertools.product(kinds, repeat=3)):
            gen = Gen14(rng, 3)

            def ops_gen(ref, gen=gen, combo=combo):
                yield ("addMany", [gen.reac() for _ in range(3)])
                for k in combo:
                    yield gen.op(ref, k)

            res = run_history(chk, ops_gen, 10000 + n)
            if res:
                histories.append((gen, *res))
    # ---- correspondence with the Lean model
    if getattr(chk, "lean_ok", False) and histories:
        reqs = []
        for gen, ops, snaps, net in histories:
            ids = {s: i for i, s in enumerate(NAMES)}
            reqs.append({"cmd": "net", "ops": [op_json(o, ids) for o in ops]})
        try:
            answers = lean_driver(reqs)
        except Exception as e:
            chk.corr_break("driver", None, None, str(e)[:400])
            answers = []
        for (gen, ops, snaps, net), ans in zip(histories, answers):
            if isinstance(ans, dict) and "error" in ans:
                chk.corr_break("model-error", [op_show(o) for o in ops][:10], ans, None)
                continue
            for i, (m, s) in enumerate(zip(ans, snaps)):
                mm = {"held": m["held"], "skipped": m["skipped"], "species": sorted(NAMES[x] for x in m["species"]),
                      "sources": sorted(NAMES[x] for x in m["sources"]), "sinks": sorted(NAMES[x] for x in m["sinks"])}
                if mm != s:
                    chk.corr_break("net-step", {"history": [op_show(o) for o in ops[:i + 1]][-8:], "step": i}, mm, s)
                    break
            else:
                chk.traces += 1
    if histories:
        chk.sample({"history": [op_show(o) for o in histories[0][1]][:10]})
    check_extend_cli(chk)
    return chk.finish()


def check_extend_cli(chk):
    """`naunet extend` on generated native files: options combined, output compared with the reference"""
    from cleo.testers.command_tester import CommandTester
    from naunet.console.application import Application
    from . import netgen
    rng = chk.rng
    app = Application()
    ncases = 6 if chk.tier == "quick" else 40
    mreqs, mpend = [], []
    for n in range(ncases):
        setup_species()
        from naunet.species import Species
        Species.reset()
        pool = [s for s in netgen.gas_pool() if s.name in ("H", "H2", "C", "O", "CO", "OH", "H2O", "H+", "C+", "CH", "N", "N2")]
        sub, reacs = netgen.random_network(rng, pool, rng.randint(3, 8), rng.randint(2, 14), with_pseudo=False,
                                           electron_spellings=("e-",), dup_rate=0.25, window_rate=0.0)
        if not reacs:
            continue
        # near-duplicates: the same species and type with temperature limits 0.04 K apart are two different reactions (two fits
        # of one process over adjoining windows); both have to survive --remove-duplicate
        if n == 1 or rng.random() < 0.3:
            import copy
            base = rng.choice(reacs)
            base.tmin, base.tmax = 10.0, 300.0
            twin = copy.copy(base)
            twin.tmin, twin.tmax = rng.choice([(10.04, 300.0), (10.0, 300.04), (9.96, 299.96)])
            twin.idx = max(r.idx for r in reacs) + 1
            reacs.append(twin)
            chk.hist["extend-near-duplicate"] += 1
        # a file that already holds ices, a charged one among them: desorption returns each ice to *its* gas-phase species
        with_ices = n == 2 or rng.random() < 0.25
        if with_ices:
            h3o, h2o, co, hco = [("H", 3), ("O", 1)], [("H", 2), ("O", 1)], [("C", 1), ("O", 1)], [("H", 1), ("C", 1), ("O", 1)]
            nxt = max(r.idx for r in reacs) + 1
            extra = [netgen.AReac([netgen.mk(h3o, 1, ice=True), netgen.electron("e-")], [netgen.mk(h2o, 0, ice=True), netgen.mk([("H", 1)])]),
                     netgen.AReac([netgen.mk(co, 0, ice=True), netgen.mk([("H", 1)], 1)], [netgen.mk(hco, 1, ice=True)]),
                     netgen.AReac([netgen.mk(hco, 1)], [netgen.mk(hco, 1, ice=True)])]
            for k_, r_ in enumerate(extra):
                r_.idx = nxt + k_
            reacs += extra
            chk.hist["extend-input-with-ices"] += 1
        d = chk.scratch / f"extend{n}"
        d.mkdir(parents=True, exist_ok=True)
        (d / "naunet_config.toml").write_text('[chemistry]\n[chemistry.symbol]\ngrain = "GRAIN"\nsurface = "#"\nbulk = "@"\n')
        (d / "in.naunet").write_text("".join(netgen.native_line(r) + "\n" for r in reacs))
        present = sorted({s.name for r in reacs for s in r.re + r.pr})
        remove = rng.sample(present, rng.randint(0, min(2, len(present))))
        keep = rng.sample(present, rng.randint(1, len(present))) if rng.random() < 0.4 else []
        dedup = rng.random() < 0.6 or n == 1
        deplete = rng.random() < 0.5
        args = "in.naunet out.naunet"
        if keep:
            args += f" --reduce-by-species={','.join(keep)}"
        if remove:
            args += f" --remove-species={','.join(remove)}"
        if dedup:
            args += " --remove-duplicate"
        if deplete:
            args += " --append-depletion"
        desorb = [o for o in ("thermal", "photon", "cosmic-ray") if rng.random() < 0.4]
        if n == 0:      # depletion followed by desorption of the species it created, always
            deplete, desorb, keep, remove = True, ["thermal", "cosmic-ray"], [], []
            args = "in.naunet out.naunet --append-depletion" + (" --remove-duplicate" if dedup else "")
        if n == 4:      # reduced to a species list (here: every species present) and then extended: the list restricts the input only
            deplete, desorb, keep, remove = True, ["thermal"], list(present), []
            args = f"in.naunet out.naunet --reduce-by-species={','.join(keep)}" + (" --remove-duplicate" if dedup else "") + " --append-depletion"
        if n == 3:      # two species removed that occur together in one reaction (its position is found twice)
            both = next(([a_.name, b_.name] for r in reacs for a_ in r.re + r.pr for b_ in r.re + r.pr if a_.name != b_.name), None)
            if both:
                deplete, desorb, keep, remove = False, [], [], both
                args = "in.naunet out.naunet --remove-species=" + ",".join(both) + (" --remove-duplicate" if dedup else "")
        if n == 2:      # ices in the input, every desorption option
            deplete, desorb, keep, remove = rng.random() < 0.5, ["thermal", "photon", "cosmic-ray"], [], []
            args = "in.naunet out.naunet" + (" --remove-duplicate" if dedup else "") + (" --append-depletion" if deplete else "")
        if n == 1:      # de-duplication alone, on a file that holds a near-duplicate pair
            deplete, desorb, keep, remove, dedup = False, [], [], [], True
            args = "in.naunet out.naunet --remove-duplicate"
        for o in desorb:
            args += f" --append-{o}-desorption"
        cwd = os.getcwd()
        os.chdir(d)
        try:
            tester = CommandTester(app.find("extend"))
            try:
                with silenced():
                    rc = tester.execute(args)
            except Exception as e:
                chk.violation({"kind": "extend-raised", "error": type(e).__name__}, f"`naunet extend {args}` raised {type(e).__name__}: {e}",
                              args=args, input=[netgen.native_line(r) for r in reacs][:6])
                continue
        finally:
            os.chdir(cwd)
        chk.count(("extend", n), nontrivial=True)
        chk.hist["extend-cli"] += 1
        # reference
        cur = [{"re": [s.name for s in r.re], "pr": [s.name for s in r.pr], "sig": r.sig(), "win": (r.tmin, r.tmax, r.rtype)} for r in reacs]
        if keep:
            cur = [r for r in cur if all(s in keep for s in r["re"] + r["pr"])]
        if remove:
            cur = [r for r in cur if not any(s in remove for s in r["re"] + r["pr"])]
        if dedup:
            seen, out = set(), []
            for r in cur:
                k = (tuple(sorted(r["re"])), tuple(sorted(r["pr"])), r["win"])
                if k in seen:
                    continue
                seen.add(k)
                out.append(r)
            cur = out
        want = [(tuple(sorted(r["re"])), tuple(sorted(r["pr"]))) for r in cur]
        if deplete:
            sp = sorted({s for r in cur for s in r["re"] + r["pr"]})
            want += [((s,), ("#" + s,)) for s in sp if not s.endswith(("+", "-")) and not s.startswith("#")]
        # each desorption option returns every surface species present at that point (also the ones depletion just created)
        surface = sorted({s for re_, pr_ in want for s in re_ + pr_ if s.startswith("#")})
        for o in desorb:
            want += [((s,), (s[1:],)) for s in surface]
        outp = d / "out.naunet"
        if rc != 0 or not outp.exists():
            chk.violation({"kind": "extend-failed", "rc": rc}, f"`naunet extend {args}` failed: {tester.io.fetch_error()[:300]}", args=args)
            continue
        got = []
        for line in outp.read_text().split("\n"):
            if not line.strip():
                continue
            f = [x.strip() for x in line.split(",")]
            got.append((tuple(sorted(x for x in f[1:4] if x)), tuple(sorted(x for x in f[4:9] if x))))
        if Counter(got) != Counter(want):
            chk.violation({"kind": "extend-output", "options": sorted(o.split("=")[0] for o in args.split()[2:])},
                          f"`naunet extend {args}` wrote reactions that differ from the edits requested", args=args,
                          missing=[list(map(list, x)) for x in (Counter(want) - Counter(got))][:5],
                          unexpected=[list(map(list, x)) for x in (Counter(got) - Counter(want))][:5])
            continue
        # ---- the Lean model of the command (`Net.extend`) on the same input: species as identity numbers, their attributes as the
        #      command reads them (neutral gas-phase, surface, the ice / gas-phase counterpart)
        names0 = sorted({s.name for r in reacs for s in r.re + r.pr})
        allnames = list(names0)
        for nm in names0:
            for extra_nm in (("#" + nm) if not nm.startswith("#") else nm[1:],):
                if extra_nm not in allnames:
                    allnames.append(extra_nm)
        ident = {nm: i for i, nm in enumerate(allnames)}
        charged = lambda nm: nm.endswith(("+", "-"))
        classes = {}
        mreqs.append({"cmd": "extend",
                      "reactions": [[i, [ident[s.name] for s in r.re], [ident[s.name] for s in r.pr],
                                     classes.setdefault((tuple(sorted(s.name for s in r.re)), tuple(sorted(s.name for s in r.pr)),
                                                         r.tmin, r.tmax, r.rtype), len(classes) + 1)] for i, r in enumerate(reacs)],
                      "neutral": [ident[nm] for nm in allnames if not nm.startswith("#") and not charged(nm)],
                      "surface": [ident[nm] for nm in allnames if nm.startswith("#")],
                      "iceOf": [[ident[nm], ident["#" + nm]] for nm in allnames if not nm.startswith("#") and "#" + nm in ident],
                      "gasOf": [[ident[nm], ident[nm[1:]]] for nm in allnames if nm.startswith("#") and nm[1:] in ident],
                      "keep": [ident[x] for x in keep] if keep else None, "remove": [ident[x] for x in remove],
                      "dedup": bool(dedup), "deplete": bool(deplete),
                      "desorb": [{"thermal": 201, "photon": 203, "cosmic-ray": 202}[o] for o in desorb]})
        mpend.append((args, allnames, got))
    if getattr(chk, "lean_ok", False) and mreqs:
        try:
            answers = lean_driver(mreqs)
        except Exception as e:
            chk.corr_break("driver", None, None, str(e)[:400])
            answers = []
        for (args, allnames, got), ans in zip(mpend, answers):
            if "error" in ans:
                chk.corr_break("extend-model", {"args": args}, ans, None)
                continue
            mh = [(tuple(sorted(allnames[i] for i in re_)), tuple(sorted(allnames[i] for i in pr_))) for re_, pr_ in ans["held"]]
            if Counter(mh) != Counter(got):
                chk.corr_break("extend-model", {"args": args},
                               {"only_in_model": [list(map(list, x)) for x in (Counter(mh) - Counter(got))][:5]},
                               {"only_in_output": [list(map(list, x)) for x in (Counter(got) - Counter(mh))][:5]})
            else:
                chk.traces += 1
                chk.hist["extend-model-compared"] += 1


# ------------------------------------------------------------------------------------------- C15


# every reaction-type number: two reactions that differ in their type only are different reactions
ALL_TYPES = [100, 101, 102, 103, 110, 111, 120, 130, 200, 201, 202, 203, 204, 210, 220, 221, 300, 301, 302, 310]


def gen_dup_list(rng, tier):
    from naunet.reactiontype import ReactionType as RT
    names = rng.sample(NAMES, rng.randint(2, 6))
    if rng.random() < 0.2:
        names += ["E", "e-"]
    n = rng.randint(0, 30 if tier == "quick" else 120)
    base = []
    out = []
    use_unknown = rng.random() < 0.25
    for _ in range(n):
        if base and rng.random() < 0.45:
            b = dict(rng.choice(base))
            b["re"] = rng.sample(b["re"], len(b["re"]))
            b["pr"] = rng.sample(b["pr"], len(b["pr"]))
            v = rng.random()
            if v < 0.15:
                b["tmin"] = rng.choice([-1.0, 10.0, 100.0])
            elif v < 0.3:
                b["type"] = rng.choice(ALL_TYPES + ([999] if use_unknown else []))
            elif v < 0.42 and len(b["re"]) < 3:
                b["re"] = b["re"] + [rng.choice(b["re"])]      # the same species with another multiplicity: another reaction
            out.append(b)
        else:
            re_ = [rng.choice(names) for _ in range(rng.choice([1, 2, 2, 3]))]
            pr_ = [rng.choice(names) for _ in range(rng.choice([0, 1, 2, 3]))]
            b = {"re": re_, "pr": pr_, "tmin": rng.choice([-1.0, -1.0, 10.0]), "tmax": rng.choice([-1.0, 300.0]),
                 "type": rng.choice([100, 100, 101] + (ALL_TYPES if rng.random() < 0.3 else []) + ([999] if use_unknown and rng.random() < 0.3 else []))}
            base.append(b)
            out.append(b)
        if out and rng.random() < 0.1:  # runs of repeats
            out.extend(dict(out[-1]) for _ in range(rng.randint(1, 4)))
    return out


def mode_key(r, mode):
    rp = (tuple(sorted(r["re"])), tuple(sorted(r["pr"])))
    if mode is None or mode == "brief":   # Species equality: both electron spellings are one species
        rp = (tuple(sorted(map(canon_species, r["re"]))), tuple(sorted(map(canon_species, r["pr"]))))
    if mode in ("brief", "minimal"):
        return rp
    if mode == "short":
        # the printed type is the *name* of the member of the reading class's own enumeration (KIDA_MA, UMIST_TWOBODY …): rows
        # of different databases never print alike, whatever their numeric type ("db" is set for merged lists only)
        return rp + (f"{r['tmin']:7.1f}", f"{r['tmax']:7.1f}", r["type"], r.get("db"))
    return rp + (r["tmin"], r["tmax"])  # default: class; the type is compared with the UNKNOWN rule


def pair_equiv(a, b, mode):
    if mode_key(a, mode) != mode_key(b, mode):
        return False
    if mode is None:
        return a["type"] == b["type"] or 999 in (a["type"], b["type"])
    return True


def is_electron(n):
    return n.upper() in ("E", "E-")


def canon_species(n):
    return "<electron>" if is_electron(n) else n


def dict_semantics(lst, mode=None):
    """what a Python dict keyed by Reaction objects does in the default mode: a new reaction is compared (==) only with
    stored keys whose hash is equal (the multisets of reactants and products, whatever their spelling and order), in the
    order in which those keys were inserted"""
    hk = lambda r: (tuple(sorted(canon_species(x) for x in r["re"])), tuple(sorted(canon_species(x) for x in r["pr"])))
    reps, dup, matched = [], [], []
    for i, r in enumerate(lst):
        hit = next((k for k, j in enumerate(reps) if hk(lst[j]) == hk(r) and pair_equiv(lst[j], r, mode)), None)
        if hit is None:
            reps.append(i)
            matched.append(False)
        else:
            dup.append(i)
            matched[hit] = True
    return dup, [j for j, m in zip(reps, matched) if m]


def run_c15(argv):
    from naunet.network import Network
    from naunet.reactions import Reaction
    from naunet.reactiontype import ReactionType as RT
    tier, seed = tier_and_seed(argv)
    chk = Check("C15", tier, seed, ["NaunetProps.C15", "NaunetProps.ReactionEq"], C15_THEOREMS, C15_RULE)
    chk.prove()
    rng = chk.rng
    ncases = 60 if tier == "quick" else 600
    reqs, pend = [], []
    eq_reqs, eq_pend = [], []
    R = lambda re_, pr_, ty, tmin=-1.0, tmax=-1.0: {"re": re_, "pr": pr_, "tmin": tmin, "tmax": tmax, "type": ty}
    corpus = [
        [R(["H", "CO"], ["H2"], 100), R(["CO", "H"], ["H2"], 999), R(["H", "CO"], ["H2"], 102)],           # F14 witness
        [R(["E", "H+"], ["H"], 100), R(["e-", "H+"], ["H"], 100)],                                         # F16 witness
        [R(["H", "H"], ["H2"], 100), R(["H", "H"], ["H2"], 100, 10.0), R(["H", "H"], ["H2"], 101), R(["H", "H"], ["H2"], 100)],
        # an untyped reaction (KROME, or type 999 in a native file) followed by its typed copies, and the other way round
        [R(["H", "CO"], ["H2"], 999), R(["CO", "H"], ["H2"], 100)],
        [R(["H", "CO"], ["H2"], t) for t in ALL_TYPES] + [R(["CO", "H"], ["H2"], t) for t in reversed(ALL_TYPES)],   # every type pair
        [R(["C", "O"], ["CO"], 999), R(["C", "O"], ["CO"], 101), R(["O", "C"], ["CO"], 101), R(["H", "H"], ["H2"], 100), R(["H", "H"], ["H2"], 999)],
        # placeholders without species (an indented comment line of a KROME file left one before the fix of F30; a caller can still add one) in front of and between the repeats: the
        # reported indices are positions in the network's own reaction list
        [R([], [], 100), R(["H", "CO"], ["HCO"], 100), R(["C", "O"], ["CO"], 100), R([], [], 100), R(["CO", "H"], ["HCO"], 100),
         R(["C", "O"], ["CO"], 100)],
        # ices of one molecule on two grain populations (#1…, #2…) are different species: reactions that differ in the population only
        # are no repeats of each other
        [R(["#1H", "#1CO"], ["#1HCO"], 100), R(["#2H", "#2CO"], ["#2HCO"], 100), R(["#1CO", "#1H"], ["#1HCO"], 100), R(["#2CO"], ["CO"], 100),
         R(["#1CO"], ["CO"], 100), R(["#2CO"], ["CO"], 100)],
        # windows that differ in the first decimal only (2.7 K / 2.0 K, 10.5 K / 10.0 K): different reactions in every mode that
        # looks at the window, the printed form included (it prints one decimal)
        [R(["H", "CO"], ["HCO"], 100, 10.0, 300.0), R(["CO", "H"], ["HCO"], 100, 10.5, 300.0), R(["H", "CO"], ["HCO"], 100, 10.0, 300.0),
         R(["C", "O"], ["CO"], 100, 2.7, 41000.0), R(["C", "O"], ["CO"], 100, 2.0, 41000.0), R(["O", "C"], ["CO"], 100, 2.7, 41000.5),
         R(["C", "O"], ["CO"], 100, 2.7, 41000.0)],
    ]
    for n in range(ncases):
        lst = corpus[n] if n < len(corpus) else gen_dup_list(rng, tier)
        setup_species()
        # the same list either as API objects or - when every type is one KIDA can express - read from a KIDA file, where a
        # two-body line may also carry a formula id outside 1..6 (the reader warns and reads it as formula 3)
        KF = {100: 3, 101: 1, 102: 2}
        from_file = n >= len(corpus) and lst and all(r["type"] in KF for r in lst) and rng.random() < 0.4
        if n == len(corpus):
            lst = [R(["H", "CO"], ["HCO"], 100), R(["CO", "H"], ["HCO"], 100), R(["C", "O"], ["CO"], 100), R(["H", "CO"], ["HCO"], 100),
                   R(["C", "O"], ["CO"], 100, 10.0)]
            from_file = True
        build = lambda: Network([Reaction(list(r["re"]), list(r["pr"]), r["tmin"], r["tmax"], 1e-10, 0.0, 0.0, RT(r["type"]), i)
                                 for i, r in enumerate(lst)])
        if from_file:
            from .codec_checks import enc_kida
            forms = [KF[r["type"]] if not (r["type"] == 100 and (rng.random() < 0.3 or (n == len(corpus) and i == 1))) else rng.choice([7, 0, 9])
                     for i, r in enumerate(lst)]
            kf = chk.scratch / f"dup{n}.kida"
            kf.write_text("".join(enc_kida({"re": list(r["re"]), "pr": list(r["pr"]), "pseudo_re": [], "pseudo_pr": [], "alpha": 1e-10,
                                            "beta": 0.0, "gamma": 0.0, "tmin": r["tmin"], "tmax": r["tmax"]}, i, f) + "\n"
                                  for i, (r, f) in enumerate(zip(lst, forms))))
            build = lambda: Network(filelist=[str(kf)], fileformats=["kida"])
            chk.hist["from-kida-file"] += 1
        # the same list merged from two databases: the first rows from a KIDA file, the rest from a UMIST file (sibling reaction
        # classes).  A reaction present once per database is a repeat like any other.
        UF = {100: "NN", 101: "CP", 102: "PH"}
        mixed = (n == len(corpus) + 1) or (n > len(corpus) + 1 and lst and rng.random() < 0.25 and all(r["type"] in KF for r in lst)
                                            and all(len(r["re"]) <= 2 and len(r["pr"]) <= 4 for r in lst))
        if n == len(corpus) + 1:
            lst = [R(["H", "CO"], ["HCO"], 100), R(["C", "O"], ["CO"], 100), R(["OH", "H"], ["H2O"], 101),
                   R(["CO", "H"], ["HCO"], 100), R(["C", "O"], ["CO"], 100, 10.0), R(["H", "CO"], ["HCO"], 100), R(["H", "OH"], ["H2O"], 101)]
        if mixed:
            from .codec_checks import enc_kida, enc_umist
            cut = 3 if n == len(corpus) + 1 else rng.randint(1, max(1, len(lst) - 1))
            as_abs = lambda r: {"re": list(r["re"]), "pr": list(r["pr"]), "pseudo_re": [], "pseudo_pr": [], "alpha": 1e-10, "beta": 0.0,
                                "gamma": 0.0, "tmin": r["tmin"], "tmax": r["tmax"]}
            lst = [dict(r, db="kida" if i < cut else "umist") for i, r in enumerate(lst)]
            kf, uf = chk.scratch / f"mix{n}.kida", chk.scratch / f"mix{n}.umist"
            kf.write_text("".join(enc_kida(as_abs(r), i, KF[r["type"]]) + "\n" for i, r in enumerate(lst[:cut])))
            uf.write_text("".join(enc_umist(as_abs(r), cut + i, UF[r["type"]]) + "\n" for i, r in enumerate(lst[cut:])))
            build = lambda: Network(filelist=[str(kf), str(uf)], fileformats=["kida", "umist"])
            chk.hist["from-two-databases"] += 1
        try:
            with silenced():
                net = build()
        except ValueError as e:
            chk.violation({"kind": "reaction-type-rejected"}, f"building a network from well-formed reactions raised {type(e).__name__}: {e} "
                          f"(every number of the native type table denotes its own reaction type)", input=[r["type"] for r in lst][:30])
            continue
        for mode in (None, "brief", "minimal", "short"):
            with silenced():
                dupes, dupidx, first = net.find_duplicate_reaction(mode=mode)
            first_idx = [r.idxfromfile for r in first]
            show = [(" + ".join(r["re"]) + " -> " + " + ".join(r["pr"]), r["tmin"], r["tmax"], r["type"]) for r in lst]
            # ---- oracle: O(n^2) pairwise statement of the property
            want_dup = [i for i in range(len(lst)) if any(pair_equiv(lst[j], lst[i], mode) for j in range(i))]
            want_first = [i for i in range(len(lst))
                          if not any(pair_equiv(lst[j], lst[i], mode) for j in range(i))
                          and any(pair_equiv(lst[i], lst[j], mode) for j in range(i + 1, len(lst)))]
            chk.count((n, str(mode)), nontrivial=bool(want_dup))
            chk.hist[f"mode:{mode}"] += 1
            has_unknown = any(r["type"] == 999 for r in lst)
            if [d.idxfromfile for d in dupes] != dupidx:
                chk.violation({"kind": "dupes-vs-indices", "mode": str(mode)}, "reported reactions and indices disagree", input=show[:12])
            if (dupidx != want_dup or first_idx != want_first) and mode in (None, "brief") and (dupidx, first_idx) == dict_semantics(lst, mode):
                # (the spelling of equal species no longer matters for hashing since the fix of F16)
                cause = "untyped" if (has_unknown and mode is None) else "other"
                chk.violation({"kind": "default-mode-dict-semantics", "cause": cause},
                              f"default mode compares with stored representatives of equal hash only ({cause}): reported "
                              f"{dupidx}, equivalent-to-earlier are {want_dup}", input=show[:20],
                              expected=[want_dup, want_first], observed=[dupidx, first_idx])
                continue
            if (dupidx != want_dup or first_idx != want_first) and mode is None and has_unknown:
                # is the deviation due to the untyped reactions alone (known finding F14: equality with an UNKNOWN-typed
                # reaction is not transitive and the default mode compares with one stored representative)?  Decide it on the
                # list itself: without its untyped members the report must be exact.
                typed = [r for r in lst if r["type"] != 999]
                with silenced():
                    setup_species()
                    tnet = Network([Reaction(list(r["re"]), list(r["pr"]), r["tmin"], r["tmax"], 1e-10, 0.0, 0.0, RT(r["type"]), i)
                                    for i, r in enumerate(typed)])
                    _, tdup, tfirst = tnet.find_duplicate_reaction(mode=None)
                t_want_dup = [i for i in range(len(typed)) if any(pair_equiv(typed[j], typed[i], None) for j in range(i))]
                t_want_first = [i for i in range(len(typed)) if not any(pair_equiv(typed[j], typed[i], None) for j in range(i))
                                and any(pair_equiv(typed[i], typed[j], None) for j in range(i + 1, len(typed)))]
                if tdup == t_want_dup and [r.idxfromfile for r in tfirst] == t_want_first and (dupidx, first_idx) == dict_semantics(lst, mode):
                    chk.violation({"kind": "default-mode-dict-semantics", "cause": "untyped"},
                                  f"default mode on a list that mixes typed and untyped (UNKNOWN) reactions: reported {dupidx[:12]}…, "
                                  f"equivalent-to-earlier are {want_dup[:12]}… (exact once the untyped reactions are left out)",
                                  input=show[:20], expected=[want_dup, want_first], observed=[dupidx, first_idx])
                    continue
            if dupidx != want_dup or first_idx != want_first:
                chk.violation({"kind": "duplicate-report", "mode": str(mode), "untyped_mixed": has_unknown and mode is None},
                              f"mode {mode}: reported {dupidx}/{first_idx}, equivalent-to-earlier are {want_dup}/{want_first}",
                              input=show[:20], expected=[want_dup, want_first], observed=[dupidx, first_idx])
                continue
            # removal leaves one representative per class
            with silenced():
                setup_species()
                net2 = build()
                net2.remove_reaction(list(dupidx))
                again = net2.find_duplicate_reaction(mode=mode)[1]
            kept = [r.idxfromfile for r in net2.reaction_list]
            if again or any(not any(pair_equiv(lst[k], lst[i], mode) for k in kept) for i in range(len(lst))):
                chk.violation({"kind": "removal", "mode": str(mode), "untyped_mixed": has_unknown and mode is None},
                              f"mode {mode}: after removing the reported reactions duplicates remain or a class lost its representative",
                              input=show[:20], kept=kept, again=again)
                continue
            # ---- model request
            classes = {}
            items = []
            for r in lst:
                c = classes.setdefault(mode_key(r, mode), len(classes) + 1)
                items.append([c, (0 if r["type"] == 999 else r["type"]) if mode is None else 1])
            reqs.append({"cmd": "dup", "items": items})
            pend.append((show, mode, dupidx, first_idx, kept))
        # asked again after the reactions were edited in place (a repeat given its own temperature window, a reaction replaced by
        # another one): each report describes the list as it is at the time of the call
        if not any(r["type"] == 999 for r in lst) and len(lst) >= 2 and not from_file and not mixed:
            lst2 = [dict(r) for r in lst]
            with silenced():
                base_dup = net.find_duplicate_reaction(mode=None)[1]
            victim = base_dup[0] if base_dup else rng.randrange(len(lst2))
            objs_ = net.reaction_list
            objs_[victim].temp_min, objs_[victim].temp_max = 7777.0, 8888.0
            lst2[victim]["tmin"], lst2[victim]["tmax"] = 7777.0, 8888.0
            other = rng.choice([i for i in range(len(lst2)) if i != victim])
            src = lst2[(other + 1) % len(lst2)] if (other + 1) % len(lst2) != victim else lst2[other]
            objs_[other] = Reaction(list(src["re"]), list(src["pr"]), src["tmin"], src["tmax"], 1e-10, 0.0, 0.0, RT(src["type"]), other)
            lst2[other] = dict(src)
            show2 = [(" + ".join(r["re"]) + " -> " + " + ".join(r["pr"]), r["tmin"], r["tmax"], r["type"]) for r in lst2]
            for mode in (None, "brief", "minimal", "short"):
                with silenced():
                    _, dupidx2, first2 = net.find_duplicate_reaction(mode=mode)
                want2 = [i for i in range(len(lst2)) if any(pair_equiv(lst2[j], lst2[i], mode) for j in range(i))]
                chk.count((n, "edited", str(mode)), nontrivial=bool(want2))
                chk.hist["asked-again-after-in-place-edit"] += 1
                if dupidx2 != want2 and (dupidx2, [r.idxfromfile for r in first2]) != dict_semantics(lst2, mode):
                    chk.violation({"kind": "stale-duplicate-report", "mode": str(mode)},
                                  f"mode {mode}: after a reaction got its own temperature window and another was replaced in place, the "
                                  f"search reports {dupidx2}; equivalent-to-earlier are {want2}", input=show2[:20],
                                  before_the_edits=show[:20], edited={"window_of": victim, "replaced": other})
                    break
        # the equality and the hash key themselves, pair by pair, against the Lean model (`ReqEq.eqR`, `ReqEq.hashKey`)
        if getattr(chk, "lean_ok", False) and len(lst) >= 2 and len(eq_reqs) < (40 if tier == "quick" else 400):
            objs = net.reaction_list
            distinct = []

            def sid(sp):
                for k, d in enumerate(distinct):
                    if d == sp:
                        return k
                distinct.append(sp)
                return len(distinct) - 1
            recs = [{"re": [sid(x) for x in o.reactants], "pr": [sid(x) for x in o.products], "tmin": round(o.temp_min * 100),
                     "tmax": round(o.temp_max * 100), "ty": int(o.reaction_type)} for o in objs]
            idx = list(range(len(objs)))
            pairs = [(a, b) for a in idx for b in idx if a < b]
            if len(pairs) > 60:
                pairs = rng.sample(pairs, 60)
            impl = [[bool(objs[a] == objs[b]), hash(objs[a]) == hash(objs[b])] for a, b in pairs]
            eq_reqs.append({"cmd": "reqeq", "reactions": recs, "pairs": [list(p) for p in pairs]})
            eq_pend.append((show, pairs, impl))
        if n < 3:
            chk.sample({"reactions": show[:8], "default_mode_report": net.find_duplicate_reaction()[1]})
    if getattr(chk, "lean_ok", False) and reqs:
        try:
            answers = lean_driver(reqs)
        except Exception as e:
            chk.corr_break("driver", None, None, str(e)[:400])
            answers = []
        for (show, mode, dupidx, first_idx, kept), ans in zip(pend, answers):
            if "error" in ans or ans["dupidx"] != dupidx or ans["first"] != first_idx or ans["kept"] != kept:
                chk.corr_break("find-duplicate", {"mode": mode, "reactions": show[:12]}, ans,
                               {"dupidx": dupidx, "first": first_idx, "kept": kept})
            else:
                chk.traces += 1
    if getattr(chk, "lean_ok", False) and eq_reqs:
        try:
            answers = lean_driver(eq_reqs)
        except Exception as e:
            chk.corr_break("driver", None, None, str(e)[:400])
            answers = []
        for (show, pairs, impl), ans in zip(eq_pend, answers):
            if isinstance(ans, dict) and "error" in ans:
                chk.corr_break("reaction-eq", show[:12], ans, None)
                continue
            bad = next(((p, m, i) for p, m, i in zip(pairs, ans, impl)
                        if m[0] != i[0] or (m[1] and not i[1])), None)      # equal hash keys must hash alike (the converse is luck)
            if bad:
                (a, b), m, i = bad
                chk.corr_break("reaction-eq", {"first": show[a], "second": show[b]}, {"equal": m[0], "same_hash_key": m[1]},
                               {"equal": i[0], "same_hash": i[1]})
            else:
                chk.traces += 1
                chk.hist["eq-hash-pairs"] += len(pairs)
    return chk.finish()


if __name__ == "__main__":
    sys.exit({"C14": run_c14, "C15": run_c15}[sys.argv[1]](sys.argv[2:]))
