"""C06: a reaction acts only inside its declared temperature window."""
from __future__ import annotations

import math
import re
import subprocess
import sys
from pathlib import Path

from . import cbuild, ceval, cparse, netgen
from .common import Check, ROOT, lean_driver, quiet_naunet, silenced, tier_and_seed
from .rendering import Rendered, render

quiet_naunet()
MODULES = ["NaunetProps.C06", "NaunetProps.C03b"]
THEOREMS = ["Naunet.SolverObj.rate_arrays_ok", "Naunet.C06.window_sem", "Naunet.C06.outside_zero", "Naunet.C06.inside_rate",
            "Naunet.C06.no_window_always_active", "Naunet.C06.window_partition", "Naunet.C06.activeCount_zero_of_lt"]
RULE = ("networks read from native / KIDA / UMIST / KROME files whose reactions declare windows (none, lower only, upper only, "
        "both, zero and negative bounds, adjacent piecewise fits of one reaction); every rate statement's guard is parsed and "
        "evaluated, and the compiled EvalRates is run, at nextafter-below / at / above every bound; case = (reaction, "
        "temperature, back-end); non-trivial = the reaction declares at least one positive bound")

SPECIES = ["H", "H2", "C", "O", "CO", "OH", "H2O", "CH", "N", "N2"]


def gen_reactions(rng, tier):
    """list of dicts: re, pr, tmin, tmax, alpha, group (piecewise family id or None), fmt"""
    out = []
    n = 30 if tier == "quick" else 120
    alpha = 1.0
    fam = 0
    # (a UCLCHEM reaction makes the generated code refer to the H2 abundance - finding F17 - so H2 is always a species here)
    out.append({"re": ["H", "H"], "pr": ["H2"], "tmin": -1.0, "tmax": -1.0, "alpha": 1.0, "group": None, "fmt": "naunet", "kind": None})
    while len(out) < n:
        re_ = [rng.choice(SPECIES) for _ in range(rng.choice([1, 2, 2]))]
        pr_ = [rng.choice(SPECIES) for _ in range(rng.choice([1, 2]))]
        fmt = rng.choice(["naunet", "kida", "umist", "krome", "uclchem", "uclchem", "leeds"])
        kind = None
        if fmt == "uclchem":
            # the second reactant column of a UCLCHEM line names the process: two-body (a species), direct cosmic ray, photon,
            # cosmic-ray photon - all of them carry the two window columns
            kind = rng.choice(["MA", "CRP", "PHOTON", "CRPHOT"])
            if kind != "MA":
                re_ = re_[:1]
        if fmt == "leeds":
            kind = rng.choice([1, 2, 3, 4])       # two-body, cosmic-ray proton, cosmic-ray photon, photoprocess
            re_, pr_ = re_[:2 if kind == 1 else 1], pr_[:2]
        if kind in (4, "PHOTON") and re_[0] in ("H2", "CO", "N2"):
            re_[0] = rng.choice(["C", "O", "OH", "H2O", "CH", "N"])     # (self-shielded species take their rate from a table function)
        if rng.random() < 0.35:
            # adjacent piecewise windows
            fam += 1
            nb = rng.randint(3, 5)
            bounds = sorted(rng.sample([5, 10, 20, 50, 100, 280, 300, 800, 1000, 5500, 41000, 11604.518, 157.321987, 9280.1234, 2.7255], nb))
            if fmt in ("kida", "leeds"):       # KIDA and Leeds windows are integer columns
                bounds = sorted({int(x) for x in bounds if int(x) > 0})
                if len(bounds) < 2:
                    bounds = [10, 300]
            for a, b in zip(bounds, bounds[1:]):
                alpha += 1.0
                out.append({"re": re_, "pr": pr_, "tmin": float(a), "tmax": float(b), "alpha": alpha, "group": fam, "fmt": fmt,
                            "bounds": bounds, "kind": kind})
        else:
            shape = rng.choice(["none", "lower", "upper", "both", "zero", "neg-lower", "zero-upper"])
            lo = float(rng.choice([5, 10, 100, 300, 5500, 11604.518, 157.321987] if fmt not in ("kida", "leeds") else [5, 10, 100, 300, 5500]))
            if fmt == "leeds" and shape in ("neg-lower",):
                shape = "upper"          # (the Leeds columns are unsigned)
            hi = float(rng.choice([300, 1000, 41000])) if shape != "both" else lo * rng.choice([2, 10])
            tmin, tmax = {"none": (-1.0, -1.0), "lower": (lo, -1.0), "upper": (-1.0, hi), "both": (lo, hi), "zero": (0.0, 0.0),
                          "neg-lower": (-9999.0, hi), "zero-upper": (lo, 0.0)}[shape]
            alpha += 1.0
            if fmt == "leeds":
                tmin, tmax = max(tmin, 0.0), max(tmax, 0.0)
            out.append({"re": re_, "pr": pr_, "tmin": tmin, "tmax": tmax, "alpha": alpha, "group": None, "fmt": fmt, "kind": kind})
    return out


KROME_NONE = ["NONE", "none", "N", "N/A", "NO", ""]


def krome_bound(rng, v, upper):
    if v <= 0:
        # "no bound" is written as a keyword, or as a non-positive sentinel number
        return rng.choice(KROME_NONE + (["-9999", "-1", "-1.0", "-1d0"] if v < 0 else ["0", "0.0"]))
    if v == int(v) and v >= 10 and rng.random() < 0.25:
        digits = str(int(v))
        txt = f".{digits.rstrip('0')}d{len(digits)}"          # leading-point mantissa: 300 = .3d3
        return rng.choice(["", "<", ".LT.", ".LE."] if upper else ["", ">", ".GE.", ".GT."]) + txt
    txt = rng.choice([repr(float(v)), repr(float(v)).replace("e+", "d").replace("e", "d")]) if v != int(v) else \
        rng.choice([f"{v:g}", f"{v:.1f}", f"{v:.3e}".replace("e+0", "d").replace("e+", "d"), f"{v:.2e}".replace("e+", "e")])
    op = rng.choice(["", "<", ".LT.", ".LE."] if upper else ["", ">", ".GE.", ".GT."])
    return op + txt


def write_files(rng, reacs, d: Path):
    files, fmts, order = [], [], []
    by = {}
    for i, r in enumerate(reacs):
        by.setdefault(r["fmt"], []).append((i, r))
    for fmt, lst in by.items():
        lines = []
        for i, r in lst:
            idx = i + 1
            if fmt == "naunet":
                ar = netgen.AReac([], [], alpha=r["alpha"], tmin=r["tmin"], tmax=r["tmax"], idx=idx)
                re_ = r["re"] + [""] * (3 - len(r["re"]))
                pr_ = r["pr"] + [""] * (5 - len(r["pr"]))
                lines.append(",".join([f"{idx:<5}", *[f"{x:>12}" for x in re_], *[f"{x:>12}" for x in pr_], f"{r['alpha']:10.3e}",
                                       f"{0.0:10.3e}", f"{0.0:10.3e}", f"{r['tmin']!r:>9}", f"{r['tmax']!r:>9}", f"{100:>4}", f"{'t':>8}"]))
            elif fmt == "kida":
                rs = "".join(f"{x:<11}" for x in r["re"] + [""] * (3 - len(r["re"])))
                ps = "".join(f"{x:<11}" for x in r["pr"] + [""] * (5 - len(r["pr"])))
                lines.append(f"{rs} {ps} {r['alpha']:10.3e} {0.0:10.3e} {0.0:10.3e} 2.00e+00 0.00e+00 logn  1 "
                             f"{int(r['tmin']):>6d} {int(r['tmax']):>6d} {3:>2d} {idx:>5d} 1  1")
            elif fmt == "umist":
                sp = r["re"] + [""] * (2 - len(r["re"])) + r["pr"] + [""] * (4 - len(r["pr"]))
                if len(r["re"]) > 2:
                    sp = r["re"][:2] + r["pr"] + [""] * (4 - len(r["pr"]))
                if r["tmax"] > 0 and (idx % 2 == 0 or sum(1 for l in lines if ":NN:" in l and l.count(":") > 20) == 0):
                    # a RATE12 line with two fits (NE = 2; nine fields per fit): naunet reads the first fit, whose window is the one declared
                    # here; the second fit covers the temperatures above it
                    lines.append(":".join([str(idx), "NN", *sp, "2", f"{r['alpha']:.2e}", "0.00", "0.0", f"{r['tmin']!r}", f"{r['tmax']!r}",
                                           "M", "A", '"x"', '"n"', f"{r['alpha'] * 3:.2e}", "0.00", "0.0", f"{r['tmax']!r}", f"{r['tmax'] * 10!r}",
                                           "M", "A", '"x"', '"n"', ""]))
                else:
                    lines.append(":".join([str(idx), "NN", *sp, "1", f"{r['alpha']:.2e}", "0.00", "0.0", f"{r['tmin']!r}", f"{r['tmax']!r}",
                                           "L", "C", '"x"', "", ""]))
            elif fmt == "uclchem":
                k = r["kind"]
                re_ = (r["re"] + ["NAN"] * 3)[:3] if k == "MA" else [r["re"][0], k, "NAN"]
                pr_ = (r["pr"] + ["NAN"] * 4)[:4]
                lines.append(",".join([*re_, *pr_, f"{r['alpha']:.3e}", "0.0", "0.0", f"{r['tmin']!r}", f"{r['tmax']!r}"]))
            elif fmt == "leeds":
                lines.append(netgen.leeds_line(idx, r["re"], r["pr"], a=r["alpha"], lt=int(r["tmin"]), ht=int(r["tmax"]), rtype=r["kind"]))
            elif fmt == "krome":
                if not lines:
                    lines.append("@format:idx,R,R,R,P,P,P,P,Tmin,Tmax,rate")
                re_ = r["re"] + [""] * (3 - len(r["re"]))
                pr_ = r["pr"] + [""] * (4 - len(r["pr"]))
                lines.append(",".join([str(idx), *re_, *pr_, krome_bound(rng, r["tmin"], False), krome_bound(rng, r["tmax"], True),
                                       f"{r['alpha']:.1f}"]))
            order.append(i)
        f = d / f"w.{fmt}"
        f.write_text("\n".join(lines) + "\n")
        files.append(str(f))
        fmts.append(fmt)
    return files, fmts, order


def declared_active(r, T):
    return (r["tmin"] <= 0 or r["tmin"] <= T) and (r["tmax"] <= 0 or T < r["tmax"])


def probe_temps(r):
    ts = {1.0, 3e5}
    for b in (r["tmin"], r["tmax"]):
        if b > 0:
            ts |= {math.nextafter(b, 0.0), b, math.nextafter(b, math.inf)}
    return sorted(ts)


def run(argv):
    from naunet.network import Network
    from .ode_checks import reset_species_state
    tier, seed = tier_and_seed(argv)
    chk = Check("C06", tier, seed, MODULES, THEOREMS, RULE)
    chk.prove()
    rng = chk.rng
    nnets = 2 if tier == "quick" else 8
    for n in range(nnets):
        reacs = gen_reactions(rng, tier)
        d = chk.scratch / f"net{n}"
        d.mkdir(parents=True, exist_ok=True)
        files, fmts, order = write_files(rng, reacs, d)
        # umist keeps at most 2 reactants
        reset_species_state()
        try:
            with silenced():
                net = Network(filelist=files, fileformats=fmts, elements=["H", "C", "N", "O"], pseudo_elements=["CR"])
        except Exception as e:
            chk.violation({"kind": "read-raised", "error": type(e).__name__}, f"reading generated window files raised {e}")
            continue
        R = [reacs[i] for i in order]  # reactions in network order
        # a network written in the KROME format and read back keeps every window (bounds are spelled NONE / numbers there)
        try:
            with silenced():
                net.write(str(d / "rewritten.krome"), "krome")
                reset_species_state()
                back = Network(filelist=[str(d / "rewritten.krome")], fileformats=["krome"], elements=["H", "C", "N", "O"], pseudo_elements=["CR"])
        except Exception as e:
            chk.hist["krome-rewrite-refused:" + type(e).__name__] += 1
            back = None
        if back is not None and len(back.reaction_list) == len(net.reaction_list):
            chk.hist["krome-rewrite"] += 1
            for a, b_ in zip(net.reaction_list, back.reaction_list):
                # (the writer prints the bounds with two decimals, like the native format: the window is compared at that precision)
                amin, amax = round(a.temp_min, 2), round(a.temp_max, 2)
                act = lambda r, T: ((r is a and (amin <= 0 or amin <= T) and (amax <= 0 or T < amax))
                                    or (r is not a and (r.temp_min <= 0 or r.temp_min <= T) and (r.temp_max <= 0 or T < r.temp_max)))
                pts = {1.0, 3e5}
                for bnd in (amin, amax):
                    if bnd > 0:
                        pts |= {math.nextafter(bnd, 0.0), bnd, math.nextafter(bnd, math.inf)}
                badT = next((T for T in sorted(pts) if act(a, T) != act(b_, T)), None)
                if badT is not None:
                    chk.violation({"kind": "window-lost-in-krome-file"},
                                  f"a reaction with window [{a.temp_min}, {a.temp_max}) written in the KROME format and read back has the window "
                                  f"[{b_.temp_min}, {b_.temp_max}): at T={badT!r} it is {'active' if act(b_, badT) else 'inactive'} instead of "
                                  f"{'active' if act(a, badT) else 'inactive'}", input={"reactants": [s.name for s in a.reactants],
                                                                                     "products": [s.name for s in a.products]})
                    break
        reset_species_state()
        backends = ["dense", "rosenbrock4", "cusparse"] if tier == "quick" else ["dense", "sparse", "rosenbrock4", "cusparse"]
        for b in backends:
            path = d / b
            render(net, b, path)
            rd = Rendered(path, b)
            if b == "cusparse":
                # the GPU kernels cannot be compiled here: their rate statements are the same template output (compared as
                # text with the dense rendering), and each kernel must zero its k[] before calling EvalRates
                src = "".join(p.read_text() for p in (path / "src").glob("*.c*"))
                calls = len(re.findall(r"\bEvalRates\(k,", src))
                inits = len(re.findall(r"\bk\[NREACTIONS\]\s*=\s*\{\s*0\.0\s*\}", src))
                if calls == 0 or inits < calls:
                    chk.violation({"kind": "k-not-zero-initialised", "backend": b},
                                  f"{calls} EvalRates call sites but {inits} zero initialisers of k[]")
                for what, cur, got, want in rd.batch_layout():
                    if what.endswith("-udata") and got != want:
                        chk.violation({"kind": "batch-parameters", "what": what},
                                      f"cusparse {what.split('-')[0]} kernel: the rates of system `cur` are not evaluated with its own "
                                      f"abundances and parameter block (y_cur, &d_udata[cur]) - its temperature window would be "
                                      f"decided by another cell's Tgas")
                try:
                    ws = lambda x: None if x is None else "".join(x.split())
                    if [(i, ws(r), ws(c)) for i, r, c in rd.rates("k")] != [(i, ws(r), ws(c)) for i, r, c in Rendered(d / "dense", "dense").rates("k")]:
                        chk.violation({"kind": "cusparse-rates-differ"}, "the cusparse EvalRates differs from the dense one")
                except cparse.CParseError as e:
                    chk.violation({"kind": "unreadable-output", "backend": b}, f"rates not readable: {e}")
                continue
            try:
                stmts = rd.rates("k")
            except cparse.CParseError as e:
                chk.violation({"kind": "unreadable-output", "backend": b}, f"rates not readable: {e}")
                continue
            if [s[0] for s in stmts] != list(range(len(R))):
                chk.violation({"kind": "rate-statements", "backend": b}, f"{len(stmts)} rate statements for {len(R)} reactions")
                continue
            # every place that calls EvalRates must start from k = {0.0}
            src = "".join(p.read_text() for p in (path / "src").glob("*.c*"))
            calls = len(re.findall(r"\bEvalRates\(k,", src))
            inits = len(re.findall(r"\bk\[NREACTIONS\]\s*=\s*\{\s*0\.0\s*\}", src))
            # (an initialiser of a `static` array runs once per process, not once per evaluation)
            statics = len(re.findall(r"\bstatic\s+(?:const\s+)?(?:realtype|double)\s+k\[NREACTIONS\]", src))
            if calls == 0 or inits - statics < calls:
                chk.violation({"kind": "k-not-zero-initialised", "backend": b},
                              f"{calls} EvalRates call sites but {inits - statics} per-call zero initialisers of k[]"
                              + (f" ({statics} array(s) declared static)" if statics else ""))
            # compiled evaluation
            temps = sorted({t for r in R for t in probe_temps(r)})
            kvals = compiled_rates(chk, path, b, temps)
            for i, (r, (_, rhs, cond)) in enumerate(zip(R, stmts)):
                show = {"reaction": " + ".join(r["re"]) + " -> " + " + ".join(r["pr"]), "format": r["fmt"], "tmin": r["tmin"],
                        "tmax": r["tmax"], "emitted_guard": cond, "backend": b}
                ast = cparse.parse_expr(cond) if cond else None
                for T in probe_temps(r):
                    want = declared_active(r, T)
                    got = bool(ceval.ev(ast, {"Tgas": T})) if ast else True
                    chk.count((n, b, i, T), nontrivial=r["tmin"] > 0 or r["tmax"] > 0)
                    if got != want:
                        chk.violation({"kind": "guard-wrong", "backend": b, "at_boundary": T in (r["tmin"], r["tmax"])},
                                      f"reaction with window [{r['tmin']}, {r['tmax']}) is {'active' if got else 'inactive'} at T={T!r}",
                                      input=show, T=T)
                        break
                    if kvals is not None:
                        kv = kvals[temps.index(T)][i]
                        plain = r.get("kind") in (None, "MA", 1)
                        if want and not plain and math.isnan(kv):
                            chk.violation({"kind": "compiled-rate-wrong", "backend": b}, f"inside the window k[{i}] is not assigned",
                                          input=show, T=T)
                            break
                        if want and plain and not (abs(kv - r["alpha"]) <= 1e-12 * r["alpha"]):
                            chk.violation({"kind": "compiled-rate-wrong", "backend": b}, f"inside the window k[{i}]={kv!r}, expected {r['alpha']!r}",
                                          input=show, T=T)
                            break
                        if not want and not math.isnan(kv):
                            chk.violation({"kind": "compiled-rate-assigned-outside", "backend": b},
                                          f"outside the window EvalRates assigned k[{i}]={kv!r} at T={T!r}", input=show, T=T)
                            break
                chk.hist["shape:" + ("piecewise" if r["group"] else ("none" if r["tmin"] <= 0 and r["tmax"] <= 0 else "window"))] += 1
                chk.hist["fmt:" + r["fmt"]] += 1
            # partition
            groups = {}
            for i, r in enumerate(R):
                if r["group"]:
                    groups.setdefault(r["group"], []).append(i)
            for g, idxs in groups.items():
                bounds = R[idxs[0]]["bounds"]
                pts = set()
                for x in bounds:
                    pts |= {math.nextafter(float(x), 0.0), float(x), math.nextafter(float(x), math.inf)}
                for T in sorted(pts):
                    if not (bounds[0] <= T < bounds[-1]):
                        continue
                    act = 0
                    for i in idxs:
                        cond = stmts[i][2]
                        act += 1 if (bool(ceval.ev(cparse.parse_expr(cond), {"Tgas": T})) if cond else True) else 0
                    if act != 1:
                        chk.violation({"kind": "partition", "backend": b}, f"{act} of the adjacent windows {bounds} are active at T={T!r}",
                                      input={"bounds": bounds, "guards": [stmts[i][2] for i in idxs]})
                        break
            if n == 0 and b == "dense":
                chk.sample({"reactions": [{"fmt": r["fmt"], "tmin": r["tmin"], "tmax": r["tmax"], "guard": s[2]} for r, s in list(zip(R, stmts))[:6]]})
        # ---- correspondence with the Lean model (guard structure + truth values) on the first back-end
        if getattr(chk, "lean_ok", False):
            rd = Rendered(d / backends[0], backends[0])
            stmts = rd.rates("k")
            reqs = [{"cmd": "window", "tmin": net.reaction_list[i].temp_min, "tmax": net.reaction_list[i].temp_max, "T": probe_temps(r)}
                    for i, r in enumerate(R)]
            try:
                ans = lean_driver(reqs)
            except Exception as e:
                chk.corr_break("driver", None, None, str(e)[:300])
                ans = []
            for i, (r, a) in enumerate(zip(R, ans)):
                cond = stmts[i][2]
                impl = {"guarded": cond is not None, "lo": bool(cond and "Tgas>=" in cond.replace(" ", "")),
                        "hi": bool(cond and "Tgas<" in cond.replace(" ", "").replace("Tgas<=", "@")),
                        "holds": [bool(ceval.ev(cparse.parse_expr(cond), {"Tgas": T})) if cond else True for T in probe_temps(r)]}
                if {k: a[k] for k in impl} != impl:
                    chk.corr_break("guard", {"tmin": r["tmin"], "tmax": r["tmax"], "guard": cond}, a, impl)
                else:
                    chk.traces += 1
    dedup_then_render_check(chk)
    half_open_dedup_check(chk)
    ice_window_check(chk)
    moved_boundary_check(chk)
    # KROME bound reader vs model
    if getattr(chk, "lean_ok", False):
        from naunet.reactions.kromereaction import KROMEReaction
        vals = KROME_NONE + [">5.5e3", ".LE.1d4", ".GE.10", "<3.0d2", "1e3", ".GT.2.5d-1", ".LT.41000", "No", "n/a", "-9999", "-1", "-1d0", ".5d2", ">.5d2",
                             ".LE..41d5", "0", "0.0"]
        reqs = [{"cmd": "kromebound", "value": v} for v in vals]
        try:
            ans = lean_driver(reqs)
        except Exception as e:
            chk.corr_break("driver", None, None, str(e)[:300])
            ans = []
        for v, a in zip(vals, ans):
            KROMEReaction.initialize()
            KROMEReaction.reacformat = "idx,r,p,tmin,rate"
            with silenced():
                kr = KROMEReaction(f"1,H,H2,{v},1.0")
            impl = kr.temp_min
            model = -1.0 if a is None else float(a)
            if impl != model:
                chk.corr_break("krome-bound", v, a, impl)
            else:
                chk.traces += 1
    return chk.finish()


def moved_boundary_check(chk):
    """A two-piece fit is loaded from a file, the boundary between its pieces is moved on the loaded reactions, the network is written
    in the format it came in and what was written is rendered: at every temperature exactly the piece whose *edited* window contains
    it is active."""
    from naunet.network import Network
    from .ode_checks import reset_species_state
    from . import netgen
    rng = chk.rng
    for fmt in ("naunet", "kida"):
        d = chk.scratch / f"moved-{fmt}"
        d.mkdir(parents=True, exist_ok=True)
        old_b, new_b = 300.0, float(rng.choice([200, 500, 650]))
        pieces = [{"re": ["H", "CO"], "pr": ["C", "OH"], "tmin": 10.0, "tmax": old_b, "alpha": 2.0},
                  {"re": ["H", "CO"], "pr": ["C", "OH"], "tmin": old_b, "tmax": 1000.0, "alpha": 3.0}]
        if fmt == "kida":
            lines = []
            for i, r in enumerate(pieces):
                rs = "".join(f"{x:<11}" for x in r["re"] + [""] * (3 - len(r["re"])))
                ps = "".join(f"{x:<11}" for x in r["pr"] + [""] * (5 - len(r["pr"])))
                lines.append(f"{rs} {ps} {r['alpha']:10.3e} {0.0:10.3e} {0.0:10.3e} 2.00e+00 0.00e+00 logn  1 "
                             f"{int(r['tmin']):>6d} {int(r['tmax']):>6d} {3:>2d} {i + 1:>5d} 1  1")
        else:
            mk = netgen.mk
            sp = {"H": mk([("H", 1)]), "CO": mk([("C", 1), ("O", 1)]), "C": mk([("C", 1)]), "OH": mk([("O", 1), ("H", 1)])}
            lines = [netgen.native_line(netgen.AReac([sp[x] for x in r["re"]], [sp[x] for x in r["pr"]], alpha=r["alpha"], tmin=r["tmin"],
                                                     tmax=r["tmax"], idx=i + 1)) for i, r in enumerate(pieces)]
        (d / f"fit.{fmt}").write_text("\n".join(lines) + "\n")
        reset_species_state()
        kw = dict(elements=["H", "C", "N", "O"], pseudo_elements=["CR"])
        try:
            with silenced():
                net = Network(filelist=[str(d / f"fit.{fmt}")], fileformats=[fmt], **kw)
                net.reaction_list[0].temp_max = new_b
                net.reaction_list[1].temp_min = new_b
                net.write(d / "edited.naunet", "naunet")
                if fmt == "naunet":
                    back = Network(filelist=[str(d / "edited.naunet")], fileformats=["naunet"], **kw)
                else:
                    back = Network(filelist=[str(d / "edited.naunet")], fileformats=["naunet"], **kw)
                render(back, "dense", d / "dense")
        except Exception as e:
            chk.violation({"kind": "moved-boundary-raised", "error": type(e).__name__}, f"editing, writing and rendering a two-piece fit raised {e}")
            continue
        rd = Rendered(d / "dense", "dense")
        stmts = rd.rates("k")
        chk.count(("moved-boundary", fmt), nontrivial=True)
        chk.hist["moved-boundary"] += 1
        lo, hi = min(old_b, new_b), max(old_b, new_b)
        for T in [10.0, lo - 0.5, lo, (lo + hi) / 2, hi - 0.001, hi, hi + 1.0, 999.0]:
            act = []
            for _, rhs, cond in stmts:
                on = bool(ceval.ev(cparse.parse_expr(cond), {"Tgas": T})) if cond else True
                if on:
                    act.append(float(ceval.ev(cparse.parse_expr(rhs), {"Tgas": T})))
            want = [2.0] if T < new_b else [3.0]
            if sorted(act) != want:
                chk.violation({"kind": "written-window-stale", "input_format": fmt},
                              f"boundary of a two-piece fit moved from {old_b} K to {new_b} K on the loaded reactions; after writing the "
                              f"network and rendering what was written, the active coefficient(s) at T={T!r} are {sorted(act)}, declared "
                              f"is {want}", input=lines, written=(d / "edited.naunet").read_text().splitlines(),
                              guards=[c for _, _, c in stmts])
                break


def ice_window_check(chk):
    """The window of a reaction is a window of the *gas* temperature, whatever phase its reactants are in: a Leeds network (the one
    format that has a dust temperature of its own) with a windowed photoprocess of an ice is rendered and its guards are evaluated
    with the dust at 20 K while the gas temperature crosses the bounds."""
    from naunet.network import Network
    from .ode_checks import reset_species_state
    from . import netgen
    d = chk.scratch / "ice-window"
    d.mkdir(parents=True, exist_ok=True)
    lines = [netgen.leeds_line(1, ["CO"], ["C", "O"], a=2.0e-10, c=3.5, rtype=4),
             netgen.leeds_line(2, ["GCO"], ["GC", "GO"], a=3.0e-10, c=3.5, lt=10, ht=300, rtype=4),
             netgen.leeds_line(3, ["GCO"], ["GC", "GO"], a=4.0e-10, c=3.5, lt=300, ht=1000, rtype=4),
             netgen.leeds_line(4, ["GH2O", "GH2O"], ["GH2O", "GOH", "GH"], a=5.0e-10, lt=100, ht=5500, rtype=1)]
    (d / "ice.leeds").write_text("\n".join(lines) + "\n")
    reset_species_state()
    try:
        with silenced():
            net = Network(filelist=[str(d / "ice.leeds")], fileformats=["leeds"], elements=["H", "C", "N", "O"], pseudo_elements=["CR", "CRP", "Photon", "PHOTON"],
                          species_kwargs={"surface_prefix": "G"})
            render(net, "dense", d / "dense")
        stmts = Rendered(d / "dense", "dense").rates("k")
    except Exception as e:
        chk.hist["ice-window-refused:" + type(e).__name__] += 1
        return
    chk.count(("ice-window",), nontrivial=True)
    chk.hist["ice-window"] += 1
    wins = {1: (None, None), 2: (10.0, 300.0), 3: (300.0, 1000.0), 4: (100.0, 5500.0)}
    for T in [5.0, 10.0, 20.0, 150.0, 299.9, 300.0, 999.0, 1000.0, 5000.0, 6000.0]:
        for (i, rhs, cond), (lo, hi) in zip(stmts, [wins[k] for k in sorted(wins)]):
            try:
                on = bool(ceval.ev(cparse.parse_expr(cond), {"Tgas": T, "Tdust": 20.0})) if cond else True
            except Exception as e:
                chk.violation({"kind": "ice-window-guard", "error": type(e).__name__}, f"guard `{cond}` of an ice-phase reaction cannot be "
                              f"evaluated from the gas temperature", input=lines)
                return
            want = (lo is None or T >= lo) and (hi is None or T < hi)
            if on != want:
                chk.violation({"kind": "ice-window-guard"},
                              f"reaction {i + 1} of a Leeds network (window {lo}..{hi} K) is {'active' if on else 'inactive'} at Tgas={T!r} "
                              f"with the dust at 20 K: its guard is `{cond}`", input=lines)
                return


def half_open_dedup_check(chk):
    """The same clean-up on a fit whose outer pieces are half-open, the way KROME files and the native format write them (no lower
    bound on the first piece, no upper bound on the last: the limit is left at its default -1): the pieces are still different
    reactions, and after the default duplicate search + removal exactly one of them is active at every temperature."""
    from naunet.network import Network
    from .ode_checks import reset_species_state
    from . import netgen
    mk = netgen.mk
    sp = {"H": mk([("H", 1)]), "CO": mk([("C", 1), ("O", 1)]), "C": mk([("C", 1)]), "OH": mk([("O", 1), ("H", 1)]), "O": mk([("O", 1)])}
    wins = [(-1.0, 300.0, 2.0), (300.0, 5500.0, 3.0), (5500.0, -1.0, 4.0)]
    reacs = [netgen.AReac([sp["H"], sp["CO"]], [sp["C"], sp["OH"]], alpha=a, tmin=lo, tmax=hi, idx=i + 1) for i, (lo, hi, a) in enumerate(wins)]
    reacs.append(netgen.AReac([sp["C"], sp["O"]], [sp["CO"]], alpha=7.0, idx=4))
    reacs.append(netgen.AReac([sp["C"], sp["O"]], [sp["CO"]], alpha=7.0, idx=5))          # the plain reaction listed twice
    d = chk.scratch / "dedup-half-open"
    d.mkdir(parents=True, exist_ok=True)
    lines = [netgen.native_line(r) for r in reacs]
    (d / "fit.naunet").write_text("\n".join(lines) + "\n")
    reset_species_state()
    try:
        with silenced():
            net = Network(filelist=[str(d / "fit.naunet")], fileformats=["naunet"], elements=["H", "C", "N", "O"], pseudo_elements=["CR"])
            _, dupidx, _ = net.find_duplicate_reaction()
            net.remove_reaction(dupidx)
            render(net, "dense", d / "dense")
    except Exception as e:
        chk.violation({"kind": "dedup-render-raised", "error": type(e).__name__}, f"cleaning and rendering a half-open piecewise fit raised {e}")
        return
    rd = Rendered(d / "dense", "dense")
    stmts = rd.rates("k")
    chk.count(("dedup-half-open",), nontrivial=True)
    chk.hist["dedup-half-open"] += 1
    for T in [2.0, 299.999, 300.0, 650.0, 5499.9, 5500.0, 9000.0, 1e5]:
        act = []
        for _, rhs, cond in stmts:
            on = bool(ceval.ev(cparse.parse_expr(cond), {"Tgas": T})) if cond else True
            if on:
                v = float(ceval.ev(cparse.parse_expr(rhs), {"Tgas": T}))
                if v in (2.0, 3.0, 4.0):
                    act.append(v)
        want = [2.0] if T < 300.0 else ([3.0] if T < 5500.0 else [4.0])
        if act != want or sorted(dupidx) != [4]:
            chk.violation({"kind": "dedup-drops-window-pieces", "half_open": True},
                          f"after the default duplicate clean-up the active piece(s) of a fit with half-open outer windows at T={T!r} are "
                          f"{act}, declared is {want} (reported as duplicates: positions {sorted(dupidx)}; the repeated line is position 4)",
                          input=lines, guards=[c for _, _, c in stmts])
            return


def dedup_then_render_check(chk):
    """A network whose file repeats one line by accident is cleaned with the default duplicate search before it is rendered (what
    `naunet extend --remove-duplicate` does).  The pieces of a piecewise fit differ in their windows only: none of them is a
    duplicate, and after the clean-up exactly one piece is active at every temperature of the fitted range."""
    from naunet.network import Network
    from .ode_checks import reset_species_state
    bounds = [10, 300, 1000, 41000]
    pieces = [{"re": ["H", "CO"], "pr": ["C", "OH"], "tmin": float(a), "tmax": float(b), "alpha": 2.0 + i} for i, (a, b) in enumerate(zip(bounds, bounds[1:]))]
    other = [{"re": ["C", "O"], "pr": ["CO"], "tmin": -1.0, "tmax": -1.0, "alpha": 7.0}]
    listed = pieces + other + [dict(pieces[0]), dict(other[0])]          # the first piece and the plain reaction listed twice
    d = chk.scratch / "dedup"
    d.mkdir(parents=True, exist_ok=True)
    lines = []
    for i, r in enumerate(listed):
        rs = "".join(f"{x:<11}" for x in r["re"] + [""] * (3 - len(r["re"])))
        ps = "".join(f"{x:<11}" for x in r["pr"] + [""] * (5 - len(r["pr"])))
        lines.append(f"{rs} {ps} {r['alpha']:10.3e} {0.0:10.3e} {0.0:10.3e} 2.00e+00 0.00e+00 logn  1 "
                     f"{int(r['tmin']):>6d} {int(r['tmax']):>6d} {3:>2d} {i + 1:>5d} 1  1")
    (d / "fit.kida").write_text("\n".join(lines) + "\n")
    reset_species_state()
    try:
        with silenced():
            net = Network(filelist=[str(d / "fit.kida")], fileformats=["kida"], elements=["H", "C", "N", "O"], pseudo_elements=["CR"])
            _, dupidx, _ = net.find_duplicate_reaction()
            net.remove_reaction(dupidx)
            render(net, "dense", d / "dense")
    except Exception as e:
        chk.violation({"kind": "dedup-render-raised", "error": type(e).__name__}, f"cleaning and rendering a piecewise fit raised {e}")
        return
    rd = Rendered(d / "dense", "dense")
    stmts = rd.rates("k")
    chk.count(("dedup",), nontrivial=True)
    chk.hist["dedup-then-render"] += 1
    for T in [5.0, 10.0, 299.999, 300.0, 650.0, 999.999, 1000.0, 40999.0, 41000.0]:
        vals = []
        for _, rhs, cond in stmts:
            on = bool(ceval.ev(cparse.parse_expr(cond), {"Tgas": T})) if cond else True
            vals.append(float(ceval.ev(cparse.parse_expr(rhs), {"Tgas": T})) if on else None)
        fit_active = [v for v in vals if v is not None and v in (2.0, 3.0, 4.0)]
        want = 1 if 10.0 <= T < 41000.0 else 0
        if len(fit_active) != want or sorted(set(dupidx)) != [len(pieces) + len(other), len(pieces) + len(other) + 1]:
            chk.violation({"kind": "dedup-drops-window-pieces"},
                          f"after the default duplicate clean-up {len(fit_active)} piece(s) of the fit over {bounds} are active at T={T!r} "
                          f"(reported as duplicates: positions {sorted(dupidx)}; the repeated lines are positions "
                          f"{[len(pieces) + len(other), len(pieces) + len(other) + 1]})", input=lines,
                          guards=[c for _, _, c in stmts])
            return


def compiled_rates(chk, path, backend, temps):
    files = [path / "src" / ("naunet_ode.cpp" if backend == "rosenbrock4" else "naunet_rates.cpp"),
             path / "src" / "naunet_physics.cpp", path / "src" / "naunet_constants.cpp", path / "src" / "naunet_utilities.cpp"]
    if backend != "rosenbrock4":
        files.append(path / "src" / "naunet_fex.cpp")
    exe = path / "c06"
    ok, err = cbuild.build(path, ROOT / "shim" / "c06_driver.cpp", exe, backend, files=[f for f in files if f.exists()],
                           defines=["C06_ODEINT"] if backend == "rosenbrock4" else [])
    if not ok:
        chk.violation({"kind": "does-not-compile", "backend": backend}, "rendered rate sources do not compile against the shim", error=err[-1200:])
        return None

    def run_seq(seq):
        r = subprocess.run([str(exe)], input="\n".join(repr(t) for t in seq) + "\n", capture_output=True, text=True, timeout=300)
        lines = r.stdout.strip().split("\n")
        if r.returncode != 0 or len(lines) != len(seq):
            chk.violation({"kind": "driver-crash", "backend": backend}, f"compiled EvalRates / Fex crashed rc={r.returncode}", stderr=r.stderr[-500:])
            return None
        return [l.split("|") for l in lines]
    fwd = run_seq(temps)
    if fwd is None:
        return None
    # the right-hand side at a temperature does not depend on the temperatures it was evaluated at before: the same
    # temperatures in reverse order, in another process, must give the same derivatives
    rev = run_seq(list(reversed(temps)))
    if rev is not None:
        for t, a, b in zip(temps, fwd, reversed(rev)):
            if a[1].split() != b[1].split():
                chk.violation({"kind": "rhs-depends-on-history", "backend": backend},
                              f"the compiled right-hand side at T={t!r} differs when the temperatures are visited in another order "
                              f"(a rate coefficient of an inactive window is carried over from an earlier evaluation)",
                              forward=a[1].split()[:6], reverse=b[1].split()[:6])
                break
    return [[float(x) for x in l[0].split()] for l in fwd]


if __name__ == "__main__":
    sys.exit(run(sys.argv[1:]))
