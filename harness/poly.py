"""Exact sparse polynomials (Laurent: negative exponents allowed) over Fraction, keyed by atom
names; conversion from cparse ASTs; evaluation of ASTs over Fractions."""
from __future__ import annotations
from fractions import Fraction
from . import cparse


def atom_name(e) -> str:
    """canonical text of an atomic AST (id, id[index] with literal / id index)"""
    k = e[0]
    if k == "id":
        return e[1]
    if k == "num":
        return e[1]
    if k == "idx":
        return f"{atom_name(e[1])}[{atom_name(e[2])}]"
    if k == "bin" and e[1] in "+-*/":
        return f"({atom_name(e[2])}{e[1]}{atom_name(e[3])})"
    if k == "call":
        return f"{e[1]}({','.join(atom_name(a) for a in e[2])})"
    if k == "neg":
        return f"-{atom_name(e[1])}"
    raise cparse.CParseError(f"not an atom: {e}")


class Poly(dict):
    """monomial (sorted tuple of (atom, exp)) -> Fraction"""

    @staticmethod
    def const(c):
        p = Poly()
        c = Fraction(c)
        if c:
            p[()] = c
        return p

    @staticmethod
    def atom(name, exp=1):
        p = Poly()
        p[((name, exp),)] = Fraction(1)
        return p

    def __add__(self, o):
        r = Poly(self)
        for m, c in o.items():
            v = r.get(m, 0) + c
            if v:
                r[m] = v
            else:
                r.pop(m, None)
        return r

    def __neg__(self):
        return Poly({m: -c for m, c in self.items()})

    def __sub__(self, o):
        return self + (-o)

    def __mul__(self, o):
        r = Poly()
        for m1, c1 in self.items():
            for m2, c2 in o.items():
                d = dict(m1)
                for a, e in m2:
                    d[a] = d.get(a, 0) + e
                m = tuple(sorted((a, e) for a, e in d.items() if e))
                v = r.get(m, 0) + c1 * c2
                if v:
                    r[m] = v
                else:
                    r.pop(m, None)
        return r

    def inv(self):
        if len(self) == 0:
            raise ZeroDivisionError("division by a zero literal")
        if len(self) != 1:
            raise cparse.CParseError("division by a non-monomial")
        (m, c), = self.items()
        return Poly({tuple(sorted((a, -e) for a, e in m)): 1 / c})

    def deriv(self, atom):
        r = Poly()
        for m, c in self.items():
            d = dict(m)
            e = d.get(atom, 0)
            if not e:
                continue
            d[atom] = e - 1
            mm = tuple(sorted((a, x) for a, x in d.items() if x))
            v = r.get(mm, 0) + c * e
            if v:
                r[mm] = v
            else:
                r.pop(mm, None)
        return r

    def atoms(self):
        return {a for m in self for a, _ in m}

    def eval(self, env):
        tot = Fraction(0)
        for m, c in self.items():
            v = c
            for a, e in m:
                v *= Fraction(env[a]) ** e
            tot += v
        return tot

    def canon(self):
        return sorted((list(map(list, m)), str(c)) for m, c in self.items())


def num_value(text: str) -> Fraction:
    return Fraction(text)


def poly_of(e, opaque_calls=True) -> Poly:
    k = e[0]
    if k == "num":
        return Poly.const(num_value(e[1]))
    if k in ("id", "idx"):
        return Poly.atom(atom_name(e))
    if k == "call":
        return Poly.atom(atom_name(e))
    if k == "neg":
        return -poly_of(e[1])
    if k == "pos":
        return poly_of(e[1])
    if k == "bin":
        op = e[1]
        l, r = poly_of(e[2]), poly_of(e[3])
        if op == "+":
            return l + r
        if op == "-":
            return l - r
        if op == "*":
            return l * r
        if op == "/":
            return l * r.inv()
    raise cparse.CParseError(f"cannot turn into a polynomial: {e}")


def poly_of_text(text: str) -> Poly:
    return poly_of(cparse.parse_expr(text))


def eval_exact(e, env) -> Fraction:
    """exact value of a cparse AST over the rationals: arithmetic, and the piecewise-linear functions (fmax, fmin, fabs) whose
    value on rationals is rational; atoms are looked up in `env` by their canonical text"""
    k = e[0]
    if k == "num":
        return num_value(e[1])
    if k in ("id", "idx"):
        return Fraction(env[atom_name(e)])
    if k == "neg":
        return -eval_exact(e[1], env)
    if k == "pos":
        return eval_exact(e[1], env)
    if k == "call":
        a = [eval_exact(x, env) for x in e[2]]
        if e[1] in ("fmax", "max") and len(a) == 2:
            return max(a)
        if e[1] in ("fmin", "min") and len(a) == 2:
            return min(a)
        if e[1] in ("fabs", "abs") and len(a) == 1:
            return abs(a[0])
        raise cparse.CParseError(f"no exact value for the call {e[1]}(…)")
    if k == "bin" and e[1] in "+-*/":
        l, r = eval_exact(e[2], env), eval_exact(e[3], env)
        if e[1] == "+":
            return l + r
        if e[1] == "-":
            return l - r
        if e[1] == "*":
            return l * r
        return l / r
    raise cparse.CParseError(f"no exact value for {e}")
