"""Worker process for C17: executes a JSON job (list of steps) read from stdin against the real naunet and prints
one JSON line: the sha256 of every rendering it was asked for.  Run with a chosen PYTHONHASHSEED."""
import hashlib
import io
import json
import logging
import os
import re
import sys
import tempfile
import contextlib
from pathlib import Path

logging.disable(logging.CRITICAL)
os.environ["TQDM_DISABLE"] = "1"


def tree_hash(path: Path):
    h = hashlib.sha256()
    files = []
    for sub in ("include", "src", "python"):
        base = path / sub
        if base.exists():
            files += sorted(p for p in base.rglob("*") if p.is_file())
    for p in files:
        txt = p.read_bytes()
        h.update(str(p.relative_to(path)).encode())
        h.update(b"\0")
        h.update(txt)
        h.update(b"\0")
    return h.hexdigest(), len(files)


def canonical_ode(path: Path):
    """order-insensitive digest of the ydot / Jacobian statements (exact polynomials)"""
    sys.path.insert(0, str(Path(__file__).resolve().parent.parent))
    from harness import cparse
    from harness.poly import poly_of_text
    out = {}
    for f in ("src/naunet_fex.cpp", "src/naunet_jac.cpp", "src/naunet_ode.cpp"):
        p = path / f
        if not p.exists():
            continue
        stm = cparse.assignments(p.read_text(), r"(?:ydot\[[^\]]*\]|IJth\([^)]*\)|data\[\d+\]|j\(\s*\d+\s*,\s*\d+\s*\))")
        ws = lambda x: None if x is None else "".join(x.split())
        # rate statements (the odeint back-end keeps them in the same file): text with blanks removed, guards included
        rates = [(ws(l), ws(r), ws(c)) for l, r, c in cparse.guarded_assignments(p.read_text(), r"k[hc]?\[\s*\d+\s*\]")]
        try:
            out[f] = hashlib.sha256(json.dumps([sorted((l, poly_of_text(r).canon()) for l, r, _ in stm), rates]).encode()).hexdigest()[:16]
        except Exception as e:
            out[f] = "unparsed:" + type(e).__name__
    return out


def file_hashes(path: Path):
    out = {}
    for sub in ("include", "src", "python"):
        base = path / sub
        if base.exists():
            for p in sorted(q for q in base.rglob("*") if q.is_file()):
                out[str(p.relative_to(path))] = hashlib.sha256(p.read_bytes()).hexdigest()[:16]
    return out


def build(desc, workdir: Path):
    from naunet.network import Network
    from naunet.species import Species
    from naunet import chemistrydata
    if "replacement" in desc:      # what the render command does before building the network
        Species._replacement = dict(desc["replacement"])
        Species.set_known_elements(list(desc["elements"]))
        Species.set_known_pseudoelements(list(desc["pseudo"]))
        kw = desc.get("kwargs") or {}
        chemistrydata.user_binding_energy.clear()
        chemistrydata.user_photon_yield.clear()
        chemistrydata.update_binding_energy({Species(k, **kw).name: v for k, v in (desc.get("binding") or {}).items()})
        chemistrydata.update_photon_yield({Species(k, **kw).name: v for k, v in (desc.get("yield") or {}).items()})
    files, fmts = [], []
    for i, (content, fmt) in enumerate(desc["files"]):
        f = workdir / f"net{i}.{fmt}"
        f.write_text(content)
        files.append(str(f))
        fmts.append(fmt)
    return Network(filelist=files, fileformats=fmts, elements=desc["elements"], pseudo_elements=desc["pseudo"],
                   allowed_species=desc.get("allowed") or None, required_species=desc.get("required") or None,
                   species_kwargs=desc.get("kwargs") or None, cooling=desc.get("cooling") or None,
                   grain_model=desc.get("grain_model", ""),
                   rate_modifier={int(k): v for k, v in (desc.get("rate_modifier") or {}).items()} or None,
                   ode_modifier=desc.get("ode_modifier") or None, heating=desc.get("heating") or None,
                   shielding=desc.get("shielding") or None)


def main():
    job = json.load(sys.stdin)
    from naunet.templateloader import TemplateLoader
    out = []
    nets = {}
    root = Path(tempfile.mkdtemp(prefix="c17w-"))
    n = 0
    sink = io.StringIO()
    with contextlib.redirect_stdout(sink):
        for step in job["steps"]:
            op = step["op"]
            n += 1
            if op == "build":
                d = root / f"b{n}"
                d.mkdir()
                nets[step["id"]] = build(step["desc"], d)
            elif op == "build_may_fail":
                # a network whose construction is expected to be refused part-way (the caller carries on)
                d = root / f"b{n}"
                d.mkdir()
                try:
                    nets[step["id"]] = build(step["desc"], d)
                    out.append({"tag": step.get("tag"), "hash": "built"})
                except Exception as e:
                    out.append({"tag": step.get("tag"), "hash": "refused: " + type(e).__name__})
            elif op == "add_line":
                nets[step["id"]].add_reaction((step["line"], step["fmt"]))
            elif op == "remove":
                nets[step["id"]].remove_reaction(step["index"])
            elif op == "set_rate_modifier":
                nets[step["id"]].rate_modifier = {int(k): v for k, v in step["values"].items()}
            elif op == "query":
                net = nets[step["id"]]
                _ = [s.alias for s in net.species]
                _ = net.find_duplicate_reaction()
                # looking at a network - printing its reactions, searching duplicates by their printed form - changes nothing
                _ = net.find_duplicate_reaction(mode="short")
                _ = [f"{r:short}" + f"{r:minimal}" + str(r) for r in net.reaction_list]
            elif op == "binding":
                from naunet.chemistrydata import update_binding_energy
                update_binding_energy(step["values"])
            elif op == "render":
                solver, method, device = step["backend"]
                d = root / f"r{n}"
                d.mkdir()
                try:
                    TemplateLoader(solver, method, device).render("proj", nets[step["id"]], path=d)
                    out.append({"tag": step.get("tag"), "hash": tree_hash(d)[0], "files": tree_hash(d)[1], "per_file": file_hashes(d), "canon": canonical_ode(d)})
                except Exception as e:
                    out.append({"tag": step.get("tag"), "error": f"{type(e).__name__}: {e}"[:300]})
            elif op == "to_code":
                # the network's own entry point (`Network.to_code`), as a script would call it
                solver, method, device = step["backend"]
                d = root / f"t{n}"
                d.mkdir()
                try:
                    nets[step["id"]].to_code(solver=solver, method=method, device=device, path=d)
                    out.append({"tag": step.get("tag"), "hash": tree_hash(d)[0], "files": tree_hash(d)[1], "per_file": file_hashes(d), "canon": canonical_ode(d)})
                except Exception as e:
                    out.append({"tag": step.get("tag"), "error": f"{type(e).__name__}: {e}"[:300]})
            elif op == "patch":
                # the host-code patch of the network (`naunet render --patch enzo` does this after the sources were rendered)
                from naunet.patches import EnzoPatch
                d = root / f"p{n}"
                d.mkdir()
                try:
                    EnzoPatch("cpu").render(nets[step["id"]], path=d)
                    h = hashlib.sha256()
                    for q in sorted(x for x in d.rglob("*") if x.is_file()):
                        h.update(str(q.relative_to(d)).encode() + b"\0" + q.read_bytes() + b"\0")
                    out.append({"tag": step.get("tag"), "hash": h.hexdigest()})
                except Exception as e:
                    out.append({"tag": step.get("tag"), "error": f"{type(e).__name__}: {e}"[:300]})
            elif op == "cli_init":
                from cleo.testers.command_tester import CommandTester
                from naunet.console.application import Application
                cwd = os.getcwd()
                os.chdir(step["dir"])
                try:
                    t = CommandTester(Application().find("init"))
                    if step.get("inputs") is not None:
                        t.execute(step["options"], inputs=step["inputs"])      # answers to the questions the command asks
                    else:
                        t.execute(step["options"])
                    out.append({"tag": step.get("tag"), "hash": tree_hash(Path(step["dir"]))[0], "per_file": file_hashes(Path(step["dir"])),
                                "toml": (Path(step["dir"]) / "naunet_config.toml").read_text()})
                except BaseException as e:
                    out.append({"tag": step.get("tag"), "error": f"{type(e).__name__}: {e}"[:300]})
                finally:
                    os.chdir(cwd)
            elif op == "export":
                try:
                    d = Path(step["dir"])
                    nets[step["id"]].export(d.name, solver=step["backend"][0], method=step["backend"][1], device=step["backend"][2],
                                            prefix=str(d.parent), overwrite=True)
                    out.append({"tag": step.get("tag"), "hash": tree_hash(d)[0], "per_file": file_hashes(d), "canon": canonical_ode(d),
                                "toml": (d / "naunet_config.toml").read_text()})
                except BaseException as e:
                    out.append({"tag": step.get("tag"), "error": f"{type(e).__name__}: {e}"[:300]})
            elif op == "cli_render":
                # a project directory prepared by the parent: naunet_config.toml + network files
                from cleo.testers.command_tester import CommandTester
                from naunet.console.application import Application
                cwd = os.getcwd()
                os.chdir(step["dir"])
                try:
                    t = CommandTester(Application().find("render"))
                    t.execute("--force")
                    out.append({"tag": step.get("tag"), "hash": tree_hash(Path(step["dir"]))[0], "per_file": file_hashes(Path(step["dir"])),
                                "canon": canonical_ode(Path(step["dir"]))})
                except Exception as e:
                    out.append({"tag": step.get("tag"), "error": f"{type(e).__name__}: {e}"[:300]})
                finally:
                    os.chdir(cwd)
    import shutil
    shutil.rmtree(root, ignore_errors=True)
    print(json.dumps(out))


main()
