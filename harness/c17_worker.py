"""Worker process for C17: executes a JSON job (list of steps) read from stdin against the real naunet and prints
one JSON line: the sha256 of every rendering it was asked for.  Run with a chosen PYTHONHASHSEED."""
import hashlib
import io
import json
import logging
import os
import re
import sys
import tempfile
import contextlib
from pathlib import Path

logging.disable(logging.CRITICAL)
os.environ["TQDM_DISABLE"] = "1"


def tree_hash(path: Path):
    h = hashlib.sha256()
    files = []
    for sub in ("include", "src", "python"):
        base = path / sub
        if base.exists():
            files += sorted(p for p in base.rglob("*") if p.is_file())
    for p in files:
        txt = p.read_bytes()
        h.update(str(p.relative_to(path)).encode())
        h.update(b"\0")
        h.update(txt)
        h.update(b"\0")
    return h.hexdigest(), len(files)


def build(desc, workdir: Path):
    from naunet.network import Network
    from naunet.species import Species
    files, fmts = [], []
    for i, (content, fmt) in enumerate(desc["files"]):
        f = workdir / f"net{i}.{fmt}"
        f.write_text(content)
        files.append(str(f))
        fmts.append(fmt)
    return Network(filelist=files, fileformats=fmts, elements=desc["elements"], pseudo_elements=desc["pseudo"],
                   allowed_species=desc.get("allowed") or None, required_species=desc.get("required") or None,
                   species_kwargs=desc.get("kwargs") or None, cooling=desc.get("cooling") or None,
                   grain_model=desc.get("grain_model", ""), rate_modifier=desc.get("rate_modifier") or None)


def main():
    job = json.load(sys.stdin)
    from naunet.templateloader import TemplateLoader
    out = []
    nets = {}
    root = Path(tempfile.mkdtemp(prefix="c17w-"))
    n = 0
    sink = io.StringIO()
    with contextlib.redirect_stdout(sink):
        for step in job["steps"]:
            op = step["op"]
            n += 1
            if op == "build":
                d = root / f"b{n}"
                d.mkdir()
                nets[step["id"]] = build(step["desc"], d)
            elif op == "add_line":
                nets[step["id"]].add_reaction((step["line"], step["fmt"]))
            elif op == "query":
                net = nets[step["id"]]
                _ = [s.alias for s in net.species]
                _ = net.find_duplicate_reaction()
            elif op == "binding":
                from naunet.chemistrydata import update_binding_energy
                update_binding_energy(step["values"])
            elif op == "render":
                solver, method, device = step["backend"]
                d = root / f"r{n}"
                d.mkdir()
                try:
                    TemplateLoader(solver, method, device).render("proj", nets[step["id"]], path=d)
                    out.append({"tag": step.get("tag"), "hash": tree_hash(d)[0], "files": tree_hash(d)[1]})
                except Exception as e:
                    out.append({"tag": step.get("tag"), "error": f"{type(e).__name__}: {e}"[:300]})
            elif op == "cli_render":
                # a project directory prepared by the parent: naunet_config.toml + network files
                from cleo.testers.command_tester import CommandTester
                from naunet.console.application import Application
                cwd = os.getcwd()
                os.chdir(step["dir"])
                try:
                    t = CommandTester(Application().find("render"))
                    t.execute("--force")
                    out.append({"tag": step.get("tag"), "hash": tree_hash(Path(step["dir"]))[0]})
                except Exception as e:
                    out.append({"tag": step.get("tag"), "error": f"{type(e).__name__}: {e}"[:300]})
                finally:
                    os.chdir(cwd)
    import shutil
    shutil.rmtree(root, ignore_errors=True)
    print(json.dumps(out))


main()
