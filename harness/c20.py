"""C20: project configuration round trip – what is configured is what is rendered.

impl   : `naunet init <options> --render` (and `Network.export`, and the bundled examples through `example --dry`) in a worker
         process; the written naunet_config.toml and the rendered tree
model  : Lean `Cfg.parseList` / `parseKV` on the same option strings
oracle : (a) the TOML fields must equal the requested description; (b) the rendered tree must be byte-identical to the tree
         rendered through the API from the same description (fresh process each)
"""
from __future__ import annotations

import json
import re
import shlex
import sys
from concurrent.futures import ThreadPoolExecutor
from pathlib import Path

import tomlkit

from . import netgen
from .c17 import DEFAULT_ELEMENTS, DEFAULT_PSEUDO, UPPER_ELEMENTS, UPPER_PSEUDO, native, run_worker
from .common import Check, REPO, lean_driver, quiet_naunet, silenced, tier_and_seed

quiet_naunet()
MODULES = ["NaunetProps.C20"]
THEOREMS = ["Naunet.C20.parseList_showList", "Naunet.C20.parseKV_showKV", "Naunet.C20.config_roundtrip",
            "Naunet.C20.parseKV_entry", "Naunet.C20.separator_splits", "Naunet.C20.parseRateMod_show", "Naunet.C20.dictOf_nodup",
            "Naunet.C20.parseOdeTerm_show", "Naunet.C20.parseOdeOcc_show", "Naunet.C20.parseOdeMod_show",
            "Naunet.C20.group_independent_of_cuts", "Naunet.C20.rate_piece_without_colon", "Naunet.C20.rate_value_with_comma",
            "Naunet.C20.empty_piece_ends"]
RULE = ("project descriptions (element / pseudo-element lists, replacement tables, surface / bulk / grain symbols, allowed and extra "
        "species, binding energies and yields, network files and formats, grain model, cooling, shielding, rate and ODE modifiers, "
        "solver / device / method) passed through `naunet init --render`, through Network.export + `naunet render`, and the bundled "
        "examples x methods; case = one description through one path; non-trivial = description has a non-default field")

BACK = {"dense": ("cvode", "dense", "cpu"), "sparse": ("cvode", "sparse", "cpu"), "rosenbrock4": ("odeint", "rosenbrock4", "cpu")}


def gen_desc(rng, k):
    """a random project description over a small native-format network"""
    upper = rng.random() < 0.3
    if upper:
        elements, pseudo = list(UPPER_ELEMENTS), list(UPPER_PSEUDO)
        repl = {"E": "e", "HE": "He", "MG": "Mg", "SI": "Si", "CL": "Cl"}
        lines = [native(1, ["HE+", "E"], ["HE"]), native(2, ["MG", "HE+"], ["MG+", "HE"]), native(3, ["SI", "H+"], ["SI+", "H"]),
                 native(4, ["H", "CRP"], ["H+", "E"], ty=101), native(5, ["H", "H"], ["H2"]), native(6, ["C", "O"], ["CO"])]
        names = ["HE", "HE+", "MG", "MG+", "SI", "SI+", "H", "H+", "E", "H2", "C", "O", "CO"]
    else:
        elements, pseudo = list(DEFAULT_ELEMENTS), [p for p in DEFAULT_PSEUDO]
        repl = {}
        lines = [native(1, ["He+", "e-"], ["He"]), native(2, ["H", "H"], ["H2"]), native(3, ["C", "O"], ["CO"]),
                 native(4, ["H", "CR"], ["H+", "e-"], ty=101), native(5, ["H+", "e-"], ["H"], b=-0.5), native(6, ["CO", "He+"], ["C+", "O", "He"]),
                 native(7, ["H2", "C+"], ["CH+", "H"], c=4640.0), native(8, ["He++", "e-"], ["He+"], b=-0.7)]
        names = ["He", "He+", "e-", "H", "H2", "C", "O", "CO", "H+", "C+", "CH+", "He++"]
    method = rng.choice(["dense", "sparse", "rosenbrock4"])
    d = {"elements": elements, "pseudo": pseudo, "replacement": repl, "kwargs": {
        "grain_symbol": rng.choice(["GRAIN", "GRAIN", "DUST"]), "surface_prefix": rng.choice(["#", "#", "G"]),
        "bulk_prefix": rng.choice(["@", "@", "%"])},
         "files": [["\n".join(lines) + "\n", "naunet"]], "allowed": [], "required": [], "binding": {}, "yield": {}, "cooling": [],
         "heating": [], "shielding": {}, "rate_modifier": {}, "ode_modifier": {}, "grain_model": "", "method": method}
    if k % 4 == 1 or rng.random() < 0.25:
        # the network in two files of the same format (forward and backward reactions, say): one format entry per file
        h = rng.randint(1, len(lines) - 1)
        d["files"] = [["\n".join(lines[:h]) + "\n", "naunet"], ["\n".join(lines[h:]) + "\n", "naunet"]]
    d["kv_style"], d["item_sep"] = rng.choice([": ", ": ", ":", " : ", " :"]), rng.choice([",", ",", ", "])
    if rng.random() < 0.4 and not upper:
        d["allowed"] = rng.sample(names, rng.randint(4, len(names)))
    if rng.random() < 0.4 and not upper:
        d["required"] = [x for x in rng.sample(["D", "N", "Si"], rng.randint(1, 2)) if not d["allowed"] or x in d["allowed"]]
    if rng.random() < 0.4:
        idx = rng.sample(range(1, len(lines) + 1), rng.randint(1, 2))
        # a replacement rate is any C expression; through the API it may also be a plain number (0.0 switches a reaction off)
        d["rate_modifier"] = {str(i): rng.choice(["1.0e-10", "2.0 * zeta", "1e-9*exp(-10.0/Tgas)", 0.0, 0, 2.5e-10, "0.0"]) for i in idx}
        d["rm_kv"], d["rm_sep"], d["rm_cut"] = rng.choice([":", ":", ": ", " : "]), rng.choice([",", ",", ", ", " , "]), rng.randint(0, 1)
    if rng.random() < 0.4 and not upper and not d["allowed"]:
        # 1-4 terms over 1-2 targets, in a random order (so a target's terms may be split over several occurrences of the option)
        om, order = {}, []
        tgts = rng.sample(["H2", "CO", "H"], rng.randint(1, 2))
        for _ in range(rng.randint(1, 4)):
            tgt = rng.choice(tgts)
            fact, dep = rng.choice(["1e-3", "-2.0*k[0]", "-1.5e-2", "0.25"]), rng.sample(["H", "CO", "He", "He+", "He++", "e-", "C+"], rng.randint(1, 2))
            om.setdefault(tgt, {"factors": [], "reactants": []})
            om[tgt]["factors"].append(fact)
            om[tgt]["reactants"].append(dep)
            order.append((tgt, fact, dep))
        d["ode_modifier"] = om
        d["ode_modifier_terms"] = order
        d["ode_modifier_cuts"] = sorted(rng.sample(range(1, len(order)), rng.randint(0, len(order) - 1))) if len(order) > 1 else []
    if rng.random() < 0.3 and not upper and not d["allowed"]:
        d["cooling"] = ["RC_HeII"]
    if rng.random() < 0.3:
        d["shielding"] = {"H2": "L96Table"} if rng.random() < 0.5 else {"CO": "V09Table", "H2": "L96Table"}
    return d


def replaced_binding_desc(rng, k=3):
    """user binding energies / yields for ice species whose names contain *replaced* element symbols (MG -> Mg): the keys of
    those tables are species names and follow the project's own replacement table"""
    d = gen_desc(rng, k)
    while not d["replacement"]:
        d = gen_desc(rng, k)
    ice = [native(11, ["MG"], ["#MG"], a=1.0, ty=200), native(12, ["#MG"], ["MG"], a=1.0, ty=201),
           native(13, ["HCL"], ["#HCL"], a=1.0, ty=200), native(14, ["#HCL"], ["HCL"], a=1.0, ty=201),
           native(15, ["CL", "H"], ["HCL"])]
    d["kwargs"] = {"grain_symbol": "GRAIN", "surface_prefix": "#", "bulk_prefix": "@"}
    d["files"] = [[d["files"][0][0] + "\n".join(ice) + "\n", "naunet"]]
    d["grain_model"], d["allowed"], d["required"], d["cooling"], d["shielding"] = "hh93", [], [], [], {}
    d["rate_modifier"], d["ode_modifier"] = {}, {}
    d.pop("ode_modifier_terms", None)
    d["binding"], d["yield"] = {"#MG": 4321.0, "#HCL": 5172.0}, {"#HCL": 2.5e-3}
    return d


def user_binding_desc(rng, k=4):
    """ice species with the user's own binding energies and photodesorption yields (values that differ from the RATE12 table),
    default element lists, no replacement table: the exported project has to carry them to the re-rendering"""
    d = gen_desc(rng, k)
    while d["replacement"]:
        d = gen_desc(rng, k)
    lines = [native(1, ["H", "H"], ["H2"]), native(2, ["C", "O"], ["CO"]), native(3, ["O", "H2"], ["H2O"]),
             native(4, ["CO"], ["#CO"], a=1.0, ty=200), native(5, ["#CO"], ["CO"], a=1.0, ty=201),
             native(6, ["H2O"], ["#H2O"], a=1.0, ty=200), native(7, ["#H2O"], ["H2O"], a=1.0, ty=201)]
    d["kwargs"] = {"grain_symbol": "GRAIN", "surface_prefix": "#", "bulk_prefix": "@"}
    d["files"] = [["\n".join(lines) + "\n", "naunet"]]
    d["grain_model"], d["allowed"], d["required"], d["cooling"], d["shielding"] = "hh93", [], [], [], {}
    d["rate_modifier"], d["ode_modifier"] = {}, {}
    d.pop("ode_modifier_terms", None)
    d["binding"], d["yield"] = {"#CO": 1300.0, "#H2O": 5555.5}, {}
    return d


def elements_only_desc(rng, k=4):
    """a project that declares its elements and *no* pseudo-elements (`--pseudo-elements=''`, as `naunet example` passes it for the
    minimal example): the generic third body `M` is an element here, although it is a pseudo-element of the default list"""
    d = gen_desc(rng, k)
    while d["replacement"]:
        d = gen_desc(rng, k)
    lines = [native(1, ["H", "H", "M"], ["H2", "M"]), native(2, ["C", "O"], ["CO"]), native(3, ["CO", "M"], ["C", "O", "M"]),
             native(4, ["H2", "O"], ["OH", "H"])]
    d["elements"], d["pseudo"] = ["H", "C", "O", "M"], []
    d["files"] = [["\n".join(lines) + "\n", "naunet"]]
    d["allowed"], d["required"], d["cooling"], d["shielding"], d["rate_modifier"], d["ode_modifier"] = [], [], [], {}, {}, {}
    d.pop("ode_modifier_terms", None)
    return d


def grain_species_desc(rng, k=4):
    """a network that carries its grains as species (charge states GRAIN0 / GRAIN-), cation-grain recombination and electron
    capture under the hh93 model, written with the cation first - the order the Leeds database and the API examples use, and
    not the order the native writer (names sorted) gives back"""
    d = gen_desc(rng, k)
    while d["replacement"]:
        d = gen_desc(rng, k)
    lines = [native(1, ["H", "H"], ["H2"]), native(2, ["H", "CR"], ["H+", "e-"], ty=101), native(3, ["He", "CR"], ["He+", "e-"], ty=101),
             native(4, ["H+", "GRAIN-"], ["H", "GRAIN0"], a=1.0, ty=220), native(5, ["He+", "GRAIN-"], ["He", "GRAIN0"], a=1.0, ty=220),
             native(6, ["C+", "GRAIN-"], ["C", "GRAIN0"], a=1.0, ty=220), native(7, ["e-", "GRAIN0"], ["GRAIN-"], a=1.0, ty=221),
             native(8, ["Si+", "GRAIN-"], ["Si", "GRAIN0"], a=1.0, ty=220), native(9, ["C", "CR"], ["C+", "e-"], ty=101),
             native(10, ["Si", "CR"], ["Si+", "e-"], ty=101)]
    d["kwargs"] = {"grain_symbol": "GRAIN", "surface_prefix": "#", "bulk_prefix": "@"}
    d["files"] = [["\n".join(lines) + "\n", "naunet"]]
    d["grain_model"], d["allowed"], d["required"], d["cooling"], d["shielding"] = "hh93", [], [], [], {}
    d["rate_modifier"], d["ode_modifier"], d["binding"], d["yield"] = {}, {}, {}, {}
    d.pop("ode_modifier_terms", None)
    return d


def option_string(d, name):
    """the option syntax exactly as `naunet example` composes it"""
    kw = d["kwargs"]
    kv, isep = d.get("kv_style", ": "), d.get("item_sep", ",")     # blanks around the separators are not significant
    rs = isep.join(f"{r}{kv}{rv}" for r, rv in d["replacement"].items())
    sh = isep.join(f"{k}{kv}{v}" for k, v in d["shielding"].items())
    bs = ",".join(f"{s}={sv}" for s, sv in d["binding"].items())
    ys = ",".join(f"{s}={sv}" for s, sv in d["yield"].items())
    # `--rate-modifier` may be given several times too; blanks around its separators are not significant
    rkv, rsep, rcut = d.get("rm_kv", ":"), d.get("rm_sep", ","), d.get("rm_cut", 0)
    rpairs = list(d["rate_modifier"].items())
    rgroups = [rpairs[:rcut], rpairs[rcut:]] if 0 < rcut < len(rpairs) else [rpairs]
    rms = [rsep.join(f"{r}{rkv}{rv}" for r, rv in g) for g in rgroups if g]
    # `--ode-modifier` may be given several times; each occurrence holds `;`-terminated terms
    terms = d.get("ode_modifier_terms") or [(sname, fact, dep) for sname, expr in d["ode_modifier"].items()
                                            for fact, dep in zip(expr["factors"], expr["reactants"])]
    cuts = [0] + list(d.get("ode_modifier_cuts") or []) + [len(terms)]
    oms = ["".join(f"{sname}:{fact},[{' '.join(dep)}];" for sname, fact, dep in terms[a:b]) for a, b in zip(cuts, cuts[1:])]
    oms = [o for o in oms if o]
    solver, method, device = BACK[d["method"]]
    files = ",".join(f"net{i}.{fmt}" for i, (_, fmt) in enumerate(d["files"]))
    fmts = ",".join(fmt for _, fmt in d["files"])
    opts = [f"--name={name}", "--description='generated'", "--loading=''", f"--surface-prefix={kw['surface_prefix']}",
            f"--bulk-prefix={kw['bulk_prefix']}", f"--elements='{','.join(d['elements'])}'",
            f"--pseudo-elements='{','.join(d['pseudo'])}'", f"--element-replacement='{rs}'",
            f"--allowed-species='{','.join(d['allowed'])}'", f"--extra-species='{','.join(d['required'])}'", f"--binding='{bs}'",
            f"--yield='{ys}'", f"--grain-symbol='{kw['grain_symbol']}'", f"--grain-model='{d['grain_model']}'",
            f"--network-files='{files}'", f"--file-formats='{fmts}'", f"--heating='{','.join(d['heating'])}'",
            f"--cooling='{','.join(d['cooling'])}'", f"--shielding='{sh}'"]
    for rm in rms:
        opts.append(f"--rate-modifier='{rm}'")
    for om in oms:
        opts.append(f"--ode-modifier='{om}'")
    opts += [f"--solver={solver}", f"--device={device}", f"--method={method}", "--render", "--render-force"]
    strings = {"lists": [",".join(d["elements"]), ",".join(d["pseudo"]), ",".join(d["allowed"]), ",".join(d["required"]),
                         ",".join(d["cooling"]), files, fmts], "tables": [rs, sh], "ratemod": rms, "odemod": oms}
    return " ".join(opts), strings


def toml_description(text):
    doc = tomlkit.loads(text)
    ch = doc["chemistry"]
    return {
        "elements": list(ch["element"]["elements"]), "pseudo": list(ch["element"]["pseudo_elements"]),
        "replacement": dict(ch["element"]["replacement"]),
        "kwargs": {"grain_symbol": ch["symbol"]["grain"], "surface_prefix": ch["symbol"]["surface"], "bulk_prefix": ch["symbol"]["bulk"]},
        "allowed": list(ch["species"]["allowed"]), "required": list(ch["species"]["required"]),
        "binding": dict(ch["species"]["binding_energy"]), "yield": dict(ch["species"]["photon_yield"]),
        "grain_model": ch["grain"]["model"], "files": list(ch["network"]["files"]), "formats": list(ch["network"]["formats"]),
        "heating": list(ch["thermal"]["heating"]), "cooling": list(ch["thermal"]["cooling"]), "shielding": dict(ch["shielding"]),
        "rate_modifier": {str(k): str(v) for k, v in dict(ch["rate_modifier"]).items()},
        "ode_modifier": json.loads(json.dumps(dict(ch["ode_modifier"]))),
        "solver": [doc["ODEsolver"]["solver"], doc["ODEsolver"]["method"], doc["ODEsolver"]["device"]],
    }


def requested_description(d):
    return {
        "elements": d["elements"], "pseudo": d["pseudo"], "replacement": d["replacement"], "kwargs": d["kwargs"],
        "allowed": d["allowed"], "required": d["required"], "binding": d["binding"], "yield": d["yield"], "grain_model": d["grain_model"],
        "files": [f"net{i}.{fmt}" for i, (_, fmt) in enumerate(d["files"])], "formats": [fmt for _, fmt in d["files"]],
        "heating": d["heating"], "cooling": d["cooling"], "shielding": d["shielding"], "rate_modifier": {str(k): str(v) for k, v in d["rate_modifier"].items()},
        "ode_modifier": d["ode_modifier"], "solver": list(BACK[d["method"]]),
    }


def diff_files(a, b):
    names = sorted(set(a) | set(b))
    return [n for n in names if a.get(n) != b.get(n)]


def reexport_config_check(chk, rng):
    """An exported project is a description of the network at the time of the export.  Exporting again into the same directory after
    the network changed (here: a rate modifier assigned) has to rewrite the configuration too: `naunet render` there must reproduce
    the direct rendering of the network as it is now."""
    from .c17 import run_worker
    d = gen_desc(rng, 0)
    while d["replacement"] or d["allowed"]:
        d = gen_desc(rng, 0)
    d = dict(d, rate_modifier={}, ode_modifier={}, required=[], cooling=[], shielding={})
    d.pop("ode_modifier_terms", None)
    mod = {"2": "3.3e-11 * sqrt(Tgas)", "4": "0.0"}
    edir = chk.scratch / "reexport-config" / "proj"
    edir.parent.mkdir(parents=True)
    back = list(BACK[d["method"]])
    res = run_worker({"steps": [{"op": "build", "id": "A", "desc": d},
                                {"op": "export", "id": "A", "dir": str(edir), "backend": back, "tag": ["export-1"]},
                                {"op": "set_rate_modifier", "id": "A", "values": mod},
                                {"op": "export", "id": "A", "dir": str(edir), "backend": back, "tag": ["export-2"]},
                                {"op": "cli_render", "dir": str(edir), "tag": ["re-render"]},
                                {"op": "render", "id": "A", "backend": back, "tag": ["direct"]}]}, 0)
    chk.count(("reexport-config",), nontrivial=True)
    chk.hist["reexport-config"] += 1
    if isinstance(res, dict) or any("error" in r for r in res):
        err = res.get("crash") if isinstance(res, dict) else next(r["error"] for r in res if "error" in r)
        chk.violation({"kind": "re-export-raised"}, f"export / modify / export / render raised: {str(err)[-300:]}", input={"method": d["method"]})
        return
    rer, direct = res[2], res[3]
    if rer.get("canon") != direct.get("canon"):
        chk.violation({"kind": "re-export-stale-config"},
                      "after a second export into the same directory `naunet render` there does not reproduce the direct rendering: the "
                      "configuration still describes the network of the first export", input={"method": d["method"], "rate_modifier_assigned": mod},
                      re_rendered=rer.get("canon"), direct=direct.get("canon"))


def configure_only_check(chk, rng):
    """`naunet init` without rendering only writes the configuration: every value is written as it was given - a dust model of the
    user's own (registered by a module named in `--loading`, any spelling) included."""
    d = gen_desc(rng, 0)
    while d["replacement"]:
        d = gen_desc(rng, 0)
    d = dict(d, rate_modifier={}, ode_modifier={}, grain_model=rng.choice(["MyDust", "RR07X", "Hh93_v2"]))
    d.pop("ode_modifier_terms", None)
    pdir = chk.scratch / "configure-only" / "proj"
    pdir.mkdir(parents=True)
    for i, (content, fmt) in enumerate(d["files"]):
        (pdir / f"net{i}.{fmt}").write_text(content)
    opts, _ = option_string(d, "proj")
    opts = opts.replace(" --render --render-force", "")
    # (without --render the command asks whether to render now: the answer is no)
    res = run_worker({"steps": [{"op": "cli_init", "dir": str(pdir), "options": opts, "inputs": "no\nno\nno\n", "tag": ["configure-only", 0]}]}, 0)
    chk.count(("configure-only",), nontrivial=True)
    chk.hist["configure-only"] += 1
    if isinstance(res, dict) or "error" in res[0]:
        chk.violation({"kind": "init-raised", "msg": "configure-only"}, f"`naunet init` without --render raised: {res if isinstance(res, dict) else res[0]['error']}",
                      input={"grain_model": d["grain_model"]})
        return
    got, want = toml_description(res[0]["toml"]), requested_description(d)
    badf = [f for f in want if got[f] != want[f]]
    if badf:
        chk.violation({"kind": "config-field-differs", "fields": badf, "path": "configure-only"},
                      f"the configuration written by `naunet init` (no rendering) differs from the requested description in {badf}",
                      requested={f: want[f] for f in badf}, written={f: got[f] for f in badf})


def run(argv):
    tier, seed = tier_and_seed(argv)
    chk = Check("C20", tier, seed, MODULES, THEOREMS, RULE)
    chk.prove()
    rng = chk.rng
    ndesc = 8 if tier == "quick" else 60
    descs = []
    for k in range(ndesc):
        d = gen_desc(rng, k)
        if k == 0:
            d["kwargs"]["bulk_prefix"] = "%"          # F12 witness always first
        while k == 1 and d["replacement"]:       # (the export path is compared with the direct rendering only without a replacement table)
            d = gen_desc(rng, k)
        if k == 1:
            d["allowed"], d["required"] = [], []       # (every reaction is kept: both modifiers apply to a reaction of the network)
            d["rate_modifier"] = {"2": "1.0e-10", "5": 0.0}      # F19 witness (export path) always second; a numeric zero too
        while k == 2 and d["replacement"]:
            d = gen_desc(rng, k)
        if k == 2:
            # the same target named in three separate occurrences of --ode-modifier, another target in between
            d["allowed"], d["cooling"] = [], []
            terms = [("H", "-1.5e-2", ["H"]), ("CO", "1e-3", ["CO", "He"]), ("H", "0.25", ["H", "CO"])]
            d["ode_modifier"] = {"H": {"factors": ["-1.5e-2", "0.25"], "reactants": [["H"], ["H", "CO"]]},
                                 "CO": {"factors": ["1e-3"], "reactants": [["CO", "He"]]}}
            d["ode_modifier_terms"], d["ode_modifier_cuts"] = terms, [1, 2]
        if k == 3:
            d = replaced_binding_desc(rng, k)
        if k == 4:
            d = elements_only_desc(rng, k)
        if k == 5:
            d = user_binding_desc(rng, k)
        while k == 6 and d["replacement"]:
            d = gen_desc(rng, k)
        if k == 6:
            d["allowed"], d["required"] = [], ["D", "Si"]        # extra species that take part in no reaction, always
            # a shielding table chosen for a species this (reduced) network does not contain: the choice is part of the project
            d["shielding"] = {"H2": "L96Table", "N2": "L13Table"}
        if k == 7:
            d = user_binding_desc(rng, k)
            d["binding"], d["yield"] = {}, {"#CO": 2.7e-3, "#H2O": 1.3e-3}      # yields of the user's own, binding energies from the table
        descs.append(d)
    ex_cases = [4, 5, 7, 8, 11] if tier == "quick" else [0, 1, 3, 4, 5, 6, 7, 8, 9, 10, 11, 16, 17, 18]
    process(chk, descs, ex_cases)
    reexport_config_check(chk, rng)
    configure_only_check(chk, rng)
    return chk.finish()


def process(chk, descs, ex_cases):
    jobs = []
    for k, d in enumerate(descs):
        pdir = chk.scratch / f"init{k}" / "proj"
        pdir.mkdir(parents=True)
        for i, (content, fmt) in enumerate(d["files"]):
            (pdir / f"net{i}.{fmt}").write_text(content)
        opts, strings = option_string(d, "proj")
        api = dict(d)
        jobs.append(("init", k, {"steps": [{"op": "cli_init", "dir": str(pdir), "options": opts, "tag": ["init", k]}]}, strings))
        jobs.append(("api", k, {"steps": [{"op": "build", "id": "A", "desc": api},
                                          {"op": "render", "id": "A", "backend": list(BACK[d["method"]]), "tag": ["api", k]}]}, None))
        edir = chk.scratch / f"export{k}" / "proj"
        edir.parent.mkdir(parents=True)
        jobs.append(("export", k, {"steps": [{"op": "build", "id": "A", "desc": api},
                                             {"op": "export", "id": "A", "dir": str(edir), "backend": list(BACK[d["method"]]), "tag": ["export", k]},
                                             {"op": "cli_render", "dir": str(edir), "tag": ["export-render", k]}]}, None))
    # several projects configured one after another in ONE process (a script or notebook driving the commands / the API):
    # every project's configuration must be what it is when the project is configured alone
    seq_steps = []
    for k, d in enumerate(descs):
        pdir = chk.scratch / f"seq{k}" / "proj"
        pdir.mkdir(parents=True)
        for i, (content, fmt) in enumerate(d["files"]):
            (pdir / f"net{i}.{fmt}").write_text(content)
        seq_steps.append({"op": "cli_init", "dir": str(pdir), "options": option_string(d, "proj")[0], "tag": ["seq-init", k]})
    seq_exports = []
    for k, d in enumerate(descs[:3]):
        edir = chk.scratch / f"seqexport{k}" / "proj"
        edir.parent.mkdir(parents=True)
        seq_steps += [{"op": "build", "id": f"S{k}", "desc": dict(d)},
                      {"op": "export", "id": f"S{k}", "dir": str(edir), "backend": list(BACK[d["method"]]), "tag": ["seq-export", k]}]
        seq_exports.append(k)
    # a network built earlier and exported only after another network (with other element lists) has been built in between:
    # the exported configuration describes the exported network, not the one built last
    # (binding energies and yields are process-wide tables by design, so only projects without tables of their own take part)
    plain = lambda d: not d.get("binding") and not d.get("yield")
    late = next((k for k in range(1, len(descs)) if plain(descs[k]) and plain(descs[0]) and not descs[k]["replacement"]
                 and (descs[k]["elements"], descs[k]["pseudo"]) != (descs[0]["elements"], descs[0]["pseudo"])), None)
    if late is not None:
        edir = chk.scratch / f"lateexport{late}" / "proj"
        edir.parent.mkdir(parents=True)
        seq_steps += [{"op": "build", "id": "LX", "desc": dict(descs[late])}, {"op": "build", "id": "L0", "desc": dict(descs[0])},
                      {"op": "export", "id": "LX", "dir": str(edir), "backend": list(BACK[descs[late]["method"]]), "tag": ["late-export", late]}]
        chk.hist["late-export"] += 1
    if seq_steps:
        jobs.append(("sequence", 0, {"steps": seq_steps}, None))
    # bundled examples through `example --dry`
    for case in ex_cases:
        jobs.append(("example", case, example_job(chk, case), None))
    with ThreadPoolExecutor(8) as ex:
        results = list(ex.map(lambda j: run_worker(j[2], 0), jobs))
    by = {}
    for (kind, k, job, strings), res in zip(jobs, results):
        by[(kind, k)] = (res, strings)
    reqs, pend = [], []
    for k, d in enumerate(descs):
        show = {"description": {x: d[x] for x in ("kwargs", "allowed", "required", "cooling", "shielding", "rate_modifier", "ode_modifier", "method")},
                "upper_case_lists": d["elements"] == UPPER_ELEMENTS}
        nontriv = any(d[x] for x in ("allowed", "required", "cooling", "shielding", "rate_modifier", "ode_modifier", "replacement"))
        res_i, strings = by[("init", k)]
        res_a, _ = by[("api", k)]
        res_e, _ = by[("export", k)]
        chk.count(("init", k), nontrivial=nontriv)
        chk.hist["path:init"] += 1
        api_item = res_a[0] if isinstance(res_a, list) and res_a else {"error": str(res_a)[:300]}
        if isinstance(res_i, dict) or "error" in res_i[0]:
            msg = res_i.get("crash", "")[-400:] if isinstance(res_i, dict) else res_i[0]["error"]
            chk.violation({"kind": "init-raised", "msg": msg.split(":")[0][:40]}, f"`naunet init ... --render` raised: {msg}", input=show)
        else:
            got = toml_description(res_i[0]["toml"])
            want = requested_description(d)
            badf = [f for f in want if got[f] != want[f]]
            if badf:
                chk.violation({"kind": "config-field-differs", "fields": badf},
                              f"the written configuration differs from the requested description in {badf}", input=show,
                              requested={f: want[f] for f in badf}, written={f: got[f] for f in badf})
            elif "error" in api_item:
                chk.hist["api-refused"] += 1
            else:
                df = diff_files(res_i[0]["per_file"], api_item["per_file"])
                if df:
                    chk.violation({"kind": "cli-vs-api", "path": "init"}, f"sources rendered through the command line differ from the API rendering in {df[:6]}",
                                  input=show)
            reqs.append({"cmd": "parseopts", **strings})
            pend.append((show, got))
        # export path
        chk.count(("export", k), nontrivial=nontriv)
        chk.hist["path:export"] += 1
        if isinstance(res_e, dict):
            chk.violation({"kind": "export-crash"}, "worker crashed in the export path", stderr=res_e.get("crash", "")[-600:], input=show)
        elif "error" in res_e[0]:
            chk.violation({"kind": "export-raised", "error": res_e[0]["error"].split(":")[0], "has_rate_modifier": bool(d["rate_modifier"])},
                          f"Network.export raised {res_e[0]['error']}", input=show)
        else:
            got = toml_description(res_e[0]["toml"])
            want = requested_description(d)
            want["files"], want["formats"] = ["reactions.naunet"], ["naunet"]
            if len(res_e) > 1 and "error" not in res_e[1] and not d["replacement"] and res_e[0].get("canon") and res_e[1].get("canon") \
                    and not any(str(v).startswith("unparsed") for v in list(res_e[0]["canon"].values()) + list(res_e[1]["canon"].values())) \
                    and res_e[0]["canon"] != res_e[1]["canon"]:
                # (equations compared as polynomials, rate statements as texts: the writer's sorting of species does not matter)
                chk.violation({"kind": "export-vs-rerender", "path": "export"},
                              "the equations and rate statements `Network.export` itself wrote differ from the ones `naunet render` "
                              "regenerates in the exported project (same reactions.naunet, same naunet_config.toml)", input=show,
                              files=[f for f in res_e[0]["canon"] if res_e[0]["canon"].get(f) != res_e[1]["canon"].get(f)])
            badf = [f for f in want if got[f] != want[f] and f not in ("binding", "yield", "replacement")]
            if badf:
                chk.violation({"kind": "config-field-differs", "fields": badf, "path": "export"},
                              f"the exported configuration differs from the network's description in {badf}", input=show,
                              requested={f: want[f] for f in badf}, written={f: got[f] for f in badf})
            elif len(res_e) > 1 and "error" not in res_e[1] and "error" not in api_item and not d["replacement"]:
                df = diff_files(res_e[1]["per_file"], api_item["per_file"])
                # the native writer sorts the species of a reaction: products of abundances may be reordered
                df = [f for f in df if not (f in api_item.get("canon", {}) and api_item["canon"].get(f) == res_e[1].get("canon", {}).get(f)
                                            and not str(api_item["canon"].get(f)).startswith("unparsed"))]
                if df:
                    chk.violation({"kind": "cli-vs-api", "path": "export"}, f"re-rendering the exported project differs from the direct rendering in {df[:6]}",
                                  input=show)
            elif len(res_e) > 1 and "error" in res_e[1] and d["replacement"]:
                chk.hist["export-with-replacement-refused"] += 1     # the API has no replacement argument: re-render is refused, not silent
            elif len(res_e) > 1 and "error" in res_e[1]:
                chk.violation({"kind": "export-rerender-raised"}, f"rendering the exported project raised {res_e[1]['error']}", input=show)
        if k < 3:
            chk.sample(show)
    # the same projects configured one after another in one process
    if ("sequence", 0) in by:
        res_s, _ = by[("sequence", 0)]
        if isinstance(res_s, dict):
            chk.violation({"kind": "sequence-crash"}, "worker crashed while configuring several projects in one process",
                          stderr=res_s.get("crash", "")[-600:])
        else:
            for item in res_s:
                kind, k = item["tag"]
                alone = by.get(("init" if kind == "seq-init" else "export", k), (None, None))[0]
                if not isinstance(alone, list) or "error" in alone[0] or "error" in item:
                    if isinstance(alone, list) and ("error" in alone[0]) != ("error" in item):
                        chk.violation({"kind": "sequence-differs", "path": kind}, "a project is accepted alone but refused after others "
                                      "were configured in the same process (or vice versa)", input={"project": k},
                                      alone=alone[0].get("error"), in_sequence=item.get("error"))
                    continue
                chk.count((kind, k), nontrivial=True)
                chk.hist["path:sequence"] += 1
                a, b = toml_description(alone[0]["toml"]), toml_description(item["toml"])
                badf = [f for f in a if a[f] != b[f]]
                if badf:
                    chk.violation({"kind": "sequence-differs", "path": kind, "fields": badf},
                                  f"project {k} configured after other projects in the same process gets a different configuration "
                                  f"file than when it is configured alone: {badf}", input={"project": k, "earlier_projects": list(range(k))},
                                  alone={f: a[f] for f in badf}, in_sequence={f: b[f] for f in badf})
    for case in ex_cases:
        res, _ = by[("example", case)]
        chk.count(("example", case), nontrivial=True)
        chk.hist["path:example"] += 1
        if isinstance(res, dict) or any("error" in r for r in res):
            err = res.get("crash", "")[-300:] if isinstance(res, dict) else next(r["error"] for r in res if "error" in r)
            chk.violation({"kind": "example-raised", "case": case}, f"bundled example {case} raised: {err}")
            continue
        df = diff_files(res[0]["per_file"], res[1]["per_file"])
        if df:
            chk.violation({"kind": "cli-vs-api", "path": "example", "case": case},
                          f"bundled example {case}: command-line rendering differs from the API rendering in {df[:6]}")
    # ---- model correspondence: option strings -> lists / tables as written in the TOML file
    if getattr(chk, "lean_ok", False) and reqs:
        try:
            answers = lean_driver(reqs)
        except Exception as e:
            chk.corr_break("driver", None, None, str(e)[:300])
            answers = []
        for (show, got), ans in zip(pend, answers):
            m_lists = ans["lists"]
            i_lists = [got["elements"], got["pseudo"], got["allowed"], got["required"], got["cooling"], got["files"], got["formats"]]
            m_tabs = [dict(t) if t is not None else None for t in ans["tables"]]
            i_tabs = [got["replacement"], got["shielding"]]
            # modifiers: the model's dictionaries (insertion order included) against the tables `init` wrote
            m_rm = [list(p) for p in ans["rate_modifier"]] if ans.get("rate_modifier") is not None else None
            i_rm = [[k_, v_] for k_, v_ in got["rate_modifier"].items()]
            m_om = [[t[0], t[1], t[2]] for t in ans["ode_modifier"]] if ans.get("ode_modifier") is not None else None
            i_om = [[k_, list(v_["factors"]), [list(x) for x in v_["reactants"]]] for k_, v_ in got["ode_modifier"].items()]
            if m_lists != i_lists or m_tabs != i_tabs:
                chk.corr_break("option-parsing", show, {"lists": m_lists, "tables": m_tabs}, {"lists": i_lists, "tables": i_tabs})
            elif m_rm != i_rm or m_om != i_om:
                chk.corr_break("modifier-option-parsing", show, {"rate_modifier": m_rm, "ode_modifier": m_om},
                               {"rate_modifier": i_rm, "ode_modifier": i_om})
            else:
                chk.traces += 1
                chk.hist["modifier-options-compared"] += bool(i_rm or i_om)




def example_job(chk, case):
    """`naunet example --select=<case> --dry` prints the init command; run it, and render the same description through the API"""
    import importlib
    import shutil
    from cleo.testers.command_tester import CommandTester
    from naunet.console.application import Application
    networklist = ["empty/dense", "empty/sparse", "empty/cusparse", "empty/rosenbrock4", "minimal/dense", "minimal/sparse",
                   "minimal/cusparse", "minimal/rosenbrock4", "primordial/dense", "primordial/sparse", "primordial/cusparse",
                   "primordial/rosenbrock4", "deuterium/dense", "deuterium/sparse", "deuterium/cusparse", "deuterium/rosenbrock4",
                   "cloud/dense", "cloud/sparse", "cloud/rosenbrock4", "ism/dense", "ism/sparse", "ism/cusparse"]
    name = networklist[case]
    ex = name.split("/")[0]
    mod = importlib.import_module(f"naunet.examples.{ex}")
    pdir = chk.scratch / f"example{case}" / "proj"
    pdir.mkdir(parents=True)
    import io, contextlib, os
    buf = io.StringIO()
    cwd = os.getcwd()
    os.chdir(pdir)
    try:
        with contextlib.redirect_stdout(buf):
            t = CommandTester(Application().find("example"))
            t.execute(f"--select={case} --dry")
    finally:
        os.chdir(cwd)
    out = buf.getvalue() + t.io.fetch_output()
    m = re.search(r"naunet init (.*)", out)
    options = m.group(1).strip() + " --render-force" if m else ""
    files = mod.files
    if files:
        shutil.copyfile(Path(importlib.import_module("naunet").__file__).parent / "examples" / ex / files, pdir / files)
        content = (pdir / files).read_text()
    method = name.split("/")[1]
    solver = "odeint" if method == "rosenbrock4" else "cvode"
    device = "gpu" if method == "cusparse" else "cpu"
    desc = {"elements": list(mod.elements), "pseudo": list(mod.pseudo_elements), "replacement": dict(mod.element_replacement),
            "kwargs": {"grain_symbol": mod.grain_symbol, "surface_prefix": mod.surface_prefix, "bulk_prefix": mod.bulk_prefix},
            "files": [[content, mod.formats]] if files else [], "allowed": list(mod.allowed_species), "required": list(mod.extra_species),
            "binding": dict(mod.binding_energy), "yield": dict(mod.photon_yield), "cooling": list(mod.cooling), "heating": list(mod.heating),
            "shielding": dict(mod.shielding), "rate_modifier": {str(k): v for k, v in mod.rate_modifier.items()},
            "ode_modifier": dict(mod.ode_modifier), "grain_model": mod.grain_model}
    return {"steps": [{"op": "cli_init", "dir": str(pdir), "options": options, "tag": ["example", case]},
                      {"op": "build", "id": "A", "desc": desc},
                      {"op": "render", "id": "A", "backend": [solver, method, device], "tag": ["example-api", case]}]}


if __name__ == "__main__":
    sys.exit(run(sys.argv[1:]))
