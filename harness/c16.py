"""C16: renormalisation restores the reference elemental abundances.

impl   : rendered naunet_renorm.cpp (InitRenorm / RenormAbundance) parsed into exact rational expressions
model  : Lean `Renorm.matrix` / `Renorm.factor`, fed with naunet's own counts and mass numbers
oracle : exact rational linear algebra: build the parsed matrix at a random positive abundance vector, solve for r,
         apply the parsed factors, recompute element totals from the generator's ground-truth composition
"""
from __future__ import annotations

import re
import subprocess
import sys
from fractions import Fraction
from pathlib import Path

from . import cbuild, cparse, netgen
from .common import Check, ROOT, lean_driver, quiet_naunet, silenced, tier_and_seed
from .poly import Poly, poly_of_text
from .rendering import Rendered, render

quiet_naunet()
MODULES = ["NaunetProps.C16"]
THEOREMS = ["Naunet.C16.renorm_restores", "Naunet.C16.renorm_ratio", "Naunet.C16.identity_factor", "Naunet.C16.ones_solves",
            "Naunet.C16.electron_untouched", "Naunet.C16.driver_opt0", "Naunet.C16.driver_opt1", "Naunet.C16.driver_identity"]
RULE = ("networks over multi-element molecules, isotopologues, ions, ice species and (separately) grain species whose elements are "
        "present as atomic species, plus networks where a molecule carries an element that is not atomic; random positive rational "
        "abundance vectors and reference ratios; exact rational solve; case = (network, back-end, vector); non-trivial = at least 2 "
        "elements and 4 species")


def gen_network(rng, kind):
    """species names + ground truth; every listed atom is included so that it is an element of the network"""
    atoms = rng.sample(["H", "C", "O", "N", "He", "Si", "D", "S", "Mg"], rng.randint(2, 5))
    if "H" not in atoms:
        atoms[0] = "H"
    if kind == "hfirst":
        # hydrogen is the element with index 0 (elements follow the species order: least connected first, ties by name - no atom
        # that sorts before H)
        atoms = ["H"] + rng.sample(["O", "N", "He", "Si", "S", "Mg"], rng.randint(1, 3))
    pool = [s for s in netgen.gas_pool() + netgen.ice_pool("#") if s.comp and all(e in atoms for e, _ in s.comp)
            and not s.name.startswith(("o", "p"))]
    rng.shuffle(pool)
    chosen = pool[: rng.choice([rng.randint(3, 10), rng.randint(3, 10), rng.randint(12, 30)])]
    species = [netgen.mk([(a, 1)]) for a in atoms] + [s for s in chosen if s.name not in atoms]
    if rng.random() < 0.7:
        species.append(netgen.electron("e-"))
    if kind == "grain":
        species += [netgen.grain(0), netgen.grain(-1)]
    if kind == "nonatomic":
        extra = rng.choice(["Fe", "Na", "Cl"])
        species.append(netgen.mk([(extra, 1), ("H", 1)]))   # e.g. FeH with no atomic Fe in the network
    if kind == "noelement":
        species.append(netgen.mk([("Na", 1), ("Cl", 1)]))   # none of its elements is an atomic species here
    seen, out = set(), []
    for s in species:
        if s.key not in seen:
            seen.add(s.key)
            out.append(s)
    return out


def build(species, rng, staged_file=None):
    """`staged_file`: the network is assembled in two steps on one object, as an interactive session does - the reactions among the
    first species through the constructor, then (after the species, the elements and the element abundances of that first part
    have been looked at) the rest appended from a file in the native format written there"""
    from naunet.network import Network
    from naunet.reactions import Reaction
    from naunet.reactiontype import ReactionType as RT
    from .ode_checks import reset_species_state, DEFAULT_ELEMENTS, DEFAULT_PSEUDO
    reset_species_state()
    names = [s.name for s in species]
    triples = [([names[i], names[(i + 3) % len(names)]], [names[(i + 1) % len(names)]]) for i in range(len(names))]
    mk = lambda re_, pr_, i: Reaction(list(re_), list(pr_), alpha=1e-10, reaction_type=RT.GAS_TWOBODY, idxfromfile=i + 1)
    if staged_file is None:
        with silenced():
            return Network([mk(re_, pr_, i) for i, (re_, pr_) in enumerate(triples)], elements=list(DEFAULT_ELEMENTS),
                           pseudo_elements=list(DEFAULT_PSEUDO))
    # first part: the reactions that involve the first atom's species only (e.g. H chemistry), or simply the first one
    first_atom = names[0]
    head = [k for k, (re_, pr_) in enumerate(triples) if all(x in (first_atom, first_atom + "2", first_atom + "+", "e-") for x in re_ + pr_)] or [0]
    by_name = {s.name: s for s in species}
    with silenced():
        net = Network([mk(*triples[k], k) for k in head], elements=list(DEFAULT_ELEMENTS), pseudo_elements=list(DEFAULT_PSEUDO))
        _ = [s.name for s in net.species], [e.name for e in net.elements], net.info if hasattr(net, "info") else None
        rest = [netgen.AReac([by_name[x] for x in triples[k][0]], [by_name[x] for x in triples[k][1]], idx=k + 1)
                for k in range(len(triples)) if k not in head]
        Path(staged_file).write_text("".join(netgen.native_line(r) + "\n" for r in rest))
        net.add_reaction_from_file(str(staged_file), "naunet")
    return net


def parse_renorm(path, backend):
    txt = (path / "src" / "naunet_renorm.cpp").read_text()
    init = cparse.function_body(txt, "InitRenorm")
    mat = {}
    lhs_re = r"IJth\(\s*A\s*,\s*\w+\s*,\s*\w+\s*\)" if backend != "rosenbrock4" else r"A\(\s*\w+\s*,\s*\w+\s*\)"
    for lhs, rhs, _ in cparse.assignments(init, lhs_re):
        i, j = re.findall(r"IDX_ELEM_\w+", lhs)
        mat[(i, j)] = rhs
    body = cparse.function_body(txt, "RenormAbundance")
    fac = {}
    for lhs, rhs, _ in cparse.assignments(body, r"ab\[\s*\w+\s*\]"):
        fac[lhs[3:-1].strip()] = rhs
    return mat, fac


def helpers_check(chk, rd, path, truth, show, kind):
    """InitRenorm takes `Hnuclei` from the library's own GetHNuclei, and the property speaks about the element totals the
    library reports: GetElementAbund must be the count-weighted sum over *all* species, GetHNuclei its hydrogen branch."""
    phys = next((path / "src" / f for f in ("naunet_physics.cpp", "naunet_physics.cu") if (path / "src" / f).exists()), None)
    if phys is None:
        return True
    text = phys.read_text()
    try:
        body = cparse.function_body(text, "GetElementAbund")
        hbody = "".join(cparse.function_body(text, "GetHNuclei").split())
    except cparse.CParseError as e:
        chk.violation({"kind": "helper-unreadable"}, f"GetElementAbund / GetHNuclei not readable: {e}", input=show)
        return False
    found = {}
    for m in re.finditer(r"if\s*\(\s*elemidx\s*==\s*(IDX_ELEM_\w+)\s*\)\s*\{\s*return([^;]*);", body, re.S):
        try:
            found[m.group(1)] = poly_of_text(" ".join(m.group(2).split()))
        except (cparse.CParseError, ZeroDivisionError):
            return True       # grain species with mass 0 etc.: the renorm oracle reports those
    for en, pgot in found.items():
        el = en[len("IDX_ELEM_"):]
        if el == "GRAIN":
            continue
        want = Poly()
        for a, slot in rd.idx.items():
            sp = truth.get(a[4:])
            if sp is not None and sp.count(el):
                want = want + Poly.const(sp.count(el)) * Poly.atom(f"y[{a}]")
        if pgot != want:
            chk.violation({"kind": "element-total-helper", "net": kind},
                          f"GetElementAbund({en}) is not the count-weighted sum of the abundances", input=show,
                          expected=want.canon(), observed=pgot.canon())
            return False
    if "IDX_ELEM_H" in found and "returnGetElementAbund(y,IDX_ELEM_H);" not in hbody:
        chk.violation({"kind": "hnuclei-helper", "net": kind}, "GetHNuclei is not GetElementAbund(y, IDX_ELEM_H)", input=show, body=hbody[:200])
        return False
    return True


def compiled_check(chk, rng, jobs, tier):
    """end to end through the generated library: Naunet::SetReferenceAbund + Naunet::Renorm (InitRenorm, the library's own
    linear solve, RenormAbundance, GetHNuclei) compiled against the shim and run on abundance vectors"""
    from concurrent.futures import ThreadPoolExecutor
    import math

    def build(job):
        n, b, path, truth, show = job
        exe = path / "c16"
        ok, err = cbuild.build(path, ROOT / "shim" / "c16_driver.cpp", exe, b, sanitize=(tier == "thorough"))
        return ok, err, exe

    with ThreadPoolExecutor(4) as ex:
        built = list(ex.map(build, jobs))
    for (n, b, path, truth, show), (ok, err, exe) in zip(jobs, built):
        if not ok:
            chk.violation({"kind": "does-not-compile", "backend": b}, f"rendered {b} sources do not compile against the shim",
                          input=show, error=err[-1200:])
            continue
        rd = Rendered(path, b)
        aliases = sorted((k for k in rd.idx if k != "IDX_TGAS"), key=lambda k: rd.idx[k])
        elems = sorted(rd.elem_idx, key=lambda k: rd.elem_idx[k])
        if "IDX_ELEM_H" not in rd.elem_idx:
            continue
        sp = [truth.get(a[4:]) for a in aliases]
        if any(x is None for x in sp):
            continue

        def totals(vec):
            return {e: sum(x.count(e[len("IDX_ELEM_"):]) * v for x, v in zip(sp, vec)) for e in elems}
        cases, lines = [], []
        for trial in range(6 if tier == "quick" else 40):
            scale = rng.choice([1.0, 1e-4, 2e4])       # fractional abundances or number densities
            ab = [scale * rng.uniform(0.1, 10.0) * 10 ** rng.randint(-3, 0) for _ in aliases]
            mode = ["ratios", "identity", "other-vector"][trial % 3]
            if mode == "ratios":
                opt, ref = 0, [rng.uniform(0.5, 2.0) * 10 ** rng.randint(-5, 0) for _ in elems]
                want = {e: ref[i] / ref[rd.elem_idx["IDX_ELEM_H"]] for i, e in enumerate(elems)}
            else:
                opt = 1
                ref = list(ab) if mode == "identity" else [rng.uniform(0.1, 10.0) * 10 ** rng.randint(-6, 0) for _ in aliases]
                t = totals(ref)
                want = {e: t[e] / t["IDX_ELEM_H"] for e in elems}
                ref = ref + [0.0] * (rd.neqns - len(ref))
            ab_full = ab + [100.0] * (rd.neqns - len(ab))
            cases.append((mode, ab, want))
            lines.append(" ".join([str(opt), str(len(ref))] + [repr(float(x)) for x in ref] + [repr(float(x)) for x in ab_full]))
        r = subprocess.run([str(exe)], input="\n".join(lines) + "\n", capture_output=True, text=True, cwd=str(path), timeout=600)
        outs = r.stdout.strip().split("\n")
        if r.returncode != 0 or len(outs) != len(cases):
            chk.violation({"kind": "driver-crash", "backend": b}, f"compiled Renorm crashed (rc={r.returncode})", input=show,
                          stderr=r.stderr[-800:])
            continue
        for (mode, ab, want), line in zip(cases, outs):
            line, second = line.split("||")
            left, right = line.split("|")
            f2 = second.split()
            flag2, new2 = int(f2[0]), [float(x) for x in f2[1:1 + len(aliases)]]
            f = left.split()
            flag, new = int(f[0]), [float(x) for x in f[1:1 + len(aliases)]]
            lib = [float(x) for x in right.split()]
            chk.count(("compiled", n, b, mode, ab[0]), nontrivial=True)
            chk.hist[f"compiled:{b}:{mode}"] += 1
            inp = {**show, "backend": b, "mode": mode, "abundances": dict(zip(aliases, ab)), "wanted_ratio_to_H": want}
            if flag != 0 or not all(math.isfinite(x) for x in new):
                chk.violation({"kind": "compiled-renorm-failed", "backend": b}, f"Naunet::Renorm returned {flag} / non-finite abundances", input=inp)
                break
            t = totals(new)
            # binary64 linear solve: the error scales with the cancellation in the sums (the exact-rational oracle above
            # settles exactness; this run is about the glue), so the tolerance is relative to the sum of magnitudes
            mag = {e: sum(abs(x.count(e[len("IDX_ELEM_"):]) * v) for x, v in zip(sp, new)) for e in elems}
            bad = [e for e in elems if e != "IDX_ELEM_GRAIN" and t["IDX_ELEM_H"] != 0 and
                   abs(t[e] / t["IDX_ELEM_H"] - want[e]) > 1e-6 * max(abs(want[e]), mag[e] / abs(t["IDX_ELEM_H"]),
                                                                      abs(want[e]) * mag["IDX_ELEM_H"] / abs(t["IDX_ELEM_H"]))]
            if bad:
                chk.violation({"kind": "compiled-ratio-not-restored", "backend": b},
                              f"after Naunet::Renorm the ratio of {bad[0][9:]} to H nuclei is {t[bad[0]] / t['IDX_ELEM_H']!r}, the reference is {want[bad[0]]!r}",
                              input=inp, after=dict(zip(aliases, new)))
                break
            libbad = [e for e, v in zip(elems, lib) if abs(v - t[e]) > 1e-9 * max(abs(t[e]), 1e-300)]
            if libbad:
                chk.violation({"kind": "element-total-helper", "backend": b}, f"GetElementAbund({libbad[0]}) differs from the count-weighted sum",
                              input=inp)
                break
            for a, x, o, y in zip(aliases, sp, ab, new):
                if x.kind == "electron" and y != o:
                    chk.violation({"kind": "electron-changed", "backend": b}, "electron abundance changed by Naunet::Renorm", input=inp)
                    break
            # the stored reference survives a renormalisation: a second call restores the same ratios
            t2 = totals(new2)
            mag2 = {e: sum(abs(x.count(e[len("IDX_ELEM_"):]) * v) for x, v in zip(sp, new2)) for e in elems}
            bad2 = [e for e in elems if e != "IDX_ELEM_GRAIN" and t2["IDX_ELEM_H"] != 0 and
                    abs(t2[e] / t2["IDX_ELEM_H"] - want[e]) > 1e-6 * max(abs(want[e]), mag2[e] / abs(t2["IDX_ELEM_H"]),
                                                                         abs(want[e]) * mag2["IDX_ELEM_H"] / abs(t2["IDX_ELEM_H"]))]
            lost = t2["IDX_ELEM_H"] == 0 and t["IDX_ELEM_H"] != 0       # every hydrogen-bearing abundance set to zero
            if lost:
                chk.violation({"kind": "compiled-second-renorm", "backend": b, "all_zero": True},
                              "a second Naunet::Renorm with the same object (solver settings changed through Reset in between) leaves no "
                              "hydrogen nuclei at all: the stored reference is gone", input=inp, after=dict(zip(aliases, new2)))
                break
            if flag2 != 0 or not all(math.isfinite(x) for x in new2) or bad2:
                chk.violation({"kind": "compiled-second-renorm", "backend": b},
                              f"a second Naunet::Renorm with the same object and reference does not restore the ratios "
                              f"({bad2[0][9:] if bad2 else 'flag / non-finite'}: {t2[bad2[0]] / t2['IDX_ELEM_H'] if bad2 else flag2!r} "
                              f"instead of {want[bad2[0]] if bad2 else 0!r})", input=inp)
                break
            if mode == "identity" and any(abs(y - o) > 1e-6 * abs(o) for o, y in zip(ab, new)):
                chk.violation({"kind": "not-identity", "backend": b}, "ratios already match but Naunet::Renorm changed the abundances",
                              input=inp, after=dict(zip(aliases, new)))
                break


def solve_exact(A, b):
    n = len(b)
    M = [row[:] + [bi] for row, bi in zip(A, b)]
    for c in range(n):
        p = next((r for r in range(c, n) if M[r][c] != 0), None)
        if p is None:
            return None
        M[c], M[p] = M[p], M[c]
        for r in range(n):
            if r != c and M[r][c] != 0:
                f = M[r][c] / M[c][c]
                M[r] = [x - f * y for x, y in zip(M[r], M[c])]
    return [M[i][n] / M[i][i] for i in range(n)]


def run(argv):
    tier, seed = tier_and_seed(argv)
    chk = Check("C16", tier, seed, MODULES, THEOREMS, RULE)
    chk.prove()
    rng = chk.rng
    nnets = 8 if tier == "quick" else 60
    reqs, pend, compiled_jobs = [], [], []
    kinds = ["plain"] * 5 + ["grain", "nonatomic", "noelement", "plain"]
    for n in range(nnets):
        kind = kinds[n % len(kinds)] if n >= 3 else ["grain", "nonatomic", "noelement"][n]   # the finding witnesses always first
        if n in (4, 6):
            kind = "hfirst"
        species = gen_network(rng, kind)
        staged = kind == "plain" and (n == 3 or rng.random() < 0.3)
        try:
            net = build(species, rng, staged_file=(chk.scratch / f"n{n}-rest.naunet") if staged else None)
        except Exception as e:
            chk.violation({"kind": "build-raised"}, f"building the network raised {e}", input=[s.name for s in species])
            continue
        truth = {s.alias if s.kind != "electron" else "eM": s for s in species}
        show = {"kind": kind, "species": [s.name for s in species], "assembled": "constructor, then elements looked up, then "
                "add_reaction_from_file" if staged else "constructor"}
        chk.hist[f"kind:{kind}"] += 1
        chk.hist["staged" if staged else "one-step"] += 1
        backends_done = 0
        for b in (["dense", "rosenbrock4"] if tier == "quick" else ["dense", "sparse", "rosenbrock4"]):
            path = chk.scratch / f"n{n}-{b}"
            try:
                render(net, b, path)
            except Exception as e:
                chk.violation({"kind": "render-raised", "net": kind}, f"rendering raised {e}", input=show)
                break
            rd = Rendered(path, b)
            if any(n_ == "IDX_ELEM_H" and int(v_) == 0 for n_, v_ in rd.idx_lines):
                chk.hist["hydrogen-is-element-0"] += 1
            chk.count((n, b), nontrivial=len(species) >= 4)
            try:
                mat, fac = parse_renorm(path, b)
                mpoly = {k: poly_of_text(v) for k, v in mat.items()}
                fpoly = {k: poly_of_text(v) for k, v in fac.items()}
            except ZeroDivisionError:
                chk.violation({"kind": "division-by-zero", "net": kind, "zero_mass_species": ["grain"] if kind == "grain" else ["other"]},
                              "the generated renormalisation divides by a literal 0.0 (mass number of a grain species)", input=show)
                break
            except cparse.CParseError as e:
                empty = [k for k, v in (fac.items() if 'fac' in dir() else []) if v.replace(" ", "").endswith("*()")]
                chk.violation({"kind": "renorm-not-an-expression", "net": kind, "empty_factor": bool(empty)},
                              f"naunet_renorm.cpp contains a statement that is not valid C ({e})", input=show,
                              statement=[f"ab[{k}] = {fac[k]}" for k in empty][:3])
                break
            elems = sorted(rd.elem_idx, key=lambda k: rd.elem_idx[k])
            # the elements of the renormalisation are the atomic species of the network - at every rendering of the object
            want_elems = {"IDX_ELEM_" + s.comp[0][0] for s in species if s.kind == "gas" and s.charge == 0 and len(s.comp) == 1 and s.comp[0][1] == 1
                          and not s.name.startswith(("o", "p", "m"))}
            if kind == "grain":
                want_elems.add("IDX_ELEM_GRAIN")
            if set(elems) != want_elems or rd.nelem != len(want_elems):
                chk.violation({"kind": "elements-differ", "net": kind, "backend": b, "rendering": backends_done},
                              f"rendering number {backends_done + 1} of this network object ({b}) has NELEMENTS = {rd.nelem} with the element "
                              f"macros {sorted(elems)}; the atomic species of the network are {sorted(want_elems)}", input=show)
                break
            backends_done += 1
            if set(mat) != {(i, j) for i in elems for j in elems}:
                chk.violation({"kind": "matrix-shape", "net": kind}, "InitRenorm does not assign every element pair", input=show)
                break
            unfactored = [a for a in rd.idx if a != "IDX_TGAS" and a not in fpoly]
            if unfactored:
                chk.violation({"kind": "species-without-factor", "net": kind},
                              f"RenormAbundance has no statement for {unfactored[:4]}: every species needs its own factor "
                              f"(the electron's being 1.0)", input=show)
                break
            ok = helpers_check(chk, rd, path, truth, show, kind) and oracle(chk, rng, rd, elems, mpoly, fpoly, truth, show, kind, b, ftext=fac)
            if ok and b == "dense":
                # model request from naunet's own counts / masses (previous stage)
                sp = net.species
                enames = [next(iter(e.element_count)) for e in net.elements]
                reqs.append({"cmd": "renorm", "elem_mass": [int(e.A) for e in net.elements],
                             "species": [{"counts": [int(s.element_count.get(en, 0)) for en in enames], "mass": int(s.A),
                                          "electron": bool(s.is_electron)} for s in sp]})
                pend.append((show, rd, elems, mpoly, fpoly, [f"IDX_{s.alias}" for s in sp]))
        if n < 3:
            chk.sample(show)
        if kind in ("plain", "hfirst") and len(compiled_jobs) < (4 if tier == "quick" else 12):
            for b in ("dense", "rosenbrock4"):
                if (chk.scratch / f"n{n}-{b}" / "src").exists():
                    compiled_jobs.append((n, b, chk.scratch / f"n{n}-{b}", truth, show))
    compiled_check(chk, rng, compiled_jobs, tier)
    if getattr(chk, "lean_ok", False) and reqs:
        try:
            answers = lean_driver(reqs)
        except Exception as e:
            chk.corr_break("driver", None, None, str(e)[:300])
            answers = []
        for (show, rd, elems, mpoly, fpoly, idxs), ans in zip(pend, answers):
            ne = len(elems)
            good = True
            for k, terms in enumerate(ans["matrix"]):
                i, j = elems[k // ne], elems[k % ne]
                p = Poly()
                for coef, s, ms in terms:
                    p = p + Poly.const(Fraction(coef, 1)) * Poly.atom(f"ab[{idxs[s]}]") * Poly.const(Fraction(1, ms) if ms else 0) * Poly.atom("Hnuclei", -1)
                if any(ms == 0 for _, _, ms in terms) or p != mpoly[(i, j)]:
                    if not any(ms == 0 for _, _, ms in terms):
                        chk.corr_break("renorm-matrix", {**show, "entry": [i, j]}, p.canon(), mpoly[(i, j)].canon())
                        good = False
                        break
            for s, f in enumerate(ans["factors"]):
                if f is None:
                    want = Poly.const(1)
                elif any(ms == 0 for _, _, ms in f):
                    continue
                else:
                    want = Poly()
                    for coef, e, ms in f:
                        want = want + Poly.const(Fraction(coef, ms)) * Poly.atom(f"rptr[{elems[e]}]")
                want = want * Poly.atom(f"ab[{idxs[s]}]")
                if want != fpoly[idxs[s]]:
                    chk.corr_break("renorm-factor", {**show, "species": idxs[s]}, want.canon(), fpoly[idxs[s]].canon())
                    good = False
                    break
            if good:
                chk.traces += 1
    return chk.finish()


def oracle(chk, rng, rd, elems, mpoly, fpoly, truth, show, kind, backend, ftext=None):
    """exact check of the property statement on the parsed code (`ftext`: the factor statements as emitted; they are evaluated
    exactly, whatever their shape - a polynomial or something piecewise)"""
    from .poly import eval_exact
    aliases = [k for k in rd.idx if k != "IDX_TGAS"]
    fast = {a: cparse.parse_expr(t) for a, t in (ftext or {}).items()}

    def factor_value(a, env):
        if a in fast:
            return eval_exact(fast[a], env)
        return fpoly[a].eval(env)
    for trial in range(3):
        y = {a: Fraction(rng.randint(1, 99), rng.randint(1, 50)) for a in aliases}
        if trial == 2:
            # the heavy elements locked in molecules (atoms rare) and a reference that pulls them apart: the exact solution then
            # needs multipliers of both signs
            for a in aliases:
                sp = truth.get(a[4:])
                heavy = 0 if sp is None else sum(1 for el, _ in sp.comp if el != "H")
                y[a] = Fraction(rng.randint(40, 99)) if heavy >= 2 else Fraction(1, rng.randint(20, 60))
        env = {f"ab[{a}]": v for a, v in y.items()}

        def total(el, vec):
            t = Fraction(0)
            for a, v in vec.items():
                sp = truth.get(a[4:])
                if sp is not None:
                    t += sp.count(el) * v
            return t
        H = total("H", y)
        env["Hnuclei"] = H
        ref = {e: Fraction(rng.randint(1, 40), rng.randint(1, 40)) for e in elems}
        ref["IDX_ELEM_H"] = Fraction(1)
        try:
            A = [[mpoly[(i, j)].eval(env) for j in elems] for i in elems]
            r = solve_exact(A, [ref[e] for e in elems])
        except ZeroDivisionError:
            zero_mass = sorted(a for a in aliases if truth.get(a[4:]) is not None and truth[a[4:]].A == 0 and truth[a[4:]].kind != "electron")
            chk.violation({"kind": "division-by-zero", "net": kind, "zero_mass_species": [truth[a[4:]].kind for a in zero_mass]},
                          f"the generated renormalisation divides by the mass number 0 of {zero_mass}", input=show)
            return False
        if r is None:
            chk.hist["singular"] += 1
            return True
        renv = {f"rptr[{e}]": v for e, v in zip(elems, r)}
        try:
            newy = {a: factor_value(a, {**renv, f"ab[{a}]": y[a]}) for a in aliases}
            if any(v < 0 for v in r):
                chk.hist["negative-multiplier"] += 1
        except ZeroDivisionError:
            chk.violation({"kind": "division-by-zero", "net": kind, "zero_mass_species": ["factor"]}, "factor divides by zero", input=show)
            return False
        for e in elems:
            el = e[len("IDX_ELEM_"):]
            if el == "GRAIN":
                continue
            if total(el, newy) != H * ref[e]:
                chk.violation({"kind": "ratio-not-restored", "net": kind, "backend": backend},
                              f"after renormalisation element {el} has total {total(el, newy)} instead of H*ref = {H * ref[e]}",
                              input=show, abundances={k: str(v) for k, v in y.items()}, reference={k: str(v) for k, v in ref.items()})
                return False
        el_alias = [a for a in aliases if truth.get(a[4:]) is not None and truth[a[4:]].kind == "electron"]
        for a in el_alias:
            if newy[a] != y[a]:
                chk.violation({"kind": "electron-changed", "net": kind}, "electron abundance changed by the renormalisation", input=show)
                return False
        # identity when the ratios already match (only when every element of every species is atomic)
        if kind in ("plain", "hfirst"):
            cur = {e: total(e[len("IDX_ELEM_"):], y) / H for e in elems}
            r1 = solve_exact(A, [cur[e] for e in elems])
            if r1 is not None:
                renv1 = {f"rptr[{e}]": v for e, v in zip(elems, r1)}
                if any(factor_value(a, {**renv1, f"ab[{a}]": y[a]}) != y[a] for a in aliases):
                    chk.violation({"kind": "not-identity", "net": kind}, "ratios already match but the factors are not 1", input=show)
                    return False
    return True


if __name__ == "__main__":
    sys.exit(run(sys.argv[1:]))
