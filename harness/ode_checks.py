"""Checks C01 C02 C03 C04 C13: one rendering pipeline, five oracles.

For each generated abstract network:
  impl   : real naunet Network + real TemplateLoader -> emitted files -> cparse -> exact polynomials
  model  : Lean `OdeGen` fed with the implementation's own `species.index(..)` lists
  oracle : the property statement evaluated directly from the generator's ground truth
"""
from __future__ import annotations

import json
import os
import re
import sys
from fractions import Fraction
from pathlib import Path

from . import cparse, netgen
from .common import Check, lean_driver, quiet_naunet, silenced, tier_and_seed
from .poly import Poly, poly_of_text
from .rendering import BACKENDS, Rendered, render

quiet_naunet()

THEOREMS = {
    "C01": (["NaunetProps.C01", "NaunetProps.Physics", "NaunetProps.C03b"], ["Naunet.SolverObj.rate_arrays_ok", "Naunet.Physics.numDens_ignores_tail", "Naunet.Physics.mu_ignores_tail",
                                  "Naunet.Physics.mu_mul_numDens",
                                  "Naunet.C01.rhs_eq_massAction", "Naunet.C01.rhs_eq_massAction_nomod",
                                  "Naunet.C01.rhs_isolated", "Naunet.C01.vars_are_reactants",
                                  "Naunet.C01.thermal_eq", "Naunet.C01.thermal_wrapper",
                                  "Naunet.evalEqn_rhsFrom"]),
    "C02": (["NaunetProps.C02"], ["Naunet.C02.jac_eq_pderiv", "Naunet.C02.jac_omitted_is_zero",
                                  "Naunet.C02.modJac_eq_pderiv", "Naunet.pderiv_prod_yvar",
                                  "Naunet.pderiv_rhsFrom", "Naunet.pderiv_thermRhsFrom"]),
    "C03": (["NaunetProps.C03", "NaunetProps.C03b"], ["Naunet.SolverObj.init_fits", "Naunet.SolverObj.reset_fits",
                                  "Naunet.SolverObj.history_fits", "Naunet.SolverObj.rate_arrays_ok",
                                  "Naunet.C03.csr_wellformed", "Naunet.C03.csr_cols_sorted_in_range",
                                  "Naunet.C03.csr_triples_iff", "Naunet.C03.csrRows_csrOf",
                                  "Naunet.C03.decodeFlat_encode", "Naunet.C03.pattern_iff",
                                  "Naunet.C03.neqns_pos", "Naunet.C03.subscripts_in_bounds"]),
    "C04": (["NaunetProps.C04", "NaunetProps.Physics"], ["Naunet.Physics.elementAbund_ignores_tail", "Naunet.Physics.elementAbund_add",
                                  "Naunet.Physics.elementAbund_smul",
                                  "Naunet.C04.conservation", "Naunet.C04.weighted_massAction",
                                  "Naunet.sum_weight_count"]),
    "C13": (["NaunetProps.C13"], ["Naunet.C13.override_exact", "Naunet.C13.override_untouched",
                                  "Naunet.C13.odeMod_only_target", "Naunet.C13.odeMod_value",
                                  "Naunet.C13.applyOverrides_getElem"]),
}

RULES = {
    "C01": "random abstract networks (species pool with ions/ice/ortho-para/electron spellings, 1-3 reactants with "
           "repeats, 0-5 products, catalysts, pseudo tokens, duplicates, required species, API / native file / "
           "native+KIDA merge, optional cooling) x 4 back-ends; a case = (network, back-end); non-trivial = at "
           "least one reaction; distinct by (reaction signature list, back-end)",
    "C02": "same networks plus ODE modifiers with 0-3 (repeated) dependency species; case = (network, back-end); "
           "every (row, col) of the emitted Jacobian compared with the formal derivative of the emitted fex",
    "C03": "same networks incl. empty network / isolated species / thermal; all four back-ends rendered per network "
           "with pattern file; case = network; CSR invariants, cross-back-end equality, subscript bounds",
    "C04": "balanced networks built by redistributing atoms and charge of the reactants; case = (network, back-end); "
           "weights from naunet's own element_count/charge and from the generator's ground truth",
    "C13": "networks x rate-modifier sets (present/absent/shared indices, unindexed networks) x ODE modifiers; "
           "modified vs unmodified rendering compared statement by statement; API and init->toml->render entry",
}

DEFAULT_ELEMENTS = ["e", "E", "H", "D", "He", "C", "N", "O", "F", "Na", "Mg", "Al", "Si", "P", "S", "Cl", "Ar",
                    "Ca", "Fe", "Ni"]
DEFAULT_PSEUDO = ["CR", "CRP", "XRAY", "Photon", "PHOTON", "CRPHOT", "X", "M", "p", "o", "m", "c-", "l-", r"\*", "g"]


# ------------------------------------------------------------------------------------ case generation


# a replacement rate written without blanks that is longer than one output line: it may be wrapped at operators only
# (no hyphen in it: a line may also be broken after a minus sign, which is harmless)
LONG_RATE = "2.5e3*zeta*pow(Tgas/300.0,0.5)*(1.0+1.0e+2/Tgas)*(1.0+2.0e+3*Tgas)*(1.0+1.0e+4*Tgas)/(1.0+3.0e+2*Tgas)*(1.0+4.0e+1/Tgas)"
LONG_RATES = [LONG_RATE, "1.5*" + LONG_RATE, "12.25*" + LONG_RATE, "3.125e+1*" + LONG_RATE]


def gen_case(rng, tier, pid, n):
    pool = netgen.gas_pool()
    use_ice = rng.random() < 0.3
    if use_ice:
        pool = pool + netgen.ice_pool("#")
    grain_case = pid in ("C01", "C02", "C04") and n == 3        # one network that carries its grains (two charge states) as species, always
    if rng.random() < 0.15 or grain_case:
        pool = pool + [netgen.grain(0), netgen.grain(-1)]
    big = tier == "thorough" and rng.random() < 0.3
    nsp = rng.randint(0, 40 if big else 12)
    nre = rng.randint(0, 120 if big else 20)
    if n == 0:
        nsp, nre = 0, 0  # the empty network, always
    if n == 1:
        nsp, nre = 3, 0  # species only through `required`
    espell = rng.choice([("e-",), ("E",), ("e-", "E")])
    indexed = rng.random() < 0.7
    want_cool = n > 1 and rng.random() < (0.4 if pid in ("C01", "C02", "C03") else 0.1)
    krome2_case = pid == "C01" and n == 8          # one network read from two KROME files, always (see below)
    if krome2_case:
        want_cool, use_ice = False, False
        pool = netgen.gas_pool()
        nsp, nre = max(nsp, 6), max(nre, 12)
    forced = []
    if want_cool:
        byname = {s.name: s for s in pool}
        forced = [byname[x] for x in rng.sample(["H", "He", "He+", "He++", "H+", "H2"], rng.randint(1, 6))]
    if pid in ("C01", "C02") and n == 4:
        byname = {s.name: s for s in pool}
        forced = forced + [byname[x] for x in ("C-", "C--", "O-", "O--", "C") if x in byname]
        nsp, nre = max(nsp, 6), max(nre, 10)
    if n > 1 and rng.random() < 0.15:
        # two species whose names differ by letter case only (para-H2 / phosphino, para-H3+ / phosphonium)
        byname = {s.name: s for s in pool}
        forced = forced + [byname[x] for x in rng.choice([["pH2", "PH2", "H", "PH"], ["pH3+", "PH3+", "H2", "PH2+"], ["pH2", "PH2", "PH2+", "H+"]])
                           if x in byname and byname[x] not in forced]
        nsp, nre = max(nsp, 5), max(nre, 8)
    if grain_case:
        forced = forced + [netgen.grain(0), netgen.grain(-1)]
        nsp, nre = max(nsp, 5), max(nre, 8)
    config = "default"
    if krome2_case:
        pass
    elif pid in ("C01", "C02", "C03", "C13") and n > 1 and rng.random() < 0.2:
        config = "third-body-species"
        forced = forced + [netgen.mk([("M", 1)])]
    elif pid in ("C04", "C01") and n == 5:
        config = "electron-pseudo"
        espell = ("e-",)
        forced = forced + [s for s in pool if s.name in ("H", "H+", "C", "C+")]
        nsp, nre = max(nsp, 5), max(nre, 8)
    elif pid == "C04" and n == 6:
        # a project that lists its elements - the representative metal `M` among them - and declares no pseudo-elements at all
        config = "no-pseudo-list"
        # (without pseudo-elements there are no spin / isomer labels either: `oH2`, `c-C3H2` are not names of this project)
        pool = [s for s in pool if re.match(r"#?[A-Z]", s.name) or s.kind in ("electron", "grain")]
        forced = [s for s in forced if s in pool] + [netgen.mk([("M", 1)]), netgen.mk([("M", 1)], 1)] + [s for s in pool if s.name in ("H", "H+")]
        nsp, nre = max(nsp, 5), max(nre, 8)
    elif n > 1 and rng.random() < 0.15:
        config = "isotopes"
        iso = [netgen.mk([("13C", 1)]), netgen.mk([("13C", 1), ("O", 1)]), netgen.mk([("13C", 1), ("O", 1)], ice=True),
               netgen.mk([("C", 1), ("O", 1)], ice=True), netgen.mk([("13C", 1)], 1), netgen.mk([("H", 2), ("13C", 1), ("O", 1)])]
        pool = pool + iso
        forced = forced + [x for x in iso[:4] if x not in forced] + [s for s in pool if s.name in ("CO", "C", "O")]
        nsp, nre = max(nsp, 4), max(nre, 8)
    sub, reacs = netgen.random_network(rng, pool, nsp, nre, electron_spellings=espell, indexed=indexed,
                                       forced=forced, third_body=(config == "default"))
    if pid == "C04":
        reacs = balanced_reactions(rng, sub, nre)
    if config == "no-pseudo-list":
        reacs = [r for r in reacs if not r.pseudo_re and not r.pseudo_pr]
    used = {s.key for r in reacs for s in r.re + r.pr}
    required = [s for s in sub if s.key not in used and rng.random() < 0.5]
    if used and rng.random() < 0.3:     # declaring a species that also reacts is legal and changes nothing
        required += [s for s in sub if s.key in used and rng.random() < 0.3]
    if n == 1:
        required = list(sub)
    entry = rng.choice(["api", "api", "native", "mixed", "umist"] + (["umist", "mixed"] if pid == "C04" else []))
    cooling = []
    if want_cool:
        cooling = rng.sample(["CIC_HI", "CIC_HeI", "CIC_HeII", "CIC_He_2S", "RC_HII", "RC_HeI", "RC_HeII",
                              "RC_HeIII", "CEC_HI", "CEC_HeI", "CEC_HeII"], rng.randint(1, 4))
    heating = []
    if want_cool and rng.random() < 0.6:
        heating = rng.sample(list(HEATING_REACTANTS), rng.randint(1, 3))
    mods = []
    if (pid in ("C02", "C13") and sub and rng.random() < 0.7) or (pid == "C03" and sub and (n in (3, 6) or rng.random() < 0.2)):
        present = [s for s in sub if s.key in used or s in required]
        if present:
            for tgt in rng.sample(present, min(len(present), rng.randint(1, 3))):
                terms = []
                for _ in range(rng.randint(1, 3)):
                    nd = rng.choice([1, 1, 2, 2, 3])
                    deps = [rng.choice(present) for _ in range(nd)]
                    if nd >= 2 and rng.random() < 0.3:
                        deps[1] = deps[0]
                    fact = rng.choice(["1.0", "-2.0", "-k[0]", "2.0*k[0]", "1e-3", "-1.5e-2*zeta", "0.5+0.5", "-k[0] + zeta", "-2.0 + k[0]",
                                       "-1.0 - zeta", "1.0 - k[0]", "-k[0]*2.0 + 1e-3",
                                       # literals whose text ends in `0.0` in front of a sign (a clean-up of "0.0 + …" placeholders must
                                       # not reach into the user's factor)
                                       "1.0e-3*(100.0 - k[0])", "(10.0 + k[0])*2.0", "20.0 - k[0]"])
                    if pid == "C03" or rng.random() < 0.1:
                        # a factor written as one long product without blanks: longer than the width the dense and Odeint Jacobian
                        # entries are wrapped at (56), shorter than the width of the CSR values and the right-hand side (72)
                        fact = rng.choice(["1.25e-3*k[0]*k[0]*2.5e+1*3.75e+2*1.125e+1*k[0]*4.0625e+3*2.0e+1", "(1.0e-3+2.0e-3+3.0e-3+4.0e-3+5.0e-3+6.0e-3+7.0e-3+8.0e-3+9.0e-3)"])
                    terms.append((fact, deps))
                mods.append((tgt, terms))
    ratemod = {}
    if pid == "C03" and reacs and indexed and rng.random() < 0.3:
        for r in reacs:
            r.idx += 1000 * rng.randint(1, 9)          # database-style indices, far away from the positions
        ratemod[rng.choice(reacs).idx] = rng.choice(["0.0", "1.0e-10"])
    if pid in ("C01", "C02", "C13") and reacs and (n == 6 or rng.random() < 0.15):
        # a process whose tabulated coefficients are all zero (a placeholder line of a database): its rate statement is `0.0`, its
        # terms belong to the equations like any other's - a user's rate modifier may switch it on
        z = rng.choice(reacs)
        z.alpha = z.beta = z.gamma = 0.0
    zero_based = pid == "C13" and reacs and indexed and (n == 5 or rng.random() < 0.2)
    if zero_based:
        # reactions numbered from 0 (a list index used as the reaction number): 0 is a number like any other
        for r in reacs:
            r.idx -= 1
    if pid == "C13" and reacs and (zero_based or rng.random() < 0.8):
        shared = None
        if indexed and rng.random() < 0.4 and len(reacs) >= 2:
            # an index shared by several reactions (one KIDA/UMIST reaction listed once per temperature range)
            grp = rng.sample(range(len(reacs)), min(len(reacs), rng.randint(2, 3)))
            shared = reacs[grp[0]].idx
            for g in grp[1:]:
                reacs[g].idx = shared
        if indexed and rng.random() < 0.3 and len(reacs) >= 2:
            # a partially indexed network (a database file plus hand-added reactions): the indices that exist stay in force
            for g in rng.sample(range(len(reacs)), rng.randint(1, len(reacs) - 1)):
                if reacs[g].idx != shared:
                    reacs[g].idx = -1
        idxs = [r.idx for r in reacs if r.idx != -1] or [99999]
        for _ in range(rng.randint(1, 3)):
            key = rng.choice(idxs + [99999, 0]) if indexed else rng.choice(list(range(len(reacs))) + [99999])
            ratemod[key] = rng.choice(["1.0e-10", "2.0 * zeta", "1e-9*exp(-10.0/Tgas)", "0.0", LONG_RATE])
        if shared is not None and rng.random() < 0.8:
            ratemod[shared] = rng.choice(["3.0e-10", "2.0 * zeta"])
        if zero_based and any(r.idx == 0 for r in reacs):
            ratemod[0] = rng.choice(["1.5e-10", "2.0 * zeta"])
        if n in (2, 3) and idxs and idxs != [99999]:
            for j, i_ in enumerate((idxs if indexed else list(range(len(reacs))))[:4]):
                ratemod[i_] = LONG_RATES[j]          # (four offsets: at least one column limit falls inside a token)
    krome_header = None
    if pid == "C04" and n in (7, 8, 9) and not cooling and config == "default":
        # (the KROME route carries gas-phase reactions without pseudo-reactants: keep those)
        ok_ = [r for r in reacs if not r.pseudo_re and not r.pseudo_pr and len(r.re) <= 3 and len(r.pr) <= 5 and r.rtype == 100
               and all(s.kind in ("gas", "electron") for s in r.re + r.pr)]
        if len(ok_) >= 2:
            reacs = ok_
            used = {s.key for r in reacs for s in r.re + r.pr}
            required = [s for s in required if s.kind in ("gas", "electron")]
    if krome2_case:
        mods = []
        # two KROME files in one network: the first ends under a column layout of its own (two reactants, five products), the second
        # has no @format line - its columns are the default layout again - and holds a three-body reaction
        ok_ = [r for r in reacs if not r.pseudo_re and not r.pseudo_pr and len(r.re) <= 3 and len(r.pr) <= 4 and r.rtype == 100
               and all(s.kind in ("gas", "electron") for s in r.re + r.pr)]
        gas_ = [s for s in sub if s.kind == "gas"]
        if len(ok_) >= 2 and len(gas_) >= 2:
            import copy as _copy
            three = _copy.copy(ok_[0])
            three.re, three.pr, three.idx = [gas_[0], gas_[0], gas_[1]], [gas_[1], gas_[0]], max(r.idx for r in ok_) + 1
            reacs = ok_ + [three]
            used = {s.key for r in reacs for s in r.re + r.pr}
            required = [s for s in required if s.kind in ("gas", "electron")]
            entry = "krome2"
    if pid == "C04" and reacs and not cooling and config == "default" and (n in (7, 8, 9) or rng.random() < 0.15) \
            and all(not r.pseudo_re and not r.pseudo_pr and len(r.re) <= 3 and len(r.pr) <= 5 and r.rtype == 100 for r in reacs) \
            and all(s.kind in ("gas", "electron") for r in reacs for s in r.re + r.pr):
        entry = "krome"
        headers = ["@format:r,r,r,p,p,p,p,p,tmin,tmax,rate", "@format:tmin,tmax,r,r,r,p,p,p,p,p,rate",
                   "@format:r,r,r,p,p,p,p,p,Tmin,Tmax,rate", "@format:R,R,R,P,P,P,P,P,Tmin,Tmax,rate"]
        krome_header = headers[(n - 7) % 4] if n in (7, 8, 9) else rng.choice(headers)     # (the forced cases walk through the spellings)
    return {"species": sub, "reacs": reacs, "required": required, "entry": entry, "cooling": cooling, "krome_header": krome_header,
            "mods": mods, "ratemod": ratemod, "indexed": indexed, "config": config, "heating": heating}


def balanced_reactions(rng, sub, nre):
    """reactions whose products are a re-partition of the reactants' atoms and charge into pool species"""
    from collections import Counter
    out = []
    gas = [s for s in sub if s.kind in ("gas", "ice")]
    by_comp = {}
    for s in sub:
        by_comp.setdefault((s.comp, s.charge), []).append(s)
    tries = 0
    while len(out) < nre and tries < nre * 30 and gas:
        tries += 1
        nr = rng.choice([1, 2, 2, 3])
        re_ = [rng.choice(sub) for _ in range(nr)]
        atoms = Counter()
        charge = 0
        for s in re_:
            atoms.update(dict(s.comp))
            charge += s.charge
        # greedy: pick species that fit into the remaining atoms
        pr_ = []
        rem = Counter(atoms)
        remq = charge
        cands = [s for s in sub if s.kind != "electron"]
        rng.shuffle(cands)
        for _ in range(5):
            fit = [s for s in cands if s.comp and all(rem[e] >= n for e, n in s.comp)]
            if not fit:
                break
            # (often the smallest fragment: products like C2H2 + H + H + H use every product column of a file format)
            s = min(fit, key=lambda x: (sum(n for _, n in x.comp), x.name)) if rng.random() < 0.4 else rng.choice(fit)
            pr_.append(s)
            rem.subtract(dict(s.comp))
            remq -= s.charge
            if not +rem:
                break
        if +rem:
            continue
        el = next((s for s in sub if s.kind == "electron"), None)
        grains = [s for s in sub if s.kind == "grain"]
        if remq != 0:
            if remq < 0 and el is not None and len(pr_) - remq <= 5:
                pr_ += [el] * (-remq)
            else:
                continue
        if len(pr_) > 5 or not pr_:
            continue
        # grains must be balanced as species (they carry no atoms in the ground truth)
        if any(s.kind == "grain" for s in re_ + pr_):
            continue
        r = netgen.AReac(re_, pr_)
        r.idx = len(out) + 1
        if rng.random() < 0.3:
            r.pseudo_re = [rng.choice(["CR", "PHOTON", "CRPHOT"])] if len(re_) < 3 else []
        out.append(r)
    return out


def case_sig(case, backend=None):
    return json.dumps([[r.sig() for r in case["reacs"]], [s.key for s in case["required"]], case["cooling"], case.get("heating", []),
                       [(t.key, [(f, [d.key for d in ds]) for f, ds in terms]) for t, terms in case["mods"]],
                       sorted(map(str, case["ratemod"].items())), backend], default=str)


def case_summary(case):
    return {
        "reactions": [(" + ".join([s.name for s in r.re] + r.pseudo_re) + " -> " + " + ".join([s.name for s in r.pr] + r.pseudo_pr))
                      for r in case["reacs"][:8]],
        "n_reactions": len(case["reacs"]),
        "required": [s.name for s in case["required"]],
        "entry": case["entry"], "cooling": case["cooling"], "heating": case.get("heating", []),
        "ode_modifier": [(t.name, [(f, [d.name for d in ds]) for f, ds in terms]) for t, terms in case["mods"]],
        "rate_modifier": {str(k): v for k, v in case["ratemod"].items()},
    }


# ------------------------------------------------------------------------------------ implementation


def config_lists(config="default"):
    """element / pseudo-element lists of a project.  In "third-body-species" the symbol M is a species of the network (an
    element of the user's list) instead of the third-body marker it is by default: what a name means is decided per project."""
    if config == "third-body-species":
        return list(DEFAULT_ELEMENTS) + ["M"], [p for p in DEFAULT_PSEUDO if p != "M"]
    if config == "isotopes":      # an isotope as an element of its own: a symbol that starts with digits
        return list(DEFAULT_ELEMENTS) + ["13C"], list(DEFAULT_PSEUDO)
    if config == "no-pseudo-list":
        return list(DEFAULT_ELEMENTS) + ["M"], []
    if config == "electron-pseudo":     # a user table that lists the electron symbol among the pseudo-elements (the electron is told by its name)
        return [e for e in DEFAULT_ELEMENTS if e not in ("e", "E")], list(DEFAULT_PSEUDO) + ["e", "E"]
    return list(DEFAULT_ELEMENTS), list(DEFAULT_PSEUDO)


def reset_species_state(config="default"):
    from naunet.species import Species
    from naunet import chemistrydata
    Species.reset()
    el, ps = config_lists(config)
    Species.set_known_elements(el)
    Species.set_known_pseudoelements(ps)
    chemistrydata.user_binding_energy.clear()
    if config == "isotopes":
        chemistrydata.update_binding_energy({"#13CO": 1150.0, "#13CH4": 1090.0})


def build_network(case, scratch: Path, with_mods=True, with_ratemod=True):
    from naunet.network import Network
    from naunet.reactions import Reaction
    from naunet.reactiontype import ReactionType as RT

    reset_species_state(case.get("config", "default"))
    reacs = case["reacs"]
    el, ps = config_lists(case.get("config", "default"))
    install_heating()
    kw = dict(elements=el, pseudo_elements=ps,
              required_species=[s.name for s in case["required"]], cooling=list(case["cooling"]),
              heating=list(case.get("heating", [])))
    if with_mods and case["mods"]:
        kw["ode_modifier"] = {t.name: {"factors": [f for f, _ in terms], "reactants": [[d.name for d in ds] for _, ds in terms]}
                              for t, terms in case["mods"]}
    if with_ratemod and case["ratemod"]:
        kw["rate_modifier"] = dict(case["ratemod"])
    entry = case["entry"]
    if entry == "api" or not reacs:
        rl = [Reaction([s.name for s in r.re] + r.pseudo_re, [s.name for s in r.pr] + r.pseudo_pr, r.tmin, r.tmax,
                       r.alpha, r.beta, r.gamma, RT(r.rtype), r.idx) for r in reacs]
        with silenced():
            net = Network(rl, **kw)
    else:
        scratch.mkdir(parents=True, exist_ok=True)
        if entry == "native":
            f = scratch / "net.naunet"
            f.write_text("".join(netgen.native_line(r) + "\n" for r in reacs))
            files, fmts = [f], ["naunet"]
        elif entry == "krome":
            # a KROME file whose column layout is stated without an index column (several spellings of the header)
            f = scratch / "net.krome"
            hdr = case.get("krome_header", "@format:r,r,r,p,p,p,p,p,tmin,tmax,rate")
            rows = []
            for r in reacs:
                ri, pi = iter([s.name for s in r.re] + [""] * 3), iter([s.name for s in r.pr] + [""] * 5)
                cell = {"r": lambda: next(ri), "p": lambda: next(pi), "tmin": lambda: "NONE", "tmax": lambda: "NONE",
                        "rate": lambda: f"{r.alpha:.3e}".replace("e", "d")}
                rows.append(",".join(cell[k.lower()]() for k in hdr.split(":", 1)[1].split(",")))
            f.write_text(hdr + "\n" + "\n".join(rows) + "\n")
            files, fmts = [f], ["krome"]
        elif entry == "krome2":
            fa, fb = scratch / "a.krome", scratch / "b.krome"
            row = lambda r, nr, np_: ",".join([str(r.idx)] + [s.name for s in r.re] + [""] * (nr - len(r.re)) + [s.name for s in r.pr]
                                              + [""] * (np_ - len(r.pr)) + ["NONE", "NONE", f"{r.alpha:.3e}".replace("e", "d")])
            first = [r for r in reacs if len(r.re) <= 2]
            second = [r for r in reacs if len(r.re) > 2]
            fa.write_text("@format:idx,R,R,P,P,P,P,P,Tmin,Tmax,rate\n" + "\n".join(row(r, 2, 5) for r in first) + "\n")
            fb.write_text("\n".join(row(r, 3, 4) for r in second) + "\n")
            case["reacs"][:] = first + second          # (the order in which the network holds them)
            files, fmts = [fa, fb], ["krome", "krome"]
        elif entry == "umist":
            # alternating runs of lines that fit the RATE12 columns (UMIST files) and lines that do not (native files), in order
            files, fmts, run, fit = [], [], [], None
            for r in reacs + [None]:
                f_ = None if r is None else netgen.fits_umist(r)
                if run and f_ != fit:
                    fn = scratch / f"part{len(files)}.{'umist' if fit else 'naunet'}"
                    fn.write_text("".join((netgen.umist_line(x) if fit else netgen.native_line(x)) + "\n" for x in run))
                    files.append(fn)
                    fmts.append("umist" if fit else "naunet")
                    run = []
                if r is not None:
                    run.append(r)
                    fit = f_
        else:
            h = len(reacs) // 2
            f1, f2 = scratch / "a.naunet", scratch / "b.kida"
            f1.write_text("".join(netgen.native_line(r) + "\n" for r in reacs[:h]))
            f2.write_text("".join(netgen.kida_line(r) + "\n" for r in reacs[h:]))
            files, fmts = [f1, f2], ["naunet", "kida"]
        with silenced():
            net = Network(filelist=[str(x) for x in files], fileformats=fmts, **kw)
    return net


def stage_input(net, case):
    """the Lean model's input, resolved by the implementation's own previous stage"""
    from naunet.species import Species
    species = net.species
    reacs = [[[species.index(s) for s in r.reactants], [species.index(s) for s in r.products]]
             for r in net.reaction_list]
    mods = []
    for sname, expr in net.ode_modifier.items():
        tgt = species.index(Species(sname))
        for fact, dep in zip(expr["factors"], expr["reactants"]):
            mods.append({"tgt": tgt, "fact": fact, "deps": [species.index(Species(d)) for d in dep]})
    heat = [[species.index(s) for s in h.reactants] for h in net.heating]
    cool = [[species.index(s) for s in c.reactants] for c in net.cooling]
    return {"cmd": "ode", "nspec": len(species), "reacs": reacs, "mods": mods, "heat": heat, "cool": cool}


# ------------------------------------------------------------------------------------ polynomials


def term_poly(t, yname):
    neg, coef, vs = t
    kind, val = coef
    p = Poly.const(-1 if neg else 1)
    if kind == "user":
        p = p * poly_of_text(val)
    else:
        p = p * Poly.atom(f"{kind}[{val}]")
    for v in vs:
        p = p * Poly.atom(yname(v))
    return p


THERMAL_WRAP = (Poly.atom("gamma") - Poly.const(1)) * Poly.atom("kerg", -1) * Poly.atom("npar", -1)


def emitted_poly(e, yname):
    p = Poly()
    for t in e["terms"]:
        p = p + term_poly(t, yname)
    return THERMAL_WRAP * p if e["scaled"] else p


def slot_names(rd: Rendered):
    inv = {}
    for name, slot in rd.idx.items():
        inv.setdefault(slot, name)
    return lambda v: f"y[{inv[v]}]"


# ------------------------------------------------------------------------------------ expected (ground truth)


def expected_alias_slot(rd: Rendered, s):
    """slot of an abstract species according to the emitted macros; electron may be spelled either way"""
    if s.kind == "electron":
        cands = [n for n in ("IDX_eM", "IDX_EM") if n in rd.idx]
        if len(cands) != 1:
            return None, f"electron has {len(cands)} index macros"
        return cands[0], None
    name = f"IDX_{s.alias}"
    if name not in rd.idx:
        return None, f"species {s.name}: macro {name} not defined"
    return name, None


def expected_fex(case, rd: Rendered):
    """mass-action law from the generator's ground truth: {macro name: Poly}"""
    spec = {}
    for r in case["reacs"]:
        for s in r.re + r.pr:
            spec[s.key] = s
    for s in case["required"]:
        spec[s.key] = s
    names = {}
    for k, s in spec.items():
        nm, err = expected_alias_slot(rd, s)
        if err:
            return None, err
        names[k] = nm
    exp = {nm: Poly() for nm in names.values()}
    for rl, r in enumerate(case["reacs"]):
        mono = Poly.atom(f"k[{rl}]")
        for s in r.re:
            mono = mono * Poly.atom(f"y[{names[s.key]}]")
        for s in r.re:
            exp[names[s.key]] = exp[names[s.key]] - mono
        for s in r.pr:
            exp[names[s.key]] = exp[names[s.key]] + mono
    for tgt, terms in case["mods"]:
        for fact, deps in terms:
            m = poly_of_text(f"({fact})")
            for d in deps:
                m = m * Poly.atom(f"y[{names[d.key]}]")
            exp[names[tgt.key]] = exp[names[tgt.key]] + m
    return (exp, names), None


COOLING_REACTANTS = {
    "CIC_HI": ["H", "e-"], "CIC_HeI": ["He", "e-"], "CIC_HeII": ["He+", "e-"], "CIC_He_2S": ["He+", "e-", "e-"],
    "RC_HII": ["H+", "e-"], "RC_HeI": ["He+", "e-"], "RC_HeII": ["He+", "e-"], "RC_HeIII": ["He++", "e-"],
    "CEC_HI": ["H", "e-"], "CEC_HeI": ["He+", "e-"], "CEC_HeII": ["He+", "e-"],
}

COOL_KEYS = {"H": "gas:H:0", "e-": "electron", "He": "gas:He:0", "He+": "gas:He:1", "He++": "gas:He:2", "H+": "gas:H:1",
             "H2": "gas:H2:0"}
# The package ships no heating process (`get_allowed_heating` returns {}), yet the generator carries heating terms through the
# temperature equation, the Jacobian and the layouts.  The harness registers processes of its own through that very lookup
# function, so that those branches are exercised by networks built through the public constructor.
HEATING_REACTANTS = {"VERIF_HEAT_H2": ["H2"], "VERIF_HEAT_HHp": ["H", "H+"], "VERIF_HEAT_Hee": ["H", "e-", "e-"], "VERIF_HEAT_He": ["He"]}


def install_heating():
    import naunet.network as nn
    from naunet.thermalprocess import ThermalProcess
    if getattr(nn.get_allowed_heating, "_verif", False):
        return
    procs = {}

    def allowed(species):
        out = {}
        for name, rs in HEATING_REACTANTS.items():
            if name not in procs:
                procs[name] = ThermalProcess(list(rs), "1.0e-27 * sqrt(Temp)")
            if all(r in species for r in procs[name].reactants):
                out[name] = procs[name]
        return out
    allowed._verif = True
    nn.get_allowed_heating = allowed


def allowed_cooling(case):
    present = {s.key for r in case["reacs"] for s in r.re + r.pr} | {s.key for s in case["required"]}
    return [c for c, rs in COOLING_REACTANTS.items() if all(COOL_KEYS[r] in present for r in rs)]


def allowed_heating(case):
    present = {s.key for r in case["reacs"] for s in r.re + r.pr} | {s.key for s in case["required"]}
    return [h for h, rs in HEATING_REACTANTS.items() if all(COOL_KEYS[r] in present for r in rs)]


def expected_thermal(case, names):
    inner = Poly()
    for h, name in enumerate(case.get("heating", [])):
        m = Poly.atom(f"kh[{h}]")
        for r in HEATING_REACTANTS[name]:
            m = m * Poly.atom(f"y[{names[COOL_KEYS[r]]}]")
        inner = inner + m
    for c, name in enumerate(case["cooling"]):
        m = Poly.atom(f"kc[{c}]")
        for r in COOLING_REACTANTS[name]:
            m = m * Poly.atom(f"y[{names[COOL_KEYS[r]]}]")
        inner = inner - m
    return THERMAL_WRAP * inner


# ------------------------------------------------------------------------------------ per-case evaluation


class CaseResult:
    pass


def evaluate_case(chk: Check, case, backends, n, want_pattern=False):
    """render on the given back-ends; returns dict backend -> (Rendered, fex polys, jac dict) or raises"""
    scratch = chk.scratch / f"case{n}"
    net = build_network(case, scratch)
    out = {}
    for b in backends:
        net_b = net
        path = scratch / b
        render(net_b, b, path, jac_pattern=want_pattern)
        rd = Rendered(path, b)
        out[b] = rd
    return net, out


def polys_of_fex(rd: Rendered):
    return {slot: poly_of_text(txt) for slot, txt in rd.fex().items()}


def jac_entries(rd: Rendered):
    """{(r,c): text} for every back-end (CSR decoded through rowptr/cols as emitted)"""
    j = rd.jac()
    if "entries" in j:
        return j["entries"], None
    rowptr = j["rowptr"]["vals"] if isinstance(j["rowptr"], dict) else j["rowptr"]
    cols = j["cols"]["vals"] if isinstance(j["cols"], dict) else j["cols"]
    data = j["data"]
    ents = {}
    for r in range(len(rowptr) - 1):
        for p in range(rowptr[r], rowptr[r + 1]):
            if p >= len(cols) or (isinstance(data, list) and p >= len(data)):
                return None, f"row pointer {p} beyond arrays"
            if (r, cols[p]) in ents:
                return None, f"duplicate column {cols[p]} in row {r}"
            ents[(r, cols[p])] = data[p]
    return ents, j


def run(pid: str, argv):
    tier, seed = tier_and_seed(argv)
    modules, theorems = THEOREMS[pid]
    chk = Check(pid, tier, seed, modules, theorems, RULES[pid])
    chk.prove()
    ncases = {"quick": 24, "thorough": 300}[tier]
    if pid == "C03":
        ncases = {"quick": 16, "thorough": 200}[tier]
    all_b = list(BACKENDS)
    requests, pending = [], []
    ov_requests, ov_pending = [], []
    compiled_jobs, physics_jobs, rhs_jobs, jac_jobs = [], [], [], []
    for n in range(ncases):
        case = gen_case(chk.rng, tier, pid, n)
        ok_cool = allowed_cooling(case)
        case["cooling"] = [c for c in case["cooling"] if c in ok_cool]
        ok_heat = allowed_heating(case)
        case["heating"] = [h for h in case.get("heating", []) if h in ok_heat]
        backends = all_b if (pid == "C03" or tier == "thorough") else [all_b[n % 4], all_b[(n + 1) % 4]]
        try:
            net, rds = evaluate_case(chk, case, backends, n, want_pattern=(pid == "C03"))
        except Exception as e:  # generation refused: allowed outcome unless it is a crash of the generator on valid input
            chk.hist["refused:" + type(e).__name__] += 1
            chk.violation({"kind": "render-crash", "error": type(e).__name__, "msg": str(e)[:200]},
                          f"rendering a valid network raised {type(e).__name__}: {e}", input=case_summary(case))
            continue
        chk.hist[f"entry:{case['entry']}"] += 1
        chk.hist[f"nreac:{min(len(case['reacs']) // 10 * 10, 100)}+"] += 1
        chk.hist["thermal" if (case["cooling"] or case.get("heating")) else "no-thermal"] += 1
        if case.get("heating"):
            chk.hist["with-heating"] += 1
        chk.sample(case_summary(case), limit=4)
        try:
            req = stage_input(net, case)
        except Exception as e:
            chk.corr_break("stage-input", case_summary(case), None, f"{type(e).__name__}: {e}")
            req = None
        has_grain = any(sp.kind == "grain" for sp in case["species"])
        if ((pid == "C01" and (case["cooling"] or case.get("heating"))) or (pid == "C04" and case["reacs"] and (has_grain or n % 4 == 2))) \
                and len(physics_jobs) < {"quick": 3, "thorough": 20}[tier] + (1 if has_grain else 0):
            for b, rd in [(b, rd) for b, rd in rds.items() if b != "cusparse"][:1]:
                masses = [0.0] * rd.nspec
                comps = [[0] * rd.nelem for _ in range(rd.nspec)]
                for sp in net.species:
                    nm = "IDX_" + sp.alias
                    if nm in rd.idx and rd.idx[nm] < rd.nspec:
                        masses[rd.idx[nm]] = float(sp.massnumber)
                        for en, ei in rd.elem_idx.items():
                            if ei < rd.nelem:
                                comps[rd.idx[nm]][ei] = int(sp.element_count.get(en[len("IDX_ELEM_"):], 0))
                physics_jobs.append((case, b, rd, masses, comps))
        if pid == "C01" and case["reacs"] and not case["mods"] and len(rhs_jobs) < {"quick": 3, "thorough": 24}[tier] \
                and (any(r.tmin > 0 or r.tmax > 0 for r in case["reacs"]) or n % 5 == 0):
            for b, rd in rds.items():
                if b == "cusparse":
                    continue
                res, err = expected_fex(case, rd)
                if not err:
                    rhs_jobs.append((case, b, rd, res[0]))
                break
        if pid == "C02" and case["reacs"] and not (case["cooling"] or case.get("heating")) \
                and len(jac_jobs) < {"quick": 4, "thorough": 30}[tier] and (n % 2 == 0 or len(jac_jobs) < 2):
            plain_mods = all(not re.search(r"[A-Za-z_]", re.sub(r"\bk\[\d+\]|\de[-+]?\d", "", f)) for _, terms in case["mods"] for f, _ in terms)
            order = sorted(rds.items(), key=lambda kv: (kv[0] != "rosenbrock4") if not any(j[1] == "rosenbrock4" for j in jac_jobs) else 0)
            for b, rd in order:
                if b == "cusparse" or not plain_mods or (any(j[1] == b for j in jac_jobs[-2:]) and b != "rosenbrock4"):
                    continue
                try:
                    ents, _ = jac_entries(rd)
                except cparse.CParseError:
                    ents = None
                if ents is not None:
                    jac_jobs.append((case, b, rd, ents))
                    break
        if pid == "C03" and case["reacs"] and len(compiled_jobs) < {"quick": 4, "thorough": 24}[tier]:
            compiled_jobs += [(case, b, rds[b].path) for b in ("dense", "sparse") if b in rds]
        # (C02: the matrix the solver object hands to the integrator - after Init and after Reset - is the one Jac() fills)
        if pid == "C02" and case["reacs"] and "sparse" in rds and len(compiled_jobs) < {"quick": 2, "thorough": 12}[tier]:
            compiled_jobs.append((case, "sparse", rds["sparse"].path))
        for b, rd in rds.items():
            chk.count(case_sig(case, b), nontrivial=bool(case["reacs"]))
            try:
                ORACLES[pid](chk, case, net, rd, rds)
            except cparse.CParseError as e:
                chk.violation({"kind": "unreadable-output", "backend": b, "msg": str(e)[:160]},
                              f"emitted {b} source does not have the expected statement shape / is not valid C: {e}",
                              input=case_summary(case))
        if req is not None:
            requests.append(req)
            pending.append((case, rds))
        # (C01 / C04: a loader kept by a script attaches every term to the species' slots of the network as it is *now*)
        if case["reacs"] and case["config"] == "default" and ((pid == "C03" and n in (2, 5, 9, 14)) or (pid in ("C01", "C04") and n in (2, 9))):
            reused_loader_check(chk, case, net, n)
        if pid == "C13" and case["reacs"] and (n % 3 == 2 or n < 4):
            reassigned_modifiers_check(chk, case, net, n)
        if pid == "C13" and case.get("_ref"):
            for b, rd in rds.items():
                ref = case["_ref"].get(b)
                if ref is None:
                    continue
                try:
                    base = ref.rates("k")
                    got = rd.rates("k")
                except cparse.CParseError:
                    continue
                ov_requests.append({"cmd": "override",
                                    "mods": [[int(k), v] for k, v in net.rate_modifier.items()],
                                    "idxs": [r.idxfromfile for r in net.reactions],
                                    "stmts": [[c, r] for _, r, c in base]})
                ov_pending.append((case, b, got))
    if pid == "C13":
        ice_modifier_prefix_check(chk)
    if pid == "C04":
        slot_identity_check(chk)
        cross_network_elements_check(chk)
    if compiled_jobs:
        compiled_matrix_check(chk, compiled_jobs)
    if physics_jobs:
        compiled_physics_check(chk, physics_jobs)
    if rhs_jobs:
        compiled_rhs_check(chk, rhs_jobs)
    if jac_jobs:
        compiled_jac_check(chk, jac_jobs)
    # ---- model correspondence
    if getattr(chk, "lean_ok", False) and requests:
        try:
            answers = lean_driver(requests)
        except Exception as e:
            chk.corr_break("driver", None, None, str(e)[:500])
            answers = []
        for (case, rds), req, ans in zip(pending, requests, answers):
            if "error" in ans:
                chk.corr_break("model-error", case_summary(case), ans, None)
                continue
            for b, rd in rds.items():
                try:
                    compare_model(chk, pid, case, rd, ans)
                    chk.traces += 1
                except cparse.CParseError as e:
                    pass  # already reported by the oracle as unreadable output
    if pid == "C13":
        # both modifiers must survive the path through the project configuration file (init -> toml -> render, export)
        from . import c20
        descs = []
        for k in range(3 if tier == "quick" else 20):
            d = c20.gen_desc(chk.rng, k)
            while k in (0, 1) and d["elements"] == c20.UPPER_ELEMENTS:
                d = c20.gen_desc(chk.rng, k)
            d["allowed"], d["required"], d["cooling"] = [], [], []
            if d["elements"] != c20.UPPER_ELEMENTS:
                d["rate_modifier"] = {str(chk.rng.choice([1, 2, 5])): chk.rng.choice(["1.0e-10", "2.0 * zeta", 0.0, 0]),
                                      "7": chk.rng.choice(["1e-9*exp(-10.0/Tgas)", 0.0])}
                if not any(isinstance(v, str) for v in d["rate_modifier"].values()) or len(descs) == 0:
                    d["rate_modifier"]["3"] = "2.0 * zeta"
                if len(descs) == 0:
                    d["rate_modifier"]["1"] = 0.0          # a reaction switched off with a number, always
                d["ode_modifier"] = {chk.rng.choice(["H2", "CO"]): {"factors": ["1e-3", "-2.0*k[0]"],
                                                                  "reactants": [["H"], chk.rng.choice([["CO", "He"], ["He++", "e-"], ["He+", "C+"]])]}}
                if len(descs) == 0:
                    d["ode_modifier"] = {"H2": {"factors": ["1e-3", "-2.0*k[0]"], "reactants": [["H"], ["He++", "e-"]]}}
                d.pop("ode_modifier_terms", None)
                d["ode_modifier_cuts"] = [1] if chk.rng.random() < 0.5 else []    # one or two occurrences of the option
            else:
                d["rate_modifier"] = {"2": "2.0 * zeta"}
            if k == 1 and d["elements"] != c20.UPPER_ELEMENTS:
                # a network whose reactions carry no index (plain Reaction objects, UCLCHEM files, KROME files without an idx column):
                # modifiers are keyed by the position in the reaction list
                d["files"] = [["".join(re.sub(r"^[^,]*,", "-1   ,", ln, count=1) + "\n" for ln in c.splitlines() if ln.strip()), f] for c, f in d["files"]]
                d["rate_modifier"] = {"1": "2.5e-10 * sqrt(Tgas)", "3": 0.0}
                d["unindexed"] = True
            descs.append(d)
        c20.process(chk, descs, [])
    if getattr(chk, "lean_ok", False) and ov_requests:
        ws = cparse.token_text      # token by token: a statement wrapped inside a number or a name is another statement
        try:
            answers = lean_driver(ov_requests)
        except Exception as e:
            chk.corr_break("driver", None, None, str(e)[:500])
            answers = []
        for (case, b, got), req, ans in zip(ov_pending, ov_requests, answers):
            if isinstance(ans, dict) and "error" in ans:
                chk.corr_break("model-error", case_summary(case), ans, None)
                continue
            m = [(ws(g), ws(r)) for g, r in ans]
            i = [(ws(c), ws(r)) for _, r, c in got]
            if m != i:
                chk.corr_break("override", case_summary(case), m[:10], {"impl": i[:10], "backend": b})
            else:
                chk.traces += 1
    return chk.finish()


def compare_model(chk: Check, pid, case, rd: Rendered, ans):
    yname = slot_names(rd)
    summ = case_summary(case)
    if ans["neqns"] != rd.neqns or ans["nnz"] != rd.nnz:
        chk.corr_break("sizes", summ, {"neqns": ans["neqns"], "nnz": ans["nnz"]}, {"neqns": rd.neqns, "nnz": rd.nnz})
        return
    fx = polys_of_fex(rd)
    for i, e in enumerate(ans["fex"]):
        mp = emitted_poly(e, yname)
        ip = fx.get(i)
        if ip is None:
            if rd.nspec == 0 and not rd.thermal:
                continue
            chk.corr_break("fex-missing", summ, i, None)
            return
        if mp != ip:
            chk.corr_break("fex", summ, {"eq": i, "model": mp.canon()}, {"impl": ip.canon(), "backend": rd.backend})
            return
    ents, raw = jac_entries(rd)
    if ents is None:
        return
    mtrip = {(t[0], t[1]): t[2] for t in ans["triples"]}
    if set(mtrip) != set(ents):
        chk.corr_break("jac-structure", summ, sorted(mtrip), {"impl": sorted(ents), "backend": rd.backend})
        return
    for rc, e in mtrip.items():
        if emitted_poly(e, yname) != poly_of_text(ents[rc]):
            chk.corr_break("jac-entry", summ, {"rc": rc, "model": emitted_poly(e, yname).canon()},
                           {"impl": ents[rc], "backend": rd.backend})
            return
    if raw is not None:
        rowptr = raw["rowptr"]["vals"] if isinstance(raw["rowptr"], dict) else raw["rowptr"]
        cols = raw["cols"]["vals"] if isinstance(raw["cols"], dict) else raw["cols"]
        if rowptr != ans["rowptr"] or cols != ans["cols"]:
            chk.corr_break("csr-arrays", summ, {"rowptr": ans["rowptr"], "cols": ans["cols"]},
                           {"rowptr": rowptr, "cols": cols, "backend": rd.backend})
    if (rd.path / "jac_pattern.dat").exists():
        if rd.pattern() != ans["pattern"]:
            chk.corr_break("pattern", summ, ans["pattern"], rd.pattern())


# ------------------------------------------------------------------------------------ oracles


def batch_check(chk, case, rd, which):
    """cusparse: every system of a batch must read and write its own NEQUATIONS / NNZ entries"""
    if rd.backend != "cusparse":
        return
    for what, cur, got, want in rd.batch_layout():
        if not what.startswith(which):
            continue
        if got != want and what.endswith("-udata"):
            chk.violation({"kind": "batch-parameters", "what": what},
                          f"cusparse {what.split('-')[0]} kernel: the rates of a system are not evaluated with its own abundances and "
                          f"parameter block (y_cur, &d_udata[cur])", input=case_summary(case))
            return
        if got != want:
            chk.violation({"kind": "batch-offset", "what": what},
                          f"cusparse {what}: system {cur} of a batch is addressed at offset {got}, its data is at {want} "
                          f"(NSPECIES={rd.nspec}, NEQUATIONS={rd.neqns}, NNZ={rd.nnz})", input=case_summary(case))
            return


def oracle_c01(chk, case, net, rd, rds):
    summ = case_summary(case)
    batch_check(chk, case, rd, ("fex", "Fex"))
    res, err = expected_fex(case, rd)
    if err:
        chk.violation({"kind": "slot", "backend": rd.backend, "msg": err}, err, input=summ)
        return
    exp, names = res
    fx = polys_of_fex(rd)
    nspec_expected = len(exp)
    if rd.nspec != nspec_expected:
        chk.violation({"kind": "nspecies", "backend": rd.backend}, f"NSPECIES={rd.nspec}, network has {nspec_expected} species",
                      input=summ, expected=nspec_expected, observed=rd.nspec)
        return
    if rd.nreac != max(len(case["reacs"]), 1):
        chk.violation({"kind": "nreactions", "backend": rd.backend}, f"NREACTIONS={rd.nreac} for {len(case['reacs'])} reactions",
                      input=summ)
    for nm, p in exp.items():
        got = fx.get(rd.idx[nm])
        if got is None:
            chk.violation({"kind": "missing-equation", "backend": rd.backend, "species": nm}, f"no ydot statement for {nm}", input=summ)
            return
        if got != p:
            diff = got - p
            pt = witness_point(diff, chk.rng)
            chk.violation({"kind": "rhs-differs", "backend": rd.backend},
                          f"ydot[{nm}] differs from the mass-action law", input=summ, species=nm,
                          expected=p.canon(), observed=got.canon(), point=pt,
                          difference_at_point=str(diff.eval(pt)) if pt else None)
            return
    if case["cooling"] or case.get("heating"):
        got = fx.get(rd.nspec)
        want = expected_thermal(case, names)
        if got != want:
            chk.violation({"kind": "thermal-differs", "backend": rd.backend}, "temperature equation differs from "
                          "(gamma-1)*(heating-cooling)/(kerg*npar)", input=summ, expected=want.canon(),
                          observed=None if got is None else got.canon())
    elif rd.thermal:
        chk.violation({"kind": "thermal-unexpected", "backend": rd.backend}, "thermal equation without processes", input=summ)
    extra = set(fx) - {rd.idx[n] for n in exp} - ({rd.nspec} if rd.thermal else set())
    if extra and rd.nspec:
        chk.violation({"kind": "extra-equation", "backend": rd.backend}, f"equations for unknown slots {sorted(extra)}", input=summ)


def witness_point(diff: Poly, rng):
    """a rational point where the (non-zero) difference polynomial does not vanish"""
    atoms = sorted(diff.atoms())
    for _ in range(20):
        pt = {a: Fraction(rng.randint(1, 9), rng.randint(1, 9)) for a in atoms}
        if diff.eval(pt) != 0:
            return {a: str(v) for a, v in pt.items()}
    return None


def bindings_check(chk, case, rd, texts_fex, texts_jac):
    """The Jacobian is the derivative of the right-hand side only if the scalars both functions compute before their
    equations (mu, gamma, npar, the derived quantities …) have the same values in both.  The two definition lists are compared
    as text first; where they differ they are executed on sampled user data (every sign pattern of the parameters, the
    helper functions as fixed opaque values) and a difference in the final value of a scalar the equations use is reported
    with that user data."""
    import itertools
    from . import ceval
    try:
        bf, bj = rd.local_bindings("fex"), rd.local_bindings("jac")
    except cparse.CParseError:
        return
    chk.count("c02.bindings.compared")
    ws = lambda t: "".join(t.split())
    norm = lambda bs: [(tuple(ws(g) for g, _ in gs), n, ws(r)) for gs, n, r in bs]
    used = lambda texts, n: any(re.search(r"(?<![\w.>])" + re.escape(n) + r"\b(?!\s*[\[(])", t) for t in texts)
    names_f = {n for _, n, _ in bf}
    names_j = {n for _, n, _ in bj}
    shared = sorted(n for n in names_f & names_j if used(texts_fex, n) and used(texts_jac, n))
    of = [x for x in norm(bf) if x[1] in names_f & names_j]
    oj = [x for x in norm(bj) if x[1] in names_f & names_j]
    if of == oj or not shared:
        return
    chk.count("c02.bindings.text-differs")
    params = sorted({m for _, _, r in bf + bj for m in re.findall(r"\bu_?data->\w+", r)})

    def run(bs, env):
        env = dict(env)
        taken = {}
        for gs, n, r in bs:
            if n in ("y", "ydot", "u_data", "udata"):
                continue
            try:
                for g, bid in gs:
                    if bid not in taken:
                        taken[bid] = bool(ceval.ev(cparse.parse_expr(g), env))
                if all(taken[bid] for _, bid in gs):
                    env[n] = ceval.ev(cparse.parse_expr(r), env)
            except (cparse.CParseError, KeyError, ValueError, ZeroDivisionError, TypeError, OverflowError):
                env.pop(n, None)
        return env

    opaque = {f: (lambda *a, _v=1.25 + 0.5 * k: _v) for k, f in enumerate(("GetMu", "GetGamma", "GetHNuclei", "GetElementAbund"))}
    for signs in itertools.islice(itertools.product((-1.0, 2.5, 0.0), repeat=len(params)), 2000):
        env = dict(zip(params, signs))
        env.update(opaque)
        env["y"] = 0.0
        ef, ej = run(bf, env), run(bj, env)
        for n in shared:
            if n in ef and n in ej and ef[n] != ej[n]:
                chk.violation({"kind": "bindings-differ", "backend": rd.backend, "name": n},
                              f"`{n}` is used by both the right-hand side and the Jacobian but the two functions compute it "
                              f"differently: with user data {dict(zip(params, signs))} Fex uses {ef[n]} and Jac uses {ej[n]}, so the "
                              f"Jacobian is the derivative of a different function", input=case_summary(case),
                              fex_bindings=[x for x in of if x[1] == n], jac_bindings=[x for x in oj if x[1] == n])
                return


def oracle_c02(chk, case, net, rd, rds):
    batch_check(chk, case, rd, ("jac-y", "Jac"))
    summ = case_summary(case)
    fx = polys_of_fex(rd)
    ents, _ = jac_entries(rd)
    if ents is None:
        chk.violation({"kind": "csr-malformed", "backend": rd.backend}, "CSR arrays inconsistent", input=summ)
        return
    inv = {}
    for name, slot in rd.idx.items():
        inv.setdefault(slot, name)
    bindings_check(chk, case, rd, list(rd.fex().values()), list(ents.values()))
    ep = {rc: poly_of_text(t) for rc, t in ents.items()}
    for i in range(rd.neqns):
        f = fx.get(i, Poly())
        for j in range(rd.neqns):
            want = f.deriv(f"y[{inv[j]}]") if j in inv else Poly()
            got = ep.get((i, j), Poly())
            if got != want:
                diff = got - want
                pt = witness_point(diff, chk.rng)
                chk.violation({"kind": "jac-differs", "backend": rd.backend, "omitted": (i, j) not in ep},
                              f"Jacobian entry ({i},{j}) [{inv.get(i)}, {inv.get(j)}] is not d(ydot)/dy", input=summ,
                              expected=want.canon(), observed=got.canon() if (i, j) in ep else "omitted", point=pt)
                return


def reassigned_modifiers_check(chk, case, net, n):
    """The modifiers are attributes of the network object: assigning a new table replaces the old one.  The network that has just
    been rendered gets another rate-modifier table (other reactions, one of them the neutral statement `0.0`) and another ODE
    modifier, and is rendered again; a network built from scratch with these tables must give the same rate statements and the
    same right-hand side."""
    idxs = sorted({r.idx for r in case["reacs"] if r.idx != -1}) if case["indexed"] else list(range(len(case["reacs"])))
    if not idxs:
        return
    old = set(case["ratemod"])
    fresh_keys = [i for i in idxs if i not in old] or idxs
    second = {fresh_keys[0]: "4.0e-11"}
    if len(fresh_keys) > 1:
        second[fresh_keys[-1]] = "0.0"
    used = [s for s in case["species"] if any(s in r.re + r.pr for r in case["reacs"])]
    mods2 = [(used[0], [("-3.0e-3", [used[0]])])] if used else []
    case2 = dict(case, ratemod=second, mods=mods2)
    scratch = chk.scratch / f"case{n}-reassigned"
    keep = (dict(net.rate_modifier), dict(net.ode_modifier))
    try:
        with silenced():
            net.rate_modifier = dict(second)
            net.ode_modifier = {t.name: {"factors": [f for f, _ in terms], "reactants": [[d.name for d in ds] for _, ds in terms]}
                                for t, terms in mods2}
            render(net, "dense", scratch / "live")
            net2 = build_network(case2, scratch / "files")
            render(net2, "dense", scratch / "fresh")
    except Exception as e:
        chk.hist["reassign-refused:" + type(e).__name__] += 1
        return
    finally:
        net._rate_modifier, net._ode_modifier = keep      # (the caller still reads the first tables off this object)
    chk.hist["modifiers-reassigned"] += 1
    chk.count(("reassigned", n), nontrivial=True)
    # the tables can also be edited in place through the properties (`net.rate_modifier[12] = "…"`): same outcome as giving the table
    # to the constructor
    if len(fresh_keys) > 2:
        third = dict(second)
        third[fresh_keys[1]] = "7.7e-11"
        try:
            with silenced():
                net.rate_modifier = dict(second)
                net.rate_modifier[fresh_keys[1]] = "7.7e-11"
                render(net, "dense", scratch / "inplace")
                net3 = build_network(dict(case, ratemod=third, mods=[]), scratch / "files3")
                render(net3, "dense", scratch / "fresh3")
            wsx = cparse.token_text
            ra3 = [(i, wsx(r), wsx(c)) for i, r, c in Rendered(scratch / "inplace", "dense").rates("k")]
            rb3 = [(i, wsx(r), wsx(c)) for i, r, c in Rendered(scratch / "fresh3", "dense").rates("k")]
            chk.hist["modifiers-edited-in-place"] += 1
            if ra3 != rb3:
                d3 = next((x for x in rb3 if x not in ra3), None)
                chk.violation({"kind": "in-place-modifier-lost"},
                              "a rate modifier added through the property (`net.rate_modifier[i] = …`) is not in the rendering that follows",
                              input=case_summary(case), added={str(fresh_keys[1]): "7.7e-11"}, expected_statement=d3)
                return
        except cparse.CParseError:
            pass
        except Exception as e:
            chk.hist["in-place-refused:" + type(e).__name__] += 1
        finally:
            net._rate_modifier, net._ode_modifier = keep
    a, b = Rendered(scratch / "live", "dense"), Rendered(scratch / "fresh", "dense")
    ws = cparse.token_text
    try:
        ra, rb = [(i, ws(r), ws(c)) for i, r, c in a.rates("k")], [(i, ws(r), ws(c)) for i, r, c in b.rates("k")]
        fa, fb = {k: poly_of_text(v) for k, v in a.fex().items()}, {k: poly_of_text(v) for k, v in b.fex().items()}
    except cparse.CParseError:
        return
    if ra != rb or fa != fb:
        d = next((x for x in ra if x not in rb), None) or next((x for x in rb if x not in ra), None)
        chk.violation({"kind": "reassigned-modifier-differs", "what": "rates" if ra != rb else "rhs"},
                      "a network whose modifier tables were assigned a second time renders differently from a network built with "
                      "the second tables: the first tables are still (partly) in force", input=case_summary(case),
                      first_rate_modifier={str(k): v for k, v in case["ratemod"].items()}, second_rate_modifier={str(k): v for k, v in second.items()},
                      differing_statement=d)


def compiled_rhs_check(chk, jobs):
    """The emitted text says `ydot[i] = … k[r]*y[…] …`; what the compiled function computes also depends on where `k[]` comes from.
    The rendered rate and right-hand-side sources are compiled and `Fex` is called, in one process, at a sequence of temperatures
    that enter and leave the reactions' windows; at every call the compiled derivative of every species must be the mass-action sum
    over the coefficients `EvalRates` gives *at that temperature* (zero outside a window)."""
    import math
    import subprocess
    from concurrent.futures import ThreadPoolExecutor
    from . import cbuild
    from .common import ROOT
    temps = [50.0, 5000.0, 5.0, 250.0, 1.0e5, 50.0]

    def one(job):
        case, b, rd, exp = job
        path = Path(rd.path)
        files = [path / "src" / ("naunet_ode.cpp" if b == "rosenbrock4" else "naunet_rates.cpp"),
                 path / "src" / "naunet_physics.cpp", path / "src" / "naunet_constants.cpp", path / "src" / "naunet_utilities.cpp"]
        if b != "rosenbrock4":
            files.append(path / "src" / "naunet_fex.cpp")
        exe = path / "c01_rhs"
        ok, err = cbuild.build(path, ROOT / "shim" / "c06_driver.cpp", exe, b, files=[f for f in files if f.exists()],
                               defines=["C06_ODEINT"] if b == "rosenbrock4" else [])
        if not ok:
            return job, "build", err
        r = subprocess.run([str(exe)], input="\n".join(repr(t) for t in temps) + "\n", capture_output=True, text=True, timeout=300)
        lines = r.stdout.strip().split("\n")
        if r.returncode != 0 or len(lines) != len(temps):
            return job, "run", f"rc={r.returncode} {r.stderr[-300:]}"
        return job, None, lines

    with ThreadPoolExecutor(8) as ex:
        for (case, b, rd, exp), stage, out in ex.map(one, jobs):
            summ = case_summary(case)
            chk.hist["compiled-rhs"] += 1
            if stage is not None:
                chk.corr_break("compiled-rhs", summ, None, f"{stage}: {out[-500:]}")
                continue
            for t, line in zip(temps, out):
                ks, _, yd = line.partition("|")
                k = [0.0 if x == "nan" or x == "-nan" else float(x) for x in ks.split()]
                ydot = [float(x) for x in yd.split()]
                if not all(math.isfinite(x) for x in k):
                    continue
                bad = None
                for nm, p in exp.items():
                    want, mag = 0.0, 0.0
                    for mono, c in p.items():
                        v = float(c)
                        for a, e in mono:
                            if a.startswith("k["):
                                v *= k[int(a[2:-1])] ** e if int(a[2:-1]) < len(k) else float("nan")
                        want += v
                        mag += abs(v)
                    got = ydot[rd.idx[nm]] if rd.idx[nm] < len(ydot) else float("nan")
                    # (the emitted sum also subtracts and re-adds the terms of catalysts, which cancel in the polynomial but leave the
                    # rounding error of their magnitude behind)
                    if not (abs(got - want) <= 1e-9 * max(mag, 1e-300) + 1e-14 * sum(abs(x) for x in k)):
                        bad = (nm, got, want)
                        break
                if bad:
                    chk.violation({"kind": "compiled-rhs-differs", "backend": b},
                                  f"compiled {b} right-hand side at Tgas={t!r} (call {temps.index(t) + 1} of the sequence {temps}, all abundances "
                                  f"1): ydot[{bad[0]}] = {bad[1]!r}, the mass-action sum over this call's rate coefficients is {bad[2]!r}",
                                  input=summ)
                    break


def compiled_jac_check(chk, jobs):
    """What the emitted `j(r, c) = …` / `IJth(…) = …` / `data[n] = …` statements say is compared symbolically; what the compiled
    function leaves in the matrix also depends on what it does *around* them.  The rendered Jacobian function is compiled and
    called the way its integrator calls it (CVODE zeroes the matrix first; rosenbrock4 hands a pre-sized matrix that it has
    overwritten in place since the last call): after the first and after the second call every stored entry must be the value
    of the emitted entry and every other entry zero."""
    import math
    import subprocess
    from concurrent.futures import ThreadPoolExecutor
    from . import cbuild, ceval
    from .common import ROOT

    def one(job):
        case, b, rd, ents = job
        path = Path(rd.path)
        files = [path / "src" / ("naunet_ode.cpp" if b == "rosenbrock4" else "naunet_rates.cpp"),
                 path / "src" / "naunet_physics.cpp", path / "src" / "naunet_constants.cpp", path / "src" / "naunet_utilities.cpp"]
        if b != "rosenbrock4":
            files += [path / "src" / "naunet_fex.cpp", path / "src" / "naunet_jac.cpp"]
        exe = path / "c02_jac"
        defs = {"rosenbrock4": ["C02_ODEINT"], "sparse": ["C02_SPARSE"]}.get(b, [])
        ok, err = cbuild.build(path, ROOT / "shim" / "c02_jac_driver.cpp", exe, b, files=[f for f in files if f.exists()], defines=defs)
        if not ok:
            return job, "build", err, None
        y = [round(0.5 + 0.13 * ((5 * i + 2) % 17), 3) for i in range(rd.neqns)]
        r = subprocess.run([str(exe)], input="300.0\n" + " ".join(repr(v) for v in y) + "\n3.0\n", capture_output=True, text=True, timeout=300)
        lines = r.stdout.strip().split("\n")
        if r.returncode != 0 or len(lines) != 5:
            return job, "run", f"rc={r.returncode} {r.stderr[-300:]}", None
        return job, None, lines, y

    with ThreadPoolExecutor(8) as ex:
        for (case, b, rd, ents), stage, out, y in ex.map(one, jobs):
            summ = case_summary(case)
            chk.hist["compiled-jac"] += 1
            if stage is not None:
                chk.corr_break("compiled-jac", summ, None, f"{stage}: {out[-500:]}")
                continue
            k = [0.0 if x in ("nan", "-nan") else float(x) for x in out[0].split()]
            k2 = [0.0 if x in ("nan", "-nan") else float(x) for x in out[3].split()]
            inv = {}
            for name, slot in rd.idx.items():
                inv.setdefault(slot, name)
            env = {f"y[{inv[i]}]": y[i] for i in range(rd.neqns) if i in inv}
            env.update({f"k[{i}]": v for i, v in enumerate(k)})

            class Env(dict):
                def __missing__(self, key):
                    raise KeyError(key)
            try:
                want1 = {rc: float(ceval.ev(cparse.parse_expr(t), Env(env))) for rc, t in ents.items()}
                env.update({f"k[{i}]": v for i, v in enumerate(k2)})       # third call: 3 K, below every lower bound
                want3 = {rc: float(ceval.ev(cparse.parse_expr(t), Env(env))) for rc, t in ents.items()}
            except (KeyError, cparse.CParseError, ValueError, ZeroDivisionError, OverflowError):
                chk.hist["compiled-jac:not-evaluable"] += 1
                continue
            if k2 != k:
                chk.hist["compiled-jac:rates-change-between-calls"] += 1
            n = rd.neqns
            for call, line in ((1, out[1]), (2, out[2]), (3, out[4])):
                want = want3 if call == 3 else want1
                vals = [float(x) for x in line.split()]
                if len(vals) != n * n:
                    chk.corr_break("compiled-jac", summ, None, f"{len(vals)} values for a {n}x{n} matrix")
                    break
                bad = None
                for i in range(n):
                    for j in range(n):
                        w = want.get((i, j), 0.0)
                        g = vals[i * n + j]
                        if not (abs(g - w) <= 1e-10 * max(abs(w), sum(abs(x) for x in k) * 1e-4, 1e-300)):
                            bad = (i, j, g, w)
                            break
                    if bad:
                        break
                if bad:
                    chk.violation({"kind": "compiled-jac-differs", "backend": b, "call": "first" if call == 1 else ("later" if call == 2 else "other-temperature"),
                                   "omitted_entry": (bad[0], bad[1]) not in want},
                                  f"compiled {b} Jacobian, call {call} on the same matrix object: entry ({bad[0]},{bad[1]}) "
                                  f"[{inv.get(bad[0])}, {inv.get(bad[1])}] is {bad[2]!r}; the emitted entry "
                                  f"{'evaluates to' if (bad[0], bad[1]) in want else 'is omitted, i.e.'} {bad[3]!r}", input=summ)
                    break


def reused_loader_check(chk, case, net, n):
    """A TemplateLoader object may render the templates of a project one at a time, or be kept by a script that edits its network
    between renderings: what it writes must describe the network as it is at that call.  One loader renders the network, the
    network gets one more reaction (with a species it did not have), the same loader renders again; a fresh loader on the edited
    network must give the same files - sizes, index macros, CSR arrays, rate statements and pattern file included."""
    from naunet.reactions import Reaction
    from naunet.reactiontype import ReactionType as RT
    from naunet.templateloader import TemplateLoader
    from .rendering import BACKENDS as BK
    scratch = chk.scratch / f"case{n}-reused-loader"
    held = [s.name for s in net.species]
    if not held:
        return
    extra = next((x for x in ("Ar", "Ne", "Ca", "Ni", "F") if x not in held), None)
    if extra is None:
        return
    for b in ("sparse", "dense"):
        try:
            with silenced():
                tl = TemplateLoader(*BK[b])
                (scratch / f"{b}-first").mkdir(parents=True, exist_ok=True)
                tl.render("proj", net, path=scratch / f"{b}-first", jac_pattern=True)
                if b == "sparse":
                    net.add_reaction(Reaction([held[0], extra], [held[-1], extra, extra], alpha=2.5e-10, reaction_type=RT.GAS_TWOBODY,
                                              idxfromfile=987654))
                else:
                    # second flavour: the project directory itself is rendered again after the network got a reaction among species
                    # it already has (file sizes tend to stay, contents do not: NREACTIONS 3 -> 4, NNZ 10 -> 14)
                    (scratch / f"{b}-again").mkdir(parents=True, exist_ok=True)
                    tl.render("proj", net, path=scratch / f"{b}-again", jac_pattern=True)
                    for k_ in range(1, 4):
                        net.add_reaction(Reaction([held[0], held[k_ % len(held)]], [held[-1], held[(k_ + 1) % len(held)]], alpha=1.5e-10,
                                                  reaction_type=RT.GAS_TWOBODY, idxfromfile=987654 + k_))
                        if k_ < 3:
                            tl.render("proj", net, path=scratch / f"{b}-again", jac_pattern=True)
                (scratch / f"{b}-again").mkdir(parents=True, exist_ok=True)
                tl.render("proj", net, path=scratch / f"{b}-again", jac_pattern=True)
                render(net, b, scratch / f"{b}-fresh", jac_pattern=True)
        except Exception as e:
            chk.hist["reused-loader-refused:" + type(e).__name__] += 1
            return
        chk.hist["reused-loader"] += 1
        chk.count(("reused-loader", n, b), nontrivial=True)
        diff = []
        for f in sorted(p for p in (scratch / f"{b}-fresh").rglob("*") if p.is_file()):
            rel = f.relative_to(scratch / f"{b}-fresh")
            g = scratch / f"{b}-again" / rel
            if not g.exists() or g.read_bytes() != f.read_bytes():
                diff.append(str(rel))
        if diff:
            chk.violation({"kind": "reused-loader-stale", "backend": b},
                          f"a TemplateLoader that had rendered the network before renders, after the network got another reaction, files that "
                          f"a fresh loader does not: {diff[:6]} (sizes and index macros of the edited network next to arrays of the old one)",
                          input=case_summary(case), added_reaction=f"{held[0]} + {extra} -> {held[-1]} + {extra} + {extra}")
            return


def cross_network_elements_check(chk):
    """`GetElementAbund` sums the abundances with the element counts of *this* network's species.  A spelling may mean different
    things in different projects (`HE` is helium under an upper-case element list, hydrogen plus the element `E` under the default
    one): a network built after another one that read the same spellings must get the element totals it gets when it is built
    alone.  Both histories run in worker processes; the rendered physics, macro and right-hand-side files are compared."""
    from .c17 import run_worker, native, DEFAULT_ELEMENTS as DE, DEFAULT_PSEUDO as DP
    lines = "\n".join([native(1, ["H", "H"], ["H2"]), native(2, ["HE+", "E"], ["HE"]), native(3, ["H", "CR"], ["H+", "E"], ty=101),
                       native(4, ["HE", "CR"], ["HE+", "E"], ty=101)]) + "\n"
    other = {"elements": list(DE), "pseudo": list(DP), "kwargs": {}, "files": [[lines, "naunet"]]}
    mine = {"elements": ["E", "H", "HE"], "pseudo": ["CR"], "kwargs": {}, "files": [[lines, "naunet"]]}
    back = ["cvode", "dense", "cpu"]
    alone = run_worker({"steps": [{"op": "build", "id": "B", "desc": mine}, {"op": "render", "id": "B", "backend": back, "tag": ["alone"]}]}, 0)
    after = run_worker({"steps": [{"op": "build", "id": "A", "desc": other}, {"op": "query", "id": "A"},
                                  {"op": "build", "id": "B", "desc": mine}, {"op": "render", "id": "B", "backend": back, "tag": ["after"]}]}, 0)
    chk.count(("cross-network",), nontrivial=True)
    chk.hist["cross-network-elements"] += 1
    if isinstance(alone, dict) or isinstance(after, dict) or "error" in alone[0] or "error" in after[0]:
        chk.corr_break("cross-network", None, str(alone)[:300], str(after)[:300])
        return
    a, b = alone[0]["per_file"], after[0]["per_file"]
    diff = sorted(f for f in a if a[f] != b.get(f))
    if diff:
        chk.violation({"kind": "element-totals-depend-on-history"},
                      f"a network with elements E, H, HE built after another network that read the same file under the default element list "
                      f"(where `HE` is H + E) renders {diff[:5]} differently from the same network built alone: its species carry the other "
                      f"project's compositions, so GetElementAbund is not the count-weighted sum over its own species",
                      input={"file": lines.split(chr(10))[:4], "first_network_elements": "default list", "second_network_elements": ["E", "H", "HE"]})


def ice_modifier_prefix_check(chk):
    """A project whose ices are spelled with its own surface prefix (`G`, as the Leeds database and the bundled ism example do) and an
    ODE modifier that names an ice - as target and as dependency: the modifier adds exactly its term to its target, nothing else
    changes, nothing is refused."""
    from naunet.network import Network
    from naunet.reactions import Reaction
    from naunet.reactiontype import ReactionType as RT
    from .poly import Poly
    for prefix in ("G", "#"):
        ice = prefix + "CO"
        reset_species_state()
        from .c17 import native
        src = chk.scratch / f"ice-modifier-{'G' if prefix == 'G' else 'hash'}.naunet"
        fmt_ = "leeds" if prefix == "G" else "naunet"      # (the native reader knows the default prefix only: finding F24)
        if fmt_ == "leeds":
            src.write_text("\n".join([netgen.leeds_line(1, ["CO"], [ice]), netgen.leeds_line(2, [ice], ["CO"], a=2e-10),
                                      netgen.leeds_line(3, ["H", "H"], ["H2"], a=3e-10)]) + "\n")
        else:
            src.write_text("\n".join([native(1, ["CO"], [ice]), native(2, [ice], ["CO"], a=2e-10), native(3, ["H", "H"], ["H2"], a=3e-10)]) + "\n")
        kws = {"surface_prefix": prefix}
        mod = {"CO": {"factors": ["kdes"], "reactants": [[ice]]}, ice: {"factors": ["-kdes"], "reactants": [[ice]]}}
        out = {}
        try:
            for tag, om in (("plain", None), ("modified", mod)):
                with silenced():
                    reset_species_state()
                    net = Network(filelist=[str(src)], fileformats=[fmt_], species_kwargs=dict(kws), ode_modifier=om)
                    d = chk.scratch / f"ice-modifier-{'G' if prefix == 'G' else 'hash'}-{tag}"
                    render(net, "dense", d)
                rd = Rendered(d, "dense")
                inv = {v: k for k, v in rd.idx.items()}
                out[tag] = {inv[slot]: p for slot, p in polys_of_fex(rd).items() if slot in inv}
        except Exception as e:
            chk.violation({"kind": "ice-modifier-refused", "prefix": prefix, "error": type(e).__name__},
                          f"a network with surface prefix {prefix!r} and an ODE modifier on the ice {ice} cannot be rendered: "
                          f"{type(e).__name__}: {str(e)[:160]}", input={"ode_modifier": mod, "species_kwargs": kws})
            continue
        chk.count(("ice-modifier", prefix), nontrivial=True)
        chk.hist["ice-modifier-prefix"] += 1
        alias = "GCOI"
        term = Poly.atom("kdes") * Poly.atom(f"y[IDX_{alias}]")
        want = dict(out["plain"])
        want["IDX_COI"] = want["IDX_COI"] + term
        want[f"IDX_{alias}"] = want[f"IDX_{alias}"] - term
        if out["modified"] != want:
            bad = sorted(k for k in want if out["modified"].get(k) != want[k])
            chk.violation({"kind": "ice-modifier-effect", "prefix": prefix},
                          f"with surface prefix {prefix!r} the ODE modifier on {ice} does not add exactly its term: equations {bad} differ",
                          input={"ode_modifier": mod})


def slot_identity_check(chk):
    """Every species owns one ODE slot, named by its alias (`IDX_<alias>`): element and charge sums are taken slot by slot, so two
    different species with one alias would share a slot and the second `ydot[...] =` statement would overwrite the first.  The
    aliases of a list of species that differ in a label, a marker or an excitation star only must be pairwise different (whether
    the alias is a legal identifier is C09's question, finding F9)."""
    from naunet.species import Species
    reset_species_state()
    names = ["H2", "H2*", "oH2", "pH2", "H2+", "H2-", "H2--", "#H2", "C-", "C--", "C---", "Si+", "Si++", "GRAIN--", "C3H2", "c-C3H2", "l-C3H2", "C3H", "l-C3H", "c-C3H", "CH", "CH*", "CH+",
             "HC3N", "HC3N*", "O", "O*", "O-", "#O", "He", "He+", "He++", "#CO", "CO", "CO*", "C2H", "l-C2H", "GRAIN0", "GRAIN-", "e-"]
    with silenced():
        sp = [Species(n) for n in names]
    seen = {}
    for n, s in zip(names, sp):
        chk.count(("alias", n), nontrivial=True)
        other = seen.get(s.alias)
        if other is not None and not (other[1] == s):
            chk.violation({"kind": "shared-slot", "names": sorted([other[0], n])},
                          f"species `{other[0]}` and `{n}` are different species but both get the index macro IDX_{s.alias}: they share one "
                          f"slot of y[] / ydot[], so neither the element sums nor the charge sum can be conserved",
                          input={"names": [other[0], n], "alias": s.alias})
            return
        seen.setdefault(s.alias, (n, s))


def compiled_physics_check(chk, jobs):
    """The temperature equation divides by `npar`, the particle density the rendered helper GetNumDens() computes, and uses
    GetMu() / GetGamma() when the user gives none: what those helpers compute is part of the right-hand side.  The rendered
    naunet_physics.cpp is compiled and the helpers are evaluated on vectors with a conspicuous temperature slot:
    GetNumDens = sum of the species' abundances (the temperature is not a particle), GetMu = sum(A_i y_i) / sum(y_i) with
    naunet's own mass numbers, GetHNuclei / GetElementAbund = count-weighted sums over the ground-truth compositions."""
    import subprocess
    from concurrent.futures import ThreadPoolExecutor
    from . import cbuild
    from .common import ROOT

    def one(job):
        case, b, rd, masses, comps = job
        path = Path(rd.path)
        files = [path / "src" / f for f in ("naunet_physics.cpp", "naunet_constants.cpp", "naunet_utilities.cpp")]
        exe = path / "c01_physics"
        ok, err = cbuild.build(path, ROOT / "shim" / "c01_physics_driver.cpp", exe, b, files=[f for f in files if f.exists()])
        if not ok:
            return job, "build", err, None
        vecs = []
        for k in range(3):
            v = [round(0.5 + 0.37 * ((7 * i + 3 * k) % 11), 3) for i in range(rd.neqns)]
            if rd.thermal:
                v[rd.nspec] = 1.0e4 * (k + 1)          # the gas temperature: three to four orders above any abundance
            vecs.append(v)
        r = subprocess.run([str(exe)], input="".join(" ".join(repr(x) for x in v) + "\n" for v in vecs), capture_output=True,
                           text=True, timeout=300)
        if r.returncode != 0 or len(r.stdout.strip().split("\n")) != len(vecs):
            return job, "run", f"rc={r.returncode} {r.stderr[-400:]}", None
        return job, None, r.stdout.strip().split("\n"), vecs

    model_reqs, model_pend = [], []
    with ThreadPoolExecutor(8) as ex:
        for (case, b, rd, masses, comps), stage, out, vecs in ex.map(one, jobs):
            chk.hist["compiled-physics"] += 1
            summ = case_summary(case)
            if stage is None and comps is not None and all(m == int(m) for m in masses):
                for v, line in zip(vecs, out):
                    fr = [Fraction(repr(x)) for x in v]
                    model_reqs.append({"cmd": "physics", "nelem": rd.nelem, "y": [[f.numerator, f.denominator] for f in fr],
                                       "species": [{"mass": int(m), "counts": c} for m, c in zip(masses, comps)]})
                    model_pend.append((summ, v, line))
            if stage == "build":
                chk.corr_break("compiled-physics", summ, None, f"does not compile: {out[-600:]}")
                continue
            if stage == "run":
                chk.corr_break("compiled-physics", summ, None, out)
                continue
            close = lambda a, w: abs(a - w) <= 1e-12 * max(abs(a), abs(w), 1e-300)
            for v, line in zip(vecs, out):
                head, _, tail = line.partition("|")
                numdens, mu, gamma, hnuc = (float(x) for x in head.split())
                ys = v[:rd.nspec]
                want_n = sum(ys)
                want_mu = sum(m * y for m, y in zip(masses, ys)) / want_n if want_n else None
                bad = None
                if not close(numdens, want_n):
                    bad = ("GetNumDens", numdens, want_n)
                elif want_mu is not None and not close(mu, want_mu):
                    bad = ("GetMu", mu, want_mu)
                elif not close(gamma, 5.0 / 3.0):
                    bad = ("GetGamma", gamma, 5.0 / 3.0)
                elif comps is not None:
                    elems = [float(x) for x in tail.split()]
                    for e in range(min(rd.nelem, len(elems))):
                        want_e = sum(c[e] * y for c, y in zip(comps, ys))
                        if not close(elems[e], want_e):
                            ename = next((k for k, v in rd.elem_idx.items() if v == e), str(e))
                            bad = (f"GetElementAbund(y, {ename})", elems[e], want_e)
                            break
                if bad:
                    model_reqs, model_pend = [r for r, p in zip(model_reqs, model_pend) if p[0] is not summ], [p for p in model_pend if p[0] is not summ]
                    chk.violation({"kind": "physics-helper", "helper": bad[0], "backend": b},
                                  f"compiled {bad[0]}{'' if bad[0].endswith(')') else '(y)'} returns {bad[1]!r}; over the {rd.nspec} species of the "
                                  f"network it should be {bad[2]!r} (element totals are count-weighted sums over all species; the temperature "
                                  f"equation is emitted as …/(kerg*npar) with npar = GetNumDens(y))",
                                  input=summ, vector=v)
                    break
    physics_model_correspondence(chk, model_reqs, model_pend)


def physics_model_correspondence(chk, reqs, pend):
    """the Lean model of the helpers (`Physics.numDens`, `mu`, `elementAbund`, exact rationals) against the compiled ones"""
    if not (getattr(chk, "lean_ok", False) and reqs):
        return
    try:
        answers = lean_driver(reqs)
    except Exception as e:
        chk.corr_break("driver", None, None, str(e)[:300])
        return
    close = lambda a, w: abs(a - w) <= 1e-12 * max(abs(a), abs(w), 1e-300)
    for (summ, v, line), ans in zip(pend, answers):
        if "error" in ans:
            chk.corr_break("physics-model", summ, ans, line)
            continue
        head, _, tail = line.partition("|")
        numdens, mu, gamma, hnuc = (float(x) for x in head.split())
        elems = [float(x) for x in tail.split()]
        fr = lambda q: q[0] / q[1]
        ok = close(numdens, fr(ans["numdens"])) and (ans["mu"] is None or close(mu, fr(ans["mu"]))) \
            and len(elems) == len(ans["elem"]) and all(close(a, fr(q)) for a, q in zip(elems, ans["elem"]))
        if ok:
            chk.traces += 1
        else:
            chk.corr_break("physics-model", summ, ans, line)


def compiled_matrix_check(chk, jobs):
    """The rendered cvode project is compiled (AddressSanitizer on) against the stand-in SUNDIALS, whose integrator calls the
    registered Jacobian function on the registered matrix as CVODE does, refuses an accessor of the wrong matrix kind, and
    validates the CSR structure Jac() leaves behind.  The driver runs Init -> Solve and Init -> Reset -> Solve."""
    import subprocess
    from concurrent.futures import ThreadPoolExecutor
    from . import cbuild
    from .common import ROOT

    def one(job):
        case, b, path = job
        exe = Path(path) / "c03_matrix"
        ok, err = cbuild.build(path, ROOT / "shim" / "c19_driver.cpp", exe, b, sanitize=True)
        if not ok:
            return job, "build", err
        lines = "".join(f"1.0 1.0 500 {rmx} 2 0 1.0 0 1.0 2 1 1\n" for rmx in (-1, 500, 3))
        r = subprocess.run([str(exe)], input=lines, capture_output=True, text=True, cwd=path, timeout=600,
                           env={**os.environ, "ASAN_OPTIONS": "detect_leaks=0"})
        if r.returncode != 0 or len(r.stdout.strip().split("\n")) != 3:
            return job, "run", f"rc={r.returncode} " + r.stderr[-1500:]
        return job, None, None

    with ThreadPoolExecutor(8) as ex:
        for (case, b, path), stage, err in ex.map(one, jobs):
            chk.hist[f"compiled-matrix:{b}"] += 1
            if stage == "build":
                chk.violation({"kind": "does-not-compile", "backend": b}, f"rendered {b} project does not compile against the "
                              f"stand-in SUNDIALS", input=case_summary(case), error=err[-1500:])
            elif stage == "run":
                chk.violation({"kind": "compiled-matrix-fill", "backend": b},
                              f"running Init/Reset/Solve of the compiled {b} project: the Jacobian function was applied to a matrix it "
                              f"does not fit, or left it malformed, or a subscript left its array", input=case_summary(case),
                              sequence="Init -> Solve; Init -> Reset(mxsteps=500) -> Solve; Init -> Reset(mxsteps=3) -> Solve", error=err)


def oracle_c03(chk, case, net, rd, rds):
    batch_check(chk, case, rd, ("fex", "Fex", "jac", "Jac"))
    summ = case_summary(case)
    b = rd.backend
    # -- the size macros behave as one value inside index arithmetic
    for name, got, want in (rd.macro_hygiene() if rd.backend in ("dense", "cusparse") else []):
        chk.violation({"kind": "macro-not-atomic", "macro": name},
                      f"`7 * {name} * 3 - …` expands to a text that evaluates to {got}, not {want}: the macro's body is not "
                      f"parenthesised, so every `cur * {name}` / `lrw / {name}` index computation is off", input=summ)
        return
    # -- every rate-array subscript written by EvalRates lies inside k[NREACTIONS], and every slot is written
    if case["reacs"]:
        ks = [i for i, _, _ in rd.rates("k")]
        oob = [i for i in ks if not 0 <= i < rd.nreac]
        if oob:
            chk.violation({"kind": "rate-subscript-out-of-bounds", "backend": b},
                          f"EvalRates writes k[{oob[0]}] but the array is declared k[NREACTIONS] with NREACTIONS={rd.nreac}", input=summ)
            return
        unassigned = sorted(set(range(rd.nreac)) - set(ks))
        if unassigned and rd.nreac == len(case["reacs"]):
            chk.violation({"kind": "rate-slot-never-assigned", "backend": b},
                          f"k[{unassigned[0]}] is read by the ODE but never assigned by EvalRates", input=summ)
            return
    # -- declared sizes
    neq_decl = (rd.nspec + (1 if rd.thermal else 0)) or 1
    j = rd.jac()
    if "rowptr" in j:
        rowptr = j["rowptr"]["vals"] if isinstance(j["rowptr"], dict) else j["rowptr"]
        cols = j["cols"]["vals"] if isinstance(j["cols"], dict) else j["cols"]
        data = j["data"]
        bad = None
        if len(rowptr) != neq_decl + 1:
            bad = f"{len(rowptr)} row pointers for NEQUATIONS={neq_decl}"
        elif rowptr[0] != 0:
            bad = "row pointers do not start at 0"
        elif any(a > c for a, c in zip(rowptr, rowptr[1:])):
            bad = "row pointers decrease"
        elif rowptr[-1] != rd.nnz:
            bad = f"last row pointer {rowptr[-1]} != NNZ {rd.nnz}"
        elif len(cols) != rd.nnz or len(data) != rd.nnz:
            bad = f"{len(cols)} columns / {len(data)} values for NNZ={rd.nnz}"
        elif any(not (0 <= c < neq_decl) for c in cols):
            bad = "column index out of range"
        else:
            for r in range(neq_decl):
                seg = cols[rowptr[r]:rowptr[r + 1]]
                if any(a >= c for a, c in zip(seg, seg[1:])):
                    bad = f"columns of row {r} not strictly increasing: {seg}"
                    break
        if isinstance(j["rowptr"], dict) and not bad:
            if j["rowptr"]["decl"].replace(" ", "") != "NEQUATIONS+1" or j["cols"]["decl"].strip() != "NNZ":
                bad = f"array declared with {j['rowptr']['decl']} / {j['cols']['decl']}"
        if bad:
            chk.violation({"kind": "csr-malformed", "backend": b}, bad, input=summ, rowptr=rowptr, cols=cols)
            return
    ents, _ = jac_entries(rd)
    if ents is None:
        chk.violation({"kind": "csr-malformed", "backend": b}, "CSR arrays inconsistent", input=summ)
        return
    for (r, c) in ents:
        if not (0 <= r < neq_decl and 0 <= c < neq_decl):
            chk.violation({"kind": "subscript-out-of-range", "backend": b, "what": "jacobian"},
                          f"Jacobian entry ({r},{c}) outside {neq_decl}x{neq_decl}", input=summ)
            return
    # -- subscripts in all emitted expressions
    fx = rd.fex()
    texts = list(fx.values()) + list(ents.values())
    for t in texts:
        for m in re.finditer(r"\bk\[(\d+)\]", t):
            if int(m.group(1)) >= rd.nreac:
                chk.violation({"kind": "subscript-out-of-range", "backend": b, "what": "k"},
                              f"k[{m.group(1)}] with NREACTIONS={rd.nreac}", input=summ)
                return
        for m in re.finditer(r"\bkc\[(\d+)\]", t):
            if int(m.group(1)) >= rd.ncool:
                chk.violation({"kind": "subscript-out-of-range", "backend": b, "what": "kc"},
                              f"kc[{m.group(1)}] with NCOOLPROCS={rd.ncool}", input=summ)
                return
        for m in re.finditer(r"\by\[(\w+)\]", t):
            nm = m.group(1)
            if nm not in rd.idx or not (0 <= rd.idx[nm] < neq_decl):
                chk.violation({"kind": "subscript-out-of-range", "backend": b, "what": "y"},
                              f"y[{nm}] undefined or outside NEQUATIONS={neq_decl}", input=summ)
                return
    for slot in fx:
        if not (0 <= slot < neq_decl):
            chk.violation({"kind": "subscript-out-of-range", "backend": b, "what": "ydot"}, f"ydot slot {slot}", input=summ)
            return
    for idx, _, _ in rd.rates("k"):
        if idx >= rd.nreac:
            chk.violation({"kind": "subscript-out-of-range", "backend": b, "what": "k-assign"}, f"k[{idx}] assigned", input=summ)
            return
    # -- agreement across back-ends (once per network: when looking at the last back-end)
    if b == list(rds)[-1] and len(rds) > 1:
        ref_b = list(rds)[0]
        ref, _ = jac_entries(rds[ref_b])
        ws = cparse.token_text          # token by token: an entry wrapped inside a number or a name in one layout is another entry
        for ob, ord_ in rds.items():
            if ob == ref_b:
                continue
            oe, _ = jac_entries(ord_)
            if oe is None or ref is None:
                continue
            if set(oe) != set(ref):
                chk.violation({"kind": "layouts-differ", "backends": [ref_b, ob]},
                              f"{ref_b} and {ob} store different entry sets", input=summ,
                              only_first=sorted(set(ref) - set(oe))[:5], only_second=sorted(set(oe) - set(ref))[:5])
                return
            for rc in ref:
                if ws(ref[rc]) != ws(oe[rc]) and poly_of_text(ref[rc]) != poly_of_text(oe[rc]):
                    chk.violation({"kind": "layouts-differ", "backends": [ref_b, ob]},
                                  f"entry {rc} differs between {ref_b} and {ob}", input=summ,
                                  first=ref[rc], second=oe[rc])
                    return
            if ord_.nnz != rds[ref_b].nnz:
                chk.violation({"kind": "layouts-differ", "backends": [ref_b, ob]}, "NNZ differs", input=summ)
                return
    # -- NNZ and pattern
    if len(ents) != rd.nnz:
        chk.violation({"kind": "nnz-mismatch", "backend": b}, f"NNZ={rd.nnz} but {len(ents)} entries are assigned", input=summ)
        return
    if (rd.path / "jac_pattern.dat").exists():
        pat = rd.pattern()
        marked = {(r, c) for r, row in enumerate(pat) for c, v in enumerate(row) if v}
        if marked != set(ents) or len(pat) != neq_decl or any(len(row) != neq_decl for row in pat):
            chk.violation({"kind": "pattern-mismatch", "backend": b}, "jac_pattern.dat does not mark exactly the stored entries",
                          input=summ, only_pattern=sorted(marked - set(ents))[:5], only_stored=sorted(set(ents) - marked)[:5])


def oracle_c04(chk, case, net, rd, rds):
    from naunet.species import Species
    summ = case_summary(case)
    fx = polys_of_fex(rd)
    res, err = expected_fex(case, rd)
    if err:
        chk.violation({"kind": "slot", "backend": rd.backend, "msg": err}, err, input=summ)
        return
    exp, names = res
    spec = {}
    for r in case["reacs"]:
        for s in r.re + r.pr:
            spec[s.key] = s
    for s in case["required"]:
        spec[s.key] = s
    # every species' derivative is assigned by the function: the integrators hand over an output vector that is not cleared, so a
    # species without a statement (one that takes part in no reaction, say) keeps whatever the vector held and its element and charge
    # content is not conserved
    for k, s in spec.items():
        if rd.idx[names[k]] not in fx:
            chk.violation({"kind": "missing-equation", "backend": rd.backend, "species": names[k]},
                          f"the right-hand side has no statement for {names[k]} ({s.name}): its derivative is whatever the output vector "
                          f"held before the call, not 0", input=summ)
            return
    # ground truth weights
    elements = sorted({e for s in spec.values() for e, _ in s.comp})
    for el in elements + ["<charge>"]:
        tot = Poly()
        for k, s in spec.items():
            w = s.charge if el == "<charge>" else s.count(el)
            if w:
                tot = tot + Poly.const(w) * fx.get(rd.idx[names[k]], Poly())
        if tot:
            pt = witness_point(tot, chk.rng)
            chk.violation({"kind": "not-conserved", "backend": rd.backend, "weight": el},
                          f"{el}-weighted sum of derivatives is not identically zero", input=summ,
                          residual=tot.canon()[:6], point=pt)
            return
    # naunet's own view of composition must agree with the generator's (so that the weights used by
    # GetElementAbund are the right ones)
    for sp in net.species:
        mine = next((s for s in spec.values() if (s.kind == "electron" and sp.is_electron) or s.name == sp.name), None)
        if mine is None:
            chk.violation({"kind": "unknown-species", "backend": rd.backend}, f"network species {sp.name} not in ground truth", input=summ)
            return
        if mine.kind in ("gas", "ice"):
            if dict(sp.element_count) != dict(mine.comp) or sp.charge != mine.charge:
                chk.violation({"kind": "composition", "species": sp.name}, f"{sp.name}: naunet composition "
                              f"{dict(sp.element_count)}/{sp.charge} vs {dict(mine.comp)}/{mine.charge}", input=summ)
                return
    # GetElementAbund: count-weighted sum of abundances
    phys = None
    for cand in ("src/naunet_physics.cpp", "src/naunet_physics.cu"):
        if (rd.path / cand).exists():
            phys = (rd.path / cand).read_text()
    if phys is None:
        return
    body = cparse.function_body(phys, "GetElementAbund")
    found = {}
    for m in re.finditer(r"if\s*\(\s*elemidx\s*==\s*(IDX_ELEM_\w+)\s*\)\s*\{\s*return([^;]*);", body, re.S):
        found[m.group(1)] = poly_of_text(" ".join(m.group(2).split()))
    for en, p in found.items():
        el = en[len("IDX_ELEM_"):]
        want = Poly()
        for k, s in spec.items():
            c = s.count(el)
            if c:
                want = want + Poly.const(c) * Poly.atom(f"y[{names[k]}]")
        if el in ("GRAIN",):
            continue
        if p != want:
            chk.violation({"kind": "element-abund", "backend": rd.backend, "element": el},
                          f"GetElementAbund({en}) is not the count-weighted sum", input=summ, expected=want.canon(), observed=p.canon())
            return
    atoms_present = {dict(s.comp).popitem()[0] for s in spec.values()
                     if s.kind == "gas" and s.charge == 0 and len(s.comp) == 1 and s.comp[0][1] == 1 and not s.name.startswith(("o", "p"))}
    for el in atoms_present:
        if f"IDX_ELEM_{el}" not in found:
            chk.violation({"kind": "element-abund", "backend": rd.backend, "element": el}, f"no GetElementAbund branch for {el}", input=summ)
            return


def oracle_c13(chk, case, net, rd, rds):
    summ = case_summary(case)
    # unmodified reference rendering (same back-end), cached per case
    cache = case.setdefault("_ref", {})
    if rd.backend not in cache:
        ref_net = build_network(case, rd.path.parent / "ref-in", with_mods=False, with_ratemod=False)
        p = rd.path.parent / ("ref-" + rd.backend)
        render(ref_net, rd.backend, p)
        cache[rd.backend] = Rendered(p, rd.backend)
    ref = cache[rd.backend]
    ws = cparse.token_text      # the user's expression, token by token: wrapped between tokens if need be, never inside one
    # ---- rate modifier
    got = rd.rates("k")
    base = ref.rates("k")
    if [g[0] for g in got] != [x[0] for x in base]:
        chk.violation({"kind": "rate-statements", "backend": rd.backend}, "rate statements differ in number/order", input=summ)
        return
    indexed = case["indexed"]
    for pos, ((gi, grhs, gcond), (bi, brhs, bcond)) in enumerate(zip(got, base)):
        if not case["reacs"]:
            break
        key = case["reacs"][pos].idx if indexed else pos
        if key in case["ratemod"]:
            want = case["ratemod"][key]
            if ws(grhs) != ws(want) or gcond is not None:
                chk.violation({"kind": "override-missing", "backend": rd.backend},
                              f"k[{pos}] (index {key}) should be replaced by the modifier", input=summ,
                              expected=want, observed=[grhs, gcond])
                return
        elif (ws(grhs), ws(gcond)) != (ws(brhs), ws(bcond)):
            chk.violation({"kind": "override-spill", "backend": rd.backend},
                          f"k[{pos}] (index {key}) changed although no modifier targets it", input=summ,
                          expected=[brhs, bcond], observed=[grhs, gcond])
            return
    # ---- ODE modifier
    fx, fr = polys_of_fex(rd), polys_of_fex(ref)
    res, err = expected_fex(case, rd)
    if err:
        chk.violation({"kind": "slot", "backend": rd.backend, "msg": err}, err, input=summ)
        return
    exp, names = res
    add = {}
    for tgt, terms in case["mods"]:
        for fact, deps in terms:
            m = poly_of_text(f"({fact})")
            for d in deps:
                m = m * Poly.atom(f"y[{names[d.key]}]")
            add[rd.idx[names[tgt.key]]] = add.get(rd.idx[names[tgt.key]], Poly()) + m
    for slot in set(fx) | set(fr):
        d = fx.get(slot, Poly()) - fr.get(slot, Poly())
        if d != add.get(slot, Poly()):
            chk.violation({"kind": "odemod-differs", "backend": rd.backend},
                          f"equation {slot}: modified minus unmodified is not factor*prod(y) on the target only",
                          input=summ, expected=add.get(slot, Poly()).canon(), observed=d.canon())
            return


ORACLES = {"C01": oracle_c01, "C02": oracle_c02, "C03": oracle_c03, "C04": oracle_c04, "C13": oracle_c13}

if __name__ == "__main__":
    sys.exit(run(sys.argv[1], sys.argv[2:]))
