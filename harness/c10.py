"""C10: generated sources are self-contained (every symbol used is declared first, exactly once).

impl   : rendered sources of (format x grain model x back-end x thermal) combinations compiled with g++ -fsyntax-only
         against /verif/shim
model  : Lean `Sym.merge` / `Sym.firstUndeclared` on the registries of the network's own components
oracle : the compiler: any diagnostic is a violation (undeclared / redeclared names are classified)
"""
from __future__ import annotations

import re
import sys
from concurrent.futures import ThreadPoolExecutor
from pathlib import Path

from . import cbuild, netgen
from .common import Check, REPO, lean_driver, quiet_naunet, silenced, tier_and_seed
from .rendering import render

quiet_naunet()
MODULES = ["NaunetProps.C10"]
THEOREMS = ["Naunet.C10.firstUndeclared_none_iff", "Naunet.C10.merge_keys_nodup", "Naunet.C10.closed_combo_partial",
            "Naunet.C10.F13_witness", "Naunet.C10.F17_witness"]
RULE = ("networks of every input format (bundled test files and generated ones, mixtures) x grain model {none, hh93, hh93i, rr07, "
        "rr07x} x back-end {dense, sparse, rosenbrock4} x thermal processes x shielding tables; every rendered .cpp compiled with "
        "g++ -fsyntax-only against the SUNDIALS/Boost stand-ins; case = (network, grain model, back-end); non-trivial = compiled")

IDENT = re.compile(r"[A-Za-z_]\w*")
DATA = REPO / "tests" / "data"

UCL_ICE = """H,H,NAN,H2,NAN,NAN,NAN,1.0e-17,0.5,0.0,10,41000
H2,CRP,NAN,H,H,NAN,NAN,1.0e-1,0.0,0.0,10,41000
CO,FREEZE,NAN,#CO,NAN,NAN,NAN,1.0,0.0,0.0,10,41000
E-,FREEZE,NAN,NAN,NAN,NAN,NAN,1.0,0.0,0.0,10,41000
#CO,THERM,NAN,CO,NAN,NAN,NAN,1.0,0.0,0.0,10,41000
#CO,DESCR,NAN,CO,NAN,NAN,NAN,1.0,0.0,0.0,10,41000
#CO,DEUVCR,NAN,CO,NAN,NAN,NAN,1.0,0.0,0.0,10,41000
#CO,DESOH2,NAN,CO,NAN,NAN,NAN,1.0,0.0,0.0,10,41000
CO,PHOTON,NAN,C,O,NAN,NAN,2.0e-10,0.0,2.5,10,41000
C,O,NAN,CO,NAN,NAN,NAN,1.0e-17,0.0,0.0,10,41000
H+,E-,NAN,H,NAN,NAN,NAN,3.5e-12,-0.75,0.0,10,41000
"""
UCL_NOH2 = "C,O,NAN,CO,NAN,NAN,NAN,1.0e-17,0.0,0.0,10,41000\nCO,PHOTON,NAN,C,O,NAN,NAN,2.0e-10,0.0,2.5,10,41000\n"


def combos(chk, tier):
    d = chk.scratch / "inputs"
    d.mkdir(parents=True, exist_ok=True)
    (d / "ice.ucl").write_text(UCL_ICE)
    (d / "noh2.ucl").write_text(UCL_NOH2)
    (d / "ice-notherm.ucl").write_text("".join(l + "\n" for l in UCL_ICE.split("\n") if l and "THERM" not in l))
    ice_native = [netgen.native_line(netgen.AReac([netgen.mk([("C", 1), ("O", 1)])], [netgen.mk([("C", 1), ("O", 1)], ice=True)], idx=1)),
                  netgen.native_line(netgen.AReac([netgen.mk([("C", 1), ("O", 1)], ice=True)], [netgen.mk([("C", 1), ("O", 1)])], idx=2)),
                  netgen.native_line(netgen.AReac([netgen.mk([("H", 1)]), netgen.mk([("H", 1)])], [netgen.mk([("H", 2)])], idx=3))]
    (d / "ice.naunet").write_text("\n".join(ice_native) + "\n")
    kida_ice = (DATA / "minimal.kida").read_text()
    out = []
    E = dict(elements=["e", "E", "H", "D", "He", "C", "N", "O", "F", "Na", "Mg", "Al", "Si", "P", "S", "Cl", "Ar", "Ca", "Fe", "Ni"],
             pseudo_elements=["CR", "CRP", "XRAY", "Photon", "PHOTON", "CRPHOT", "X", "M", "p", "o", "m", "c-", "l-", r"\*", "g"])
    gas = [("kida", [DATA / "minimal.kida"], ["kida"]), ("umist", [DATA / "minimal.umist"], ["umist"]),
           ("krome", [DATA / "minimal.krome"], ["krome"]), ("leeds-gas", [DATA / "minimal.leeds"], ["leeds"]),
           ("mixture", [DATA / "minimal.kida", DATA / "minimal.umist", d / "ice.naunet"], ["kida", "umist", "naunet"])]
    for name, files, fmts in gas:
        for g in ["", "hh93", "rr07"] if tier == "quick" else ["", "hh93", "hh93i", "rr07", "rr07x"]:
            out.append((f"{name}+{g or 'nograin'}", files, fmts, g, {}, E))
    out.append(("primordial-krome+thermal", [DATA / "primordial.krome"], ["krome"], "",
                {"cooling": ["CIC_HI", "RC_HII", "CEC_HI"]}, dict(elements=["e", "E", "H", "D", "He"], pseudo_elements=["g"])))
    out.append(("native-ice+hh93", [d / "ice.naunet"], ["naunet"], "hh93", {}, E))
    out.append(("native-ice+hh93i", [d / "ice.naunet"], ["naunet"], "hh93i", {}, E))      # F13 witness
    out.append(("native-ice+rr07x", [d / "ice.naunet"], ["naunet"], "rr07x", {}, E))
    G = dict(E, species_kwargs={"grain_symbol": "GRAIN", "surface_prefix": "G", "bulk_prefix": "@"})
    (d / "clean.leeds").write_text("".join(l for l in (DATA / "rate12_HO.leeds").read_text().splitlines(True) if "*" not in l))
    for g in ["hh93", "hh93i"]:
        out.append((f"leeds-full+{g}", [DATA / "rate12_HO.leeds"], ["leeds"], g, {}, G))
        out.append((f"leeds-clean+{g}", [d / "clean.leeds"], ["leeds"], g, {}, G))
    out.append(("leeds-clean+hh93+tables", [d / "clean.leeds"], ["leeds"], "hh93",
                {"shielding": {"H2": "L96Table", "CO": "V09Table", "N2": "L13Table"}}, G))
    out.append(("leeds-full+hh93+tables", [DATA / "rate12_HO.leeds"], ["leeds"], "hh93",
                {"shielding": {"H2": "L96Table", "CO": "V09Table", "N2": "L13Table"}}, G))
    (d / "photo.leeds").write_text("\n".join([
        netgen.leeds_line(1, ["N2"], ["N", "N"], a=2.3e-10, c=3.9, rtype=4), netgen.leeds_line(2, ["CO"], ["C", "O"], a=2.0e-10, c=3.5, rtype=4),
        netgen.leeds_line(3, ["H2"], ["H", "H"], a=5.7e-11, c=4.2, rtype=4), netgen.leeds_line(4, ["H", "H"], ["H2"], a=1e-17, rtype=1),
        netgen.leeds_line(5, ["C", "O"], ["CO"], a=1e-17, rtype=1), netgen.leeds_line(6, ["N", "N"], ["N2"], a=1e-17, rtype=1)]) + "\n")
    # dust grains carried as explicit species (charge exchange with the grains): GRAIN0 / GRAIN- become network species,
    # and the neutral grain an element of the element tables
    (d / "grains.leeds").write_text("\n".join([
        netgen.leeds_line(1, ["HCO+", "GRAIN-"], ["H", "CO", "GRAIN0"], rtype=6), netgen.leeds_line(2, ["e-", "GRAIN0"], ["GRAIN-"], rtype=20),
        netgen.leeds_line(3, ["H", "H"], ["H2"]), netgen.leeds_line(4, ["CO"], ["GCO"], rtype=7), netgen.leeds_line(5, ["GCO"], ["CO"], rtype=8),
        netgen.leeds_line(6, ["H+", "GRAIN-"], ["H", "GRAIN0"], rtype=6), netgen.leeds_line(7, ["H", "CO"], ["HCO+", "e-"])]) + "\n")
    out.append(("leeds-grain-species+hh93", [d / "grains.leeds"], ["leeds"], "hh93", {}, G))
    out.append(("leeds-grain-species+hh93i", [d / "grains.leeds"], ["leeds"], "hh93i", {}, G))
    # the grains as species of the network (declared as extra species) under the models that otherwise take the grain density as a
    # parameter
    out.append(("uclchem-ice-grain-species+rr07", [d / "ice-notherm.ucl"], ["uclchem"], "rr07", {"required_species": ["GRAIN0", "GRAIN-"]}, E))
    out.append(("uclchem-ice-grain-species+rr07x", [d / "ice.ucl"], ["uclchem"], "rr07x", {"required_species": ["GRAIN0", "GRAIN-"]}, E))
    # the bundled Leeds network without the species whose names give illegal identifiers (known finding F9): everything else of
    # that network must compile with every hh93 variant
    (d / "legal.leeds").write_text("".join(l for l in (DATA / "rate12_HO.leeds").read_text().splitlines(True)
                                           if "*" not in l and "c-" not in l and "l-" not in l))
    for g in ["hh93", "hh93i"]:
        out.append((f"leeds-legal+{g}", [d / "legal.leeds"], ["leeds"], g, {}, G))
    out.append(("leeds-grain-species+nograin", [d / "grains.leeds"], ["leeds"], "", {}, G))
    out.append(("leeds-photo+nograin", [d / "photo.leeds"], ["leeds"], "", {}, G))
    # every combination of the shielding tables a project can select (the declarations of the tables live in one header, their
    # definitions and their users in two other files)
    for h2 in (None, "L96Table"):
        for co in (None, "V09Table", "VB88Table"):
            for n2 in (None, "L13Table"):
                tab = {k: v for k, v in (("H2", h2), ("CO", co), ("N2", n2)) if v}
                if tab:
                    out.append((f"tables:{h2 or '-'}/{co or '-'}/{n2 or '-'}", [d / "photo.leeds"], ["leeds"], "", {"shielding": tab}, G))
    out.append(("leeds-uclchem-mixture+nograin", [d / "photo.leeds", d / "ice-notherm.ucl"], ["leeds", "uclchem"], "", {}, E))
    out.append(("uclchem-leeds-mixture+rr07", [d / "ice-notherm.ucl", d / "photo.leeds"], ["uclchem", "leeds"], "rr07", {}, E))
    (d / "late.krome").write_text("@format:idx,R,R,R,P,P,P,P,Tmin,Tmax,rate\n1,H,E,,H+,E,E,,NONE,NONE,1.0d-10*Te\n"
                                  "@common:user_fsh,user_crate\n@var:ksca = 2.0d0*user_fsh\n"
                                  "2,H+,E,,H,,,,NONE,NONE,3.0d-12*ksca*invTe\n3,H,H,,H2,,,,NONE,NONE,user_crate*1.0d-17\n")
    (d / "first.krome").write_text("@format:idx,R,R,R,P,P,P,P,Tmin,Tmax,rate\n1,H,E,,H+,E,E,,NONE,NONE,1.0d-10*Te\n")
    (d / "second.krome").write_text("@common:user_av2\n@var:kdust = 1.0d-3*user_av2\n@format:idx,R,R,R,P,P,P,P,Tmin,Tmax,rate\n"
                                    "2,H,H,,H2,,,,NONE,NONE,kdust*1.0d-17\n")
    (d / "commons.krome").write_text("@common:user_crate,user_av2\n@common: user_fsh\n@common:user_tdust\n@var:kdust = 1.0d-3*user_av2\n"
                                     "@format:idx,R,R,R,P,P,P,P,Tmin,Tmax,rate\n1,H,E,,H+,E,E,,NONE,NONE,user_crate*1.0d-10*Te\n"
                                     "2,H+,E,,H,,,,NONE,NONE,3.0d-12*user_fsh*invTe\n3,H,H,,H2,,,,NONE,NONE,kdust*1.0d-17*sqrt(user_tdust)\n")
    # a header that assigns a variable twice, with a dependent variable in between (KROME executes the three lines in order)
    (d / "reassign.krome").write_text("@var:tscale = Tgas/1d2\n@var:fcorr = 1d0 + 0.5d0*tscale\n@var:tscale = Tgas/3d2\n"
                                      "@format:idx,R,R,R,P,P,P,P,Tmin,Tmax,rate\n1,H,E,,H+,E,E,,NONE,NONE,1.0d-10*fcorr\n"
                                      "2,H+,E,,H,,,,NONE,NONE,3.0d-12*tscale\n")
    # user variables whose right-hand sides call Fortran's double-precision intrinsics
    (d / "intrinsics.krome").write_text("@var:kboltz = dexp(-1.578d5/Tgas)\n@var:sq = dsqrt(Tgas)*1d-2\n@var:lg = dlog10(Tgas) + dlog(Tgas)\n"
                                        "@var:mx = dabs(Tgas - 3d2)\n"
                                        "@format:idx,R,R,R,P,P,P,P,Tmin,Tmax,rate\n1,H,E,,H+,E,E,,NONE,NONE,1.0d-10*kboltz\n"
                                        "2,H+,E,,H,,,,NONE,NONE,3.0d-12*dexp(-1d0/Tgas)*dsqrt(Tgas)/dlog(mx + lg + sq)\n")
    (d / "dexp-var.krome").write_text("@var:kboltz = dexp(-1.578d5/Tgas)\n"
                                      "@format:idx,R,R,R,P,P,P,P,Tmin,Tmax,rate\n1,H,E,,H+,E,E,,NONE,NONE,1.0d-10*kboltz\n"
                                      "2,H+,E,,H,,,,NONE,NONE,3.0d-12*dexp(-1d0/Tgas)\n")
    KE = dict(elements=["E", "H"], pseudo_elements=["g"])
    out.append(("krome-var-reassigned+nograin", [d / "reassign.krome"], ["krome"], "", {}, KE))
    out.append(("krome-dexp-in-var+nograin", [d / "dexp-var.krome"], ["krome"], "", {}, KE))
    # a header that spells out one of KROME's own temperature shortcuts in terms of another user variable
    (d / "shortcut.krome").write_text("@var:kbeV = 8.617343d-5\n@var:Te = Tgas*kbeV\n@var:invT = 1d0/Tgas\n"
                                      "@format:idx,R,R,R,P,P,P,P,Tmin,Tmax,rate\n1,H,E,,H+,E,E,,NONE,NONE,1.0d-10*Te*kbeV\n"
                                      "2,H+,E,,H,,,,NONE,NONE,3.0d-12*invTe*invT\n")
    out.append(("krome-shortcut-redefined+nograin", [d / "shortcut.krome"], ["krome"], "", {}, KE))
    # networks without hydrogen (the helper functions and the renormalisation refer to the H element only when there is one)
    from .c17 import native
    (d / "noh.naunet").write_text("\n".join([native(1, ["C", "O"], ["CO"]), native(2, ["C", "CR"], ["C+", "e-"], ty=101),
                                              native(3, ["C+", "e-"], ["C"], b=-0.6), native(4, ["CO", "CR"], ["C", "O"], ty=101)]) + "\n")
    (d / "heonly.naunet").write_text("\n".join([native(1, ["He", "CR"], ["He+", "e-"], ty=101), native(2, ["He+", "e-"], ["He"], b=-0.6)]) + "\n")
    # one species spelled two ways by two databases (the electron is `E` in KROME files, `e-` in KIDA / UMIST ones)
    (d / "el.krome").write_text("@format:idx,R,R,R,P,P,P,P,Tmin,Tmax,rate\n1,H,E,,H+,E,E,,NONE,NONE,1.0d-10*Te\n2,H+,E,,H,,,,NONE,NONE,3.0d-12*invTe\n")
    kl = lambda i, re_, pr_: (f"{''.join(f'{x:<11}' for x in re_ + [''] * (3 - len(re_)))} {''.join(f'{x:<11}' for x in pr_ + [''] * (5 - len(pr_)))} "
                              f"{1e-10:10.3e} {0.0:10.3e} {0.0:10.3e} 2.00e+00 0.00e+00 logn  1 {-9999:>6d} {9999:>6d} {3:>2d} {i:>5d} 1  1")
    (d / "el.kida").write_text("\n".join([kl(11, ["C+", "e-"], ["C"]), kl(12, ["C", "H+"], ["C+", "H"]), kl(13, ["H", "e-"], ["H+", "e-", "e-"])]) + "\n")
    out.append(("krome-kida-mixture+nograin", [d / "el.krome", d / "el.kida"], ["krome", "kida"], "", {}, E))
    out.append(("kida-krome-mixture+nograin", [d / "el.kida", d / "el.krome"], ["kida", "krome"], "", {}, E))
    out.append(("no-hydrogen+nograin", [d / "noh.naunet"], ["naunet"], "", {}, E))
    # modifiers written without a single blank, longer than a source line: the statement wrapper has nowhere to break them
    long_ = "2.5e3*zeta*pow(Tgas/300.0,0.5)*(1.0+1.0e+2/Tgas)*(1.0+2.0e+3*Tgas)*(1.0+1.0e+4*Tgas)/(1.0+3.0e+2*Tgas)*sqrt(1.0+4.0e+1/Tgas)"
    out.append(("long-blank-free-modifiers+nograin", [d / "noh.naunet"], ["naunet"], "",
                {"rate_modifier": {1: long_, 3: "1.5*" + long_},
                 "ode_modifier": {"C": {"factors": ["-1.0e-3*" + long_], "reactants": [["C"]]}}}, E))
    out.append(("helium-only+nograin", [d / "heonly.naunet"], ["naunet"], "", {}, E))
    out.append(("krome-d-intrinsics+nograin", [d / "intrinsics.krome"], ["krome"], "", {}, KE))
    out.append(("krome-late-directives+nograin", [d / "late.krome"], ["krome"], "", {}, KE))
    out.append(("krome-several-commons+nograin", [d / "commons.krome"], ["krome"], "", {}, KE))
    out.append(("krome-two-files+nograin", [d / "first.krome", d / "second.krome"], ["krome", "krome"], "", {}, KE))
    out.append(("uclchem-ice+rr07", [d / "ice-notherm.ucl"], ["uclchem"], "rr07", {}, E))
    out.append(("uclchem-ice+rr07x", [d / "ice.ucl"], ["uclchem"], "rr07x", {}, E))
    out.append(("uclchem-noH2+nograin", [d / "noh2.ucl"], ["uclchem"], "", {}, E))        # F17 witness
    out.append(("uclchem-minimal+nograin", [DATA / "minimal.ucl"], ["uclchem"], "", {}, E))
    return out


def registry_of(comp):
    rows = []
    for key, var in comp._symbols.items():
        val = var.value
        uses = sorted(set(IDENT.findall(val))) if isinstance(val, str) else []
        uses = [u for u in uses if not re.fullmatch(r"[eEdD]\d*", u)]
        rows.append([var.type.name, var.symbol, uses])
    return rows


def run(argv):
    from naunet.network import Network
    from naunet.species import Species
    tier, seed = tier_and_seed(argv)
    chk = Check("C10", tier, seed, MODULES, THEOREMS, RULE)
    chk.prove()
    backends = ["dense", "sparse", "rosenbrock4"]
    jobs, reqs, pend = [], [], []
    for label, files, fmts, gmodel, extra, E in combos(chk, tier):
        Species.reset()
        try:
            with silenced():
                net = Network(filelist=[str(f) for f in files], fileformats=fmts, grain_model=gmodel, **E, **extra)
        except Exception as e:
            chk.hist["refused:" + type(e).__name__] += 1
            chk.sample({"combo": label, "refused": f"{type(e).__name__}: {e}"[:200]}, limit=12)
            continue
        for b in (backends[:1] if label.startswith("tables:") and tier == "quick" else backends):
            path = chk.scratch / f"{label.replace('/', '_').replace(':', '_')}-{b}"
            try:
                render(net, b, path)
            except Exception as e:
                chk.hist[f"render-refused:{type(e).__name__}"] += 1
                chk.sample({"combo": label, "backend": b, "refused": f"{type(e).__name__}: {e}"[:160]})
                break
            jobs.append((label, b, path))
            chk.hist[f"grain:{gmodel or 'none'}"] += 1
        else:
            # model request for the EvalRates function of this network
            comps = [registry_of(r) for r in net.reactions] + [registry_of(g) for g in net.grains]
            names = [f"IDX_{s.alias}" for s in net.species] + [f"eb_{s.alias}" for s in net.species if s.is_surface]
            reqs.append({"cmd": "symverdict", "comps": comps, "net_names": names})
            pend.append(label)
    with ThreadPoolExecutor(8) as ex:
        results = list(ex.map(lambda j: cbuild.syntax_only(j[2]), jobs))
    compiled = {}
    for (label, b, path), bad in zip(jobs, results):
        chk.count((label, b), nontrivial=True)
        if not bad:
            compiled.setdefault(label, {})[b] = None
            continue
        fname, err = bad[0]
        und = re.findall(r"error: [‘'](\w+)[’'] was not declared in this scope", err)
        redecl = re.findall(r"error: (?:redeclaration|redefinition|conflicting declaration) of [‘'][^’']*?(\w+)[’']", err)
        first = und[0] if und else None
        illegal = sorted(set(re.findall(r"#define IDX_(\S*[^A-Za-z0-9_\s]\S*) \d+", err)))
        if illegal:
            compiled.setdefault(label, {})[b] = "other"
            chk.violation({"kind": "illegal-macro", "names": illegal}, f"{label} ({b}): index macros {illegal} are not identifiers; {fname} does not compile",
                          stderr=err[:600])
            continue
        compiled.setdefault(label, {})[b] = first or "other"
        if und:
            sig = {"kind": "undeclared", "name": first, "combo": label}
            what = f"{label} ({b}): {fname} uses `{first}` which is never declared"
        elif redecl:
            sig = {"kind": "redeclared", "name": redecl[0], "combo": label}
            what = f"{label} ({b}): {fname} declares `{redecl[0]}` twice"
        else:
            sig = {"kind": "compile-error", "combo": label, "file": fname}
            what = f"{label} ({b}): {fname} does not compile"
        chk.violation(sig, what, stderr=err[:1200])
    chk.sample({"combinations": [j[0] for j in jobs][:12]})
    if getattr(chk, "lean_ok", False) and reqs:
        try:
            answers = lean_driver(reqs)
        except Exception as e:
            chk.corr_break("driver", None, None, str(e)[:300])
            answers = []
        for label, ans in zip(pend, answers):
            got = compiled.get(label, {})
            impl = got.get("dense", got.get(next(iter(got), None))) if got else None
            model = ans["undeclared"]
            # the model speaks about naunet's registered names only
            if (model is None) != (impl is None) and not (model is None and impl == "other"):
                chk.corr_break("use-def", label, model, impl)
            elif model is not None and impl not in (model, "other"):
                chk.corr_break("use-def", label, model, impl)
            else:
                chk.traces += 1
    return chk.finish()


if __name__ == "__main__":
    sys.exit(run(sys.argv[1:]))
