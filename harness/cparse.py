"""A small reader for the C/C++ statement shapes naunet's templates emit.

Independent of the generator: it never imports naunet.  It provides
  * tokenize(text)            -> list of (kind, text)
  * parse_expr(text)          -> AST (nested tuples)
  * strip_comments(text)
  * assignments(text, lhs_re) -> [(lhs_text, rhs_text, start_offset)]
  * defines(text)             -> {name: value_text}
AST node shapes:
  ('num', text) ('id', name) ('idx', base, index) ('call', name, [args])
  ('neg', e) ('pos', e) ('not', e) ('bin', op, l, r) ('cond', c, a, b)
"""
from __future__ import annotations
import re

TOKEN_RE = re.compile(
    r"""
    (?P<ws>\s+)
  | (?P<num>(?:\d+\.\d*|\.\d+|\d+)(?:[eE][+-]?\d+)?)
  | (?P<id>[A-Za-z_][A-Za-z_0-9]*(?:->[A-Za-z_][A-Za-z_0-9]*)*)
  | (?P<op>>=|<=|==|!=|&&|\|\||[-+*/()\[\],?:<>!=])
  """,
    re.X,
)


class CParseError(Exception):
    pass


def tokenize(text: str):
    pos = 0
    out = []
    n = len(text)
    while pos < n:
        m = TOKEN_RE.match(text, pos)
        if not m:
            raise CParseError(f"bad character {text[pos]!r} at {pos} in {text[:80]!r}")
        pos = m.end()
        kind = m.lastgroup
        if kind == "ws":
            continue
        out.append((kind, m.group()))
    return out


class _Parser:
    def __init__(self, toks):
        self.t = toks
        self.i = 0

    def peek(self):
        return self.t[self.i] if self.i < len(self.t) else (None, None)

    def take(self, text=None):
        k, v = self.peek()
        if k is None or (text is not None and v != text):
            raise CParseError(f"expected {text!r}, got {v!r} at token {self.i}")
        self.i += 1
        return k, v

    # precedence: ?: < || < && < ==,!= < relational < additive < multiplicative < unary < postfix
    def expr(self):
        c = self.lor()
        if self.peek()[1] == "?":
            self.take("?")
            a = self.expr()
            self.take(":")
            b = self.expr()
            return ("cond", c, a, b)
        return c

    def _left(self, sub, ops):
        l = sub()
        while self.peek()[0] == "op" and self.peek()[1] in ops:
            op = self.take()[1]
            r = sub()
            l = ("bin", op, l, r)
        return l

    def lor(self):
        return self._left(self.land, ("||",))

    def land(self):
        return self._left(self.eq, ("&&",))

    def eq(self):
        return self._left(self.rel, ("==", "!="))

    def rel(self):
        return self._left(self.add, ("<", ">", "<=", ">="))

    def add(self):
        return self._left(self.mul, ("+", "-"))

    def mul(self):
        return self._left(self.unary, ("*", "/"))

    def unary(self):
        k, v = self.peek()
        if k == "op" and v in ("-", "+", "!"):
            self.take()
            e = self.unary()
            return ({"-": "neg", "+": "pos", "!": "not"}[v], e)
        return self.postfix()

    def postfix(self):
        k, v = self.peek()
        if k == "num":
            self.take()
            return ("num", v)
        if k == "id":
            self.take()
            e = ("id", v)
            while True:
                nk, nv = self.peek()
                if nv == "[":
                    self.take("[")
                    ix = self.expr()
                    self.take("]")
                    e = ("idx", e, ix)
                elif nv == "(" and e[0] == "id":
                    self.take("(")
                    args = []
                    if self.peek()[1] != ")":
                        args.append(self.expr())
                        while self.peek()[1] == ",":
                            self.take(",")
                            args.append(self.expr())
                    self.take(")")
                    e = ("call", e[1], args)
                else:
                    break
            return e
        if v == "(":
            self.take("(")
            e = self.expr()
            self.take(")")
            return e
        raise CParseError(f"unexpected token {v!r} at {self.i}")


def parse_expr(text: str):
    toks = tokenize(text)
    p = _Parser(toks)
    e = p.expr()
    if p.i != len(toks):
        raise CParseError(f"trailing tokens from {p.i}: {toks[p.i:p.i+5]} in {text[:120]!r}")
    return e


def strip_comments(text: str) -> str:
    text = re.sub(r"/\*.*?\*/", " ", text, flags=re.S)
    text = re.sub(r"//[^\n]*", " ", text)
    return text


def defines(text: str) -> dict:
    out = {}
    for m in re.finditer(r"^[ \t]*#define[ \t]+([A-Za-z_]\w*)[ \t]+([^\n]*?)[ \t]*$", text, re.M):
        out.setdefault(m.group(1), m.group(2))
    return out


def assignments(text: str, lhs_re: str):
    """All statements `LHS = RHS;` whose LHS matches lhs_re (a regex, anchored at a
    statement start: start of line or after `{` / `;`), RHS up to the next `;`."""
    text = strip_comments(text)
    pat = re.compile(r"(?:(?<=\n)|(?<=[{;])|^)[ \t]*(?:realtype[ \t]+)?(" + lhs_re + r")[ \t\n]*=(?!=)([^;]*);", re.S)
    return [(m.group(1), " ".join(m.group(2).split()), m.start()) for m in pat.finditer(text)]


def function_body(text: str, name: str) -> str:
    """Body text of the first definition `... name(...) { ... }` (brace matched)."""
    text = strip_comments(text)
    m = re.search(r"\b" + re.escape(name) + r"\s*\([^;{]*\)\s*\{", text)
    if not m:
        raise CParseError(f"function {name} not found")
    i = m.end()
    depth = 1
    while i < len(text) and depth:
        if text[i] == "{":
            depth += 1
        elif text[i] == "}":
            depth -= 1
        i += 1
    return text[m.end(): i - 1]


def guarded_assignments(text: str, lhs_re: str):
    """Statements `LHS = RHS;` together with the condition of the directly enclosing
    `if (COND) { ... }` when the statement is the only one in that block (the shape the rates
    template emits).  Returns [(lhs, rhs, cond_or_None)]."""
    text = strip_comments(text)
    out = []
    guarded_spans = []
    gpat = re.compile(r"if[ \t]*\(([^{};]*)\)[ \t\n]*\{[ \t\n]*(" + lhs_re + r")[ \t\n]*=(?!=)([^;]*);[ \t\n]*\}", re.S)
    for m in gpat.finditer(text):
        out.append((m.start(), m.group(2), " ".join(m.group(3).split()), " ".join(m.group(1).split())))
        guarded_spans.append((m.start(), m.end()))
    pat = re.compile(r"(?:(?<=\n)|(?<=[{;])|^)[ \t]*(" + lhs_re + r")[ \t\n]*=(?!=)([^;]*);", re.S)
    for m in pat.finditer(text):
        if any(a <= m.start() < b for a, b in guarded_spans):
            continue
        out.append((m.start(), m.group(1), " ".join(m.group(2).split()), None))
    out.sort()
    return [(l, r, c) for _, l, r, c in out]


def _balanced(text: str, i: int, open_ch: str, close_ch: str) -> int:
    """index just past the bracket that closes the one at text[i]"""
    depth = 0
    while i < len(text):
        if text[i] == open_ch:
            depth += 1
        elif text[i] == close_ch:
            depth -= 1
            if depth == 0:
                return i + 1
        i += 1
    raise CParseError("unbalanced bracket")


_block_ids = iter(range(1, 1 << 60))


def scalar_statements(text: str, guards=()):
    """[(guards, name, rhs_text)] for every `[type] name = rhs;` statement of a statement list (comments and preprocessor
    lines already removed), descending into `if (c) stmt`, `if (c) { … }` and `else` (guards = the conditions in force, an
    `else` branch carries "!(c)"; each guard is (condition text, block id): the condition is evaluated once per block, not once
    per statement).  Loops and other statements are skipped."""
    out = []
    i, n = 0, len(text)
    last_cond = None
    while i < n:
        while i < n and text[i] in " \t\n;":
            i += 1
        if i >= n:
            break
        m = re.compile(r"(if|for|while)\s*\(").match(text, i)
        e = re.compile(r"else\b").match(text, i)
        if m or e:
            if m:
                j = _balanced(text, m.end() - 1, "(", ")")
                cond = " ".join(text[m.end():j - 1].split())
                kind = m.group(1)
            else:
                j = e.end()
                cond = f"!({last_cond})"
                kind = "else"
            while j < n and text[j] in " \t\n":
                j += 1
            if j < n and text[j] == "{":
                k = _balanced(text, j, "{", "}")
                inner = text[j + 1:k - 1]
            else:
                k = j
                depth = 0
                while k < n and not (text[k] == ";" and depth == 0):
                    depth += text[k] in "({["
                    depth -= text[k] in ")}]"
                    k += 1
                k += 1
                inner = text[j:k]
            if kind in ("if", "else"):
                out += scalar_statements(inner, guards + ((cond, next(_block_ids)),))
                last_cond = cond if kind == "if" else None
            i = k
            continue
        if text[i] == "{":
            k = _balanced(text, i, "{", "}")
            out += scalar_statements(text[i + 1:k - 1], guards)
            i = k
            continue
        k = i
        depth = 0
        while k < n and not (text[k] == ";" and depth == 0):
            depth += text[k] in "({["
            depth -= text[k] in ")}]"
            k += 1
        stmt = " ".join(text[i:k].split())
        i = k + 1
        last_cond = None
        sm = re.fullmatch(r"(?:(?:const|static|unsigned)\s+)*(?:[A-Za-z_][\w:]*[\s\*&]+)?([A-Za-z_]\w*)\s*=(?!=)\s*(.*)", stmt, re.S)
        if sm:
            out.append((guards, sm.group(1), sm.group(2).strip()))
    return out


def token_text(text):
    """the text as the compiler tokenises it: tokens joined by one blank (None stays None).  Two spellings of one statement that
    differ in white space *between* tokens have the same token text; a statement broken inside a number or a name has not."""
    if text is None:
        return None
    return " ".join(t for _, t in tokenize(text))
