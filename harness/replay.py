"""./check <Cxx> --replay <file>: re-runs the property's check with the seed and tier recorded in the replay file
(all random choices derive from (property, seed), so the failing case is regenerated) and prints the recorded case."""
import json
import os
import sys


def run(pid, path):
    d = json.load(open(path))
    print(json.dumps({k: d[k] for k in d if k in ("property", "sig", "what", "input", "expected", "observed", "broken_proof_obligations")}, indent=1)[:4000])
    os.environ["VERIF_SEED"] = str(d.get("seed", 0))
    from . import run as runner
    sys.argv = ["check", pid, d.get("tier", "quick")]
    return runner.main()
