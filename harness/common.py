"""Shared machinery of the naunet checks: Lean build / audit / driver, evidence, known findings,
violation reporting.  Runs under /venv/bin/python (naunet importable, editable install -> /repo)."""
from __future__ import annotations

import contextlib
import io
import json
import logging
import os
import random
import re
import shutil
import subprocess
import sys
import tempfile
import time
from collections import Counter
from pathlib import Path

ROOT = Path(__file__).resolve().parent.parent
LEAN = ROOT / "lean"
REPO = Path(os.environ.get("NAUNET_REPO", "/repo"))
EVIDENCE = ROOT / "evidence"
REPLAYS = ROOT / "replays"
KNOWN_FILE = ROOT / "KNOWN_FINDINGS.json"
ALLOWED_AXIOMS = {"propext", "Classical.choice", "Quot.sound"}
FORBIDDEN_RE = re.compile(
    r"\bsorry\b|\badmit\b|^\s*axiom\s|native_decide|bv_decide|implemented_by|\bunsafe\s|maxHeartbeats\s+0"
)

TRUSTED_BASE = [
    "Lean 4.33 kernel; axioms limited to propext, Classical.choice, Quot.sound (audited with #print axioms on every run)",
    "no sorry/admit/own axioms/native_decide/bv_decide (grep on every run)",
    "correspondence check (differential testing model vs. /repo working tree on generated inputs)",
    "harness/cparse.py C-statement reader; Python float()/repr/str methods; Jinja2; tomlkit; lark; g++",
]


def quiet_naunet():
    """silence naunet's logging / tqdm"""
    logging.disable(logging.CRITICAL)
    os.environ.setdefault("TQDM_DISABLE", "1")


@contextlib.contextmanager
def silenced():
    with contextlib.redirect_stdout(io.StringIO()), contextlib.redirect_stderr(io.StringIO()):
        yield


# --------------------------------------------------------------------------- Lean side


def _run(cmd, cwd=None, inp=None, timeout=3000):
    return subprocess.run(cmd, cwd=cwd, input=inp, capture_output=True, text=True, timeout=timeout)


def gen_tables():
    """regenerate NaunetModel/Generated/Tables.lean from /repo (only rewritten when changed)"""
    r = _run([sys.executable, str(ROOT / "tools" / "gen_tables.py")], cwd=ROOT)
    return r.returncode == 0, (r.stdout + r.stderr)


def lean_build(modules):
    """lake build of the given modules; returns (ok, log, failed_modules)"""
    targets = [f"+{m}" for m in modules]
    r = _run(["lake", "build", *targets], cwd=LEAN, timeout=3600)
    log = r.stdout + r.stderr
    failed = re.findall(r"^- (\S+)", log, re.M)
    return r.returncode == 0, log, failed


def lean_forbidden():
    """grep the Lean sources for forbidden constructs outside comments"""
    hits = []
    for p in list(LEAN.glob("NaunetModel/**/*.lean")) + list(LEAN.glob("NaunetProps/**/*.lean")) + [LEAN / "Driver.lean"]:
        txt = p.read_text()
        txt = re.sub(r"/-.*?-/", lambda m: "\n" * m.group().count("\n"), txt, flags=re.S)
        for ln, line in enumerate(txt.split("\n"), 1):
            line = line.split("--")[0]
            if FORBIDDEN_RE.search(line):
                hits.append(f"{p.relative_to(LEAN)}:{ln}: {line.strip()}")
    return hits


def lean_audit(modules, theorems):
    """#print axioms for each theorem; returns {theorem: [axioms] | None when missing}"""
    src = "".join(f"import {m}\n" for m in modules) + "".join(f"#print axioms {t}\n" for t in theorems)
    with tempfile.NamedTemporaryFile("w", suffix=".lean", dir=LEAN, delete=False, prefix="Audit_") as f:
        f.write(src)
        path = f.name
    try:
        r = _run(["lake", "env", "lean", path], cwd=LEAN, timeout=1800)
    finally:
        os.unlink(path)
    out = r.stdout + r.stderr
    res = {}
    for t in theorems:
        m = re.search(r"'" + re.escape(t) + r"' depends on axioms: \[([^\]]*)\]", out, re.S)
        if m:
            res[t] = [a.strip() for a in m.group(1).replace("\n", " ").split(",") if a.strip()]
        elif re.search(r"'" + re.escape(t) + r"' does not depend on any axioms", out):
            res[t] = []
        else:
            res[t] = None
    return res, out


def lean_driver(requests, timeout=1800):
    """send JSON requests (dicts) through the Lean model driver; returns list of answers"""
    if not requests:
        return []
    inp = "\n".join(json.dumps(r, separators=(",", ":")) for r in requests) + "\n"
    r = _run(["lake", "env", "lean", "--run", "Driver.lean"], cwd=LEAN, inp=inp, timeout=timeout)
    lines = [l for l in r.stdout.split("\n") if l.strip()]
    if r.returncode != 0 or len(lines) != len(requests):
        raise RuntimeError(f"Lean driver failed (rc={r.returncode}, {len(lines)}/{len(requests)} answers): {r.stderr[-2000:]}")
    return [json.loads(l) for l in lines]


# --------------------------------------------------------------------------- findings


def load_known():
    if KNOWN_FILE.exists():
        return json.loads(KNOWN_FILE.read_text())["findings"]
    return []


def _match_value(pat, val):
    if isinstance(pat, dict) and "regex" in pat:
        return isinstance(val, str) and re.fullmatch(pat["regex"], val) is not None
    if isinstance(pat, dict) and "any_of" in pat:
        return val in pat["any_of"]
    if isinstance(pat, dict) and "all_match" in pat:
        return isinstance(val, list) and all(isinstance(v, str) and re.fullmatch(pat["all_match"], v) for v in val)
    if isinstance(pat, dict) and "subset_of" in pat:
        return isinstance(val, list) and set(val) <= set(pat["subset_of"])
    return pat == val


def finding_matches(finding, sig: dict) -> bool:
    m = finding.get("match", {})
    return all(k in sig and _match_value(v, sig[k]) for k, v in m.items())


# --------------------------------------------------------------------------- one check run


class Check:
    """Collects what one run of one property's check did and decides its outcome."""

    def __init__(self, pid: str, tier: str, seed: int, modules, theorems, rule: str, level_note=None):
        self.pid = pid
        self.tier = tier
        self.seed = seed
        self.rng = random.Random(f"{pid}-{seed}")
        self.modules = list(modules)
        self.theorems = list(theorems)
        self.rule = rule
        self.t0 = time.time()
        self.evaluations = 0
        self.distinct = set()
        self.samples = []
        self.hist = Counter()
        self.violations = []  # dicts: sig, what, input, expected, observed
        self.corr_breaks = []  # dicts: case, model, impl
        self.proof_breaks = []  # strings
        self.traces = 0
        self.extra = {}
        self.assumptions = list(TRUSTED_BASE)
        self.discharged = 0
        self.audit = {}
        self.scratch = Path(tempfile.mkdtemp(prefix=f"naunet-verif-{pid}-"))

    # ---- bookkeeping
    def count(self, key, nontrivial=True):
        """one evaluated case; key identifies the case for distinctness"""
        self.evaluations += 1
        if nontrivial:
            self.distinct.add(key if isinstance(key, (str, int, tuple)) else json.dumps(key, sort_keys=True, default=str))

    def sample(self, obj, limit=6):
        if len(self.samples) < limit:
            self.samples.append(obj)

    def violation(self, sig: dict, what: str, **details):
        self.violations.append({"sig": sig, "what": what, **details})

    def corr_break(self, stage: str, case, model, impl):
        self.corr_breaks.append({"stage": stage, "case": case, "model": model, "impl": impl})

    # ---- Lean
    def prove(self):
        """regenerate tables, build the property's modules, audit axioms"""
        ok, log = gen_tables()
        if not ok:
            self.proof_breaks.append("table extraction (tools/gen_tables.py) failed: " + log[-1500:])
        ok, log, failed = lean_build(["NaunetModel"] + self.modules)
        if not ok:
            errs = "\n".join(l for l in log.split("\n") if "error" in l)[:3000]
            self.proof_breaks.append(f"lake build failed for {failed or self.modules}: {errs}")
            self.lean_ok = False
            return False
        self.lean_ok = True
        hits = lean_forbidden()
        if hits:
            self.proof_breaks.append("forbidden constructs: " + "; ".join(hits[:10]))
        res, out = lean_audit(self.modules, self.theorems)
        self.audit = res
        for t, ax in res.items():
            if ax is None:
                self.proof_breaks.append(f"theorem {t} not found / not checked: {out[-500:]}")
            elif not set(ax) <= ALLOWED_AXIOMS:
                self.proof_breaks.append(f"theorem {t} uses axioms {ax}")
            else:
                self.discharged += 1
        if self.tier == "thorough":
            # independent re-check of the compiled proofs (Lean's stand-alone checker replays every declaration of the
            # property's modules through the kernel, without the elaborator)
            t0 = time.time()
            r = _run(["lake", "env", "leanchecker", *self.modules], cwd=LEAN, timeout=3000)
            self.extra["leanchecker"] = {"modules": list(self.modules), "rc": r.returncode, "seconds": round(time.time() - t0, 1)}
            if r.returncode != 0:
                self.proof_breaks.append("leanchecker rejects the compiled modules: " + (r.stdout + r.stderr)[-800:])
        return not self.proof_breaks

    # ---- outcome
    def finish(self) -> int:
        known = [f for f in load_known() if f["property"] == self.pid and f.get("status") == "finding"]
        REPLAYS.joinpath(self.pid).mkdir(parents=True, exist_ok=True)
        for old in REPLAYS.joinpath(self.pid).glob(f"{self.tier}-{self.seed}-*.json"):
            old.unlink()
        unknown = []
        reported_known = {}
        for v in self.violations:
            hit = next((f for f in known if finding_matches(f, v["sig"])), None)
            if hit:
                reported_known.setdefault(hit["id"], (hit, v))
            else:
                unknown.append(v)
        for fid, (f, v) in sorted(reported_known.items()):
            print(f"KNOWN-FINDING: property={self.pid} {fid} {f['what']} [e.g. {json.dumps(v['sig'], sort_keys=True)}]")
        rc = 0
        nviol = 0
        if unknown:
            # group by signature kind, report up to 5 distinct
            seen = set()
            for v in unknown:
                key = json.dumps(v["sig"], sort_keys=True, default=str)
                if key in seen:
                    continue
                seen.add(key)
                if len(seen) > 5:
                    break
                path = REPLAYS / self.pid / f"{self.tier}-{self.seed}-{len(seen)}.json"
                path.write_text(json.dumps({"property": self.pid, "seed": self.seed, "tier": self.tier, **v,
                                            "how_to_replay": f"./check {self.pid} --replay {path.relative_to(ROOT)}"},
                                           indent=1, default=str))
                print(f"VIOLATION property={self.pid} replay={path.relative_to(ROOT)}")
                nviol += 1
            rc = 1
        elif self.proof_breaks or self.corr_breaks:
            path = REPLAYS / self.pid / f"{self.tier}-{self.seed}-unproved.json"
            path.write_text(json.dumps({
                "property": self.pid, "seed": self.seed, "tier": self.tier,
                "no_failing_input_found": True,
                "broken_proof_obligations": self.proof_breaks,
                "broken_correspondence": self.corr_breaks[:5],
                "theorems": self.theorems,
                "note": "the proof or the model/implementation correspondence no longer checks; the "
                        "specification oracle found no input on which the implementation violates the property",
            }, indent=1, default=str))
            print(f"VIOLATION property={self.pid} replay={path.relative_to(ROOT)} no-failing-input-found")
            nviol = 1
            rc = 1
        self.write_evidence(nviol, sorted(reported_known))
        if not os.environ.get("VERIF_KEEP_SCRATCH"):
            shutil.rmtree(self.scratch, ignore_errors=True)
        return rc

    def write_evidence(self, nviol, known_ids):
        EVIDENCE.mkdir(exist_ok=True)
        cov = {
            "obligations": len(self.theorems),
            "discharged": self.discharged,
            "checker_cmd": "cd lean && lake build " + " ".join("+" + m for m in self.modules)
                           + " && lake env lean <Audit: #print axioms of every listed theorem>",
            "trusted_base": TRUSTED_BASE,
            "theorems": {t: self.audit.get(t) for t in self.theorems},
            "evaluations": self.evaluations,
            "distinct_nontrivial": len(self.distinct),
            "rule": self.rule,
            "samples": self.samples or ["(no generated cases in this run)"],
            "traces_validated_against_impl": self.traces,
            "distribution": {k: v for k, v in sorted(self.hist.items())},
            "correspondence_disagreements": len(self.corr_breaks),
            "known_findings_reproduced": known_ids,
            **self.extra,
        }
        ev = {
            "property_id": self.pid,
            "tier": self.tier,
            "seed": self.seed,
            "level": "proof",
            "coverage": cov,
            "assumptions": self.assumptions,
            "wall_s": round(time.time() - self.t0, 2),
            "violations": nviol,
        }
        (EVIDENCE / f"{self.pid}.json").write_text(json.dumps(ev, indent=1, default=str))


def tier_and_seed(argv):
    tier = argv[0] if argv else os.environ.get("VERIF_TIER", "quick")
    seed = int(os.environ.get("VERIF_SEED", "0"))
    return tier, seed
