"""C08 (species names -> composition, charge, phase) and C09 (one index per species, identifiers legal and consistent).

impl   : real naunet.species.Species / Network + rendered artefacts
model  : Lean `Sp.parse` and derived attributes through the driver
oracle : the composition the generator spelled (ground truth) / direct statement of the identifier properties
"""
from __future__ import annotations

import json
import keyword
import os
import re
import sys
from pathlib import Path

from . import cparse
from .common import Check, ROOT, lean_driver, quiet_naunet, silenced, tier_and_seed

quiet_naunet()

C08_THEOREMS = ["Naunet.C08.pair_table", "Naunet.C08.charge_plus", "Naunet.C08.charge_minus", "Naunet.C08.walk_covers",
                "Naunet.C08.longest_first_examples", "Naunet.C08.foreign_rejected_examples", "Naunet.C08.massNumber_additive"]
C09_THEOREMS = ["Naunet.C09.idx_bijective", "Naunet.C09.ident_legal_iff", "Naunet.C09.alias_shape", "Naunet.C09.artefacts_agree",
                "Naunet.C09.F9_witness", "Naunet.C09.F10_fixed", "Naunet.C09.alias_repl_default_identity", "Naunet.C09.aliasFull_default",
                "Naunet.C09.alias_upper_examples", "Naunet.C09.alias_upper_nodup"]
C08_RULE = ("names spelled from random compositions over the default element list and over an upper-case list with replacement "
            "(UCLCHEM style): 1-5 symbols with counts (none, 2-12), optional ortho/para-type label, surface prefix '#'/'G' with "
            "optional group, grain symbols with groups, 0-4 trailing charge signs; plus a malformed stream (foreign characters, "
            "leading digits). The oracle covers names whose symbol boundaries no longer symbol straddles; the model is compared "
            "on all names. case = one name; non-trivial = at least two symbols or a charge or a prefix")
C09_RULE = ("networks over naming conventions (multiply charged ions, ortho/para labels, surface species, grains with groups, "
            "excited species, both electron spellings, upper-case lists with replacement) rendered for dense / sparse / odeint + "
            "enzo patch + `naunet render` summary; case = one (network, artefact); non-trivial = network has >= 3 species")

DEFAULT_ELEMENTS = ["e", "E", "H", "D", "He", "C", "N", "O", "F", "Na", "Mg", "Al", "Si", "P", "S", "Cl", "Ar", "Ca", "Fe", "Ni"]
DEFAULT_PSEUDO = ["CR", "CRP", "XRAY", "Photon", "PHOTON", "CRPHOT", "X", "M", "p", "o", "m", "c-", "l-", r"\*", "g"]
UPPER_ELEMENTS = ["E", "H", "D", "HE", "C", "N", "O", "MG", "SI", "S", "CL"]
UPPER_PSEUDO = ["CR", "CRP", "PHOTON", "CRPHOT"]
UPPER_REPL = {"E": "e", "HE": "He", "MG": "Mg", "SI": "Si", "CL": "Cl"}
MASS = {"H": 1, "D": 2, "He": 4, "C": 12, "N": 14, "O": 16, "F": 19, "Na": 23, "Mg": 24, "Al": 27, "Si": 28, "P": 31, "S": 32,
        "Cl": 35, "Ar": 40, "Ca": 40, "Fe": 56, "Ni": 59}


def configure(cfg):
    from naunet.species import Species
    Species.reset()
    Species.set_known_elements(list(cfg["elements"]))
    Species.set_known_pseudoelements(list(cfg["pseudo"]))
    Species._replacement = dict(cfg["repl"])


CFGS = {
    "default": {"elements": DEFAULT_ELEMENTS, "pseudo": DEFAULT_PSEUDO, "repl": {}, "surface": "#", "grain": "GRAIN"},
    "default-G": {"elements": DEFAULT_ELEMENTS, "pseudo": DEFAULT_PSEUDO, "repl": {}, "surface": "G", "grain": "GRAIN"},
    "upper": {"elements": UPPER_ELEMENTS, "pseudo": UPPER_PSEUDO, "repl": UPPER_REPL, "surface": "#", "grain": "GRAIN"},
    # UCLCHEM-style upper-case symbols together with the Leeds surface prefix `G` and the third-body marker `M`: `MG` is magnesium
    "upper-G": {"elements": UPPER_ELEMENTS, "pseudo": UPPER_PSEUDO + ["M"], "repl": UPPER_REPL, "surface": "G", "grain": "GRAIN"},
    # an upper-case list whose replacement table covers some symbols only: the others are brought to standard case by the alias itself
    "upper-partial": {"elements": UPPER_ELEMENTS, "pseudo": UPPER_PSEUDO, "repl": {"E": "e", "HE": "He"}, "surface": "#", "grain": "GRAIN"},
    # isotopes as elements of their own: symbols that start with digits
    "isotopes": {"elements": DEFAULT_ELEMENTS + ["13C", "18O", "15N"], "pseudo": DEFAULT_PSEUDO, "repl": {}, "surface": "#", "grain": "GRAIN"},
    # a user list of elements and *no* pseudo-elements: the default labels (o, p, m, CR, X, ...) are not configured
    "elements-only": {"elements": ["e", "H", "D", "He", "C", "O", "Si"], "pseudo": [], "repl": {}, "surface": "#", "grain": "GRAIN"},
}


def gen_name(rng, cfgname):
    """(name, truth | None) – truth: dict(counts, charge, surface, gasname, mass, is_atom)"""
    cfg = CFGS[cfgname]
    atoms = [e for e in cfg["elements"] if e.upper() not in ("E",)]
    kind = rng.random()
    if kind < 0.05:
        sp = rng.choice(["e-", "E", "e", "E-"] if not cfgname.startswith("upper") else ["E", "E-"])
        return sp, None
    if kind < 0.10:
        g = rng.choice(["", "0", "1", "2"])
        ch = rng.choice(["", "-", "+", "--"])
        if g and ch:
            g = ""
        g = rng.choice([g, g, "3", "12"]) if not ch else g
        name = cfg["grain"] + g + ch
        q = (1 if ch == "+" else -len(ch)) if ch else 0
        return name, {"name": name, "counts": {cfg["grain"]: 1}, "charge": q, "surface": False, "gasname": name, "mass": 0,
                      "is_atom": q == 0}
    n = rng.choice([1, 1, 2, 2, 3, 3, 4, 5])
    toks = []
    for _ in range(n):
        el = rng.choice(atoms)
        cnt = rng.choice([1, 1, 1, 2, 2, 3, 4, 6, 10, 12])
        toks.append((el, cnt))
    label = rng.choice(["", "", "", "", "o", "p", "m", "c-", "l-"]) if "o" in cfg["pseudo"] else ""   # isomer labels contain a dash
    body = label + "".join(f"{e}{c if c > 1 else ''}" for e, c in toks)
    charge = rng.choice([0, 0, 0, 1, 1, -1, 2, 4, -2])
    ice = rng.random() < 0.25
    group = rng.choice(["", "", "2"]) if ice and not (label + toks[0][0])[0].isdigit() else ""   # "#213CO" would be ambiguous
    name = (cfg["surface"] + group if ice else "") + body + ("+" * charge if charge > 0 else "-" * (-charge))
    # ---- ground truth, valid only when no longer symbol straddles a token boundary
    symbols = cfg["elements"] + [p.replace("\\", "") for p in cfg["pseudo"]] + [cfg["surface"], cfg["grain"]]
    bounds = set()
    pos = len(cfg["surface"] + group) if ice else 0
    if ice:
        bounds.add(len(cfg["surface"]))
    bounds.add(pos)
    spans = [(pos, pos + len(label))] if label else []
    pos += len(label)
    bounds.add(pos)
    for e, c in toks:
        spans.append((pos, pos + len(e)))
        pos += len(e)
        bounds.add(pos)
        pos += len(str(c)) if c > 1 else 0
        bounds.add(pos)
    whole = name.rstrip("+-") if charge else name
    ok = True
    for s in symbols:
        if len(s) < 2:
            continue
        for m in re.finditer(re.escape(s), whole):
            if (m.start(), m.end()) not in spans and not (ice and m.start() == 0):
                ok = False
    if label and (label + toks[0][0]) in symbols:
        ok = False
    if ice and cfg["surface"] == "G" and any(s.startswith("G") for s in symbols if len(s) > 1):
        ok = ok and True
    if not ok:
        return name, None
    counts = {}
    for e, c in toks:
        key = cfg["repl"].get(e, e)
        counts[key] = counts.get(key, 0) + c
    renamed = (cfg["surface"] + group if ice else "") + label + "".join(f"{cfg['repl'].get(e, e)}{c if c > 1 else ''}" for e, c in toks) \
        + ("+" * charge if charge > 0 else "-" * (-charge))
    gas = renamed[len(cfg["surface"] + group):] if ice else renamed
    # (mass numbers are claimed for the symbols of naunet's own periodic / isotope tables only: a user symbol such as 13C
    #  has no mass naunet could know)
    mass = sum(MASS.get(e, 0) * c for e, c in counts.items()) if all(e in MASS for e in counts) else None
    truth = {"name": renamed, "counts": counts, "charge": charge, "surface": ice, "gasname": gas, "mass": mass,
             "is_atom": (len(counts) == 1 and sum(counts.values()) == 1 and charge == 0 and not ice)}
    return name, truth


def gen_malformed(rng, cfgname):
    cfg = CFGS[cfgname]
    base, _ = gen_name(rng, cfgname)
    if cfgname == "elements-only" and rng.random() < 0.5:
        # labels and markers of the *default* pseudo-element list are not symbols of this configuration
        return rng.choice(["oH2", "pH2+", "mH2", "CRP", "HeX", "XH", "CRPHOT", "oH2D+", "H2m", "pD2"])
    bad = rng.choice(["x", "q", "?", "(", "z", "y", "_", "%"])
    if cfgname.startswith("upper"):
        bad = rng.choice(["x", "?", "(", "a", "he"])
    body = base.rstrip("+-")
    k = rng.randint(0, len(body))
    how = rng.random()
    if how < 0.7:
        return body[:k] + bad + body[k:] + base[len(body):]
    return rng.choice(["2", "12", "0"]) + base


def impl_species(cfgname, name):
    from naunet.species import Species
    cfg = CFGS[cfgname]
    try:
        with silenced():
            s = Species(name, grain_symbol=cfg["grain"], surface_prefix=cfg["surface"])
            out = {"counts": dict(s.element_count), "surface": s.surface_group if s.is_surface else None,
                   "grain": s.grain_group if s.is_grain else None, "name": s.name, "charge": s.charge, "basename": s.basename,
                   "gasname": s.gasname, "alias": s.alias, "massnumber": int(s.massnumber), "massnumber_raw": s.massnumber,
                   "is_atom": s.is_atom, "is_electron": s.is_electron}
        return out
    except Exception as e:
        return {"error": type(e).__name__, "msg": str(e)[:120]}


def mass_table_check(chk):
    """mass numbers (protons + neutrons) of species over every tabulated isotope and a few heavy molecules: each table row counts,
    the last one of a file included"""
    from naunet.species import Species
    cfg = {"elements": DEFAULT_ELEMENTS + ["T", "He3"], "pseudo": DEFAULT_PSEUDO, "repl": {}}
    configure(cfg)
    want = {"D": 2, "T": 3, "He3": 3, "HD": 3, "HT": 4, "T2": 6, "He3+": 3, "He3H+": 4, "#He3": 3, "D2O": 20, "DT": 5, "Cl2": 70, "C60": 720,
            "C60-": 720, "CCl4": 152, "Mg2+": 48, "MgCl": 59, "SiCl+": 63, "Ni2": 118, "#S8": 256, "Fe2O3": 160, "NaCl": 58, "ArH+": 41, "CaF2": 78}
    for name, a in want.items():
        chk.count(("mass-table", name), nontrivial=True)
        try:
            with silenced():
                got = Species(name).massnumber
        except Exception as e:
            chk.violation({"kind": "valid-rejected", "cfg": "all-isotopes"}, f"name {name!r} was rejected: {e}", input=name)
            return
        if abs(got - a) > 1e-9:
            chk.violation({"kind": "misread", "cfg": "all-isotopes", "field": "mass number"},
                          f"name {name!r}: mass number read as {got!r}, it is {a} (protons + neutrons of every atom)", input=name)
            return


def run_c08(argv):
    tier, seed = tier_and_seed(argv)
    chk = Check("C08", tier, seed, ["NaunetProps.C08"], C08_THEOREMS, C08_RULE)
    chk.prove()
    rng = chk.rng
    nnames = 1500 if tier == "quick" else 20000
    for cfgname in CFGS:
        configure(CFGS[cfgname])
        names, truths = [], []
        for _ in range(nnames):
            if rng.random() < 0.12:
                names.append(gen_malformed(rng, cfgname))
                truths.append("malformed")
            else:
                n, t = gen_name(rng, cfgname)
                names.append(n)
                truths.append(t)
        # fixed corpus: the examples of the property statement
        corpus = ["Si", "He", "SiO", "HeH+", "Mg+", "MgH", "Fe+", "FeH", "oH2D+", "#CO", "c-C3H2", "l-C3H", "H2*", "CO2", "NaCl", "SiS"] \
            if cfgname == "default" else (["GCO", "GH2O", "GRAIN0", "GCH4"] if cfgname == "default-G" else
                                          (["HE+", "MGH", "SIO", "HCL", "#SIH4", "E-"] if cfgname == "upper" else
                                           (["13CO", "#13CO", "H213CO", "C18O", "#15N2", "13C+"] if cfgname == "isotopes" else
                                            (["MG", "MG+", "MGH", "GMG", "GSIO", "GHCL"] if cfgname == "upper-G" else ["SiO", "HeH+", "#CO", "D2"]))))
        names = corpus + names
        truths = [None] * len(corpus) + truths
        impl = [impl_species(cfgname, n) for n in names]
        for n, t, r in zip(names, truths, impl):
            chk.count((cfgname, n), nontrivial=len(n) > 2)
            chk.hist[f"cfg:{cfgname}"] += 1
            if t == "malformed":
                chk.hist["malformed"] += 1
                if "error" not in r:
                    # a malformed name may accidentally be well-formed (inserted letter forms a symbol); decide with the symbol set
                    cfg = CFGS[cfgname]
                    syms = cfg["elements"] + [p.replace("\\", "") for p in cfg["pseudo"]] + [cfg["surface"], cfg["grain"]]
                    chars = set("".join(syms)) | set("0123456789+-")
                    foreign = [c for c in n if c not in chars]
                    if foreign or n[0].isdigit():
                        chk.violation({"kind": "foreign-accepted", "cfg": cfgname},
                                      f"name {n!r} contains {foreign or 'a leading digit'} (no configured symbol, count or charge) but was accepted as {r['counts']}",
                                      input=n)
                continue
            if t is None:
                continue
            chk.hist["with-truth"] += 1
            if "error" in r:
                chk.violation({"kind": "valid-rejected", "cfg": cfgname}, f"name {n!r} spelled from {t['counts']} was rejected: {r['msg']}", input=n)
                continue
            bad = []
            if r["counts"] != t["counts"]:
                bad.append(("composition", r["counts"], t["counts"]))
            if r["charge"] != t["charge"]:
                bad.append(("charge", r["charge"], t["charge"]))
            if (r["surface"] is not None) != t["surface"]:
                bad.append(("phase", r["surface"], t["surface"]))
            if r["gasname"] != t["gasname"]:
                bad.append(("gas counterpart", r["gasname"], t["gasname"]))
            if r["name"] != t["name"]:
                bad.append(("renamed", r["name"], t["name"]))
            if t["mass"] is not None and abs(r["massnumber_raw"] - t["mass"]) > 1e-9:
                bad.append(("mass number", r["massnumber_raw"], t["mass"]))
            if r["is_atom"] != t["is_atom"]:
                bad.append(("is_atom", r["is_atom"], t["is_atom"]))
            if bad:
                chk.violation({"kind": "misread", "cfg": cfgname, "field": bad[0][0]},
                              f"name {n!r}: {bad[0][0]} read as {bad[0][1]!r}, spelled as {bad[0][2]!r}", input=n, all=bad)
        chk.sample({"cfg": cfgname, "names": names[len(corpus):len(corpus) + 8]})
        # ---- model correspondence
        if getattr(chk, "lean_ok", False):
            cfg = CFGS[cfgname]
            req = {"cmd": "species", "elements": cfg["elements"], "pseudo": cfg["pseudo"], "grain": cfg["grain"], "surface": cfg["surface"],
                   "repl": [[k, v] for k, v in cfg["repl"].items()], "names": names}
            try:
                ans = lean_driver([req])[0]
            except Exception as e:
                chk.corr_break("driver", None, None, str(e)[:300])
                ans = []
            for n, a, r in zip(names, ans, impl):
                if ("error" in a) != ("error" in r):
                    chk.corr_break("species-accept", {"cfg": cfgname, "name": n}, a, r)
                    continue
                if "error" in a:
                    chk.traces += 1
                    continue
                keys = ["surface", "grain", "name", "charge", "basename", "gasname", "massnumber", "is_atom", "is_electron"]
                keys.append("alias")          # (incl. the upper-case re-spelling modelled by `Sp.aliasFull`)
                mm = {k: a[k] for k in keys}
                mm["counts"] = {k: v for k, v in a["counts"]}
                ii = {k: r[k] for k in keys}
                ii["counts"] = r["counts"]
                if mm != ii:
                    chk.corr_break("species-attrs", {"cfg": cfgname, "name": n}, mm, ii)
                else:
                    chk.traces += 1
    mass_table_check(chk)
    return chk.finish()


# ------------------------------------------------------------------------------------------- C09

C_IDENT = re.compile(r"[A-Za-z_][A-Za-z_0-9]*\Z")

NETS = {
    "ions": (["H", "H+", "H-", "He", "He+", "He++", "Si", "Si+", "Si++++", "e-", "C", "C-", "C--", "O-", "O--"], "default"),
    "labels": (["oH2", "pH2", "oH2D+", "pH2D+", "mD3+", "H", "D", "e-", "H2"], "default"),
    "ice": (["CO", "#CO", "H2O", "#H2O", "#CH4", "CH4", "H", "#H", "GRAIN0", "GRAIN-", "e-"], "default"),
    "electron-twice": (["e-", "E", "H+", "H", "He+", "He"], "default"),
    "isotope-ice": (["CO", "13CO", "#CO", "#13CO", "C", "13C", "O", "18O", "C18O", "#C18O", "N2", "15N2", "#15N2", "e-"], "isotopes"),
    "electron-E": (["E", "H+", "H", "He+", "He", "H2", "H2+", "D", "HD"], "default"),          # the KROME spelling alone
    "electron-E-": (["E-", "H+", "H", "C+", "C", "CO"], "default"),
    "upper": (["HE", "HE+", "MG", "MG+", "SI", "SIO", "H", "E-", "CL", "HCL", "#SIO"], "upper"),
    "upper-partial": (["HE", "HE+", "MG", "MG+", "SI", "SIO", "H", "E-", "CL", "HCL"], "upper-partial"),
    "upper-ions": (["S", "S+", "S++", "SI", "SI+", "SIO", "H", "HE", "HE+", "E-", "C", "C+", "CL", "CL+", "MG", "MG+", "HS", "HS+", "CS"], "upper"),
    "excited": (["H2", "H2*", "H", "c-C3H2", "l-C3H", "C", "e-"], "default"),     # F9
    "grain-two-spellings": (["GRAIN", "GRAIN0", "GRAIN-", "H+", "H", "e-"], "default"),  # F10
    # a metastable atom next to its ground state (O(1D) spelled O*): one element O, not two
    "excited-atom": (["O", "O*", "H2", "OH", "H", "C", "C*", "e-"], "default"),     # identifiers: F9
    # a reduced depletion model: every molecule only freezes out and desorbs, so a gas species and its ice are connected to exactly
    # the same species - the connectivity key of the ordering ties and only the names decide
    "ice-pairs": (["H2O", "#H2O", "CO", "#CO", "CH4", "#CH4", "NH3", "#NH3", "N2", "#N2"], "default"),
}
EXPLICIT = {"ice-pairs": [([x], ["#" + x], 100) for x in ("H2O", "CO", "CH4", "NH3", "N2")]
            + [(["#" + x], [x], 100) for x in ("H2O", "CO", "CH4", "NH3", "N2")]}


RENDER_REFUSED_OK = set()      # fixed networks whose rendering is refused on the unchanged tree (filled in below, with the reason)


def build_net(spec_names, cfgname, rng, explicit=None, desc=None, force_mode=None):
    """`desc` (a dict) receives what a worker process needs to rebuild the same network"""
    from naunet.network import Network
    from naunet.reactions import Reaction
    from naunet.reactiontype import ReactionType as RT
    cfg = CFGS[cfgname]
    configure(cfg)
    from naunet import chemistrydata
    chemistrydata.user_binding_energy.clear()
    if cfgname == "isotopes":     # the table has no isotopic ices: the user supplies their binding energies
        chemistrydata.update_binding_energy({"#13CO": 1150.0, "#C18O": 1150.0, "#15N2": 790.0})
    names = list(spec_names)
    # some species take part in no reaction and enter as required species - at construction, or assigned later, possibly
    # after the species list has already been looked at
    held, mode = [], "none"
    if len(names) >= 4 and rng.random() < 0.5 and not explicit:
        k = rng.randint(1, 2)
        names, held = names[:-k], names[-k:]
        mode = rng.choice(["ctor", "late", "late-after-query"])
    if force_mode and len(names) >= 4 and not explicit and not held:
        names, held = names[:-1], names[-1:]
    if force_mode and held:
        mode = force_mode           # (three fixed networks always exercise one way each of declaring the extra species)
    raw = []
    for i in range(len(names)):
        a, b = names[i], names[(i + 1) % len(names)]
        raw.append(([a, rng.choice(names)], [b], int(RT.GAS_TWOBODY)))
    if explicit:
        raw = [(list(re_), list(pr_), t) for re_, pr_, t in explicit]
    rs = [Reaction(list(re_), list(pr_), alpha=1e-10, reaction_type=RT(t), idxfromfile=i + 1) for i, (re_, pr_, t) in enumerate(raw)]
    if held and (force_mode or rng.random() < 0.3):
        # the list of required species may also name a species that takes part in a reaction, or one species twice (a user who lists
        # all reactants of the cooling functions): still one slot per species
        held = list(held) + [names[0], held[0]]
    if desc is not None:
        desc.update({"cfg": cfgname, "required": list(held), "binding": dict(chemistrydata.user_binding_energy),
                     "reactions": [[re_, pr_, t] for re_, pr_, t in raw]})
    with silenced():
        net = Network(rs, elements=list(cfg["elements"]), pseudo_elements=list(cfg["pseudo"]),
                      required_species=list(held) if mode == "ctor" else None)
        if mode == "late-after-query":
            _ = [s.name for s in net.species], net.elements
        if mode.startswith("late"):
            net.required_species = list(held)
    return net


def run_c09(argv):
    from naunet.patches import EnzoPatch
    from .rendering import Rendered, render
    tier, seed = tier_and_seed(argv)
    chk = Check("C09", tier, seed, ["NaunetProps.C09"], C09_THEOREMS, C09_RULE)
    chk.prove()
    rng = chk.rng
    nets = dict(NETS)
    # random networks over generated names
    for k in range(3 if tier == "quick" else 25):
        cfgname = rng.choice(["default", "default", "upper"])
        configure(CFGS[cfgname])
        pool = []
        while len(pool) < rng.randint(4, 14):
            n, t = gen_name(rng, cfgname)
            if t is not None and not CFGS[cfgname]["grain"] in n and not t["surface"]:
                pool.append(n)
        if rng.random() < 0.7:
            pool.append(rng.choice(["e-", "E", "E-"] if cfgname != "upper" else ["E", "E-"]))
        nets[f"random{k}"] = (sorted(set(pool)), cfgname)
    descs = {}
    for label, (names, cfgname) in nets.items():
        try:
            descs[label] = {}
            net = build_net(names, cfgname, rng, explicit=EXPLICIT.get(label), desc=descs[label],
                            force_mode={"labels": "late-after-query", "ions": "late", "ice": "ctor"}.get(label))
        except Exception as e:
            descs.pop(label, None)
            chk.violation({"kind": "build-raised", "net": label}, f"building network {label} raised {e}")
            continue
        species = net.species
        descs[label]["order"] = [s.name for s in species]
        # species identity: the networks keep species in sets and dicts and look them up with list.index - two names denote one
        # species exactly when they are spellings of it, and equal species hash alike
        if label in NETS:
            from naunet.species import Species
            with silenced():
                objs = [(nm, Species(nm)) for nm in names]
            for i, (na, a) in enumerate(objs):
                for nb, b in objs[i + 1:]:
                    same = canon(na) == canon(nb)
                    chk.count(("identity", label, na, nb), nontrivial=True)
                    if (a == b) != same or (a == b and hash(a) != hash(b)):
                        chk.violation({"kind": "species-identity", "names": sorted([na, nb])},
                                      f"`{na}` and `{nb}`: == is {a == b}, they are {'one species' if same else 'different species'}, hashes "
                                      f"{'agree' if hash(a) == hash(b) else 'differ'} (an index macro and an equation per distinct species: "
                                      f"list.index and set membership have to agree with that)", input={"network": label, "names": [na, nb]})
                        break
                else:
                    continue
                break
        distinct = []
        for s in species:
            if not any(s == d for d in distinct):
                distinct.append(s)
        chk.hist[f"net:{label.rstrip('0123456789')}"] += 1
        backends = ["dense", "rosenbrock4"] if tier == "quick" else ["dense", "sparse", "rosenbrock4"]
        ref_alias = None
        for b in backends:
            path = chk.scratch / f"{label}-{b}"
            try:
                render(net, b, path)
            except Exception as e:
                chk.hist["render-refused:" + type(e).__name__] += 1
                chk.hist[f"render-refused-net:{label.rstrip('0123456789')}"] += 1
                if label in NETS and label not in RENDER_REFUSED_OK:
                    # the fixed networks consist of well-formed, distinct species: refusing one of them is not "rejecting a
                    # malformed name", it means two of its species could not be told apart or an identifier could not be formed
                    chk.violation({"kind": "valid-network-refused", "net": label, "error": type(e).__name__},
                                  f"rendering the well-formed network {label} raised {type(e).__name__}: {e}",
                                  input={"network": label, "species": names})
                break
            rd = Rendered(path, b)
            chk.count((label, b), nontrivial=len(names) >= 3)
            idx_lines = [(n, v) for n, v in rd.idx_lines if not n.startswith("IDX_ELEM_") and n != "IDX_TGAS"]
            show = {"network": label, "species": [s.name for s in species], "macros": idx_lines[:20], "backend": b}
            # one slot per species
            n_expected = len({canon(s) for s in names})
            if rd.nspec != n_expected or len(idx_lines) != n_expected:
                chk.violation({"kind": "slot-count", "net": label if not label.startswith("random") else "random"},
                              f"{n_expected} distinct species but NSPECIES={rd.nspec} with {len(idx_lines)} index macros", input=show)
                break
            vals = [int(v) for _, v in idx_lines]
            if vals != list(range(len(vals))):
                chk.violation({"kind": "not-onto", "net": label}, f"index macros are not 0..NSPECIES-1 in order: {vals}", input=show)
                break
            # elements: one index each, 0..NELEMENTS-1, no identifier twice (before the identifier checks: a network whose species
            # identifiers are a known finding still has to number its elements properly)
            elem_first = [(n, int(v)) for n, v in rd.idx_lines if n.startswith("IDX_ELEM_")]
            if [v for _, v in elem_first] != list(range(rd.nelem)) or len({n for n, _ in elem_first}) != len(elem_first):
                chk.violation({"kind": "elements-not-bijective", "net": label}, f"element macros {elem_first} vs NELEMENTS={rd.nelem}", input=show)
                break
            idents = [n for n, _ in idx_lines]
            illegal = [n for n in idents if not C_IDENT.match(n)]
            if illegal:
                chk.violation({"kind": "illegal-identifier", "names": sorted(x[4:] for x in illegal)},
                              f"generated identifiers are not legal C/Python identifiers: {illegal}", input=show)
                break
            if len(set(idents)) != len(idents):
                dup = sorted({n for n in idents if idents.count(n) > 1})
                chk.violation({"kind": "duplicate-identifier", "net": label}, f"two species share the identifier(s) {dup}", input=show)
                break
            # python constants module
            py = (path / "python" / "pynaunet_model" / "constant_indexes.py").read_text() if (path / "python" / "pynaunet_model" / "constant_indexes.py").exists() else None
            if py is not None:
                pyl = [(m.group(1), int(m.group(2))) for m in re.finditer(r"^(IDX_(?!ELEM_)\S+)\s*=\s*(\d+)\s*$", py, re.M)]
                if pyl != [(n, int(v)) for n, v in idx_lines]:
                    chk.violation({"kind": "artefacts-differ", "pair": "macros/python"}, "C macros and Python constants disagree", input=show, python=pyl[:20])
                    break
                # the element indices too: one name per slot in every artefact
                pel = [(m.group(1), int(m.group(2))) for m in re.finditer(r"^(IDX_ELEM_\S+)\s*=\s*(\d+)\s*$", py, re.M)]
                cel = [(n, int(v)) for n, v in rd.idx_lines if n.startswith("IDX_ELEM_")]
                if pel != cel:
                    chk.violation({"kind": "artefacts-differ", "pair": "element-macros/python"},
                                  "element index macros of the C header and the Python constants disagree", input=show,
                                  python=pel[:12], c_header=cel[:12])
                    break
                try:
                    compile(py, "constant_indexes.py", "exec")
                except SyntaxError as e:
                    chk.violation({"kind": "python-syntax", "net": label}, f"constant_indexes.py is not valid Python: {e}", input=show)
                    break
            # the second Python module: counts and name lists of the same network
            cpath = path / "python" / "pynaunet_model" / "constants.py"
            if cpath.exists():
                ns = {}
                try:
                    exec(compile(cpath.read_text(), "constants.py", "exec"), ns)
                except Exception as e:
                    chk.violation({"kind": "python-syntax", "net": label}, f"constants.py does not run: {e}", input=show)
                    break
                bad = None
                if ns.get("NSPEC") != rd.nspec:
                    bad = f"NSPEC = {ns.get('NSPEC')} but the C header has NSPECIES = {rd.nspec}"
                elif ns.get("NELEM") != rd.nelem:
                    bad = f"NELEM = {ns.get('NELEM')} but NELEMENTS = {rd.nelem}"
                elif ns.get("NREAC") != len(net.reaction_list):
                    bad = f"NREAC = {ns.get('NREAC')} for {len(net.reaction_list)} reactions"
                elif ["IDX_" + a for a in ns.get("ALL_ALIAS", [])] != idents:
                    bad = "ALL_ALIAS is not the list of index macros, in order"
                elif len(ns.get("ALL_SPECIES", [])) != rd.nspec or ns.get("NGAS", 0) + ns.get("NICE", 0) != rd.nspec:
                    bad = f"ALL_SPECIES / NGAS + NICE = {len(ns.get('ALL_SPECIES', []))} / {ns.get('NGAS')} + {ns.get('NICE')} for {rd.nspec} species"
                elif sorted(ns.get("ALL_GAS_SPECIES", []) + ns.get("ALL_ICE_SPECIES", [])) != sorted(ns.get("ALL_SPECIES", [])):
                    bad = "gas and ice lists do not partition the species list"
                elif bool(ns.get("HAS_THERMAL")) != rd.thermal:
                    bad = f"HAS_THERMAL = {ns.get('HAS_THERMAL')}"
                if bad:
                    chk.violation({"kind": "artefacts-differ", "pair": "macros/python-constants"},
                                  f"pynaunet_model/constants.py disagrees with the C header: {bad} (the Python drivers size y[] with NSPEC "
                                  f"and put the temperature at y[NSPEC])", input=show)
                    break
            elem_lines = [(n, int(v)) for n, v in rd.idx_lines if n.startswith("IDX_ELEM_")]
            if [v for _, v in elem_lines] != list(range(rd.nelem)) or len({n for n, _ in elem_lines}) != len(elem_lines):
                chk.violation({"kind": "elements-not-bijective", "net": label}, f"element macros {elem_lines} vs NELEMENTS={rd.nelem}", input=show)
                break
            if ref_alias is None:
                ref_alias = idents
                descs[label]["idents"] = list(idents)
            elif ref_alias != idents:
                chk.violation({"kind": "artefacts-differ", "pair": "backends"}, "index macros differ between back-ends", input=show)
                break
        else:
            # enzo patch table + render-command summary
            try:
                pdir = chk.scratch / f"{label}-enzo"
                with silenced():
                    EnzoPatch("cpu").render(net, templates=["naunet_enzo.h.j2"], path=pdir)
                txt = (pdir / "naunet_enzo.h").read_text()
                amac = re.findall(r"^#define A_(\S+)\s", txt, re.M)
                if ref_alias is not None and ["IDX_" + a for a in amac] != ref_alias:
                    chk.violation({"kind": "artefacts-differ", "pair": "macros/enzo"}, "per-species table of the enzo patch lists other species/order",
                                  input={"network": label, "enzo": amac[:20], "macros": ref_alias[:20]})
                # the field count of the patch: every species of the network or of Grackle once, minus the electron
                m = re.search(r"^#define ENZO_NSPECIES\s+(-?\d+)", txt, re.M)
                union = {canon(sp.name) for sp in species} | {canon(x) for x in EnzoPatch.grackle_species_name}
                if m and int(m.group(1)) != len(union) - 1:
                    chk.violation({"kind": "enzo-field-count", "net": label if not label.startswith("random") else "random"},
                                  f"ENZO_NSPECIES = {m.group(1)}, but the network and Grackle together have {len(union)} distinct species "
                                  f"(one of them the electron)", input={"network": label, "species": [sp.name for sp in species]})
                chk.count((label, "enzo"), nontrivial=True)
            except Exception as e:
                chk.hist["enzo-refused:" + type(e).__name__] += 1
            summary_check(chk, label, names, cfgname, ref_alias)
        if label in ("ions", "upper"):
            chk.sample({"network": label, "macros": ref_alias})
    cross_process_order(chk, descs, tier)
    reexport_summary_check(chk, rng)
    model_c09(chk, nets)
    return chk.finish()


def cross_process_order(chk, descs, tier):
    """`naunet render`, `naunet render --patch enzo` and any later re-render are separate interpreter processes: the index macros
    of one and the per-species table of the other agree only if `Network.species` does not depend on the process (string hashes
    are salted per process).  Every network is rebuilt in worker processes with different PYTHONHASHSEED values."""
    import subprocess
    from concurrent.futures import ThreadPoolExecutor
    labels = [l for l in descs if "reactions" in descs[l]]
    if not labels:
        return
    inp = "".join(json.dumps({k: descs[l][k] for k in ("cfg", "required", "binding", "reactions")}) + "\n" for l in labels)
    seeds = ["1", "2", "3"] if tier == "quick" else [str(k) for k in range(1, 13)]

    def one(hs):
        r = subprocess.run([sys.executable, str(ROOT / "harness" / "c09_worker.py")], input=inp, capture_output=True, text=True,
                           env={**os.environ, "PYTHONHASHSEED": hs}, timeout=900)
        return hs, r

    with ThreadPoolExecutor(len(seeds)) as ex:
        for hs, r in ex.map(one, seeds):
            lines = r.stdout.strip().split("\n")
            if r.returncode != 0 or len(lines) != len(labels):
                chk.corr_break("c09-worker", None, None, f"rc={r.returncode} {r.stderr[-300:]}")
                continue
            for l, line in zip(labels, lines):
                got = json.loads(line)
                chk.hist["cross-process-orders"] += 1
                if got.get("enzo") is not None and descs[l].get("idents") and ["IDX_" + a for a in got["enzo"]] != descs[l]["idents"]:
                    chk.violation({"kind": "artefacts-differ", "pair": "macros/enzo-other-process"},
                                  f"network {l}: the per-species table of the enzo patch rendered in a process of its own (`naunet render "
                                  f"--patch enzo`) names {got['enzo'][:8]}…, the index macros of the library are {descs[l]['idents'][:8]}…",
                                  input={"network": l, "reactions": descs[l]["reactions"][:8]})
                    break
                if got.get("species") != descs[l]["order"]:
                    chk.violation({"kind": "order-depends-on-process", "net": l if not l.startswith("random") else "random"},
                                  f"network {l}: a second interpreter process (PYTHONHASHSEED={hs}) orders the species differently, so "
                                  f"artefacts rendered by separate commands (index macros, enzo table, summary) disagree",
                                  input={"network": l, "reactions": descs[l]["reactions"][:12], "required": descs[l]["required"]},
                                  this_process=descs[l]["order"], other_process=got.get("species") or got)
                    break


def canon(name):
    if name.upper() in ("E", "E-"):
        return "<electron>"
    if name in ("GRAIN", "GRAIN0"):
        return "<grain0>"
    return name


def summary_check(chk, label, names, cfgname, ref_alias):
    """`naunet render` writes [summary] into the configuration file: must list the same species / aliases"""
    import tomlkit
    from cleo.testers.command_tester import CommandTester
    from naunet.console.application import Application
    from .c17 import make_cli_project, native
    cfg = CFGS[cfgname]
    lines = []
    for i in range(len(names)):
        lines.append(native(i + 1, [names[i], names[(i + 2) % len(names)]], [names[(i + 1) % len(names)]]))
    desc = {"elements": cfg["elements"], "pseudo": cfg["pseudo"], "kwargs": {}, "files": [["\n".join(lines) + "\n", "naunet"]]}
    d = chk.scratch / f"{label}-cli"
    make_cli_project(d, desc, "proj")
    doc = tomlkit.loads((d / "naunet_config.toml").read_text())
    doc["chemistry"]["element"]["replacement"] = dict(cfg["repl"])
    (d / "naunet_config.toml").write_text(tomlkit.dumps(doc))
    cwd = os.getcwd()
    os.chdir(d)
    try:
        with silenced():
            CommandTester(Application().find("render")).execute("--force")
    except Exception as e:
        chk.hist["cli-refused:" + type(e).__name__] += 1
        return
    finally:
        os.chdir(cwd)
    doc = tomlkit.loads((d / "naunet_config.toml").read_text())
    summ = doc["summary"]
    mac = cparse.defines((d / "include" / "naunet_macros.h").read_text())
    idx = [k for k in mac if k.startswith("IDX_") and not k.startswith("IDX_ELEM_") and k != "IDX_TGAS"]
    chk.count((label, "summary"), nontrivial=True)
    if ["IDX_" + a for a in summ["list_of_species_alias"]] != idx or summ["num_of_species"] != len(idx) or \
            len(summ["list_of_species"]) != len(idx) or summ["num_of_elements"] != int(mac["NELEMENTS"]):
        chk.violation({"kind": "artefacts-differ", "pair": "macros/summary"}, "project summary and index macros disagree",
                      input={"network": label, "summary_alias": list(summ["list_of_species_alias"])[:20], "macros": idx[:20]})
        return
    # slot by slot the two lists of the summary name the same species (notebooks label result columns with list_of_species)
    from naunet.species import Species
    configure(cfg)
    by_alias = {}
    for nm in names:
        try:
            sp = Species(nm)
            by_alias[sp.alias] = sp.name
        except Exception:
            return
    got = list(summ["list_of_species"])
    want = [by_alias.get(a) for a in summ["list_of_species_alias"]]
    if None not in want and [canon(x) for x in got] != [canon(x) for x in want]:
        k = next(i for i, (g, w) in enumerate(zip(got, want)) if canon(g) != canon(w))
        chk.violation({"kind": "artefacts-differ", "pair": "summary-names/summary-aliases"},
                      f"[summary] slot {k}: list_of_species has {got[k]!r}, list_of_species_alias has {summ['list_of_species_alias'][k]!r} "
                      f"(= {want[k]!r})", input={"network": label, "list_of_species": got[:20], "list_of_species_alias": list(summ["list_of_species_alias"])[:20]})


def reexport_summary_check(chk, rng):
    """`Network.export` writes sources, network file *and* the project configuration with its [summary]: exporting an edited
    network again into the same project directory has to leave a summary that describes the edited network - the same counts and
    the same slot order as the index macros written next to it."""
    import tomlkit
    from naunet.network import Network
    from naunet.reactions import Reaction
    from naunet.reactiontype import ReactionType as RT
    configure(CFGS["default"])
    R = lambda re_, pr_, i: Reaction(re_, pr_, alpha=1e-10, reaction_type=RT.GAS_TWOBODY, idxfromfile=i)
    d = chk.scratch / "reexport"
    d.mkdir(parents=True, exist_ok=True)
    try:
        with silenced():
            net = Network([R(["H", "H"], ["H2"], 1), R(["H2", "O"], ["OH", "H"], 2), R(["OH", "H"], ["H2O"], 3)],
                          elements=list(DEFAULT_ELEMENTS), pseudo_elements=list(DEFAULT_PSEUDO))
            net.export("proj", solver="cvode", method="dense", device="cpu", prefix=str(d), overwrite=True)
            net.add_reaction(R(["C", "O"], ["CO"], 4))
            net.add_reaction(R(["CO", "OH"], ["CO2", "H"], 5))
            net.export("proj", solver="cvode", method="dense", device="cpu", prefix=str(d), overwrite=True)
    except Exception as e:
        chk.hist["reexport-refused:" + type(e).__name__] += 1
        return
    chk.count(("reexport-summary",), nontrivial=True)
    chk.hist["reexport-summary"] += 1
    summ = tomlkit.loads((d / "proj" / "naunet_config.toml").read_text())["summary"]
    mac = cparse.defines((d / "proj" / "include" / "naunet_macros.h").read_text())
    idx = [k for k in mac if k.startswith("IDX_") and not k.startswith("IDX_ELEM_") and k != "IDX_TGAS"]
    if ["IDX_" + a for a in summ["list_of_species_alias"]] != idx or summ["num_of_species"] != len(idx) or \
            summ["num_of_reactions"] != int(mac["NREACTIONS"]) or summ["num_of_elements"] != int(mac["NELEMENTS"]):
        chk.violation({"kind": "artefacts-differ", "pair": "macros/summary-after-re-export"},
                      f"after export, two more reactions and a second export into the same directory the [summary] says "
                      f"{summ['num_of_species']} species / {summ['num_of_reactions']} reactions, the index macros written next to it "
                      f"{len(idx)} / {mac['NREACTIONS']}", input={"sequence": "export, add_reaction x2, export(overwrite=True)"},
                      summary_alias=list(summ["list_of_species_alias"]), macros=idx)


def model_c09(chk, nets):
    """the model's alias for every species of every network equals the implementation's (upper-case lists included)"""
    if not getattr(chk, "lean_ok", False):
        return
    from naunet.species import Species
    reqs, want = [], []
    for label, (names, cfgname) in nets.items():
        cfg = CFGS[cfgname]
        configure(cfg)
        reqs.append({"cmd": "species", "elements": cfg["elements"], "pseudo": cfg["pseudo"], "grain": cfg["grain"], "surface": cfg["surface"],
                     "repl": [[k, v] for k, v in cfg["repl"].items()], "names": list(names)})
        with silenced():
            want.append([Species(n).alias for n in names])
    try:
        ans = lean_driver(reqs)
    except Exception as e:
        chk.corr_break("driver", None, None, str(e)[:300])
        return
    for r, a, w in zip(reqs, ans, want):
        got = [x.get("alias") for x in a]
        if got != w:
            chk.corr_break("alias", r["names"], got, w)
        else:
            chk.traces += 1


if __name__ == "__main__":
    sys.exit({"C08": run_c08, "C09": run_c09}[sys.argv[1]](sys.argv[2:]))
