"""C19: rendered Naunet::Solve / HandleError (cvode dense, sparse) and the Odeint Solve, compiled against the
scripted shim integrator, compared with the Lean model (correspondence) and with the property (oracle)."""
from __future__ import annotations

import itertools
import math
import struct
import subprocess
import sys
from concurrent.futures import ThreadPoolExecutor
from pathlib import Path

from . import cbuild
from .common import Check, ROOT, lean_driver, quiet_naunet, silenced, tier_and_seed
from .rendering import render

quiet_naunet()

MODULES = ["NaunetProps.C19"]
THEOREMS = ["Naunet.C19.solve_success_exact", "Naunet.C19.levels_success", "Naunet.C19.substeps_inv",
            "Naunet.C19.fail_logs_initial_state", "Naunet.C19.unrecoverable_fails", "Naunet.C19.reinit_failure_fails",
            "Naunet.C19.five_levels_then_fail", "Naunet.C19.odeint_budget", "Naunet.C19.levels_unrecoverable",
            "Naunet.C19.substeps_failed_flag", "Naunet.C19.body_unrecoverable", "Naunet.C19.pywrap_returned_exact",
            "Naunet.C19.pywrap_raises_iff_fail", "Naunet.C19.odeint_pywrap_budget"]
RULE = ("fault scripts for the mock integrator: per CVode call an outcome (ok | flag in {-1..-4,-6 recoverable; -5,-7,-22,-99 "
        "unrecoverable} with partial progress fraction), per CVodeReInit ok/fail; random scripts plus (thorough) exhaustive "
        "flag sequences over the first calls of the first levels; dt over 1e-3..1e13; odeint: step counts around mxsteps. "
        "case = (back-end, script); non-trivial = at least one failing call")
FLAGS_REC = [-1, -2, -3, -4, -6]
FLAGS_BAD = [-5, -7, -8, -22, -99]


def bits_to_float(s):
    return struct.unpack("<d", struct.pack("<Q", int(s)))[0]


def small_network():
    from naunet.network import Network
    from naunet.reactions import Reaction
    from naunet.reactiontype import ReactionType as RT
    from naunet.species import Species
    from .ode_checks import reset_species_state
    reset_species_state()
    rs = [Reaction(["H", "H"], ["H2"], alpha=1e-17, reaction_type=RT.GAS_TWOBODY, idxfromfile=1),
          Reaction(["H", "CR"], ["H+", "e-"], alpha=1e-17, reaction_type=RT.GAS_COSMICRAY, idxfromfile=2),
          Reaction(["H+", "e-"], ["H"], alpha=1e-12, beta=-0.5, reaction_type=RT.GAS_TWOBODY, idxfromfile=3)]
    # with a cooling process the system has a temperature equation: NEQUATIONS = NSPECIES + 1, and every equation has to be
    # advanced over the same interval
    with silenced():
        return Network(rs, cooling=["CIC_HI"])


def gen_scripts(rng, tier):
    scripts = []
    n_random = 150 if tier == "quick" else 3000
    for _ in range(n_random):
        dt = rng.choice([1e-3, 1.0, 86400.0, 3.15e7, 1e10, 1e13, rng.uniform(1, 1e6)])
        y0 = rng.choice([0.0, 1.0, 1e-5, 123.456])
        ncalls = rng.randint(1, 120)
        p = rng.choice([0.01, 0.03, 0.08, 0.2, 0.5])
        cv = []
        for i in range(ncalls):
            if (i == 0 and rng.random() < 0.95) or (i > 0 and rng.random() < p):
                fl = rng.choice(FLAGS_REC) if rng.random() < 0.93 else rng.choice(FLAGS_BAD)
                cv.append((fl, rng.choice([0.0, 0.5, 0.25, rng.random()])))
            else:
                cv.append((0, 1.0))
        if rng.random() < 0.1:
            # everything fails from here on: exhausts the five levels
            cv = [(rng.choice(FLAGS_REC), rng.random()) for _ in range(400)]
        re = [1 if rng.random() < 0.93 else 0 for _ in range(6)]
        scripts.append({"dt": dt, "y0": y0, "cv": cv, "reinit": re, "reset_mx": rng.choice([-1, -1, 500, 3])})
    # one unrecoverable flag at a chosen later call position, everything after it succeeds: inside level 1 (calls 2..11), and inside
    # level 2 after a second recoverable failure (calls 4..23)
    for bad in FLAGS_BAD:
        for pos in (1, 2, 5, 10):
            cv = [(rng.choice(FLAGS_REC), 0.5)] + [(0, 1.0)] * 40
            cv[pos] = (bad, rng.choice([0.0, 0.5]))
            scripts.append({"dt": 86400.0, "y0": 1.0, "cv": cv, "reinit": [1] * 6, "reset_mx": -1})
        for pos in (4, 9, 22):
            cv = [(-1, 0.5), (0, 1.0), (-6 if bad == -5 else -2, 0.25)] + [(0, 1.0)] * 60
            cv[pos] = (bad, 0.5)
            scripts.append({"dt": 3.15e7, "y0": 0.0, "cv": cv, "reinit": [1] * 6, "reset_mx": -1})
    if tier == "thorough":
        # exhaustive: outcome of the call in Solve x first call of level 1 x first call of level 2
        opts = [0] + FLAGS_REC + [-5, -7]
        for a, b, c, d in itertools.product(opts[1:], opts, opts, opts):
            for frac in (0.0, 0.5):
                scripts.append({"dt": 86400.0, "y0": 1.0, "cv": [(a, frac), (b, frac), (c, frac), (d, frac)], "reinit": [1] * 6})
    return scripts


def script_line(s, mx=500):
    cv = " ".join(f"{f} {fr!r}" for f, fr in s["cv"])
    re = " ".join(str(x) for x in s["reinit"])
    return f"{s['dt']!r} {s['y0']!r} {mx} {s.get('reset_mx', -1)} {len(s['cv'])} {cv} {len(s['reinit'])} {re}"


def run(argv):
    tier, seed = tier_and_seed(argv)
    chk = Check("C19", tier, seed, MODULES, THEOREMS, RULE)
    chk.prove()
    net = small_network()
    builds = {}

    for b in ["dense", "sparse", "rosenbrock4"]:
        render(net, b, chk.scratch / b)   # (not in threads: stdout redirection is process-global)

    def build(job):
        b, py = job
        path = chk.scratch / b
        exe = path / ("c19py" if py else "c19")
        defs = (["C19_ODEINT"] if b == "rosenbrock4" else []) + (["PYMODULE", "C19_PYWRAP", "PYMODNAME=c19mod"] if py else [])
        ok, err = cbuild.build(path, ROOT / "shim" / "c19_driver.cpp", exe, b, defines=defs)
        return b, py, ok, err, exe

    # every back-end twice: the C++ entry point, and the sources compiled as the Python module (-DPYMODULE, pybind11 stand-in) with
    # the call going through Naunet::PyWrapSolve - what `Naunet.Solve` is for a Python caller
    pybuilds = {}
    with ThreadPoolExecutor(6) as ex:
        for b, py, ok, err, exe in ex.map(build, [(b, py) for b in ["dense", "sparse", "rosenbrock4"] for py in (False, True)]):
            if not ok:
                chk.violation({"kind": "does-not-compile", "backend": b, "python_module": py},
                              f"rendered {b} sources do not compile against the shim" + (" as the Python module" if py else ""),
                              error=err[-1500:])
            elif py:
                pybuilds[b] = exe
            else:
                builds[b] = exe
    scripts = gen_scripts(chk.rng, tier)
    # ------------------------------------------------------------ cvode back-ends
    requests = [{"cmd": "solve", "dt": s["dt"], "y0": s["y0"], "cv": [[f, fr] for f, fr in s["cv"]], "reinit": s["reinit"]}
                for s in scripts]
    answers = None
    if getattr(chk, "lean_ok", False):
        try:
            answers = lean_driver(requests)
        except Exception as e:
            chk.corr_break("driver", None, None, str(e)[:400])
    for b in ("dense", "sparse"):
        if b not in builds:
            continue
        inp = "\n".join(script_line(s) for s in scripts) + "\n"
        r = subprocess.run([str(builds[b])], input=inp, capture_output=True, text=True, cwd=builds[b].parent, timeout=600)
        lines = r.stdout.strip().split("\n")
        if r.returncode != 0 or len(lines) != len(scripts):
            chk.violation({"kind": "driver-crash", "backend": b}, f"compiled Solve crashed (rc={r.returncode})", stderr=r.stderr[-800:])
            continue
        pylines = None
        if b in pybuilds:
            rp = subprocess.run([str(pybuilds[b])], input=inp, capture_output=True, text=True, cwd=pybuilds[b].parent, timeout=600)
            pylines = rp.stdout.strip().split("\n")
            if rp.returncode != 0 or len(pylines) != len(scripts):
                chk.violation({"kind": "driver-crash", "backend": b, "python_module": True},
                              f"compiled PyWrapSolve crashed (rc={rp.returncode})", stderr=rp.stderr[-800:])
                pylines = None
        for i, (s, line) in enumerate(zip(scripts, lines)):
            if pylines is not None:
                # the Python caller gets an exception exactly when Solve fails, and otherwise the abundances Solve produced
                pf, py_ = int(pylines[i].split()[0]), float(pylines[i].split()[1])
                cf, cy_ = int(line.split()[0]), float(line.split()[1])
                chk.hist[f"pywrap:{'raised' if pf else 'returned'}"] += 1
                if (pf != 0) != (cf != 0) or (cf == 0 and abs(py_ - cy_) > 1e-9 * max(abs(cy_), 1e-300)):
                    chk.violation({"kind": "python-wrapper-differs", "backend": b},
                                  f"Naunet::Solve returned flag {cf} (y[0] = {cy_!r}) but the Python-facing PyWrapSolve "
                                  f"{'raised' if pf else 'returned normally'} (y[0] = {py_!r}): a Python caller "
                                  f"{'sees a failure that did not happen' if pf else 'is handed the abundances of a failed integration as a result'}",
                                  input={"dt": s["dt"], "y0": s["y0"], "cv": s["cv"][:12], "n_cv": len(s["cv"]), "reinit": s["reinit"]})
                    continue
            flag, y, lo, hi, logged, ncalls = line.split()
            flag = int(flag); y = float(y); lo = float(lo); hi = float(hi); logged = float(logged); ncalls = int(ncalls)
            nfail = sum(1 for f, _ in s["cv"] if f < 0)
            short = {"dt": s["dt"], "y0": s["y0"], "cv": s["cv"][:12], "n_cv": len(s["cv"]), "reinit": s["reinit"]}
            chk.count(("cv", b, i), nontrivial=nfail > 0)
            chk.hist[f"{b}:{'success' if flag == 0 else 'fail'}"] += 1
            chk.hist[f"first-flag:{s['cv'][0][0]}"] += 1
            if i < 3 and b == "dense":
                chk.sample({"backend": b, "script": short, "impl": line})
            tol = 1e-9 * max(abs(s["dt"]), abs(s["y0"]), 1e-300)
            want = s["y0"] + s["dt"]
            # ---- oracle: the property statement
            if flag == 0 and (abs(y - want) > tol or abs(lo - want) > tol or abs(hi - want) > tol):
                chk.violation({"kind": "success-wrong-interval", "backend": b},
                              f"Solve returned success but advanced by {y - s['y0']!r} instead of {s['dt']!r}",
                              input=short, expected=want, observed=[y, lo, hi])
                continue
            if s["cv"][0][0] < 0 and s["cv"][0][0] in FLAGS_BAD and flag == 0:
                chk.violation({"kind": "unrecoverable-reported-success", "backend": b},
                              f"first CVode call failed with unrecoverable flag {s['cv'][0][0]} but Solve returned success", input=short)
                continue
            # … at *every* call position: an unrecoverable flag returned by any call that was actually made
            hit = next((j for j, (f, _) in enumerate(s["cv"][:ncalls]) if f in FLAGS_BAD), None)
            if hit is not None and flag == 0:
                chk.violation({"kind": "unrecoverable-reported-success", "backend": b, "position": "later-call"},
                              f"CVode call {hit + 1} of the {ncalls} calls made returned the unrecoverable flag {s['cv'][hit][0]} but Solve "
                              f"returned success", input=short, flags_of_calls_made=[f for f, _ in s["cv"][:ncalls]][:60])
                continue
            if len(s["cv"]) >= 400 and all(f < 0 for f, _ in s["cv"]) and flag == 0:
                chk.violation({"kind": "all-fail-reported-success", "backend": b}, "every integrator call failed but Solve returned success", input=short)
                continue
            if flag != 0:
                if math.isnan(logged) or abs(logged - s["y0"]) > 1e-6 * max(abs(s["y0"]), 1e-30):
                    chk.violation({"kind": "initial-state-not-logged", "backend": b},
                                  f"failure did not log the initial state (found {logged!r}, expected {s['y0']!r})", input=short)
                    continue
            # ---- correspondence with the Lean model
            if answers is not None:
                a = answers[i]
                if "error" in a:
                    chk.corr_break("model-error", short, a, line)
                    continue
                my = bits_to_float(a["ybits"])
                mflag = 0 if a["result"] == "success" else 1
                if mflag != flag or abs(my - y) > 1e-9 * max(abs(y), abs(s["dt"]), 1e-300):
                    chk.corr_break("solve", short, {"result": a["result"], "y": my}, {"flag": flag, "y": y, "backend": b})
                elif pylines is not None and (a.get("python") == "raised") != (int(pylines[i].split()[0]) != 0):
                    chk.corr_break("pywrap", short, {"python": a.get("python")}, {"raised": int(pylines[i].split()[0]), "backend": b})
                else:
                    chk.traces += 1
    # ------------------------------------------------------------ odeint
    if "rosenbrock4" in builds:
        cases = []
        for mx in ([1, 5, 500] if tier == "quick" else [1, 2, 5, 50, 500, 1000]):
            for ns in sorted({1, max(1, mx - 2), max(1, mx - 1), mx, mx + 1, mx + 2, 3 * mx}):
                cases.append((mx, ns, chk.rng.choice([1.0, 86400.0, 1e10]), chk.rng.choice([0.0, 1.0])))
        # the budget in force is the one of the last Init / Reset: Init with another budget, then Reset with the one under test
        inits = [chk.rng.choice([-1, -1, 1, 7, 100000]) for _ in cases]
        inp = "\n".join(f"{dt!r} {y0!r} {(mx if ini < 0 else ini)} {(-1 if ini < 0 else mx)} {ns}"
                        for (mx, ns, dt, y0), ini in zip(cases, inits)) + "\n"
        exe = builds["rosenbrock4"]
        r = subprocess.run([str(exe)], input=inp, capture_output=True, text=True, cwd=exe.parent, timeout=600)
        lines = r.stdout.strip().split("\n")
        oreq = [{"cmd": "odeint", "mxsteps": mx, "ncalls": ns + 1} for mx, ns, _, _ in cases]
        oans = None
        if getattr(chk, "lean_ok", False):
            try:
                oans = lean_driver(oreq)
            except Exception as e:
                chk.corr_break("driver", None, None, str(e)[:400])
        if r.returncode != 0 or len(lines) != len(cases):
            chk.violation({"kind": "driver-crash", "backend": "rosenbrock4"}, f"compiled odeint Solve crashed (rc={r.returncode})",
                          stderr=r.stderr[-800:])
        else:
            pylines = None
            if "rosenbrock4" in pybuilds:
                pexe = pybuilds["rosenbrock4"]
                rp = subprocess.run([str(pexe)], input=inp, capture_output=True, text=True, cwd=pexe.parent, timeout=600)
                pylines = rp.stdout.strip().split("\n")
                if rp.returncode != 0 or len(pylines) != len(cases):
                    chk.violation({"kind": "driver-crash", "backend": "rosenbrock4", "python_module": True},
                                  f"compiled odeint PyWrapSolve crashed (rc={rp.returncode})", stderr=rp.stderr[-800:])
                    pylines = None
            for i, ((mx, ns, dt, y0), line) in enumerate(zip(cases, lines)):
                flag, y = int(line.split()[0]), float(line.split()[1])
                if pylines is not None:
                    pf, py_ = int(pylines[i].split()[0]), float(pylines[i].split()[1])
                    chk.hist[f"pywrap:{'raised' if pf else 'returned'}"] += 1
                    if (pf != 0) != (flag != 0) or (flag == 0 and abs(py_ - y) > 1e-9 * max(abs(y), 1e-300)):
                        chk.violation({"kind": "python-wrapper-differs", "backend": "rosenbrock4"},
                                      f"odeint Solve returned flag {flag} but the Python-facing PyWrapSolve "
                                      f"{'raised' if pf else 'returned normally'}", input={"mxsteps": mx, "observer_calls": ns + 1, "dt": dt, "y0": y0})
                        continue
                chk.count(("odeint", mx, ns), nontrivial=True)
                chk.hist[f"odeint:{'success' if flag == 0 else 'fail'}"] += 1
                calls = ns + 1
                case = {"mxsteps": mx, "observer_calls": calls, "dt": dt, "y0": y0}
                if calls > mx and flag == 0:
                    chk.violation({"kind": "budget-exceeded-reported-success", "backend": "rosenbrock4"},
                                  f"{calls} observer calls with mxsteps={mx} but Solve returned success", input=case)
                elif calls <= mx and flag != 0:
                    chk.violation({"kind": "within-budget-reported-failure", "backend": "rosenbrock4"},
                                  f"{calls} observer calls within mxsteps={mx} but Solve returned failure", input=case)
                elif flag == 0 and abs(y - (y0 + dt)) > 1e-9 * max(dt, 1.0):
                    chk.violation({"kind": "success-wrong-interval", "backend": "rosenbrock4"}, "odeint success with wrong interval", input=case)
                if oans is not None:
                    if oans[i].get("success") != (flag == 0):
                        chk.corr_break("odeint", case, oans[i], line)
                    elif pylines is not None and oans[i].get("python_returns") != (int(pylines[i].split()[0]) == 0):
                        chk.corr_break("odeint-pywrap", case, oans[i], pylines[i])
                    else:
                        chk.traces += 1
    return chk.finish()


if __name__ == "__main__":
    sys.exit(run(sys.argv[1:]))
